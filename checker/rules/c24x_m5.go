package rules

import (
	"fmt"
	"go/ast"
	"go/token"
	"go/types"

	"golang.org/x/tools/go/cfg"

	"verif/checker/core"
)

// C24 extension (m5): rules added after triaging the survivors of the generic
// fault enumeration. Each rule is a structural necessary condition of "every
// due run is dispatched once, Release is effective, no wedge":
//
//	lock-balance        a leaked s.mu wedges Schedule/Release/the loop for ever
//	dispatch-reached    after the timer fired only "queue empty" / "head not due" may skip process()
//	rearm-unless-empty  the loop goes back to waiting un-armed only when the queue is empty
//	due-item-dispatched the btree iterator skips the worker hand-off only for nil / not-due items
//	release-effective   release() skips the btree delete only when the task is not in the index
//	schedule-arms       Schedule leaves the timer alone only when an earlier wake-up is pending
//	item-complete       a freshly built Item is inserted with every field set
//	scratch-reset       the delete/insert scratch lists are emptied for each process() round
//	ctor-complete       NewScheduler initialises every nil-able field the methods dereference
func init() {
	extend("C24", "(7) lock-balance: every Lock/RLock of TreeScheduler.mu is released on every path before the function (literal) returns and before the mutex is taken again; "+
		"(8) dispatch-reached / rearm-unless-empty: in the main loop, after the timer fired, a path back to the wait that does not call process() passes a test that established the queue empty (BTree.Min()==nil / Len()==0) or the head item not yet due, and a path back to the wait that does not re-arm the timer passes a queue-empty test; "+
		"(9) due-item-dispatched: in the dispatch iterator a path that returns without reaching the worker hand-off select passes a nil-item or not-yet-due test, and the hand-off is not reachable on a not-yet-due branch; "+
		"(10) release-effective: in release every path that skips BTree.Delete passes the `not in nextTime` branch of the lookup; "+
		"(11) schedule-arms: in Schedule every path to the insert that does not arm the timer passes tests that established both `!when.IsZero()` and `!when.After(next)`; "+
		"(12) item-complete: an Item built from a composite literal has every field the package reads set (literal key or store on every path) before BTree.ReplaceOrInsert; "+
		"(13) scratch-reset: the function driving BTree.Ascend empties itemList.toDelete and itemList.toInsert on every path before the walk (or on every path after it); "+
		"(14) ctor-complete: NewScheduler assigns every nil-able field of TreeScheduler that other functions of the package read, on every path to its success return (a path through a `field != nil` test counts), and every return on which the error may be nil hands out that scheduler; "+
		"(15) worker-executes: in the worker every iteration of the receive loop over the Item channel reaches Executor.Execute (no skip, break or return before it), called with the received item's id and scheduled time.",
		nil, func(p *core.Prog, r *core.Report, tier string) { m5C24(p, r) })
}

// m5QueueEmptyEdge selects edges on which the priority queue is known empty:
// a local whose every definition is BTree.Min() compared with nil, BTree.Min()
// itself compared with nil, or BTree.Len() compared with zero.
func m5QueueEmptyEdge(g *core.Graph, root ast.Node) core.EdgePred {
	info := g.Info
	btMin := call("github.com/google/btree.BTree.Min")
	btLen := call("github.com/google/btree.BTree.Len")
	isMin := func(x ast.Expr) bool {
		x = ast.Unparen(x)
		if c, ok := x.(*ast.CallExpr); ok {
			return btMin(info, c)
		}
		if o := core.ObjOf(info, x); o != nil {
			return core.AllDefsAre5(info, root, o, btMin)
		}
		return false
	}
	isLen := func(x ast.Expr) bool {
		x = core.ResolveLocal(info, root, x)
		c, ok := ast.Unparen(x).(*ast.CallExpr)
		return ok && btLen(info, c)
	}
	return core.AtomEdge(func(c ast.Expr, val bool) bool {
		if x, nonNilOnTrue, ok := core.NilTest(info, c); ok && isMin(x) && val != nonNilOnTrue {
			return true
		}
		return core.CountZeroAtom5(info, c, val, isLen)
	})
}

// m5IsItemTyped: expression e mentions a value of the scheduler's Item type.
func m5MentionsItem(info *types.Info, e ast.Expr) bool {
	found := false
	ast.Inspect(e, func(n ast.Node) bool {
		if x, ok := n.(ast.Expr); ok {
			if t := info.TypeOf(x); t != nil && rw3IsNamed(t, schedPkg, "Item") {
				found = true
			}
		}
		return !found
	})
	return found
}

// m5NotDueEdge selects edges on which a test established that an Item's time
// lies strictly after some other instant (the item is not yet due).
func m5NotDueEdge(g *core.Graph) core.EdgePred {
	return func(e *core.Edge) bool {
		for _, lp := range laterFacts(g, e) {
			later, earlier := core.ResolveLocal(g.Info, g.Body, lp.later), core.ResolveLocal(g.Info, g.Body, lp.earlier)
			if m5MentionsItem(g.Info, later) && !m5MentionsItem(g.Info, earlier) {
				return true
			}
		}
		return false
	}
}

func m5C24(p *core.Prog, r *core.Report) {
	pk := p.Pkg(schedPkg)
	if pk == nil {
		return
	}
	fNext := core.LookupField(pk.Types, "TreeScheduler", "nextTime")
	fTimer := core.LookupField(pk.Types, "TreeScheduler", "timer")
	fWhen := core.LookupField(pk.Types, "TreeScheduler", "when")
	fMu := core.LookupField(pk.Types, "TreeScheduler", "mu")
	fWork := core.LookupField(pk.Types, "TreeScheduler", "workchans")
	fDel := core.LookupField(pk.Types, "itemList", "toDelete")
	fIns := core.LookupField(pk.Types, "itemList", "toInsert")
	if fNext == nil || fTimer == nil || fWhen == nil || fMu == nil || fWork == nil || fDel == nil || fIns == nil {
		return // reported by the base rules
	}
	sinks := durationSinks(p, schedPkg)
	processCall := call("task/backend/scheduler.TreeScheduler.process")

	// ---- (7) lock-balance
	{
		const rule = "lock-balance"
		total := 0
		for _, f := range p.Funcs(schedPkg) {
			if f.Decl.Body == nil {
				continue
			}
			for _, g := range f.Graphs() {
				n, bad := g.LockBalance5(fMu)
				total += n
				if n == 0 {
					continue
				}
				for _, b := range bad {
					what := "mu-held-at-exit"
					detail := "TreeScheduler.mu acquired here is still held when the function returns at " + g.Line(b.At) + ": every later Schedule/Release/loop iteration blocks for ever"
					if b.Kind == "re-acquired" {
						what = "mu-re-acquired"
						detail = "TreeScheduler.mu acquired here is taken again at " + g.Line(b.At) + " without a release in between: the goroutine deadlocks on itself and the scheduler stops dispatching"
					}
					r.Bad(rule, f.String(), what, g.Line(b.Lock), detail)
				}
				if len(bad) == 0 {
					r.Ok(rule, f.String(), g.Line(g.Entry), fmt.Sprintf("%d acquisition(s) of TreeScheduler.mu, each released on every path before return / re-acquisition", n))
				}
			}
		}
		r.Check(total >= 5, rule, schedPkg, "acquisitions:count", "-", fmt.Sprintf("%d Lock/RLock sites of TreeScheduler.mu examined (>= 5 confirmed by reading)", total))
	}

	// ---- (8) main loop: dispatch-reached, rearm-unless-empty
	{
		nFired := 0
		for _, f := range p.Funcs(schedPkg) {
			if f.Decl.Body == nil {
				continue
			}
			info := f.Info()
			isTimerC := func(e ast.Expr) bool {
				se, ok := ast.Unparen(e).(*ast.SelectorExpr)
				return ok && se.Sel.Name == "C" && core.FieldOf(info, se.X) == fTimer
			}
			for _, g := range f.Graphs() {
				isWait := func(n *core.Node) bool { return n.N != nil && rw13StmtRecv(info, n.N, isTimerC) }
				waits := g.Select(isWait)
				if len(waits) == 0 {
					continue
				}
				var starts []*core.Node
				var where []string
				commOf := map[ast.Node]bool{}
				ast.Inspect(g.Body, func(x ast.Node) bool {
					if fl, ok := x.(*ast.FuncLit); ok && fl.Body != g.Body {
						return false
					}
					cc, ok := x.(*ast.CommClause)
					if !ok || cc.Comm == nil {
						return true
					}
					commOf[cc.Comm] = true
					if rw13StmtRecv(info, cc.Comm, isTimerC) {
						if n := rw3FirstOfBlock(g, func(b *cfg.Block) bool { return b.Kind == cfg.KindSelectCaseBody && b.Stmt == ast.Stmt(cc) }); n != nil {
							starts = append(starts, n)
							where = append(where, p.Pos(cc.Pos()))
						}
					}
					return true
				})
				for _, w := range waits {
					if !commOf[w.N] {
						for _, s := range core.After(w, nil) {
							starts = append(starts, s)
							where = append(where, g.Line(w))
						}
					}
				}
				empty := m5QueueEmptyEdge(g, g.Body)
				notDue := m5NotDueEdge(g)
				proc := g.Calling(core.ThroughLocalLits(g.Body, processCall))
				arm := sinkNodes(g, sinks)
				for i, s := range starts {
					nFired++
					// dispatch-reached
					reach := g.Reach([]*core.Node{s}, proc, core.OrEdge(empty, notDue))
					bad := ""
					for _, w := range waits {
						if reach[w] {
							bad = g.Line(w)
						}
					}
					if x := core.ExitReached5(reach); x != nil && bad == "" {
						bad = g.Line(x)
					}
					r.Check(bad == "", "dispatch-reached", f.String(), "process-skipped", where[i],
						"after the timer fired the loop goes back to waiting (or ends) without calling process() only through a test that found the queue empty or its head not yet due (otherwise due items are never handed to the workers)"+m5At(bad))
					r.Check(len(g.Select(proc)) >= 1, "dispatch-reached", f.String(), "process:absent", where[i], "the timer clause calls process()")
					// rearm-unless-empty
					reach = g.Reach([]*core.Node{s}, arm, empty)
					bad = ""
					for _, w := range waits {
						if reach[w] {
							bad = g.Line(w)
						}
					}
					r.Check(bad == "", "rearm-unless-empty", f.String(), "wait-unarmed-with-items", where[i],
						"after the timer fired the loop returns to the wait without re-arming the one-shot timer only through a test that found the queue empty (otherwise the queued items are not run until some later Schedule happens to re-arm it)"+m5At(bad))
				}
			}
		}
		r.Check(nFired >= 1, "dispatch-reached", schedPkg, "timer-receive:absent", "-", fmt.Sprintf("%d receive(s) from TreeScheduler.timer.C examined", nFired))
	}

	// ---- (9) due-item-dispatched
	if f := r.Need(p, schedPkg, "TreeScheduler.iterator"); f != nil {
		const rule = "due-item-dispatched"
		found := 0
		for _, g := range f.Graphs() {
			info := g.Info
			var sel *ast.SelectStmt
			var sendBodies []ast.Node
			ast.Inspect(g.Body, func(x ast.Node) bool {
				if fl, ok := x.(*ast.FuncLit); ok && fl.Body != g.Body {
					return false
				}
				ss, ok := x.(*ast.SelectStmt)
				if !ok {
					return true
				}
				for _, c := range ss.Body.List {
					cc := c.(*ast.CommClause)
					s, ok := cc.Comm.(*ast.SendStmt)
					if !ok {
						continue
					}
					ch := ast.Unparen(s.Chan)
					if ix, ok := ch.(*ast.IndexExpr); ok {
						ch = ix.X
					}
					if core.FieldOf(info, core.ResolveLocal(info, g.Body, ch)) == fWork || core.FieldOf(info, ch) == fWork {
						sel = ss
						sendBodies = append(sendBodies, cc)
					}
				}
				return true
			})
			if sel == nil {
				continue
			}
			found++
			inSel := core.InStmt(sel)
			// item parameter(s) of the literal: nil test on them is the defensive exemption
			nilItem := g.NilEdge(func(x ast.Expr) bool {
				v, ok := core.ObjOf(info, x).(*types.Var)
				return ok && core.ParamIndex(g.Sig, v) >= 0
			}, true)
			notDue := m5NotDueEdge(g)
			reach := g.ReachFromEntry(inSel, core.OrEdge(nilItem, notDue))
			x := core.ExitReached5(reach)
			r.Check(x == nil, rule, f.String(), "due-item-skipped", g.Line(g.Entry),
				"the iterator returns without offering the item to a worker only through a test that found the item nil or not yet due"+m5AtNode(g, x))
			r.Check(len(g.Edges(notDue)) >= 1, rule, f.String(), "due-test:absent", g.Line(g.Entry), "the iterator compares the item's time with the cut-off")
			// hand-off not reachable on the not-due branch
			var nd []*core.Node
			for _, e := range g.Edges(notDue) {
				nd = append(nd, e.To)
			}
			after := g.Reach(nd, nil, nil)
			early := false
			for n := range after {
				if core.InStmt(sendBodies...)(n) {
					early = true
				}
			}
			r.Check(!early, rule, f.String(), "not-due-item-dispatched", g.Line(g.Entry), "no hand-off to a worker is reachable once the item was found not yet due (a run must not start before its scheduled time)")
		}
		r.Check(found >= 1, rule, f.String(), "worker-select:absent", f.Pos(), "the iterator's worker hand-off select found")
	}

	// ---- (10) release-effective
	if f := r.Need(p, schedPkg, "TreeScheduler.release"); f != nil {
		const rule = "release-effective"
		g := f.Graph()
		okVar, _ := lookupVars(f, fNext)
		if r.Check(okVar != nil, rule, f.String(), "lookup:absent", f.Pos(), "`v, ok := s.nextTime[id]` lookup found") {
			notFound := core.AtomEdge(func(c ast.Expr, val bool) bool { return !val && core.ObjOf(g.Info, c) == okVar })
			reach := g.ReachFromEntry(g.Calling(btDelete), notFound)
			x := core.ExitReached5(reach)
			r.Check(x == nil, rule, f.String(), "delete-skipped", f.Pos(),
				"release returns without deleting the task's btree entry only on the branch where the task is not in nextTime (otherwise the released task keeps running)"+m5AtNode(g, x))
		}
	}

	// ---- (11) schedule-arms
	if f := r.Need(p, schedPkg, "TreeScheduler.Schedule"); f != nil {
		const rule = "schedule-arms"
		g := f.Graph()
		info := g.Info
		isWhen := func(x ast.Expr) bool {
			return core.FieldOf(info, core.ResolveLocal(info, g.Body, x)) == fWhen || core.FieldOf(info, x) == fWhen
		}
		notZero := core.AtomEdge(func(c ast.Expr, val bool) bool {
			ce, ok := ast.Unparen(c).(*ast.CallExpr)
			return ok && !val && call("time.Time.IsZero")(info, ce) && isWhen(core.Recv(ce))
		})
		notLater := core.AtomEdge(func(c ast.Expr, val bool) bool { // !(when > x): when.After(x)=false or x.Before(when)=false
			a, op, b, ok := core.TimeCmp(info, c)
			if !ok || val {
				return false
			}
			return (op == token.GTR && isWhen(a)) || (op == token.LSS && isWhen(b))
		})
		armed := core.AnyOf(sinkNodes(g, sinks))
		ins := g.Select(g.Calling(btInsert))
		if r.Check(len(ins) >= 1 && len(g.Edges(notZero)) >= 1 && len(g.Edges(notLater)) >= 1, rule, f.String(), "tests:absent", f.Pos(),
			"Schedule inserts the item and tests `when.IsZero()` and `when.After(next)`") {
			for _, gate := range []struct {
				name string
				e    core.EdgePred
			}{{"when-not-zero", notZero}, {"when-not-later", notLater}} {
				reach := g.ReachFromEntry(armed, gate.e)
				bad := false
				for _, n := range ins {
					bad = bad || reach[n]
				}
				r.Check(!bad, rule, f.String(), "unarmed-without:"+gate.name, f.Pos(),
					"the item is inserted without (re-)arming the timer only where a test established "+gate.name+" (a wake-up at or before the new item's time is already pending); otherwise the new item is never run")
			}
		}
	}

	// ---- (12) item-complete
	{
		const rule = "item-complete"
		itemT := core.StructOf(pk.Types, "Item")
		// fields of Item read anywhere in the package
		read := map[*types.Var]bool{}
		for _, f := range p.Funcs(schedPkg) {
			if f.Decl.Body != nil {
				for v := range core.FieldsRead(f.Info(), f.Decl.Body) {
					read[v] = true
				}
			}
		}
		n := 0
		for _, f := range p.Funcs(schedPkg) {
			if f.Decl.Body == nil || itemT == nil {
				continue
			}
			for _, g := range f.Graphs() {
				info := g.Info
				for _, in := range g.Select(g.Calling(btInsert)) {
					for _, c := range core.CallsIn(info, in.N, btInsert, core.WalkOpts{}) {
						if len(c.Args) != 1 {
							continue
						}
						v, ok := core.ObjOf(info, c.Args[0]).(*types.Var)
						if !ok || v.IsField() {
							continue
						}
						var lit *ast.CompositeLit
						fresh := false
						for _, d := range core.DefsOf(info, g.Body, v) {
							if cl, ok := ast.Unparen(d.Rhs).(*ast.CompositeLit); d.Rhs != nil && ok && rw3IsNamed(info.TypeOf(cl), schedPkg, "Item") {
								lit, fresh = cl, true
							}
						}
						if !fresh {
							continue // a copy of an item already in the tree
						}
						n++
						var missing []string
						for i := 0; i < itemT.NumFields(); i++ {
							fv := itemT.Field(i)
							if !read[fv] || rw3LitField(info, lit, fv) != nil {
								continue
							}
							store := func(x *core.Node) bool {
								if x.N == nil {
									return false
								}
								if m5StoresFieldOf(info, x.N, fv, v, false) {
									return true
								}
								// a local closure doing the store, called here
								for _, lc := range core.CallsIn(info, x.N, func(*types.Info, *ast.CallExpr) bool { return true }, core.WalkOpts{}) {
									if id, ok := ast.Unparen(lc.Fun).(*ast.Ident); ok {
										if lit := core.LocalLit(info, f.Decl.Body, core.ObjOf(info, id)); lit != nil && m5StoresFieldOf(info, lit.Body, fv, v, true) {
											return true
										}
									}
								}
								return false
							}
							if g.ReachFromEntry(store, nil)[in] {
								missing = append(missing, fv.Name())
							}
						}
						r.Check(len(missing) == 0, rule, f.String(), "field-unset", p.Pos(c.Pos()),
							"the freshly built Item handed to ReplaceOrInsert has every field set on every path (key time `when`, `next`, id, cron, Offset: an unset one gives a wrong key or a run at the zero time); unset: "+core.Join(missing))
					}
				}
			}
		}
		r.Check(n >= 1, rule, schedPkg, "fresh-item-insert:absent", "-", fmt.Sprintf("%d insert(s) of a freshly built Item examined", n))
	}

	// ---- (13) scratch-reset
	{
		const rule = "scratch-reset"
		ascend := call("github.com/google/btree.BTree.Ascend*")
		n := 0
		for _, f := range p.Funcs(schedPkg) {
			if f.Decl.Body == nil {
				continue
			}
			g := f.Graph()
			info := g.Info
			walks := g.Select(g.Calling(ascend))
			if len(walks) == 0 {
				continue
			}
			// only where the lists are consumed here and are not fresh per call
			uses := core.FieldsRead(info, f.Decl.Body)
			if !uses[fDel] && !uses[fIns] {
				continue
			}
			fresh := false
			ast.Inspect(f.Decl.Body, func(x ast.Node) bool {
				if cl, ok := x.(*ast.CompositeLit); ok && rw3IsNamed(info.TypeOf(cl), schedPkg, "itemList") {
					fresh = true
				}
				return true
			})
			if fresh {
				r.Ok(rule, f.String(), f.Pos(), "the scratch lists are built afresh for this walk")
				continue
			}
			n++
			for _, fv := range []*types.Var{fDel, fIns} {
				fv := fv
				reset := func(x *core.Node) bool {
					as, ok := x.N.(*ast.AssignStmt)
					if !ok || len(as.Lhs) != len(as.Rhs) || as.Tok != token.ASSIGN {
						return false
					}
					for i, l := range as.Lhs {
						if core.FieldOf(info, l) == fv && m5EmptySlice(info, as.Rhs[i]) {
							return true
						}
					}
					return false
				}
				for _, w := range walks {
					before := g.ReachFromEntry(reset, nil)[w]
					after := core.ExitReached5(g.Reach(core.After(w, nil), reset, nil)) != nil
					r.Check(!(before && after), rule, f.String(), "stale:"+fv.Name(), g.Line(w),
						"itemList."+fv.Name()+" is emptied on every path before the btree walk (or on every path after it): entries left from an earlier round would delete / re-insert index entries of tasks that were rescheduled or released since")
				}
			}
		}
		r.Check(n >= 1, rule, schedPkg, "walk:absent", "-", fmt.Sprintf("%d function(s) driving BTree.Ascend with the shared scratch lists examined", n))
	}

	// ---- (15) worker-executes
	if f := r.Need(p, schedPkg, "TreeScheduler.work"); f != nil {
		const rule = "worker-executes"
		g := f.Graph()
		info := g.Info
		execute := call("task/backend/scheduler.Executor.Execute")
		isItemChan := func(e ast.Expr) bool {
			ch, ok := info.TypeOf(e).Underlying().(*types.Chan)
			return ok && rw3IsNamed(ch.Elem(), schedPkg, "Item")
		}
		loops := core.RangeOver(f.Decl.Body, func(e ast.Expr) bool { return info.TypeOf(e) != nil && isItemChan(e) })
		if r.Check(len(loops) >= 1, rule, f.String(), "receive-loop:absent", f.Pos(), "the worker ranges over its Item channel") {
			for _, rs := range loops {
				esc, ok := g.IterEscapes12(rs, g.Calling(execute), nil)
				bad := ""
				for _, e := range esc {
					bad = g.Line(e.Via) + " (" + e.Kind + ")"
				}
				r.Check(ok && bad == "", rule, f.String(), "item-not-executed", p.Pos(rs.Pos()),
					"every item received from the dispatcher reaches Executor.Execute before the worker takes the next one or stops (a received item was already advanced in the queue: skipping it loses that run)"+m5At(bad))
				// the run is executed for the dispatched item: id and scheduled time come from it
				item := core.ObjOf(info, rs.Key)
				itemT := core.StructOf(pk.Types, "Item")
				for _, c := range core.AllCalls(info, rs.Body, execute) {
					fromItem := func(e ast.Expr, field *types.Var) bool {
						e = core.ResolveLocal(info, f.Decl.Body, e)
						if ce, ok := ast.Unparen(e).(*ast.CallExpr); ok && len(ce.Args) == 0 { // accessor it.Next()
							if fn := core.Callee(info, ce); fn != nil {
								if af := p.FuncOf(fn); af != nil && af.Decl.Body != nil && len(af.Decl.Body.List) == 1 {
									if ret, ok := af.Decl.Body.List[0].(*ast.ReturnStmt); ok && len(ret.Results) == 1 {
										if se, ok := ast.Unparen(ret.Results[0]).(*ast.SelectorExpr); ok && field != nil && core.FieldOf(af.Info(), se) == field {
											return core.ObjOf(info, core.Recv(ce)) == item
										}
									}
								}
							}
							return false
						}
						se, ok := ast.Unparen(e).(*ast.SelectorExpr)
						if !ok || itemT == nil {
							return false
						}
						fv := core.FieldOf(info, se)
						return fv != nil && fv == field && core.ObjOf(info, se.X) == item
					}
					good := item != nil && len(c.Args) == 4 && fromItem(c.Args[1], core.LookupField(pk.Types, "Item", "id")) && fromItem(c.Args[2], core.LookupField(pk.Types, "Item", "next"))
					r.Check(good, rule, f.String(), "execute-args", p.Pos(c.Pos()), "Execute is called with the received item's id and its scheduled time `next`")
				}
			}
		}
	}

	// ---- (14) ctor-complete
	if f := r.Need(p, schedPkg, "NewScheduler"); f != nil {
		const rule = "ctor-complete"
		g := f.Graph()
		info := g.Info
		st := core.StructOf(pk.Types, "TreeScheduler")
		// the scheduler under construction
		var self types.Object
		var lit *ast.CompositeLit
		ast.Inspect(f.Decl.Body, func(x ast.Node) bool {
			if fl, ok := x.(*ast.FuncLit); ok && fl.Body != f.Decl.Body {
				return false
			}
			as, ok := x.(*ast.AssignStmt)
			if !ok || len(as.Lhs) != len(as.Rhs) {
				return true
			}
			for i, rhs := range as.Rhs {
				if cl := rw3Lit(rhs); cl != nil && rw3IsNamed(info.TypeOf(cl), schedPkg, "TreeScheduler") && self == nil {
					self, lit = core.ObjOf(info, as.Lhs[i]), cl
				}
			}
			return true
		})
		if r.Check(self != nil && st != nil, rule, f.String(), "literal:absent", f.Pos(), "NewScheduler builds the TreeScheduler from a composite literal") {
			// fields read outside the constructor
			read := map[*types.Var]bool{}
			for _, o := range p.Funcs(schedPkg) {
				if o.Decl.Body == nil {
					continue
				}
				if o == f {
					// the goroutines started by the constructor count as "outside"
					ast.Inspect(o.Decl.Body, func(x ast.Node) bool {
						if gs, ok := x.(*ast.GoStmt); ok {
							for v := range core.FieldsRead(info, gs) {
								read[v] = true
							}
						}
						return true
					})
					continue
				}
				for v := range core.FieldsRead(o.Info(), o.Decl.Body) {
					read[v] = true
				}
			}
			nilable := func(t types.Type) bool {
				switch t.Underlying().(type) {
				case *types.Pointer, *types.Map, *types.Chan, *types.Interface, *types.Signature, *types.Slice:
					return true
				}
				return false
			}
			var success []*core.Node
			for _, x := range g.SuccessExits() {
				// a return that may report success hands out the scheduler
				if rs, ok := x.N.(*ast.ReturnStmt); ok && len(rs.Results) >= 1 && core.ObjOf(info, rs.Results[0]) == self {
					success = append(success, x)
				} else {
					r.Bad(rule, f.String(), "success-without-scheduler", g.Line(x), "a return of NewScheduler on which the error may be nil does not hand out the scheduler under construction: the caller gets (nil, nil, nil) and nothing is ever scheduled")
				}
			}
			r.Check(len(success) >= 1, rule, f.String(), "success-return:absent", f.Pos(), "NewScheduler has a return handing out the scheduler")
			checked := 0
			var missing []string
			for i := 0; i < st.NumFields(); i++ {
				fv := st.Field(i)
				if !read[fv] || !nilable(fv.Type()) {
					continue
				}
				checked++
				if rw3LitField(info, lit, fv) != nil {
					continue
				}
				store := func(x *core.Node) bool {
					as, ok := x.N.(*ast.AssignStmt)
					if !ok {
						return false
					}
					for _, l := range as.Lhs {
						if se, ok := ast.Unparen(l).(*ast.SelectorExpr); ok && core.FieldOf(info, se) == fv && core.ObjOf(info, se.X) == self {
							return true
						}
					}
					return false
				}
				nonNil := g.NilEdge(func(x ast.Expr) bool {
					se, ok := ast.Unparen(x).(*ast.SelectorExpr)
					return ok && core.FieldOf(info, se) == fv && core.ObjOf(info, se.X) == self
				}, false)
				reach := g.ReachFromEntry(store, nonNil)
				for _, x := range success {
					if reach[x] {
						missing = append(missing, fv.Name())
						break
					}
				}
			}
			r.Check(len(missing) == 0, rule, f.String(), "field-uninitialised", f.Pos(),
				fmt.Sprintf("every nil-able field of TreeScheduler read by the methods / goroutines (%d) is assigned on every path to the success return (a nil timer, metrics, queue or worker list panics on first use); unassigned: %s", checked, core.Join(missing)))
			r.Check(checked >= 8, rule, f.String(), "fields:count", f.Pos(), fmt.Sprintf("%d nil-able fields examined (>= 8 confirmed by reading)", checked))
		}
	}
}

// m5StoresFieldOf: n contains an assignment `base.fv = …` (deep: anywhere under
// n, otherwise only what is evaluated in place).
func m5StoresFieldOf(info *types.Info, n ast.Node, fv *types.Var, base types.Object, deep bool) bool {
	hit := false
	visit := func(y ast.Node) bool {
		if as, ok := y.(*ast.AssignStmt); ok {
			for _, l := range as.Lhs {
				if se, ok := ast.Unparen(l).(*ast.SelectorExpr); ok && core.FieldOf(info, se) == fv && core.ObjOf(info, se.X) == base {
					hit = true
				}
			}
		}
		return true
	}
	if deep {
		ast.Inspect(n, visit)
	} else {
		core.Walk(n, core.WalkOpts{}, visit)
	}
	return hit
}

// m5EmptySlice: e is x[:0], nil, T{} or make(T, 0[, n]).
func m5EmptySlice(info *types.Info, e ast.Expr) bool {
	e = ast.Unparen(e)
	switch x := e.(type) {
	case *ast.SliceExpr:
		if x.High == nil {
			return false
		}
		v, ok := core.ConstInt(info, x.High)
		return ok && v == 0
	case *ast.CompositeLit:
		return len(x.Elts) == 0
	case *ast.CallExpr:
		if core.Builtin("make")(info, x) && len(x.Args) >= 2 {
			v, ok := core.ConstInt(info, x.Args[1])
			return ok && v == 0
		}
	}
	return core.IsNilIdent(info, e)
}

func m5At(where string) string {
	if where == "" {
		return ""
	}
	return " (reached: " + where + ")"
}

func m5AtNode(g *core.Graph, x *core.Node) string {
	if x == nil {
		return ""
	}
	return m5At(g.Line(x))
}
