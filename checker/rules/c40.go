package rules

import (
	"fmt"
	"go/ast"
	"go/constant"
	"go/token"
	"go/types"

	"golang.org/x/tools/go/cfg"

	"verif/checker/core"
)

// ---------------------------------------------------------------------------
// helpers shared by the C10 / C17 / C40 rule sets (all prefixed rw3 so that they
// cannot collide with helpers of other rule files in this package)
// ---------------------------------------------------------------------------

// rw3Loop is one for/range statement located in a graph.
type rw3Loop struct {
	Stmt  ast.Stmt       // *ast.RangeStmt or *ast.ForStmt
	Body  *ast.BlockStmt // loop body
	Entry *core.Node     // first node of an iteration
	Head  *core.Node     // node the back edge returns to (outside the body for range / for-with-cond loops; == Entry for `for {}`)
	Key   types.Object   // range key (nil if none)
	Val   types.Object   // range value (nil if none)
}

func rw3FirstOfBlock(g *core.Graph, want func(b *cfg.Block) bool) *core.Node {
	for _, n := range g.Nodes { // nodes are created block by block, in order
		if n.Block != nil && want(n.Block) {
			return n
		}
	}
	return nil
}

// rw3FindLoop locates the loop statement s in graph g.
func rw3FindLoop(g *core.Graph, s ast.Stmt) *rw3Loop {
	l := &rw3Loop{Stmt: s}
	switch x := s.(type) {
	case *ast.RangeStmt:
		l.Body = x.Body
		l.Entry = rw3FirstOfBlock(g, func(b *cfg.Block) bool { return b.Kind == cfg.KindRangeBody && b.Stmt == s })
		l.Head = rw3FirstOfBlock(g, func(b *cfg.Block) bool { return b.Kind == cfg.KindRangeLoop && b.Stmt == s })
		if x.Key != nil {
			l.Key = core.ObjOf(g.Info, x.Key)
		}
		if x.Value != nil {
			l.Val = core.ObjOf(g.Info, x.Value)
		}
	case *ast.ForStmt:
		l.Body = x.Body
		l.Entry = rw3FirstOfBlock(g, func(b *cfg.Block) bool { return b.Kind == cfg.KindForBody && b.Stmt == s })
		if x.Cond != nil {
			l.Head = rw3FirstOfBlock(g, func(b *cfg.Block) bool { return b.Kind == cfg.KindForLoop && b.Stmt == s })
		} else {
			l.Head = l.Entry
		}
	default:
		return nil
	}
	if l.Entry == nil || l.Head == nil {
		return nil
	}
	return l
}

// In reports whether node n belongs to an iteration of the loop (its body).
func (l *rw3Loop) In(n *core.Node) bool {
	if n.N != nil {
		return l.Body.Pos() <= n.N.Pos() && n.N.Pos() < l.Body.End()
	}
	if n.Block == nil || n.Block.Stmt == nil {
		return false
	}
	if n.Block.Stmt == l.Stmt {
		return n.Block.Kind == cfg.KindRangeBody || n.Block.Kind == cfg.KindForBody
	}
	pos := n.Block.Stmt.Pos()
	return l.Body.Pos() <= pos && pos < l.Body.End()
}

// Escapes starts at the first node of an iteration and follows every path that
// neither enters a node selected by sink nor follows an edge selected by exempt;
// it returns the nodes outside the loop body that are reached that way (for a
// `for {}` loop: the entry node when an iteration can wrap around). An empty
// result means: every way of finishing an iteration passes a sink (or an exempt edge).
func (l *rw3Loop) Escapes(g *core.Graph, sink core.NodePred, exempt core.EdgePred) []*core.Node {
	return l.EscapesFrom(g, []*core.Node{l.Entry}, sink, exempt)
}

func (l *rw3Loop) EscapesFrom(g *core.Graph, start []*core.Node, sink core.NodePred, exempt core.EdgePred) []*core.Node {
	var out []*core.Node
	seen := map[*core.Node]bool{}
	wrapped := false
	stopNode := func(n *core.Node) bool {
		if sink != nil && sink(n) {
			return true
		}
		if !l.In(n) {
			if !seen[n] {
				seen[n] = true
				out = append(out, n)
			}
			return true
		}
		return false
	}
	r := g.Reach(start, stopNode, exempt)
	if l.Head == l.Entry {
		for n := range r {
			for _, e := range n.Succ {
				if e.To == l.Entry && (exempt == nil || !exempt(e)) && !(sink != nil && sink(l.Entry)) {
					wrapped = true
				}
			}
		}
		if wrapped {
			out = append(out, l.Entry)
		}
	}
	return out
}

// Within returns the nodes of the current iteration reachable from the successors of n.
func (l *rw3Loop) Within(g *core.Graph, n *core.Node) map[*core.Node]bool {
	return g.Reach(core.After(n, nil), func(x *core.Node) bool { return !l.In(x) || x == l.Head }, nil)
}

// rw3Def is one definition (assignment) of a local variable.
type rw3Def struct {
	Stmt   ast.Node
	Rhs    ast.Expr // defining expression; for a tuple assignment from one call: the call
	Idx    int      // result index within Rhs for tuple assignments, -1 otherwise
	IncDec bool
	Range  bool // defined as key (Idx 0) / value (Idx 1) of `range Rhs`
}

// rw3Defs lists every definition of obj under root (function literals included);
// declarations without an initial value are not definitions.
func rw3Defs(info *types.Info, root ast.Node, obj types.Object) []rw3Def {
	var out []rw3Def
	if obj == nil {
		return nil
	}
	ast.Inspect(root, func(n ast.Node) bool {
		switch s := n.(type) {
		case *ast.AssignStmt:
			for i, l := range s.Lhs {
				if core.ObjOf(info, l) != obj {
					continue
				}
				switch {
				case len(s.Lhs) == len(s.Rhs):
					out = append(out, rw3Def{Stmt: s, Rhs: s.Rhs[i], Idx: -1})
				case len(s.Rhs) == 1:
					out = append(out, rw3Def{Stmt: s, Rhs: s.Rhs[0], Idx: i})
				}
			}
		case *ast.ValueSpec:
			for i, id := range s.Names {
				if info.Defs[id] != obj || len(s.Values) == 0 {
					continue
				}
				switch {
				case len(s.Names) == len(s.Values):
					out = append(out, rw3Def{Stmt: s, Rhs: s.Values[i], Idx: -1})
				case len(s.Values) == 1:
					out = append(out, rw3Def{Stmt: s, Rhs: s.Values[0], Idx: i})
				}
			}
		case *ast.IncDecStmt:
			if core.ObjOf(info, s.X) == obj {
				out = append(out, rw3Def{Stmt: s, IncDec: true, Idx: -1})
			}
		case *ast.RangeStmt:
			if s.Key != nil && core.ObjOf(info, s.Key) == obj {
				out = append(out, rw3Def{Stmt: s, Rhs: s.X, Idx: 0, Range: true})
			}
			if s.Value != nil && core.ObjOf(info, s.Value) == obj {
				out = append(out, rw3Def{Stmt: s, Rhs: s.X, Idx: 1, Range: true})
			}
		}
		return true
	})
	return out
}

// rw3SoleCallDef: obj has exactly one definition and it is result idx (-1: the
// single result) of a call matched by m. Returns that call.
func rw3SoleCallDef(info *types.Info, root ast.Node, obj types.Object, m core.Matcher, idx int) *ast.CallExpr {
	ds := rw3Defs(info, root, obj)
	if len(ds) != 1 || ds[0].Range || ds[0].IncDec || ds[0].Rhs == nil {
		return nil
	}
	c, ok := ast.Unparen(ds[0].Rhs).(*ast.CallExpr)
	if !ok || !m(info, c) {
		return nil
	}
	if ds[0].Idx != idx && !(idx <= 0 && ds[0].Idx == -1) {
		return nil
	}
	return c
}

// rw3Named strips pointers and returns the named type of t (nil if none).
func rw3Named(t types.Type) *types.Named {
	for {
		switch x := t.(type) {
		case *types.Pointer:
			t = x.Elem()
		case *types.Alias:
			t = types.Unalias(x)
		case *types.Named:
			return x
		default:
			return nil
		}
	}
}

// rw3IsNamed reports whether t (pointer stripped) is the named type pkg.name
// (pkg is the module-relative or full import path).
func rw3IsNamed(t types.Type, pkg, name string) bool {
	nt := rw3Named(t)
	if nt == nil || nt.Obj().Name() != name || nt.Obj().Pkg() == nil {
		return false
	}
	return core.Short(nt.Obj().Pkg().Path()) == pkg
}

// rw3Lit returns the composite literal behind e (`T{…}` or `&T{…}`), nil otherwise.
func rw3Lit(e ast.Expr) *ast.CompositeLit {
	e = ast.Unparen(e)
	if u, ok := e.(*ast.UnaryExpr); ok && u.Op == token.AND {
		e = ast.Unparen(u.X)
	}
	cl, _ := e.(*ast.CompositeLit)
	return cl
}

// rw3LitField returns the value given to struct field fv in a keyed composite literal.
func rw3LitField(info *types.Info, cl *ast.CompositeLit, fv *types.Var) ast.Expr {
	if cl == nil || fv == nil {
		return nil
	}
	for _, el := range cl.Elts {
		kv, ok := el.(*ast.KeyValueExpr)
		if !ok {
			continue
		}
		if id, ok := kv.Key.(*ast.Ident); ok && info.Uses[id] == types.Object(fv) {
			return kv.Value
		}
	}
	return nil
}

func rw3Int(info *types.Info, e ast.Expr) (int64, bool) {
	if e == nil {
		return 0, false
	}
	if v := core.ConstVal(info, e); v != nil && v.Kind() == constant.Int {
		return constant.Int64Val(v)
	}
	return 0, false
}

// rw3EdgeImplies: taking e implies that an atomic condition accepted by atom
// holds. Conjunctions need one accepted conjunct, disjunctions need every
// disjunct accepted (the true edge of `a || b` only tells that one of them holds;
// the false edge of `a && b` only that one of them fails).
func rw3EdgeImplies(e *core.Edge, atom func(c ast.Expr, val bool) bool) bool {
	if e == nil || e.Cond == nil || e.Tag != nil {
		return false
	}
	var rec func(c ast.Expr, v bool) bool
	rec = func(c ast.Expr, v bool) bool {
		c = ast.Unparen(c)
		switch x := c.(type) {
		case *ast.UnaryExpr:
			if x.Op == token.NOT {
				return rec(x.X, !v)
			}
		case *ast.BinaryExpr:
			switch {
			case (x.Op == token.LAND && v) || (x.Op == token.LOR && !v):
				return rec(x.X, v) || rec(x.Y, v)
			case x.Op == token.LAND || x.Op == token.LOR:
				return rec(x.X, v) && rec(x.Y, v)
			}
		}
		return atom(c, v)
	}
	return rec(e.Cond, e.Branch)
}

// rw3ZeroEdge: taking e implies a comparison of the non-negative integer quantity
// obj (the variable itself, or len(obj)) with a constant that holds for 0 and
// does not hold for 1 — i.e. the edge on which the quantity is zero.
func rw3ZeroEdge(info *types.Info, e *core.Edge, obj types.Object) bool {
	if obj == nil {
		return false
	}
	return rw3ZeroEdgeQ(info, e, func(x ast.Expr) bool {
		x = ast.Unparen(x)
		if core.ObjOf(info, x) == obj {
			return true
		}
		c, ok := x.(*ast.CallExpr)
		return ok && core.Builtin("len")(info, c) && len(c.Args) == 1 && core.ObjOf(info, c.Args[0]) == obj
	})
}

// rw3ZeroEdgeQ is rw3ZeroEdge for a quantity recognised by isQ.
func rw3ZeroEdgeQ(info *types.Info, e *core.Edge, isQ func(ast.Expr) bool) bool {
	return rw3qtyEdge(info, e, isQ, true)
}

func rw3qtyEdge(info *types.Info, e *core.Edge, isQ func(ast.Expr) bool, zero bool) bool {
	return rw3EdgeImplies(e, func(c ast.Expr, val bool) bool {
		be, ok := c.(*ast.BinaryExpr)
		if !ok {
			return false
		}
		eval := func(v int64) (bool, bool) {
			var l, rr constant.Value
			switch {
			case isQ(be.X):
				l = constant.MakeInt64(v)
				rr = core.ConstVal(info, be.Y)
			case isQ(be.Y):
				l = core.ConstVal(info, be.X)
				rr = constant.MakeInt64(v)
			}
			if l == nil || rr == nil || l.Kind() != constant.Int || rr.Kind() != constant.Int {
				return false, false
			}
			switch be.Op {
			case token.GTR, token.GEQ, token.LSS, token.LEQ, token.EQL, token.NEQ:
				return constant.Compare(l, be.Op, rr), true
			}
			return false, false
		}
		v0, ok0 := eval(0)
		v1, ok1 := eval(1)
		if !ok0 || !ok1 {
			return false
		}
		if zero {
			return v0 == val && v1 != val
		}
		return v1 == val && v0 != val
	})
}

// rw3NonZeroEdge / rw3NonZeroEdgeQ: taking e implies that the quantity is >= 1
// (the comparison holds for 1 and does not hold for 0).
func rw3NonZeroEdge(info *types.Info, e *core.Edge, obj types.Object) bool {
	if obj == nil {
		return false
	}
	return rw3NonZeroEdgeQ(info, e, func(x ast.Expr) bool {
		x = ast.Unparen(x)
		if core.ObjOf(info, x) == obj {
			return true
		}
		c, ok := x.(*ast.CallExpr)
		return ok && core.Builtin("len")(info, c) && len(c.Args) == 1 && core.ObjOf(info, c.Args[0]) == obj
	})
}

func rw3NonZeroEdgeQ(info *types.Info, e *core.Edge, isQ func(ast.Expr) bool) bool {
	return rw3qtyEdge(info, e, isQ, false)
}

// rw3SuccessMissing returns the success exits of g that are reachable from start
// without entering a gate node and without following an exempt edge.
func rw3SuccessMissing(g *core.Graph, start []*core.Node, gate core.NodePred, exempt core.EdgePred) []*core.Node {
	reach := g.Reach(start, gate, exempt)
	var out []*core.Node
	for _, x := range g.SuccessExits() {
		if reach[x] {
			out = append(out, x)
		}
	}
	return out
}

// rw3Mentions reports whether expression e contains a selection of struct field fv
// (x.f) or a call of its protobuf getter (x.GetF()).
func rw3Mentions(info *types.Info, e ast.Node, fv *types.Var) bool {
	if e == nil || fv == nil {
		return false
	}
	found := false
	ast.Inspect(e, func(n ast.Node) bool {
		switch x := n.(type) {
		case *ast.SelectorExpr:
			if core.FieldOf(info, x) == fv {
				found = true
			}
		case *ast.CallExpr:
			if fn := core.Callee(info, x); fn != nil && fn.Name() == "Get"+fv.Name() {
				if sig, ok := fn.Type().(*types.Signature); ok && sig.Recv() != nil {
					if st, ok := rw3NamedStruct(sig.Recv().Type()); ok {
						for i := 0; i < st.NumFields(); i++ {
							if st.Field(i) == fv {
								found = true
							}
						}
					}
				}
			}
		}
		return true
	})
	return found
}

func rw3NamedStruct(t types.Type) (*types.Struct, bool) {
	nt := rw3Named(t)
	if nt == nil {
		return nil, false
	}
	st, ok := nt.Underlying().(*types.Struct)
	return st, ok
}

// rw3BoolEdge: e is the out-edge of the condition `v` / `!v` on which the
// boolean variable obj has value val.
func rw3BoolEdge(info *types.Info, e *core.Edge, obj types.Object, val bool) bool {
	if obj == nil {
		return false
	}
	return rw3EdgeImplies(e, func(c ast.Expr, v bool) bool {
		return core.ObjOf(info, c) == obj && v == val
	})
}

// rw3NilSide: e is the out-edge of a nil test of variable obj on which obj is nil (isNil) / non-nil.
func rw3NilSide(info *types.Info, e *core.Edge, obj types.Object, isNil bool) bool {
	if obj == nil {
		return false
	}
	return rw3EdgeImplies(e, func(c ast.Expr, v bool) bool {
		x, nonNilOnTrue, ok := core.NilTest(info, c)
		if !ok || core.ObjOf(info, x) != obj {
			return false
		}
		return (v == nonNilOnTrue) != isNil
	})
}

// rw3StmtNode selects the graph node whose statement is exactly s.
func rw3StmtNode(g *core.Graph, s ast.Node) *core.Node {
	for _, n := range g.Nodes {
		if n.N == s {
			return n
		}
	}
	return g.NodeOf(s)
}

// rw3TopLoops returns the for/range statements under body that are not inside a function literal.
func rw3TopLoops(body ast.Node) []ast.Stmt {
	var out []ast.Stmt
	ast.Inspect(body, func(n ast.Node) bool {
		switch s := n.(type) {
		case *ast.FuncLit:
			return false
		case *ast.RangeStmt:
			out = append(out, s)
		case *ast.ForStmt:
			out = append(out, s)
		}
		return true
	})
	return out
}

// rw3AppendTo: statement `v = append(v, …)` on the local variable / field denoted by target
// (object for identifiers, *types.Var for fields). Returns the appended arguments.
func rw3AppendTo(info *types.Info, n ast.Node, isTarget func(ast.Expr) bool) []ast.Expr {
	as, ok := n.(*ast.AssignStmt)
	if !ok || len(as.Lhs) != 1 || len(as.Rhs) != 1 || !isTarget(as.Lhs[0]) {
		return nil
	}
	c, ok := ast.Unparen(as.Rhs[0]).(*ast.CallExpr)
	if !ok || !core.Builtin("append")(info, c) || len(c.Args) < 2 || !isTarget(c.Args[0]) {
		return nil
	}
	return c.Args[1:]
}

// ---------------------------------------------------------------------------
// C40
// ---------------------------------------------------------------------------

func init() {
	register(&Prop{
		ID:       "C40",
		Patterns: []string{"./tsdb"},
		Level:    "other",
		Explanation: "Necessary-condition rules for partial writes, decided on the statement CFG of tsdb.Shard.validateSeriesAndFields, tsdb.ValidateAndCreateFields and tsdb.Shard.WritePoints with type-resolved variables, fields and callees: " +
			"(1) partial-accounting: in each of the two loops over the batch every iteration passes exactly one of `keep` (points[j] = points[i]; j++) or `count` (the variable that feeds PartialWriteError.Dropped is incremented by 1 or by a validator's Dropped), never both and never twice; the only uncounted skip is the one on `bytesutil.Contains(droppedKeys, keys[i])`, whose key list comes from the index's PartialWriteError in the same block in which its Dropped was added; the keep index is reset between the loops, the slices handed to CreateSeriesListIfNotExists are compacted in lockstep with the batch; the function returns points[:j], and every such return passes `err = PartialWriteError{Dropped: counter}` unless counter == 0; " +
			"(2) reject-carries-count: every return inside the field loop of ValidateAndCreateFields carries &PartialWriteError{Dropped: 1}; after CreateFieldIfNotExists the loop continues only on the err == nil edge (a type conflict or any other error ends in a rejecting return, never in a created field); the branch comparing a string value's length with MaxFieldValueLength ends in a rejecting return; " +
			"(3) engine-gets-filtered: Shard.WritePoints passes to Engine.WritePoints exactly the slice returned by the validator, after the validator; a validator error reaches an exit before the engine write only through the failed type assertion to PartialWriteError (hard error) or another call's failure; the partial-write error is saved on every path to the engine write and is what every exit after a successful engine write returns.",
		NotCovered:  "which points are invalid (value-level tests such as the unicode check or the size comparison operator), the engine-level type conflict of tsm1.Engine.WritePoints (decided under C10), the accuracy of Dropped/DroppedKeys reported by the index, metrics counters.",
		Assumptions: []string{"a rule passing means the accounting mechanism is present on every CFG path; infeasible-path reasoning is limited to the named exempt edges"},
		Run:         runC40,
	})
}

func runC40(p *core.Prog, r *core.Report, tier string) {
	c40Accounting(p, r)
	c40Validator(p, r, "reject-carries-count")
	c40ShardWrite(p, r)
}

// c40Accounting: E8 loop accounting in Shard.validateSeriesAndFields.
func c40Accounting(p *core.Prog, r *core.Report) {
	const rule = "partial-accounting"
	f := r.Need(p, tsdbP, "Shard.validateSeriesAndFields")
	if f == nil {
		return
	}
	info, g, name := f.Info(), f.Graph(), f.String()
	droppedF := core.LookupField(f.Pkg.Types, "PartialWriteError", "Dropped")
	keysF := core.LookupField(f.Pkg.Types, "PartialWriteError", "DroppedKeys")
	if !r.Check(droppedF != nil && keysF != nil, "anchor", "tsdb.PartialWriteError.Dropped/DroppedKeys", "unresolved", f.Pos(), "fields resolved") {
		return
	}
	sig, _ := f.Obj.Type().(*types.Signature)
	if sig == nil || sig.Params().Len() < 1 || sig.Results().Len() != 3 {
		r.Bad(rule, name, "signature", f.Pos(), "expected (points) -> (points, fields, error)")
		return
	}
	points := types.Object(sig.Params().At(0))
	isPWE := func(e ast.Expr) *ast.CompositeLit {
		cl := rw3Lit(e)
		if cl != nil && rw3IsNamed(info.TypeOf(cl), tsdbP, "PartialWriteError") {
			return cl
		}
		return nil
	}

	// the counter: the local variable that feeds PartialWriteError.Dropped
	counters := map[types.Object]bool{}
	ast.Inspect(f.Decl.Body, func(n ast.Node) bool {
		if cl, ok := n.(*ast.CompositeLit); ok && isPWE(cl) != nil {
			if v := rw3LitField(info, cl, droppedF); v != nil {
				if o, ok := core.ObjOf(info, v).(*types.Var); ok && !o.IsField() {
					counters[o] = true
				}
			}
		}
		return true
	})
	if !r.Check(len(counters) == 1, rule, name, "counter:absent", f.Pos(), "exactly one local variable feeds PartialWriteError.Dropped") {
		return
	}
	var counter types.Object
	for o := range counters {
		counter = o
	}

	// returns that hand back a batch: points[:j], _, errVar
	var keepIdx, errVar types.Object
	var rets []*core.Node
	okRet := true
	for _, x := range g.Exits {
		rs, ok := x.N.(*ast.ReturnStmt)
		if !ok || len(rs.Results) != 3 || core.IsNilIdent(info, rs.Results[0]) {
			continue
		}
		rets = append(rets, x)
		se, ok := ast.Unparen(rs.Results[0]).(*ast.SliceExpr)
		if !ok || se.Low != nil || se.High == nil || se.Slice3 || core.ObjOf(info, se.X) != points {
			r.Bad(rule, name, "returned-batch", g.Line(x), "the returned batch is not points[:j]")
			okRet = false
			continue
		}
		j, ev := core.ObjOf(info, se.High), core.ObjOf(info, rs.Results[2])
		if j == nil || ev == nil || (keepIdx != nil && j != keepIdx) || (errVar != nil && ev != errVar) {
			r.Bad(rule, name, "returned-batch", g.Line(x), "returned batch bound / error are not the same variables on every return")
			okRet = false
			continue
		}
		keepIdx, errVar = j, ev
	}
	if !r.Check(len(rets) >= 1 && okRet && keepIdx != nil, rule, name, "returned-batch:absent", f.Pos(), fmt.Sprintf("%d return(s) hand back points[:keep-index]", len(rets))) {
		return
	}

	// node classes
	isIncrRhs := func(e ast.Expr) bool {
		if v, ok := rw3Int(info, e); ok && v == 1 {
			return true
		}
		return core.FieldOf(info, e) == droppedF
	}
	counterWrite := func(n *core.Node) (write, incr bool) {
		switch s := n.N.(type) {
		case *ast.IncDecStmt:
			if core.ObjOf(info, s.X) == counter {
				return true, s.Tok == token.INC
			}
		case *ast.AssignStmt:
			for i, l := range s.Lhs {
				if core.ObjOf(info, l) != counter {
					continue
				}
				write = true
				if len(s.Lhs) == 1 && len(s.Rhs) == 1 {
					switch s.Tok {
					case token.ADD_ASSIGN:
						incr = isIncrRhs(s.Rhs[0])
					case token.ASSIGN:
						if be, ok := ast.Unparen(s.Rhs[0]).(*ast.BinaryExpr); ok && be.Op == token.ADD {
							incr = (core.ObjOf(info, be.X) == counter && isIncrRhs(be.Y)) || (core.ObjOf(info, be.Y) == counter && isIncrRhs(be.X))
						}
					}
				}
				_ = i
			}
		}
		return
	}
	isDrop := func(n *core.Node) bool { w, i := counterWrite(n); return w && i }
	isKeep := func(n *core.Node) bool {
		s, ok := n.N.(*ast.IncDecStmt)
		return ok && s.Tok == token.INC && core.ObjOf(info, s.X) == keepIdx
	}
	for _, n := range g.Nodes {
		if w, i := counterWrite(n); w && !i {
			r.Bad(rule, name, "counter-write", g.Line(n), "the dropped counter is written by something other than an increment by 1 / by a PartialWriteError.Dropped")
		}
	}
	// every other write of the keep index is a reset to 0
	isReset := func(n *core.Node) bool {
		s, ok := n.N.(*ast.AssignStmt)
		if !ok || len(s.Lhs) != 1 || len(s.Rhs) != 1 || s.Tok != token.ASSIGN || core.ObjOf(info, s.Lhs[0]) != keepIdx {
			return false
		}
		v, ok := rw3Int(info, s.Rhs[0])
		return ok && v == 0
	}
	for _, d := range rw3Defs(info, f.Decl.Body, keepIdx) {
		n := rw3StmtNode(g, d.Stmt)
		if n == nil || !(isKeep(n) || isReset(n)) {
			r.Bad(rule, name, "keep-index-write", p.Pos(d.Stmt.Pos()), "the keep index is written by something other than j++ / j = 0")
		}
	}

	// variables holding keys that were already counted by the index (DroppedKeys of its PartialWriteError)
	precounted := map[types.Object]bool{}
	ast.Inspect(f.Decl.Body, func(n ast.Node) bool {
		if as, ok := n.(*ast.AssignStmt); ok {
			for i, l := range as.Lhs {
				if len(as.Lhs) == len(as.Rhs) && core.FieldOf(info, as.Rhs[i]) == keysF {
					if o := core.ObjOf(info, l); o != nil {
						precounted[o] = true
					}
				}
			}
		}
		return true
	})
	for o := range precounted {
		for _, d := range rw3Defs(info, f.Decl.Body, o) {
			sel, _ := ast.Unparen(d.Rhs).(*ast.SelectorExpr)
			if d.Rhs == nil || core.FieldOf(info, d.Rhs) != keysF || sel == nil {
				r.Bad(rule, name, "exempt-precounted", p.Pos(d.Stmt.Pos()), "the list of already-counted keys is assigned from something other than PartialWriteError.DroppedKeys")
				delete(precounted, o)
				continue
			}
			// the same block adds the same error's Dropped to the counter
			dn := rw3StmtNode(g, d.Stmt)
			paired := false
			for _, n := range g.Nodes {
				if dn == nil || n.Block != dn.Block || !isDrop(n) {
					continue
				}
				as := n.N.(ast.Stmt)
				ast.Inspect(as, func(x ast.Node) bool {
					if s, ok := x.(*ast.SelectorExpr); ok && core.FieldOf(info, s) == droppedF && core.ObjOf(info, s.X) != nil && core.ObjOf(info, s.X) == core.ObjOf(info, sel.X) {
						paired = true
					}
					return true
				})
			}
			r.Check(paired, rule, name, "exempt-precounted", p.Pos(d.Stmt.Pos()), "DroppedKeys is taken from the index's PartialWriteError in the block that adds its Dropped to the counter")
		}
	}

	// the loops over the batch
	var loops []*rw3Loop
	for _, s := range rw3TopLoops(f.Decl.Body) {
		rs, ok := s.(*ast.RangeStmt)
		if !ok || core.ObjOf(info, rs.X) != points {
			continue
		}
		if l := rw3FindLoop(g, rs); l != nil {
			loops = append(loops, l)
		}
	}
	if !r.Check(len(loops) >= 2, rule, name, "batch-loops:count", f.Pos(), fmt.Sprintf("%d loop(s) over the batch (2 confirmed by reading)", len(loops))) {
		return
	}
	parallel := map[types.Object]bool{} // slices stored at [keep index] next to the batch
	for li, l := range loops {
		lname := fmt.Sprintf("loop%d", li+1)
		switch {
		case len(core.AllCalls(info, l.Body, call("tsdb.ValidateAndCreateFields"))) > 0:
			lname = "field-loop"
		case len(core.AllCalls(info, l.Body, call("models.Point.Tags"))) > 0:
			lname = "series-loop"
		}
		in := func(pred core.NodePred) []*core.Node {
			var out []*core.Node
			for _, n := range g.Select(pred) {
				if l.In(n) {
					out = append(out, n)
				}
			}
			return out
		}
		keeps, drops := in(isKeep), in(isDrop)
		r.Check(len(keeps) >= 1, rule, name, lname+":keep:absent", p.Pos(l.Stmt.Pos()), "the loop keeps points (j++)")
		r.Check(len(drops) >= 2, rule, name, lname+":count:absent", p.Pos(l.Stmt.Pos()), fmt.Sprintf("%d counter increments in the loop (2 confirmed by reading)", len(drops)))
		if l.Key == nil {
			r.Bad(rule, name, lname+":index", p.Pos(l.Stmt.Pos()), "the loop has no index variable")
			continue
		}
		// keep = points[j] = points[i] then j++
		isStore := func(n *core.Node) bool {
			as, ok := n.N.(*ast.AssignStmt)
			if !ok || len(as.Lhs) != len(as.Rhs) {
				return false
			}
			for i := range as.Lhs {
				li, ok1 := ast.Unparen(as.Lhs[i]).(*ast.IndexExpr)
				ri, ok2 := ast.Unparen(as.Rhs[i]).(*ast.IndexExpr)
				if ok1 && ok2 && core.ObjOf(info, li.X) == points && core.ObjOf(info, li.Index) == keepIdx &&
					core.ObjOf(info, ri.X) == points && core.ObjOf(info, ri.Index) == l.Key {
					return true
				}
			}
			return false
		}
		noStore := g.Reach([]*core.Node{l.Entry}, func(n *core.Node) bool { return isStore(n) || !l.In(n) }, nil)
		for _, k := range keeps {
			r.Check(!noStore[k], rule, name, lname+":keep-store", g.Line(k), "j++ is preceded in the iteration by points[j] = points[i]")
		}
		for _, n := range g.Nodes {
			if as, ok := n.N.(*ast.AssignStmt); ok && l.In(n) {
				for _, lh := range as.Lhs {
					if ix, ok := ast.Unparen(lh).(*ast.IndexExpr); ok && core.ObjOf(info, ix.Index) == keepIdx {
						if o := core.ObjOf(info, ix.X); o != nil && o != points {
							parallel[o] = true
						}
					}
				}
			}
		}
		// exempt edge: bytesutil.Contains(<precounted>, <parallel slice>[i]) is true
		exempt := func(e *core.Edge) bool {
			return rw3EdgeImplies(e, func(cond ast.Expr, val bool) bool {
				c, ok := cond.(*ast.CallExpr)
				if !val || !ok || !call("pkg/bytesutil.Contains")(info, c) || len(c.Args) != 2 || !precounted[core.ObjOf(info, c.Args[0])] {
					return false
				}
				ix, ok := ast.Unparen(c.Args[1]).(*ast.IndexExpr)
				return ok && core.ObjOf(info, ix.Index) == l.Key && parallel[core.ObjOf(info, ix.X)]
			})
		}
		sink := core.AnyOf(isKeep, isDrop)
		esc := l.Escapes(g, sink, exempt)
		if len(esc) == 0 {
			r.Ok(rule, name+":"+lname, p.Pos(l.Stmt.Pos()), fmt.Sprintf("every iteration passes keep (%d site(s)) or a counter increment (%d site(s)); exempt: keys already counted by the index", len(keeps), len(drops)))
		} else {
			// name the conditions through which the iteration escapes
			r.Bad(rule, name, lname+":skip-without-count", rw3EscapeWhere(g, l, sink, exempt), "an iteration can finish without keeping the point and without incrementing the dropped counter")
		}
		once := true
		for _, k := range append(append([]*core.Node{}, keeps...), drops...) {
			w := l.Within(g, k)
			for n := range w {
				if isKeep(n) || isDrop(n) {
					what := "double-count"
					if isKeep(n) != isKeep(k) {
						what = "keep-and-count"
					} else if isKeep(n) {
						what = "double-keep"
					}
					r.Bad(rule, name, lname+":"+what, g.Line(n), fmt.Sprintf("after %s the same iteration can reach another keep/count statement", g.Line(k)))
					once = false
				}
			}
		}
		if once {
			r.Ok(rule, name+":"+lname+":once", p.Pos(l.Stmt.Pos()), "no iteration both keeps and counts, or counts twice")
		}
		// the keep index is reset between the loops
		for oi, o := range loops {
			if oi == li {
				continue
			}
			for _, n := range g.Nodes {
				if !isKeep(n) || !o.In(n) {
					continue
				}
				reach := g.Reach(core.After(n, nil), isReset, nil)
				r.Check(!reach[l.Head], rule, name, lname+":keep-index-reset", p.Pos(l.Stmt.Pos()), "the keep index is reset to 0 on every path from the other loop's j++ to this loop")
			}
		}
	}

	// lockstep compaction of the slices handed to the index
	r.Check(len(parallel) >= 3, rule, name, "lockstep:count", f.Pos(), fmt.Sprintf("%d slices are compacted next to the batch (3 confirmed by reading)", len(parallel)))
	resliced := func(n *core.Node, o types.Object) bool {
		as, ok := n.N.(*ast.AssignStmt)
		if !ok || len(as.Lhs) != len(as.Rhs) {
			return false
		}
		for i := range as.Lhs {
			se, ok := ast.Unparen(as.Rhs[i]).(*ast.SliceExpr)
			if ok && core.ObjOf(info, as.Lhs[i]) == o && core.ObjOf(info, se.X) == o && se.Low == nil && se.High != nil && core.ObjOf(info, se.High) == keepIdx {
				return true
			}
		}
		return false
	}
	csl := call("tsdb.Engine.CreateSeriesListIfNotExists")
	cslNodes := g.Select(g.Calling(csl))
	r.Check(len(cslNodes) >= 1, rule, name, "CreateSeriesListIfNotExists:absent", f.Pos(), "series are created in bulk")
	all := []types.Object{points}
	for o := range parallel {
		all = append(all, o)
	}
	for _, o := range all {
		o := o
		pred := func(n *core.Node) bool { return resliced(n, o) }
		ns := g.Select(pred)
		if !r.Check(len(ns) >= 1, rule, name, "lockstep:"+o.Name()+":not-truncated", f.Pos(), o.Name()+" is truncated to [:keep index] after the first pass") {
			continue
		}
		pre := g.ReachFromEntry(pred, nil)
		for _, c := range cslNodes {
			r.Check(!pre[c], rule, name, "lockstep:"+o.Name()+":truncate<CreateSeriesList", g.Line(c), o.Name()+"[:j] precedes CreateSeriesListIfNotExists")
		}
		early := g.ReachFromEntry(func(n *core.Node) bool { return n == loops[0].Head }, nil)
		for _, n := range ns {
			r.Check(!early[n], rule, name, "lockstep:"+o.Name()+":truncate-after-loop", g.Line(n), "the truncation happens after the first pass")
		}
	}
	for _, c := range core.AllCalls(info, f.Decl.Body, csl) {
		okArgs := len(c.Args) == 3
		seen := map[types.Object]bool{}
		for _, a := range c.Args {
			o := core.ObjOf(info, a)
			if o == nil || !parallel[o] || seen[o] {
				okArgs = false
			}
			seen[o] = true
		}
		r.Check(okArgs, rule, name, "CreateSeriesListIfNotExists:args", p.Pos(c.Pos()), "its three arguments are the three compacted slices")
	}

	// the count is reported
	isGate := func(n *core.Node) bool {
		as, ok := n.N.(*ast.AssignStmt)
		if !ok || len(as.Lhs) != len(as.Rhs) {
			return false
		}
		for i := range as.Lhs {
			if core.ObjOf(info, as.Lhs[i]) != errVar {
				continue
			}
			if cl := isPWE(as.Rhs[i]); cl != nil && core.ObjOf(info, rw3LitField(info, cl, droppedF)) == counter {
				return true
			}
		}
		return false
	}
	gates := g.Select(isGate)
	if r.Check(len(gates) >= 1, rule, name, "dropped-reported:absent", f.Pos(), "err = PartialWriteError{Dropped: counter} exists") {
		reach := g.ReachFromEntry(isGate, func(e *core.Edge) bool { return rw3ZeroEdge(info, e, counter) })
		bad := false
		for _, x := range rets {
			if reach[x] {
				bad = true
				r.Bad(rule, name, "dropped-reported", g.Line(x), "a batch is returned without reporting the dropped count although the counter may be > 0")
			}
		}
		for _, gt := range gates {
			for n := range g.Reach(core.After(gt, nil), nil, nil) {
				if as, ok := n.N.(*ast.AssignStmt); ok && n != gt {
					for _, l := range as.Lhs {
						if core.ObjOf(info, l) == errVar {
							bad = true
							r.Bad(rule, name, "dropped-reported:overwritten", g.Line(n), "the partial-write error carrying the count is overwritten before the return")
						}
					}
				}
			}
		}
		if !bad {
			r.Ok(rule, name+":dropped-reported", g.Line(gates[0]), fmt.Sprintf("%d batch return(s) pass err = PartialWriteError{Dropped: %s} unless %s == 0", len(rets), counter.Name(), counter.Name()))
		}
	}
}

// rw3EscapeWhere renders the position of the first node outside the loop that an
// un-accounted iteration reaches, preceded by the last in-loop position.
func rw3EscapeWhere(g *core.Graph, l *rw3Loop, sink core.NodePred, exempt core.EdgePred) string {
	inLoop := g.Reach([]*core.Node{l.Entry}, func(n *core.Node) bool { return (sink != nil && sink(n)) || !l.In(n) }, exempt)
	best := ""
	bestID := -1
	for n := range inLoop {
		for _, e := range n.Succ {
			if exempt != nil && exempt(e) {
				continue
			}
			if !l.In(e.To) && !(sink != nil && sink(e.To)) && n.ID > bestID {
				bestID, best = n.ID, g.Line(n)
			}
		}
	}
	if best == "" {
		return g.Prog.Pos(l.Stmt.Pos())
	}
	return best
}

// c40Validator: ValidateAndCreateFields rejects with Dropped: 1 (also used by C10 for the conflict branch).
func c40Validator(p *core.Prog, r *core.Report, rule string) {
	f := r.Need(p, tsdbP, "ValidateAndCreateFields")
	if f == nil {
		return
	}
	info, g, name := f.Info(), f.Graph(), f.String()
	droppedF := core.LookupField(f.Pkg.Types, "PartialWriteError", "Dropped")
	if !r.Check(droppedF != nil, "anchor", "tsdb.PartialWriteError.Dropped", "unresolved", f.Pos(), "field resolved") {
		return
	}
	// the field loop
	var loop *rw3Loop
	for _, s := range rw3TopLoops(f.Decl.Body) {
		if fs, ok := s.(*ast.ForStmt); ok && fs.Cond != nil && len(core.AllCalls(info, fs.Cond, call("models.FieldIterator.Next"))) > 0 {
			loop = rw3FindLoop(g, fs)
		}
	}
	if !r.Check(loop != nil, rule, name, "field-loop:absent", f.Pos(), "loop over the point's fields found") {
		return
	}
	rejecting := func(n *core.Node) bool {
		rs, ok := n.N.(*ast.ReturnStmt)
		if !ok || len(rs.Results) != 2 {
			return false
		}
		cl := rw3Lit(rs.Results[1])
		if cl == nil || !rw3IsNamed(info.TypeOf(cl), tsdbP, "PartialWriteError") {
			return false
		}
		v, ok := rw3Int(info, rw3LitField(info, cl, droppedF))
		return ok && v == 1
	}
	nrej := 0
	for _, x := range g.Exits {
		if _, ok := x.N.(*ast.ReturnStmt); ok && loop.In(x) {
			if r.Check(rejecting(x), rule, name, "return-in-loop", g.Line(x), "a return inside the field loop (point rejected) carries &PartialWriteError{Dropped: 1}") {
				nrej++
			}
		}
	}
	r.Check(nrej >= 3, rule, name, "rejecting-returns:count", f.Pos(), fmt.Sprintf("%d rejecting returns (3 confirmed by reading)", nrej))

	// after CreateFieldIfNotExists the loop goes on only with err == nil
	cfn := call("tsdb.MeasurementFields.CreateFieldIfNotExists")
	cns := g.Select(g.Calling(cfn))
	r.Check(len(cns) >= 1, rule, name, "CreateFieldIfNotExists:absent", f.Pos(), "the field is created / type-checked through CreateFieldIfNotExists")
	for _, cn := range cns {
		var errObj types.Object
		if as, ok := cn.N.(*ast.AssignStmt); ok && len(as.Lhs) == 3 && len(as.Rhs) == 1 {
			errObj = core.ObjOf(info, as.Lhs[2])
		}
		if !r.Check(errObj != nil && core.IsErrorType(errObj.Type()), rule, name, "CreateFieldIfNotExists:error-dropped", g.Line(cn), "the error result of CreateFieldIfNotExists is kept in a variable") {
			continue
		}
		nilEdge := func(e *core.Edge) bool { return rw3NilSide(info, e, errObj, true) }
		esc := loop.EscapesFrom(g, core.After(cn, nil), nil, nilEdge)
		okc := r.Check(len(esc) == 0, rule, name, "conflict-continues", g.Line(cn), "after CreateFieldIfNotExists the field loop is continued / left only on the err == nil edge")
		for n := range g.Reach(core.After(cn, nil), func(n *core.Node) bool { return !loop.In(n) }, nilEdge) {
			if len(core.CallsIn(info, n.N, core.Builtin("append"), core.WalkOpts{})) > 0 {
				r.Bad(rule, name, "field-created-after-error", g.Line(n), "a field is queued for creation on a path where CreateFieldIfNotExists failed")
				okc = false
			}
		}
		_ = okc
	}

	// the size check ends in a rejecting return
	pk := f.Pkg.Types
	maxC, _ := pk.Scope().Lookup("MaxFieldValueLength").(*types.Const)
	if !r.Check(maxC != nil, "anchor", "tsdb.MaxFieldValueLength", "unresolved", f.Pos(), "constant resolved") {
		return
	}
	strLen := func(e ast.Expr) bool {
		isLen := func(e ast.Expr) bool {
			c, ok := ast.Unparen(e).(*ast.CallExpr)
			return ok && core.Builtin("len")(info, c) && len(c.Args) == 1 && len(core.AllCalls(info, c.Args[0], call("models.FieldIterator.StringValue"))) > 0
		}
		if isLen(e) {
			return true
		}
		o := core.ObjOf(info, e)
		ds := rw3Defs(info, f.Decl.Body, o)
		return o != nil && len(ds) == 1 && ds[0].Rhs != nil && isLen(ds[0].Rhs)
	}
	nsize := 0
	for _, n := range g.Nodes {
		var be *ast.BinaryExpr
		if ce, isE := n.N.(ast.Expr); isE { // also through a boolean temporary: tooLong := sz > max; if tooLong
			be, _ = ast.Unparen(core.ResolveLocal(info, f.Decl.Body, ce)).(*ast.BinaryExpr)
		}
		if be == nil || len(n.Succ) != 2 {
			continue
		}
		var tooLong bool // branch value meaning "too long"
		switch {
		case (be.Op == token.GTR || be.Op == token.GEQ) && core.ObjOf(info, be.Y) == types.Object(maxC) && strLen(be.X):
			tooLong = true
		case (be.Op == token.LSS || be.Op == token.LEQ) && core.ObjOf(info, be.X) == types.Object(maxC) && strLen(be.Y):
			tooLong = true
		case (be.Op == token.LEQ || be.Op == token.LSS) && core.ObjOf(info, be.Y) == types.Object(maxC) && strLen(be.X):
			tooLong = false
		default:
			continue
		}
		nsize++
		for _, e := range n.Succ {
			if e.Cond == nil || e.Branch != tooLong {
				continue
			}
			esc := loop.EscapesFrom(g, []*core.Node{e.To}, nil, nil)
			r.Check(len(esc) == 0, rule, name, "too-long-not-rejected", g.Line(n), "the branch on which a string value exceeds MaxFieldValueLength ends in a rejecting return")
		}
	}
	r.Check(nsize >= 1, rule, name, "size-check:absent", f.Pos(), "the length of a string value is compared with MaxFieldValueLength")
}

// c40ShardWrite: the engine receives the filtered batch; the partial error is returned after the write.
func c40ShardWrite(p *core.Prog, r *core.Report) {
	const rule = "engine-gets-filtered"
	f := r.Need(p, tsdbP, "Shard.WritePoints")
	if f == nil {
		return
	}
	info, g, name := f.Info(), f.Graph(), f.String()
	vm, em := call("tsdb.Shard.validateSeriesAndFields"), call("tsdb.Engine.WritePoints")
	vns := g.Select(g.Calling(vm))
	ens := g.Select(g.Calling(em))
	if !r.Check(len(vns) == 1, rule, name, "validateSeriesAndFields:absent", f.Pos(), "exactly one validator call") ||
		!r.Check(len(ens) >= 1, rule, name, "Engine.WritePoints:absent", f.Pos(), "the engine write exists") {
		return
	}
	vn := vns[0]
	as, ok := vn.N.(*ast.AssignStmt)
	if !ok || len(as.Lhs) != 3 || len(as.Rhs) != 1 {
		r.Bad(rule, name, "validator-results", g.Line(vn), "the three results of the validator are not assigned")
		return
	}
	batch, verr := core.ObjOf(info, as.Lhs[0]), core.ObjOf(info, as.Lhs[2])
	if !r.Check(batch != nil && verr != nil, rule, name, "validator-results", g.Line(vn), "filtered batch and error are kept in variables") {
		return
	}
	// (a) the engine gets exactly that slice
	r.Check(len(rw3Defs(info, f.Decl.Body, batch)) == 1, rule, name, "batch-reassigned", g.Line(vn), "the variable holding the filtered batch is assigned only by the validator call")
	for _, c := range core.AllCalls(info, f.Decl.Body, em) {
		r.Check(len(c.Args) == 2 && core.ObjOf(info, c.Args[1]) == batch, rule, name, "engine-argument", p.Pos(c.Pos()), "Engine.WritePoints receives the slice returned by the validator")
	}
	pre := g.ReachFromEntry(func(n *core.Node) bool { return n == vn }, nil)
	for _, en := range ens {
		r.Check(!pre[en], rule, name, "validate<engine-write", g.Line(en), "the validator precedes the engine write")
	}
	// (b) a partial-write error does not end the write before the engine call
	fail, _, has := g.ErrEdges(vn)
	if !r.Check(has, rule, name, "validator-error-untested", g.Line(vn), "the validator's error is tested") {
		return
	}
	var okObjs []types.Object
	ast.Inspect(f.Decl.Body, func(n ast.Node) bool {
		if s, ok := n.(*ast.AssignStmt); ok && len(s.Lhs) == 2 && len(s.Rhs) == 1 {
			if ta, ok := ast.Unparen(s.Rhs[0]).(*ast.TypeAssertExpr); ok && ta.Type != nil && core.ObjOf(info, ta.X) == verr &&
				rw3IsNamed(info.TypeOf(ta.Type), tsdbP, "PartialWriteError") {
				if o := core.ObjOf(info, s.Lhs[1]); o != nil {
					okObjs = append(okObjs, o)
				}
			}
		}
		return true
	})
	r.Check(len(okObjs) >= 1, rule, name, "partial-test:absent", f.Pos(), "the validator's error is classified by a type assertion to PartialWriteError")
	// nodes reachable from the validator's failure edge while verr still holds the
	// validator's error (a later `x, err := otherCall()` that reuses the variable ends that)
	reassigns := func(n *core.Node) bool { return n != vn && g.AssigningObj(verr)(n) }
	holdsVerdict := g.Reach([]*core.Node{fail.To}, reassigns, nil)
	hardErr := func(e *core.Edge) bool {
		for _, o := range okObjs {
			if core.EdgeEstablishingM3(info, f.Decl.Body, core.BoolVarFact(info, o, false))(e) { // also through `hard := !ok; if hard`
				return true
			}
		}
		if g.FailEdge(e) {
			x, _, _ := core.NilTest(info, e.Cond)
			if core.ObjOf(info, x) != verr {
				return true
			}
			// the same variable, but reassigned by another call on every path to this test
			return !holdsVerdict[e.From] || reassigns(e.From)
		}
		return false
	}
	isEngine := g.Calling(em)
	okb := true
	for n := range g.Reach([]*core.Node{fail.To}, isEngine, hardErr) {
		if len(n.Succ) == 0 && n.Kind != core.KPanic {
			okb = false
			r.Bad(rule, name, "partial-instead-of-write", g.Line(n), "a validator error that is a PartialWriteError can reach this exit without the engine write")
		}
	}
	if okb {
		r.Ok(rule, name+":partial-then-write", g.Line(vn), "from the validator's failure edge every exit before the engine write is behind the failed PartialWriteError assertion or another call's failure")
	}
	// (c) the partial error is saved and returned after the write
	var saved types.Object
	isSave := func(n *core.Node) bool {
		s, ok := n.N.(*ast.AssignStmt)
		if !ok || len(s.Lhs) != 1 || len(s.Rhs) != 1 || core.ObjOf(info, s.Rhs[0]) != verr {
			return false
		}
		o := core.ObjOf(info, s.Lhs[0])
		return o != nil && o != verr
	}
	saves := g.Select(isSave)
	if !r.Check(len(saves) == 1, rule, name, "partial-error-saved:absent", f.Pos(), "the partial-write error is saved in a variable") {
		return
	}
	saved = core.ObjOf(info, saves[0].N.(*ast.AssignStmt).Lhs[0])
	r.Check(len(rw3Defs(info, f.Decl.Body, saved)) == 1, rule, name, "partial-error-overwritten", g.Line(saves[0]), "the saved partial-write error has no other assignment")
	noSave := g.Reach([]*core.Node{fail.To}, isSave, nil)
	for _, en := range ens {
		r.Check(!noSave[en], rule, name, "partial-error-saved", g.Line(en), "every path from the validator's failure edge to the engine write saves the error")
	}
	for _, en := range ens {
		_, succ, has := g.ErrEdges(en)
		if !r.Check(has && succ != nil, rule, name, "engine-error-untested", g.Line(en), "the engine's error is tested") {
			continue
		}
		okr, nret := true, 0
		for n := range g.Reach([]*core.Node{succ.To}, nil, nil) {
			if len(n.Succ) != 0 || n.Kind == core.KPanic {
				continue
			}
			nret++
			rs, isRet := n.N.(*ast.ReturnStmt)
			if !isRet || len(rs.Results) != 1 || core.ObjOf(info, rs.Results[0]) != saved {
				okr = false
				r.Bad(rule, name, "partial-error-returned", g.Line(n), "an exit after a successful engine write does not return the saved partial-write error")
			}
		}
		if okr && nret > 0 {
			r.Ok(rule, name+":partial-error-returned", g.Line(en), fmt.Sprintf("%d exit(s) after the engine write return %s", nret, saved.Name()))
		} else if nret == 0 {
			r.Bad(rule, name, "partial-error-returned:absent", g.Line(en), "no exit after the engine write")
		}
	}
}
