package rules

import (
	"fmt"
	"go/ast"
	"go/constant"
	"go/token"
	"go/types"
	"regexp/syntax"

	"verif/checker/core"
)

// C34 extension (m8): survivor-driven rules for the size/duration text codecs.
//
//	parsed-value-stored  a text unmarshaller reports success without storing a
//	                     value only for an empty input
//	submatch-guard       results of regexp FindSubmatch are indexed only where a
//	                     match exists; a byte of a capture is read only where the
//	                     capture cannot be empty (decided from the pattern) or its
//	                     length was tested
//	suffix-appended      marshalSizeV1 appends the unit suffix exactly on the
//	                     paths that chose one
//	sign-magnitude       parseBytesSigned yields a negated / negative value only
//	                     where the '-' sign was seen, a plain value only where it
//	                     was not, and the constant MinInt64 only for magnitude 2^63
func init() {
	extend("C34", "parsed-value-stored: Duration/SizeV2/SSizeV2.UnmarshalText and unmarshalSizeV1 reach a success exit without a store through the destination only where the input is empty (a non-empty text that is silently ignored does not read back); "+
		"submatch-guard: every result of regexp FindSubmatch in package toml is indexed only where it is known non-nil, with group numbers the pattern has, and a byte of a capture is read only where the capture is mandatory and non-empty in the (constant, regexp/syntax-parsed) pattern of every regexp that can reach the call, or behind a length test of that capture; "+
		"suffix-appended: in marshalSizeV1 every path from a case that chose a non-zero suffix to the exit passes utf8.AppendRune with that suffix (paths refuting `suffix != 0` excluded), and AppendRune is not reachable where no suffix was chosen; "+
		"sign-magnitude: in parseBytesSigned the sign flag is set only where the first rune equals '-', negated results are returned only where the sign was seen, un-negated ones only where it was not, and the constant minimum is returned only where the magnitude equals its absolute value.",
		nil, func(p *core.Prog, r *core.Report, tier string) {
			if p.Pkg(tomlPk8) == nil {
				return
			}
			c34mStored(p, r)
			c34mSubmatch(p, r)
			c34mSuffixAppended(p, r)
			c34mSign(p, r)
		})
}

// ---------------------------------------------------------------- parsed-value-stored

// textEmptyEdgeM8 selects the edges on which the text input `in` is known to be
// empty: a length test that is exactly len(in)==0 on that branch, or a
// comparison of in / string(in) with the constant "".
func textEmptyEdgeM8(info *types.Info, in types.Object) core.EdgePred {
	isIn := func(e ast.Expr) bool {
		e = ast.Unparen(e)
		if c, ok := e.(*ast.CallExpr); ok && len(c.Args) == 1 {
			if tv := info.Types[c.Fun]; tv.IsType() {
				e = ast.Unparen(c.Args[0])
			}
		}
		return core.ObjOf(info, e) == in
	}
	isEmptyStr := func(e ast.Expr) bool {
		tv, ok := info.Types[e]
		return ok && tv.Value != nil && tv.Value.Kind() == constant.String && constant.StringVal(tv.Value) == ""
	}
	return core.AtomEdge(func(x ast.Expr, val bool) bool {
		if a, br, ok := core.EmptyOn(info, x); ok && isIn(a) && br == val {
			return true
		}
		if be, ok := ast.Unparen(x).(*ast.BinaryExpr); ok && (be.Op == token.EQL || be.Op == token.NEQ) {
			if (isIn(be.X) && isEmptyStr(be.Y)) || (isIn(be.Y) && isEmptyStr(be.X)) {
				return (be.Op == token.EQL) == val
			}
		}
		return false
	})
}

func c34mStored(p *core.Prog, r *core.Report) {
	const rule = "parsed-value-stored"
	for _, name := range []string{"Duration.UnmarshalText", "SizeV2.UnmarshalText", "SSizeV2.UnmarshalText", "unmarshalSizeV1"} {
		f := r.Need(p, tomlPk8, name)
		if f == nil {
			continue
		}
		info := f.Info()
		g := f.Graph()
		// destination: pointer-typed receiver / parameter; input: the []byte or string parameter
		var dsts []types.Object
		var in types.Object
		sig := f.Obj.Type().(*types.Signature)
		if rc := sig.Recv(); rc != nil {
			if _, ok := rc.Type().Underlying().(*types.Pointer); ok {
				dsts = append(dsts, rc)
			}
		}
		for i := 0; i < sig.Params().Len(); i++ {
			v := sig.Params().At(i)
			switch t := v.Type().Underlying().(type) {
			case *types.Pointer:
				if _, isNamedStruct := t.Elem().Underlying().(*types.Struct); !isNamedStruct {
					dsts = append(dsts, v)
				}
			case *types.Slice:
				if b, ok := t.Elem().Underlying().(*types.Basic); ok && b.Kind() == types.Uint8 && in == nil {
					in = v
				}
			case *types.Basic:
				if t.Kind() == types.String && in == nil {
					in = v
				}
			}
		}
		isDst := func(e ast.Expr) bool {
			o := core.ObjOf(info, ast.Unparen(e))
			for _, d := range dsts {
				if o == d {
					return true
				}
			}
			return false
		}
		stores := func(n *core.Node) bool {
			if n.N == nil {
				return false
			}
			found := false
			ast.Inspect(n.N, func(x ast.Node) bool {
				switch s := x.(type) {
				case *ast.FuncLit:
					return false
				case *ast.AssignStmt:
					for _, l := range s.Lhs {
						if st, ok := ast.Unparen(l).(*ast.StarExpr); ok && isDst(st.X) {
							found = true
						}
					}
				case *ast.CallExpr:
					// the destination handed on to a callee that stores for us
					if tv := info.Types[s.Fun]; !tv.IsType() {
						for _, a := range s.Args {
							if isDst(a) {
								found = true
							}
						}
					}
				}
				return true
			})
			return found
		}
		st := g.Select(stores)
		if !r.Check(len(dsts) > 0 && in != nil && len(st) > 0, rule, f.String(), "store:absent", f.Pos(),
			fmt.Sprintf("the unmarshaller has a destination pointer, a text input and %d store(s) through the destination", len(st))) {
			continue
		}
		reach := g.ReachFromEntry(stores, textEmptyEdgeM8(info, in))
		bad := ""
		for _, x := range g.SuccessExits() {
			if reach[x] {
				bad = g.Line(x)
			}
		}
		r.Check(bad == "", rule, f.String(), "success-without-store", f.Pos(),
			"every success exit lies behind a store of the parsed value or behind a branch establishing that the input text is empty"+ifs8(bad != "", " — success exit at "+bad+" reachable with a non-empty input and no store"))
	}
}

// ---------------------------------------------------------------- submatch-guard

// capInfoM8 describes capture group i of a parsed pattern.
type capInfoM8 struct {
	minLen    int  // lower bound of the capture's length in bytes when it participates
	mandatory bool // the capture participates in every match
}

func reMinLenM8(re *syntax.Regexp) int {
	switch re.Op {
	case syntax.OpLiteral:
		return len(re.Rune)
	case syntax.OpCharClass, syntax.OpAnyChar, syntax.OpAnyCharNotNL:
		return 1
	case syntax.OpCapture, syntax.OpPlus:
		return reMinLenM8(re.Sub[0])
	case syntax.OpRepeat:
		return re.Min * reMinLenM8(re.Sub[0])
	case syntax.OpConcat:
		n := 0
		for _, s := range re.Sub {
			n += reMinLenM8(s)
		}
		return n
	case syntax.OpAlternate:
		best := -1
		for _, s := range re.Sub {
			if m := reMinLenM8(s); best < 0 || m < best {
				best = m
			}
		}
		if best < 0 {
			best = 0
		}
		return best
	}
	return 0 // star, quest, empty-width operators, no-match
}

func reCapsM8(re *syntax.Regexp, mandatory bool, out map[int]capInfoM8) {
	switch re.Op {
	case syntax.OpCapture:
		out[re.Cap] = capInfoM8{reMinLenM8(re.Sub[0]), mandatory}
		reCapsM8(re.Sub[0], mandatory, out)
	case syntax.OpConcat:
		for _, s := range re.Sub {
			reCapsM8(s, mandatory, out)
		}
	case syntax.OpPlus:
		reCapsM8(re.Sub[0], mandatory, out)
	case syntax.OpRepeat:
		reCapsM8(re.Sub[0], mandatory && re.Min >= 1, out)
	default:
		for _, s := range re.Sub {
			reCapsM8(s, false, out)
		}
	}
}

// rePatternsM8 resolves the regular expressions that expression recv (the
// receiver of a Find* call inside f) can denote: a package-level variable
// initialised with regexp.MustCompile/Compile of a constant, or a parameter of
// f that every call site inside the package binds to such a variable.
func rePatternsM8(p *core.Prog, f *core.Func, recv ast.Expr) (pats []string, ok bool) {
	pk := p.Pkg(tomlPk8)
	info := pk.TypesInfo
	var ofVar func(o types.Object) (string, bool)
	ofVar = func(o types.Object) (string, bool) {
		v, isVar := o.(*types.Var)
		if !isVar || v.Pkg() == nil || v.Parent() != v.Pkg().Scope() {
			return "", false
		}
		for _, file := range pk.Syntax {
			for _, d := range file.Decls {
				gd, isGen := d.(*ast.GenDecl)
				if !isGen || gd.Tok != token.VAR {
					continue
				}
				for _, sp := range gd.Specs {
					vs := sp.(*ast.ValueSpec)
					for i, nm := range vs.Names {
						if info.Defs[nm] != o || len(vs.Values) != len(vs.Names) {
							continue
						}
						c, isCall := ast.Unparen(vs.Values[i]).(*ast.CallExpr)
						if !isCall || len(c.Args) != 1 || !call("regexp.MustCompile", "regexp.Compile")(info, c) {
							return "", false
						}
						tv := info.Types[c.Args[0]]
						if tv.Value == nil || tv.Value.Kind() != constant.String {
							return "", false
						}
						return constant.StringVal(tv.Value), true
					}
				}
			}
		}
		return "", false
	}
	o := core.ObjOf(info, ast.Unparen(recv))
	if o == nil {
		return nil, false
	}
	if s, isPkgVar := ofVar(o); isPkgVar {
		return []string{s}, true
	}
	sig := f.Obj.Type().(*types.Signature)
	idx := core.ParamIndex(sig, o)
	if idx < 0 {
		return nil, false
	}
	// the single-definition rule: the parameter must not be reassigned
	if len(core.AssignsTo8(info, f.Decl.Body, o)) > 0 {
		return nil, false
	}
	sites := 0
	for _, cf := range p.Funcs(tomlPk8) {
		if cf.Decl.Body == nil {
			continue
		}
		okAll := true
		ast.Inspect(cf.Decl.Body, func(n ast.Node) bool {
			c, isCall := n.(*ast.CallExpr)
			if !isCall {
				return true
			}
			fun := ast.Unparen(c.Fun)
			if ix, isIx := fun.(*ast.IndexExpr); isIx {
				fun = ix.X
			} else if ix, isIx := fun.(*ast.IndexListExpr); isIx {
				fun = ix.X
			}
			id, isId := fun.(*ast.Ident)
			if !isId || info.Uses[id] != types.Object(f.Obj) {
				return true
			}
			sites++
			if idx >= len(c.Args) {
				okAll = false
				return true
			}
			s, isPkgVar := ofVar(core.ObjOf(info, ast.Unparen(c.Args[idx])))
			if !isPkgVar {
				okAll = false
				return true
			}
			pats = append(pats, s)
			return true
		})
		if !okAll {
			return nil, false
		}
	}
	// the function value must not escape (otherwise unseen callers could pass any regexp)
	uses := 0
	for _, u := range info.Uses {
		if u == types.Object(f.Obj) {
			uses++
		}
	}
	if sites == 0 || uses != sites {
		return nil, false
	}
	return pats, true
}

func c34mSubmatch(p *core.Prog, r *core.Report) {
	const rule = "submatch-guard"
	find := call("regexp.Regexp.FindSubmatch", "regexp.Regexp.FindStringSubmatch")
	sites, indexed := 0, 0
	for _, f := range p.Funcs(tomlPk8) {
		if f.Decl.Body == nil {
			continue
		}
		info := f.Info()
		for _, fc := range core.AllCalls(info, f.Decl.Body, find) {
			sites++
			r.Saw(f)
			g := f.GraphOf8(fc.Pos())
			pos := p.Pos(fc.Pos())
			// the match must be bound to a single-definition local
			var m types.Object
			ast.Inspect(g.Body, func(n ast.Node) bool {
				if as, ok := n.(*ast.AssignStmt); ok && len(as.Lhs) == 1 && len(as.Rhs) == 1 && ast.Unparen(as.Rhs[0]) == ast.Expr(fc) {
					m = core.ObjOf(info, as.Lhs[0])
				}
				return true
			})
			if m == nil {
				// used directly (e.g. `if re.FindSubmatch(x) != nil`): nothing is indexed through a name
				if par := enclosingIndexM8(g.Body, fc); par != nil {
					r.Bad(rule, f.String(), "match-indexed-unnamed", pos, "the result of FindSubmatch is indexed in place, without a nil test")
				}
				continue
			}
			if len(core.AssignsTo8(info, g.Body, m)) != 1 {
				r.Bad(rule, f.String(), "match-reassigned", pos, "the match variable is assigned more than once; the nil test cannot be tied to the indexing")
				continue
			}
			recv := core.Recv(fc)
			pats, resolved := rePatternsM8(p, f, recv)
			var caps []map[int]capInfoM8
			maxCap := -1
			if resolved {
				for _, s := range pats {
					re, err := syntax.Parse(s, syntax.Perl)
					if err != nil {
						resolved = false
						break
					}
					cm := map[int]capInfoM8{}
					reCapsM8(re, true, cm)
					caps = append(caps, cm)
					if mc := re.MaxCap(); maxCap < 0 || mc < maxCap {
						maxCap = mc
					}
				}
			}
			isM := func(e ast.Expr) bool { return core.ObjOf(info, ast.Unparen(e)) == m }
			// group index of an expression m[i] (through single-definition temporaries)
			groupOf := func(e ast.Expr) (int64, bool) {
				e = core.ResolveLocal(info, g.Body, e)
				ix, ok := ast.Unparen(e).(*ast.IndexExpr)
				if !ok || !isM(ix.X) {
					return 0, false
				}
				return core.ConstInt(info, ix.Index)
			}
			// edges that establish len(x) > k for x accepted by isX
			lenAbove := func(isX func(ast.Expr) bool, k int64) core.EdgePred {
				return core.AtomEdge(func(x ast.Expr, val bool) bool {
					a, eval, ok := core.LenCmp(info, x)
					if !ok || !isX(a) {
						return false
					}
					for n := int64(0); n <= k; n++ {
						if eval(n) == val {
							return false
						}
					}
					return true
				})
			}
			ast.Inspect(g.Body, func(n ast.Node) bool {
				if _, isLit := n.(*ast.FuncLit); isLit {
					return false
				}
				ix, ok := n.(*ast.IndexExpr)
				if !ok {
					return true
				}
				node := g.NodeOf(ix)
				if node == nil {
					return true
				}
				if isM(ix.X) {
					// ---- m[i]
					indexed++
					i, isConst := core.ConstInt(info, ix.Index)
					guard := core.OrEdge(g.NilEdge(isM, false), lenAbove(isM, 0))
					if isConst && i > 0 {
						guard = core.OrEdge(guard, lenAbove(isM, i))
					}
					what := "match-index"
					if isConst {
						what = fmt.Sprintf("match-index:%d", i)
					}
					r.Check(len(g.Bypassing8([]*core.Node{node}, guard)) == 0, rule, f.String(), what, p.Pos(ix.Pos()),
						"the FindSubmatch result is indexed only where it is known to be non-nil (a match exists)")
					if resolved && isConst {
						r.Check(i <= int64(maxCap), rule, f.String(), fmt.Sprintf("group-exists:%d", i), p.Pos(ix.Pos()),
							fmt.Sprintf("group %d exists in every pattern that reaches this call (fewest groups: %d)", i, maxCap))
					}
					return true
				}
				// ---- m[i][j]
				gi, isGroup := groupOf(ix.X)
				if !isGroup {
					return true
				}
				if tv := info.Types[ix.X]; tv.Type != nil {
					if _, isSlice := tv.Type.Underlying().(*types.Slice); !isSlice {
						if b, isBasic := tv.Type.Underlying().(*types.Basic); !isBasic || b.Info()&types.IsString == 0 {
							return true
						}
					}
				}
				j, isConst := core.ConstInt(info, ix.Index)
				what := fmt.Sprintf("group-byte:%d", gi)
				if !isConst {
					r.Bad(rule, f.String(), what, p.Pos(ix.Pos()), "a capture is indexed with a non-constant index")
					return true
				}
				safeByPattern := resolved
				for _, cm := range caps {
					ci, has := cm[int(gi)]
					if !has || !ci.mandatory || int64(ci.minLen) <= j {
						safeByPattern = false
					}
				}
				if safeByPattern {
					r.Ok(rule, f.String(), p.Pos(ix.Pos()), fmt.Sprintf("byte %d of group %d: the group is mandatory and at least %d byte(s) long in every pattern reaching this call", j, gi, j+1))
					return true
				}
				isGrp := func(e ast.Expr) bool {
					k, ok := groupOf(e)
					return ok && k == gi
				}
				r.Check(len(g.Bypassing8([]*core.Node{node}, lenAbove(isGrp, j))) == 0, rule, f.String(), what, p.Pos(ix.Pos()),
					fmt.Sprintf("byte %d of group %d is read only behind a branch establishing len(group) > %d (the group can be empty or absent in the pattern%s)", j, gi, j, ifs8(!resolved, "; pattern not resolvable")))
				return true
			})
		}
	}
	r.Check(sites >= 1 && indexed >= 1, rule, tomlPk8, "sites:count", "-", fmt.Sprintf("%d FindSubmatch call(s), %d index expression(s) on their results (today 2 / 5; at least one each)", sites, indexed))
}

// enclosingIndexM8 returns the index expression whose operand is exactly c.
func enclosingIndexM8(root ast.Node, c *ast.CallExpr) *ast.IndexExpr {
	var out *ast.IndexExpr
	ast.Inspect(root, func(n ast.Node) bool {
		if ix, ok := n.(*ast.IndexExpr); ok && ast.Unparen(ix.X) == ast.Expr(c) {
			out = ix
		}
		return true
	})
	return out
}

// ---------------------------------------------------------------- suffix-appended

func c34mSuffixAppended(p *core.Prog, r *core.Report) {
	const rule = "suffix-appended"
	f := r.Need(p, tomlPk8, "marshalSizeV1")
	if f == nil {
		return
	}
	info := f.Info()
	g := f.Graph()
	appendRune := call("unicode/utf8.AppendRune")
	calls := core.AllCalls(info, f.Decl.Body, appendRune)
	if !r.Check(len(calls) >= 1, rule, f.String(), "AppendRune:absent", f.Pos(), "the suffix is appended with utf8.AppendRune") {
		return
	}
	for _, c := range calls {
		if len(c.Args) != 2 {
			continue
		}
		s := core.ObjOf(info, ast.Unparen(c.Args[1]))
		pos := p.Pos(c.Pos())
		if s == nil {
			if tv := info.Types[c.Args[1]]; tv.Value != nil {
				continue // a constant rune appended unconditionally is not the chosen suffix
			}
			r.Bad(rule, f.String(), "suffix-form", pos, "the appended rune is not a plain local variable")
			continue
		}
		var nonZero []*core.Node
		form := true
		for _, a := range core.AssignsTo8(info, g.Body, s) {
			if a.Rhs == nil && a.Index == -1 {
				continue // `var suffix rune`: zero
			}
			v, isC := core.IntConst8(info, a.Rhs)
			if a.Index != -1 || !isC {
				form = false
				continue
			}
			if constant.Sign(v) != 0 {
				if n := g.NodeOf(a.Stmt); n != nil {
					nonZero = append(nonZero, n)
				}
			}
		}
		if !r.Check(form && len(nonZero) >= 1, rule, f.String(), "suffix-form", pos, fmt.Sprintf("the suffix variable is only assigned rune constants (%d non-zero assignment(s))", len(nonZero))) {
			continue
		}
		isS := core.IsObj(info, s)
		zeroEdge := core.EdgeEstablishing(core.NonZeroFact(info, isS, false, false))
		nonZeroEdge := core.EdgeEstablishing(core.NonZeroFact(info, isS, true, false))
		appendNode := g.NodeOf(c)
		isAppend := func(n *core.Node) bool { return n == appendNode }
		// (a) chosen ⇒ appended
		bad := ""
		for _, d := range nonZero {
			reach := g.Reach(core.After(d, nil), isAppend, zeroEdge)
			for _, x := range core.X1ExitsIn(reach) {
				bad = g.Line(d) + " → exit " + g.Line(x)
			}
		}
		r.Check(bad == "", rule, f.String(), "suffix-dropped", pos, "every path from a case that chose a suffix to the exit appends it"+ifs8(bad != "", " — bypassed: "+bad))
		// (b) not chosen ⇒ nothing appended
		isDef := func(n *core.Node) bool {
			for _, d := range nonZero {
				if d == n {
					return true
				}
			}
			return false
		}
		reach := g.ReachFromEntry(isDef, nonZeroEdge)
		r.Check(!reach[appendNode], rule, f.String(), "suffix-spurious", pos, "AppendRune is not reachable on a path that chose no suffix (a NUL rune would be appended to a plain number)")
	}
}

// ---------------------------------------------------------------- sign-magnitude

func c34mSign(p *core.Prog, r *core.Report) {
	const rule = "sign-magnitude"
	f := r.Need(p, tomlPk8, "parseBytesSigned")
	if f == nil {
		return
	}
	info := f.Info()
	g := f.Graph()
	// the unsigned magnitude parser: humanize.ParseBytes, parseBytesUnsigned, or a helper of
	// package toml returning (uint64, error) that wraps one of them
	magnitude := call(append([]string{"github.com/dustin/go-humanize.ParseBytes", "toml.parseBytesUnsigned"}, tomlParserWrappers(p, func(sig *types.Signature) bool {
		b, ok := sig.Results().At(0).Type().Underlying().(*types.Basic)
		return ok && b.Kind() == types.Uint64
	})...)...)
	mcalls := core.AllCalls(info, f.Decl.Body, magnitude)
	if !r.Check(len(mcalls) == 1, rule, f.String(), "magnitude-parse", f.Pos(), fmt.Sprintf("%d call(s) of the unsigned magnitude parser (exactly 1 confirmed by reading)", len(mcalls))) {
		return
	}
	var v types.Object
	ast.Inspect(f.Decl.Body, func(n ast.Node) bool {
		if as, ok := n.(*ast.AssignStmt); ok && len(as.Rhs) == 1 && len(as.Lhs) == 2 && ast.Unparen(as.Rhs[0]) == ast.Expr(mcalls[0]) {
			v = core.ObjOf(info, as.Lhs[0])
		}
		return true
	})
	if !r.Check(v != nil && len(core.AssignsTo8(info, f.Decl.Body, v)) == 1, rule, f.String(), "magnitude-var", p.Pos(mcalls[0].Pos()), "the magnitude is bound once to a local variable") {
		return
	}
	mnode := g.NodeOf(mcalls[0])

	// the sign atom: `x == '-'` / `x != '-'` / `x == "-"` / strings.HasPrefix(x, "-")
	isMinus := func(e ast.Expr) bool {
		tv, ok := info.Types[e]
		if !ok || tv.Value == nil {
			return false
		}
		switch tv.Value.Kind() {
		case constant.String:
			return constant.StringVal(tv.Value) == "-"
		case constant.Int:
			i, exact := constant.Int64Val(tv.Value)
			return exact && i == '-'
		}
		return false
	}
	signAtom := func(x ast.Expr, val bool) (is, seen bool) {
		switch e := ast.Unparen(x).(type) {
		case *ast.BinaryExpr:
			if (e.Op == token.EQL || e.Op == token.NEQ) && (isMinus(e.X) != isMinus(e.Y)) {
				return true, (e.Op == token.EQL) == val
			}
		case *ast.CallExpr:
			if call("strings.HasPrefix", "bytes.HasPrefix")(info, e) && len(e.Args) == 2 && isMinus(e.Args[1]) {
				return true, val
			}
		}
		return false, false
	}
	signSeen := core.AtomEdge(func(x ast.Expr, val bool) bool { is, seen := signAtom(x, val); return is && seen })
	signAbsent := core.AtomEdge(func(x ast.Expr, val bool) bool { is, seen := signAtom(x, val); return is && !seen })
	if !r.Check(g.HasEdge8(signSeen), rule, f.String(), "sign-test:absent", f.Pos(), "a branch compares the leading rune/prefix with '-'") {
		return
	}

	// sign flags: boolean locals assigned constants only; `true` only behind the sign test
	negEdge, posEdge := signSeen, signAbsent
	for _, o := range localBoolsM8(info, f.Decl.Body) {
		as := core.AssignsTo8(info, f.Decl.Body, o)
		var trues, falses []*core.Node
		constOnly := true
		for _, a := range as {
			switch {
			case a.Rhs == nil && a.Index == -1:
				falses = append(falses, g.NodeOf(a.Stmt))
			case a.Index == -1 && core.IsConstBool8(info, a.Rhs, true):
				trues = append(trues, g.NodeOf(a.Stmt))
			case a.Index == -1 && core.IsConstBool8(info, a.Rhs, false):
				falses = append(falses, g.NodeOf(a.Stmt))
			default:
				constOnly = false
			}
		}
		hasNil := false
		for _, t := range trues {
			if t == nil {
				hasNil = true
			}
		}
		if !constOnly || len(trues) == 0 || hasNil {
			continue
		}
		// is this flag about the sign at all? only if some `true` store lies behind the
		// sign test; then all of them must.
		unsigned := g.Bypassing8(trues, signSeen)
		if len(unsigned) == len(trues) {
			continue
		}
		pos := g.Line(trues[0])
		if !r.Check(len(unsigned) == 0, rule, f.String(), "flag-set-without-sign", pos, "the sign flag is set to true only where the leading rune equals '-'") {
			continue
		}
		// flag == false must mean "no sign": after a seen sign the flag is set before the magnitude is parsed,
		// and it is never reset afterwards
		okFalse := len(falses) <= 1
		isTrueStore := func(n *core.Node) bool {
			for _, t := range trues {
				if t == n {
					return true
				}
			}
			return false
		}
		for _, n := range g.Nodes {
			for _, e := range n.Succ {
				if signSeen(e) {
					if g.Reach([]*core.Node{e.To}, isTrueStore, nil)[mnode] {
						okFalse = false
					}
				}
			}
		}
		for _, t := range trues {
			reach := g.Reach(core.After(t, nil), nil, nil)
			for _, fl := range falses {
				if fl != nil && reach[fl] {
					okFalse = false
				}
			}
		}
		if !r.Check(okFalse, rule, f.String(), "flag-not-set-after-sign", pos, "once the '-' was seen the flag is set before the magnitude is parsed and is not reset") {
			continue
		}
		negEdge = core.OrEdge(negEdge, core.EdgeEstablishing(core.BoolVarFact(info, o, true)))
		posEdge = core.OrEdge(posEdge, core.EdgeEstablishing(core.BoolVarFact(info, o, false)))
	}

	// classify the success returns
	succ := map[*core.Node]bool{}
	for _, x := range g.SuccessExits() {
		succ[x] = true
	}
	nNeg, nPos := 0, 0
	for _, x := range g.Nodes {
		rs, ok := x.N.(*ast.ReturnStmt)
		if !ok || !succ[x] || len(rs.Results) == 0 {
			continue
		}
		res := core.ResolveLocal(info, f.Decl.Body, rs.Results[0])
		pos := g.Line(x)
		if tv := info.Types[res]; tv.Value != nil {
			k := constant.ToInt(tv.Value)
			if k.Kind() != constant.Int || constant.Sign(k) >= 0 {
				continue
			}
			nNeg++
			abs := constant.UnaryOp(token.SUB, k, 0)
			eqMag := core.CmpFactEdge8(func(c core.Cmp8) bool {
				if c.Op != token.EQL || core.ObjOf(info, c.L) != v {
					return false
				}
				kv, isC := core.IntConst8(info, c.R)
				return isC && constant.Compare(kv, token.EQL, abs)
			})
			r.Check(len(g.Bypassing8([]*core.Node{x}, negEdge)) == 0, rule, f.String(), "negative-constant-without-sign", pos, "the negative constant result is returned only where the '-' sign was seen")
			r.Check(len(g.Bypassing8([]*core.Node{x}, eqMag)) == 0, rule, f.String(), "negative-constant-magnitude", pos,
				fmt.Sprintf("the constant result %s is returned only where the magnitude equals %s", k.ExactString(), abs.ExactString()))
			continue
		}
		if !core.X1MentionsObj(info, res, v) {
			continue
		}
		if u, isNeg := ast.Unparen(res).(*ast.UnaryExpr); isNeg && u.Op == token.SUB {
			nNeg++
			r.Check(len(g.Bypassing8([]*core.Node{x}, negEdge)) == 0, rule, f.String(), "negated-without-sign", pos, "the negated magnitude is returned only where the '-' sign was seen")
			continue
		}
		nPos++
		r.Check(len(g.Bypassing8([]*core.Node{x}, posEdge)) == 0, rule, f.String(), "plain-with-sign", pos, "the un-negated magnitude is returned only where no '-' sign was seen")
	}
	r.Check(nNeg >= 1 && nPos >= 1, rule, f.String(), "returns:count", f.Pos(), fmt.Sprintf("%d negative-valued and %d plain success return(s) classified (>= 1 each)", nNeg, nPos))
}

// localBoolsM8 lists the boolean local variables declared in body (in source order).
func localBoolsM8(info *types.Info, body ast.Node) []types.Object {
	var out []types.Object
	seen := map[types.Object]bool{}
	ast.Inspect(body, func(n ast.Node) bool {
		id, ok := n.(*ast.Ident)
		if !ok {
			return true
		}
		o, isVar := info.Defs[id].(*types.Var)
		if !isVar || o.IsField() || seen[o] {
			return true
		}
		if b, isB := o.Type().Underlying().(*types.Basic); isB && b.Kind() == types.Bool {
			seen[o] = true
			out = append(out, o)
		}
		return true
	})
	return out
}
