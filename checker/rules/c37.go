package rules

import "verif/checker/core"

// genExceptions: template instantiations that legitimately differ from their
// siblings, each confirmed by reading (discovered on today's tree).
var genExceptions = map[string]string{
	"encodeUnsignedValuesBlock": "unsigned values are encoded through the integer encoder: converts v.value with int64(...) where the other types pass it unchanged",
}

func init() {
	register(&Prop{
		ID:       "C37",
		Patterns: []string{"./tsdb/cursors", "./tsdb/engine/tsm1"},
		Level:    "other",
		Technique: "static analysis: token-normal-form comparison of template instantiations (sibling uniformity) + lockstep rule for the parallel Timestamps/Values slices",
		Explanation: "The property quantifies over every value type; the array algebra is generated once per type (Float, Integer, Unsigned, String, Boolean). " +
			"Decided: (1) sibling uniformity — in tsdb/cursors/arrayvalues.gen.go and tsdb/engine/tsm1/encoding.gen.go every group of functions that differ only in the value-type token has token-identical bodies up to that token (and the zero literal of the type), so the algebra exercised by the pinned tsdb/cursors tests for some types is the same code for all types; " +
			"(2) parallel-array lockstep — in every *Array method each statement that slices/copies/appends/stores Timestamps has an identical twin on Values in the same order (field name and ts/vs aliases abstracted), so timestamps and values cannot drift apart in Exclude/Include/Merge.",
		NotCovered:  "the algebra itself (that Merge is a union with right bias, that FindRange returns correct insertion points): value-level. An edit applied consistently to all five instantiations is invisible to the sibling rule.",
		Assumptions: []string{"the Float instantiation is the comparison reference; when all siblings disagree with it the reference is blamed"},
		Run: func(p *core.Prog, r *core.Report, tier string) {
			core.RuleSiblings(r, p, "tsdb/cursors", "arrayvalues.gen.go", genExceptions, 9)
			core.RuleSiblings(r, p, tsm1, "encoding.gen.go", genExceptions, 10)
			core.RuleLockstep(r, p, "tsdb/cursors", "arrayvalues.gen.go", "Timestamps", "Values", 15)
		},
	})
}
