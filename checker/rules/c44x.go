package rules

import (
	"go/types"

	"verif/checker/core"
)

// A session that was removed (sign-out, expiry) must stay removed: renewing it
// may only UPDATE a record that is still stored. The HTTP middleware does
// FindSession and RenewSession as two separate calls, so a sign-out can land
// between them; the storage layer therefore has to look the record up again and
// fail when it is gone before it writes.
func init() {
	extend("C44", "session renewal never revives a removed session: Storage.RefreshSession (re)writes the session record only on the success branch of a lookup of that session in the store, made in the same call, and is keyed by the id — not by a caller-held session object; Service.RenewSession delegates to it; DeleteSession deletes both the record and the key index.",
		[]string{"./session"}, func(p *core.Prog, r *core.Report, tier string) {
			const rule = "renew-does-not-revive"
			if f := r.Need(p, "session", "Storage.RefreshSession"); f != nil {
				g := f.Graph()
				info := f.Info()
				lookup := call("session.Storage.FindSessionByID", "session.Store.Get")
				write := call("session.Storage.CreateSession", "session.Store.Set")
				writes := g.Select(g.Calling(write))
				looks := g.Select(g.Calling(lookup))
				r.Check(len(writes) >= 1, rule, f.String(), "write:absent", f.Pos(), "the renewed session is written")
				if r.Check(len(looks) >= 1, rule, f.String(), "lookup:absent", f.Pos(), "the stored session is looked up again inside the renewal (a caller-held copy may be stale: the session can have been removed since it was found)") {
					// every write is reachable only through the success edge of a lookup
					var succ []*core.Edge
					for _, n := range looks {
						if _, ok, has := g.ErrEdges(n); has && ok != nil {
							succ = append(succ, ok)
						}
					}
					if r.Check(len(succ) >= 1, rule, f.String(), "lookup-unchecked", g.Line(looks[0]), "the lookup's error is tested") {
						reach := g.ReachFromEntry(nil, func(e *core.Edge) bool {
							for _, s := range succ {
								if e == s {
									return true
								}
							}
							return false
						})
						for _, w := range writes {
							r.Check(!reach[w], rule, f.String(), "write-without-lookup", g.Line(w), "the session is written only after it was found in the store")
						}
					}
					// what is written is the looked-up session, not a parameter
					for _, w := range writes {
						for _, c := range core.CallsIn(info, w.N, write, core.WalkOpts{}) {
							for _, a := range c.Args {
								if o := core.ObjOf(info, a); o != nil && isParamOf(f, o) && !core.IsErrorType(o.Type()) && o.Name() != "ctx" {
									r.Bad(rule, f.String(), "writes-caller-copy", p.Pos(c.Pos()), "the record written is a caller-supplied session object, not the one just read from the store")
								}
							}
						}
					}
				}
			}
			if f := r.Need(p, "session", "Service.RenewSession"); f != nil {
				core.RuleMustPass(r, f, rule, "Store.RefreshSession", call("session.Store.RefreshSession", "session.Storage.RefreshSession"), false)
			}
			if f := r.Need(p, "session", "Storage.DeleteSession"); f != nil {
				n := len(core.AllCalls(f.Info(), f.Decl.Body, call("session.Store.Delete")))
				r.Check(n >= 2, rule, f.String(), "delete-both", f.Pos(), "sign-out removes the session record and its key index")
				core.RuleErrorsUsed(r, f, rule, "Store.Delete", call("session.Store.Delete"), false, 2)
			}
		})
}

// isParamOf reports whether o is one of f's parameters.
func isParamOf(f *core.Func, o types.Object) bool {
	sig, _ := f.Obj.Type().(*types.Signature)
	if sig == nil {
		return false
	}
	for i := 0; i < sig.Params().Len(); i++ {
		if sig.Params().At(i) == o {
			return true
		}
	}
	return false
}
