package rules

import (
	"fmt"
	"go/ast"
	"go/token"
	"go/types"
	"sort"
	"strings"

	"verif/checker/core"
)

// C22, part 3: limit, fill, interval and WHERE-filter iterators.

func firstOf(ns []*core.Node) *core.Node {
	if len(ns) > 0 {
		return ns[0]
	}
	return nil
}

// pointReturn selects `return p, …` nodes whose first result is not the nil constant.
func pointReturn(info *types.Info) core.NodePred {
	return func(nd *core.Node) bool {
		rs, ok := nd.N.(*ast.ReturnStmt)
		return ok && len(nd.Succ) == 0 && len(rs.Results) == 2 && !core.IsNilIdent(info, rs.Results[0])
	}
}

// ---------------------------------------------------------------- (6) limit

func (c *c22) limit() {
	const rule = "limit"
	info := c.info
	limF, offF := core.LookupField(c.pk, "IteratorOptions", "Limit"), core.LookupField(c.pk, "IteratorOptions", "Offset")
	if !c.r.Check(limF != nil && offF != nil, "anchor", qP+".IteratorOptions.Limit/Offset", "unresolved", "", "fields resolved") {
		return
	}
	zero := func(i *types.Info) func(ast.Expr) bool { return core.X1IsIntConst(i, 0) }
	// noLimit: the edge establishes Limit <= 0 and Offset <= 0 (through any receiver)
	noLimit := func(cc *c23) core.EdgePred {
		isL := func(e ast.Expr) bool { return core.FieldOf(cc.info, cc.res.Resolve(e)) == limF }
		isO := func(e ast.Expr) bool { return core.FieldOf(cc.info, cc.res.Resolve(e)) == offF }
		a, b := cc.cmpEdge(isL, zero(cc.info), core.X1LE), cc.cmpEdge(isO, zero(cc.info), core.X1LE)
		return func(e *core.Edge) bool { return a(e) && b(e) }
	}
	// someLimit: the edge establishes Limit > 0 or Offset > 0
	someLimit := func(cc *c23) core.EdgePred {
		isL := func(e ast.Expr) bool { return core.FieldOf(cc.info, cc.res.Resolve(e)) == limF }
		isO := func(e ast.Expr) bool { return core.FieldOf(cc.info, cc.res.Resolve(e)) == offF }
		return cc.factEdge(core.X1AnyFact(core.X1CmpFact(isL, zero(cc.info), core.X1GT), core.X1CmpFact(isO, zero(cc.info), core.X1GT)))
	}
	// ---- (a) planner wrappers
	for _, fn := range []string{"buildAuxIterator", "buildFieldIterator"} {
		f := c.r.Need(c.p, qP, fn)
		if f == nil {
			continue
		}
		g := f.Graph()
		wrap := g.Calling(call(qP + ".NewLimitIterator"))
		c.r.Check(len(g.Select(wrap)) >= 1, rule, f.String(), "NewLimitIterator:absent", f.Pos(), "the limit iterator is constructed")
		reach := g.ReachFromEntry(wrap, noLimit(c.c23))
		var bad *core.Node
		for _, x := range g.SuccessExits() {
			if reach[x] && bad == nil {
				bad = x
			}
		}
		c.r.Check(bad == nil, rule, f.String(), "unlimited-result", c.line(g, bad), "every successful path either wraps the iterator in NewLimitIterator or established Limit <= 0 and Offset <= 0")
		early := g.N1ReachableWithout(wrap, nil, someLimit(c.c23))
		c.r.Check(early == nil, rule, f.String(), "limit-iterator-without-limit", c.line(g, early), "the limit iterator is constructed only on a path that established Limit > 0 or Offset > 0")
		dd := g.Calling(call(qP+".NewDedupeIterator", qP+".newFloatFastDedupeIterator"))
		late := g.N1Between(g.Select(wrap), nil, dd)
		c.r.Check(late == nil, rule, f.String(), "dedupe-after-limit", c.line(g, late), "rows are deduplicated before they are counted")
	}
	// ---- (a') engine: the merged iterator of a tag set
	if f := c.r.Need(c.p, tsm1, "Engine.createVarRefIterator"); f != nil {
		ti := c.tsm.info
		n := 0
		for _, g := range f.Graphs() {
			for _, nd := range g.Nodes {
				as, ok := nd.N.(*ast.AssignStmt)
				if !ok || len(as.Rhs) != 1 || len(as.Lhs) != 1 {
					continue
				}
				cl, ok := ast.Unparen(as.Rhs[0]).(*ast.CallExpr)
				if !ok || !core.Builtin("append")(ti, cl) || len(cl.Args) != 2 {
					continue
				}
				v := core.ObjOf(ti, ast.Unparen(cl.Args[1]))
				if v == nil || c.pointKindOf(v.Type()) != "" || !strings.HasSuffix(v.Type().String(), "query.Iterator") {
					continue
				}
				n++
				wrap := func(x *core.Node) bool {
					a, ok := x.N.(*ast.AssignStmt)
					if !ok || len(a.Lhs) != 1 || len(a.Rhs) != 1 || core.ObjOf(ti, a.Lhs[0]) != v {
						return false
					}
					w, ok := ast.Unparen(a.Rhs[0]).(*ast.CallExpr)
					return ok && call(tsm1+".newLimitIterator", "*"+qP+".NewLimitIterator")(ti, w)
				}
				c.r.Check(len(g.Select(wrap)) >= 2, rule, f.String(), "limit-wrappers:absent", f.Pos(), "the merged iterator is wrapped in a limit iterator")
				bad := g.N1ReachableWithout(func(x *core.Node) bool { return x == nd }, wrap, noLimit(c.tsm))
				c.r.Check(bad == nil, rule, f.String(), "unlimited-series", g.Line(nd), "a tag set's iterator is appended only after it was wrapped in a limit iterator, or on a path that established Limit <= 0 and Offset <= 0")
			}
		}
		for _, g := range f.Graphs() {
			anyWrap := g.Calling(call(tsm1+".newLimitIterator", "*"+qP+".NewLimitIterator"))
			if len(g.Select(anyWrap)) == 0 || g.Fn == nil || g.Body == f.Decl.Body {
				continue
			}
			early := g.N1ReachableWithout(anyWrap, nil, someLimit(c.tsm))
			c.r.Check(early == nil, rule, f.String(), "limit-iterator-without-limit", c.line(g, early), "a limit iterator (which stops after Limit points) is constructed only on a path that established Limit > 0 or Offset > 0")
		}
		c.r.Check(n >= 1, rule, f.String(), "append:absent", f.Pos(), "iterator appended to the result")
	}
	// ---- (b) query limit iterators
	nQ := 0
	for _, k := range c.kinds {
		typ := lowerFirst(k) + "LimitIterator"
		f := c.r.Need(c.p, qP, typ+".Next")
		nF, optF, prevF := core.LookupField(c.pk, typ, "n"), core.LookupField(c.pk, typ, "opt"), core.LookupField(c.pk, typ, "prev")
		if f == nil || !c.r.Check(nF != nil && optF != nil && prevF != nil, "anchor", qP+"."+typ, "fields:unresolved", "", "fields resolved") {
			continue
		}
		nQ++
		g := f.Inline(nil).G
		isN := c.path(nF)
		isOff, isLim := c.path(optF, offF), c.path(optF, limF)
		read := g.Calling(call(qP + "." + k + "Iterator.Next"))
		incr := g.N1Incr(core.N1Path(info, nF))
		reset := g.N1Assign(token.ASSIGN, core.N1Path(info, nF), core.X1IsIntConst(info, 0))
		emit := pointReturn(info)
		for _, x := range []struct {
			what string
			p    core.NodePred
		}{{"input.Next()", read}, {"n++", incr}, {"n = 0", reset}, {"return p", emit}} {
			c.r.Check(len(g.Select(x.p)) >= 1, rule, f.String(), x.what+":absent", f.Pos(), x.what+" present")
		}
		// once per point
		bad := g.N1Between(g.Select(read), incr, core.AnyOf(emit, read))
		c.r.Check(bad == nil, rule, f.String(), "point-not-counted", c.line(g, bad), "between reading a point and returning it (or reading the next) the counter is incremented")
		bad = g.N1Between(g.Select(incr), read, incr)
		c.r.Check(bad == nil, rule, f.String(), "point-counted-twice", c.line(g, bad), "the counter is incremented once per point")
		// reset only on a new series, and before the increment
		pName := core.N1FieldOfType(types.NewPointer(c.pk.Scope().Lookup(k+"Point").Type()), "Name")
		prevName := core.N1FieldOfType(prevF.Type(), "name")
		isEquals := func(e ast.Expr) bool {
			cl, ok := ast.Unparen(e).(*ast.CallExpr)
			return ok && call(qP+".Tags.Equals")(info, cl)
		}
		newSeries := c.factEdge(core.X1AnyFact(core.X1CmpFact(c.path(pName), c.path(prevF, prevName), core.X1NE), core.X1BoolFact(isEquals, false)))
		bad = g.N1Between(g.Select(read), read, func(x *core.Node) bool {
			return reset(x) && g.Reach(core.X1SuccsOf(g.Select(read)), read, newSeries)[x]
		})
		c.r.Check(bad == nil && pName != nil && prevName != nil, rule, f.String(), "reset-within-series", c.line(g, bad), "n = 0 only on a path that established a different name or different tags than the previous point")
		bad = g.N1Between(g.Select(incr), read, reset)
		c.r.Check(bad == nil, rule, f.String(), "reset-after-count", c.line(g, bad), "the reset precedes the increment (the first point of a series counts as 1)")
		// emission conditions
		b1 := g.N1ReachableWithout(emit, nil, c.cmpEdge(isN, isOff, core.X1GT))
		c.r.Check(b1 == nil, rule, f.String(), "offset-not-skipped", c.line(g, b1), "a point is returned only on a path that established n > Offset")
		nMinusOff := func(e ast.Expr) bool {
			be, ok := c.res.Resolve(e).(*ast.BinaryExpr)
			return ok && be.Op == token.SUB && isN(be.X) && isOff(be.Y)
		}
		within := c.factEdge(core.X1AnyFact(core.X1CmpFact(isLim, zero(info), core.X1LE), core.X1CmpFact(nMinusOff, isLim, core.X1LE)))
		b2 := g.N1ReachableWithout(emit, nil, within)
		c.r.Check(b2 == nil, rule, f.String(), "limit-not-enforced", c.line(g, b2), "a point is returned only on a path that established Limit <= 0 or n − Offset <= Limit")
		// converse: a counted point is skipped only below the offset or beyond the limit
		skip := c.factEdge(core.X1AnyFact(core.X1CmpFact(isN, isOff, core.X1LE), core.X1CmpFact(nMinusOff, isLim, core.X1GT)))
		var lost *core.Node
		for x := range g.Reach(core.X1SuccsOf(g.Select(incr)), emit, skip) {
			if x.N != nil && (read(x) || (core.X1IsExit(x) && !emit(x))) {
				lost = x
			}
		}
		c.r.Check(lost == nil, rule, f.String(), "wanted-point-skipped", c.line(g, lost), "after counting, a point is skipped only on a path that established n <= Offset or n − Offset > Limit")
		// converse: a point of a different series always resets the counter
		sameName := c.cmpEdge(c.path(pName), c.path(prevF, prevName), core.X1EQ)
		sameTags := c.boolEdge(isEquals, true)
		for _, same := range []core.EdgePred{sameName, sameTags} {
			var miss *core.Node
			for x := range g.Reach(core.X1SuccsOf(g.Select(read)), reset, same) {
				if x.N != nil && incr(x) {
					miss = x
				}
			}
			c.r.Check(miss == nil, rule, f.String(), "new-series-not-reset", c.line(g, miss), "the counter is incremented without a reset only on a path that established the same name and the same tags as the previous point")
		}
	}
	c.r.Check(nQ >= 5, rule, qP, "limit-iterators:fewer-than-confirmed", "", fmt.Sprintf("%d query limit iterators examined", nQ))
	// ---- (c) tsm1 limit iterators
	nT := 0
	ti := c.tsm.info
	for _, k := range c.kinds {
		typ := lowerFirst(k) + "LimitIterator"
		f := c.r.Need(c.p, tsm1, typ+".Next")
		nF, optF := core.LookupField(c.tsm.pk, typ, "n"), core.LookupField(c.tsm.pk, typ, "opt")
		if f == nil || !c.r.Check(nF != nil && optF != nil, "anchor", tsm1+"."+typ, "fields:unresolved", "", "fields resolved") {
			continue
		}
		nT++
		g := f.Inline(nil).G
		isN, isOff, isLim := c.tsm.path(nF), c.tsm.path(optF, offF), c.tsm.path(optF, limF)
		incr := g.N1Incr(core.N1Path(ti, nF))
		emit := pointReturn(ti)
		read := g.Calling(call("*" + qP + "." + k + "Iterator.Next"))
		c.r.Check(len(g.Select(incr)) >= 1 && len(g.Select(emit)) >= 1 && len(g.Select(read)) >= 1, rule, f.String(), "read/count/return:absent", f.Pos(), "reads, counts and returns a point")
		bad := g.N1ReachableWithout(emit, incr, nil)
		c.r.Check(bad == nil, rule, f.String(), "point-not-counted", c.line(g, bad), "every returned point was counted")
		nMinusOff := func(e ast.Expr) bool {
			be, ok := c.tsm.res.Resolve(e).(*ast.BinaryExpr)
			return ok && be.Op == token.SUB && isN(be.X) && isOff(be.Y)
		}
		bad = g.N1ReachableWithout(read, nil, c.tsm.cmpEdge(nMinusOff, isLim, core.X1LE))
		c.r.Check(bad == nil, rule, f.String(), "limit-not-enforced", c.line(g, bad), "the input is read only on a path that established n − Offset <= Limit")
	}
	c.r.Check(nT >= 5, rule, tsm1, "limit-iterators:fewer-than-confirmed", "", fmt.Sprintf("%d tsm1 limit iterators examined", nT))
	// ---- (d) SLIMIT / SOFFSET
	qpkg := c.tsm.importPkg("github.com/influxdata/influxdb/v2/" + qP)
	for _, fn := range []string{"Engine.createCallIterator", "Engine.createVarRefIterator"} {
		f := c.r.Need(c.p, tsm1, fn)
		if f == nil || qpkg == nil {
			continue
		}
		g := f.Graph()
		sl, so := core.LookupField(qpkg, "IteratorOptions", "SLimit"), core.LookupField(qpkg, "IteratorOptions", "SOffset")
		lim := g.X1CallingWith(call("*"+qP+".LimitTagSets"), func(cl *ast.CallExpr) bool {
			return len(cl.Args) == 3 && c.tsm.path(sl)(cl.Args[1]) && c.tsm.path(so)(cl.Args[2])
		})
		any := g.Calling(call("*" + qP + ".LimitTagSets"))
		c.r.Check(len(g.Select(lim)) == 1 && len(g.Select(any)) == 1, rule, f.String(), "LimitTagSets(tagSets, SLimit, SOffset)", f.Pos(), "the tag sets are cut with (SLimit, SOffset) in that order")
		mk := g.Calling(call(tsm1 + ".Engine.createTagSetIterators"))
		c.r.Check(len(g.Select(mk)) >= 1, rule, f.String(), "createTagSetIterators:absent", f.Pos(), "series iterators are created")
		bad := g.N1ReachableWithout(mk, lim, nil)
		c.r.Check(bad == nil, rule, f.String(), "series-before-slimit", c.line(g, bad), "series iterators are created only after the tag sets were cut")
		// the loop ranges over the cut tag sets
		okRange := false
		if ls := g.Select(lim); len(ls) == 1 {
			if as, ok := ls[0].N.(*ast.AssignStmt); ok && len(as.Lhs) == 1 {
				v := core.ObjOf(ti, as.Lhs[0])
				ast.Inspect(f.Decl.Body, func(x ast.Node) bool {
					if rs, ok := x.(*ast.RangeStmt); ok && v != nil && core.ObjOf(ti, ast.Unparen(rs.X)) == v && len(core.AllCalls(ti, rs.Body, call(tsm1+".Engine.createTagSetIterators"))) > 0 {
						okRange = true
					}
					return true
				})
			}
		}
		c.r.Check(okRange, rule, f.String(), "loop-over-uncut-tagsets", f.Pos(), "the creation loop ranges over the result of LimitTagSets")
	}
}

// ---------------------------------------------------------------- (7) fill

func (c *c22) fill() {
	const rule = "fill"
	info := c.info
	iq := c.importPkg(influxqlPath)
	fillF := core.LookupField(c.pk, "IteratorOptions", "Fill")
	fvF := core.LookupField(c.pk, "IteratorOptions", "FillValue")
	ivF := core.LookupField(c.pk, "IteratorOptions", "Interval")
	if !c.r.Check(iq != nil && fillF != nil && fvF != nil && ivF != nil, "anchor", qP+".IteratorOptions.Fill", "unresolved", "", "fields resolved") {
		return
	}
	modes := core.ConstsOfType(iq, "FillOption")
	c.r.Check(len(modes) >= 5, rule, influxqlPath, "fill-modes:too-few", "", fmt.Sprintf("%d FillOption constants", len(modes)))
	isFill := func(cc *c23) func(ast.Expr) bool {
		return func(e ast.Expr) bool { return core.FieldOf(cc.info, cc.res.Resolve(e)) == fillF }
	}
	isMode := func(name string) func(ast.Expr) bool {
		return func(e ast.Expr) bool {
			k := core.ConstOf(info, e)
			return k != nil && k.Name() == name && k.Pkg() == iq
		}
	}
	// ---- (a) construction site
	if f := c.r.Need(c.p, qP, "exprIteratorBuilder.buildCallIterator"); f != nil {
		g := f.Graph()
		mk := g.Calling(call(qP + ".NewFillIterator"))
		c.r.Check(len(g.Select(mk)) >= 1, rule, f.String(), "NewFillIterator:absent", f.Pos(), "fill iterator constructed")
		bad := g.N1ReachableWithout(mk, nil, c.cmpEdge(isFill(c.c23), isMode("NoFill"), core.X1NE))
		c.r.Check(bad == nil, rule, f.String(), "fill-iterator-for-fill(none)", c.line(g, bad), "NewFillIterator only on a path that established Fill != NoFill")
		isZero := func(e ast.Expr) bool {
			zc, ok := ast.Unparen(e).(*ast.CallExpr)
			return ok && call(qP+".Interval.IsZero")(info, zc) && core.FieldOf(info, core.Recv(zc)) == ivF
		}
		bad = g.N1ReachableWithout(mk, nil, c.boolEdge(isZero, false))
		c.r.Check(bad == nil, rule, f.String(), "fill-iterator-without-interval", c.line(g, bad), "NewFillIterator only on a path that established a non-zero interval")
	}
	// ---- (b) the five fill iterators
	n := 0
	for _, k := range c.kinds {
		typ := lowerFirst(k) + "FillIterator"
		f := c.r.Need(c.p, qP, typ+".Next")
		ctor := c.r.Need(c.p, qP, "new"+k+"FillIterator")
		optF, prevF, winF := core.LookupField(c.pk, typ, "opt"), core.LookupField(c.pk, typ, "prev"), core.LookupField(c.pk, typ, "window")
		if f == nil || ctor == nil || !c.r.Check(optF != nil && prevF != nil && winF != nil, "anchor", qP+"."+typ, "fields:unresolved", "", "fields resolved") {
			continue
		}
		n++
		g := f.Inline(nil).G
		pt := c.pk.Scope().Lookup(k + "Point").Type()
		vF, nilF := core.N1FieldOfType(pt, "Value"), core.N1FieldOfType(pt, "Nil")
		// mode coverage: a case of a switch on opt.Fill, or a comparison opt.Fill == mode
		modeEdge := func(mode string) core.EdgePred {
			cmp := c.cmpEdge(isFill(c.c23), isMode(mode), core.X1EQ)
			return func(e *core.Edge) bool {
				if e.Tag != nil {
					return e.Branch && isFill(c.c23)(e.Tag) && isMode(mode)(e.Cond)
				}
				return cmp(e)
			}
		}
		tagEdgeTo := func(mode string) []*core.Node {
			var out []*core.Node
			me := modeEdge(mode)
			for _, nd := range g.Nodes {
				for _, e := range nd.Succ {
					if me(e) {
						out = append(out, e.To)
					}
				}
			}
			return out
		}
		var miss []string
		for name := range modes {
			if name != "NoFill" && len(tagEdgeTo(name)) == 0 {
				miss = append(miss, name)
			}
		}
		sort.Strings(miss)
		c.r.Check(len(miss) == 0, rule, f.String(), "unhandled-fill-mode:"+strings.Join(miss, ","), f.Pos(), "Next has a branch for every fill mode but NoFill")
		// the synthesised point is stamped with the window
		nLit := 0
		ast.Inspect(f.Decl.Body, func(x ast.Node) bool {
			cl, ok := x.(*ast.CompositeLit)
			if !ok || !types.Identical(info.TypeOf(cl), pt) {
				return true
			}
			tv := core.N1KeyValue(info, cl, core.N1FieldOfType(pt, "Time"))
			if tv == nil {
				return true // prev reset literal
			}
			nLit++
			for _, fld := range []struct{ pf, wf string }{{"Time", "time"}, {"Name", "name"}, {"Tags", "tags"}} {
				v := core.N1KeyValue(info, cl, core.N1FieldOfType(pt, fld.pf))
				c.r.Check(v != nil && c.path(winF, core.N1FieldOfType(winF.Type(), fld.wf))(v), rule, f.String(), "filled-point:"+fld.pf, c.p.Pos(cl.Pos()), "a synthesised point carries the window's "+fld.wf)
			}
			return true
		})
		c.r.Check(nLit == 1, rule, f.String(), "filled-point:literal", f.Pos(), fmt.Sprintf("%d synthesised point literals", nLit))
		// per mode
		isPVal := func(e ast.Expr) bool { return core.FieldOf(info, e) == vF }
		isPNil := func(e ast.Expr) bool { return core.FieldOf(info, e) == nilF && !c.path(prevF, nilF)(e) }
		setNil := g.N1Assign(token.ASSIGN, isPNil, func(e ast.Expr) bool { return core.X1IsConstBool(info, e, true) })
		setNum := func(nd *core.Node) bool {
			as, ok := nd.N.(*ast.AssignStmt)
			if !ok || len(as.Lhs) < 1 || !isPVal(ast.Unparen(as.Lhs[0])) {
				return false
			}
			return core.X1MentionsField(info, as, fvF)
		}
		if ts := tagEdgeTo("NullFill"); c.r.Check(len(ts) >= 1, rule, f.String(), "NullFill:no-case", f.Pos(), "case NullFill") {
			c.r.Check(len(core.X1ExitsIn(g.Reach(ts, setNil, nil))) == 0, rule, f.String(), "NullFill:value-not-null", f.Pos(), "fill(null): every path sets p.Nil = true")
		}
		if ts := tagEdgeTo("NumberFill"); c.r.Check(len(ts) >= 1, rule, f.String(), "NumberFill:no-case", f.Pos(), "case NumberFill") {
			c.r.Check(len(core.X1ExitsIn(g.Reach(ts, setNum, nil))) == 0, rule, f.String(), "NumberFill:value-not-set", f.Pos(), "fill(<number>): every path sets p.Value from opt.FillValue")
		}
		if ts := tagEdgeTo("PreviousFill"); c.r.Check(len(ts) >= 1, rule, f.String(), "PreviousFill:no-case", f.Pos(), "case PreviousFill") {
			fromPrev := g.N1Assign(token.ASSIGN, isPVal, c.path(prevF, vF))
			c.r.Check(len(g.Select(fromPrev)) >= 1, rule, f.String(), "PreviousFill:copy-absent", f.Pos(), "p.Value = prev.Value present")
			bad := g.N1ReachableWithout(fromPrev, nil, c.boolEdge(c.path(prevF, nilF), false))
			c.r.Check(bad == nil, rule, f.String(), "PreviousFill:copies-missing-previous", c.line(g, bad), "the previous value is copied only on a path that established prev.Nil == false")
			c.r.Check(len(core.X1ExitsIn(g.Reach(ts, core.AnyOf(setNil, fromPrev), nil))) == 0, rule, f.String(), "PreviousFill:value-not-set", f.Pos(), "fill(previous): every path copies the previous value or sets p.Nil = true")
		}
		// the expected time advances by one interval, in the direction of the scan
		winTime := core.N1FieldOfType(winF.Type(), "time")
		ascF := core.LookupField(c.pk, "IteratorOptions", "Ascending")
		durF := core.N1FieldOfType(ivF.Type(), "Duration")
		step := func(tok token.Token) core.NodePred {
			return func(nd *core.Node) bool {
				as, ok := nd.N.(*ast.AssignStmt)
				return ok && as.Tok == tok && len(as.Lhs) == 1 && core.N1Path(info, winF, winTime)(ast.Unparen(as.Lhs[0])) && core.X1MentionsField(info, as.Rhs[0], durF)
			}
		}
		fwd, back := step(token.ADD_ASSIGN), step(token.SUB_ASSIGN)
		if c.r.Check(len(g.Select(fwd)) == 1 && len(g.Select(back)) == 1 && ascF != nil, rule, f.String(), "window-step:absent", f.Pos(), "window.time += / -= Interval.Duration present") {
			bad := g.N1ReachableWithout(fwd, nil, c.boolEdge(c.path(optF, ascF), true))
			c.r.Check(bad == nil, rule, f.String(), "window-step:forward-when-descending", c.line(g, bad), "the expected time moves forward only on a path that established Ascending == true")
			bad = g.N1ReachableWithout(back, nil, c.boolEdge(c.path(optF, ascF), false))
			c.r.Check(bad == nil, rule, f.String(), "window-step:backward-when-ascending", c.line(g, bad), "the expected time moves backward only on a path that established Ascending == false")
			bad = g.N1ReachableWithout(pointReturn(info), core.AnyOf(fwd, back), nil)
			c.r.Check(bad == nil, rule, f.String(), "window-step:skipped", c.line(g, bad), "every returned point (real or synthesised) advances the expected time by one interval")
		}
		// real points are remembered
		remember := g.N1Assign(token.ASSIGN, core.N1Path(info, prevF), core.N1DerefOfType(info, pt))
		c.r.Check(len(g.Select(remember)) >= 1, rule, f.String(), "prev:not-remembered", f.Pos(), "prev = *p for a real point")

		// ---- constructor: count() fills 0
		cg := ctor.Graph()
		toNum := cg.N1Assign(token.ASSIGN, isFill(c.c23), isMode("NumberFill"))
		toZero := cg.N1Assign(token.ASSIGN, func(e ast.Expr) bool { return core.FieldOf(info, e) == fvF }, func(e ast.Expr) bool {
			v := core.ConstVal(info, core.StripConv(info, e))
			return v != nil && (v.ExactString() == "0" || v.ExactString() == `""` || v.ExactString() == "false")
		})
		if c.r.Check(len(cg.Select(toNum)) == 1 && len(cg.Select(toZero)) == 1, rule, ctor.String(), "count-fills-zero:absent", ctor.Pos(), "Fill = NumberFill and FillValue = zero value for count()") {
			nameF := c.callNameField()
			isCount := core.X1CmpFact(func(e ast.Expr) bool { return core.FieldOf(info, e) == nameF }, func(e ast.Expr) bool {
				v := core.ConstVal(info, e)
				return v != nil && v.ExactString() == `"count"`
			}, core.X1EQ)
			both := core.AnyOf(toNum, toZero)
			bad := cg.N1ReachableWithout(both, nil, c.factEdge(isCount))
			c.r.Check(bad == nil, rule, ctor.String(), "zero-fill-for-other-function", c.line(cg, bad), "null fill becomes 0 only on a path that established Call.Name == \"count\"")
			bad = cg.N1ReachableWithout(both, nil, c.cmpEdge(isFill(c.c23), isMode("NullFill"), core.X1EQ))
			c.r.Check(bad == nil, rule, ctor.String(), "zero-fill-for-other-mode", c.line(cg, bad), "… and Fill == NullFill")
		}
	}
	c.r.Check(n >= 5, rule, qP, "fill-iterators:fewer-than-confirmed", "", fmt.Sprintf("%d fill iterators examined", n))
}

// ---------------------------------------------------------------- (8) interval time

func (c *c22) intervalTime() {
	const rule = "interval-time"
	info := c.info
	n := 0
	for _, k := range c.kinds {
		f := c.r.Need(c.p, qP, lowerFirst(k)+"IntervalIterator.Next")
		if f == nil {
			continue
		}
		n++
		g := f.Inline(call(qP + ".IteratorOptions.Window")).G
		pt := c.pk.Scope().Lookup(k + "Point").Type()
		tF := core.N1FieldOfType(pt, "Time")
		isWindow := func(e ast.Expr) bool {
			cl, ok := ast.Unparen(e).(*ast.CallExpr)
			return ok && call(qP+".IteratorOptions.Window")(info, cl) && len(cl.Args) == 1 && c.path(tF)(cl.Args[0])
		}
		stamp := func(nd *core.Node) bool {
			as, ok := nd.N.(*ast.AssignStmt)
			if !ok {
				return false
			}
			// p.Time, _ = opt.Window(p.Time)
			if len(as.Lhs) == 2 && len(as.Rhs) == 1 && core.N1Path(info, tF)(ast.Unparen(as.Lhs[0])) && isWindow(as.Rhs[0]) {
				return true
			}
			// start, _ := opt.Window(p.Time); p.Time = start
			if len(as.Lhs) == 1 && len(as.Rhs) == 1 && core.N1Path(info, tF)(ast.Unparen(as.Lhs[0])) {
				if v := core.ObjOf(info, ast.Unparen(as.Rhs[0])); v != nil {
					if d, ok := core.SingleDef(info, f.Decl.Body, v); ok && d.Index == 0 && d.Rhs != nil && isWindow(d.Rhs) {
						return true
					}
				}
			}
			return false
		}
		c.r.Check(len(g.Select(stamp)) >= 1, rule, f.String(), "stamp:absent", f.Pos(), "p.Time, _ = opt.Window(p.Time) present")
		bad := g.N1ReachableWithout(pointReturn(info), stamp, nil)
		c.r.Check(bad == nil, rule, f.String(), "point-not-stamped", c.line(g, bad), "every returned point was stamped with the start of its window")
	}
	c.r.Check(n >= 5, rule, qP, "interval-iterators:fewer-than-confirmed", "", fmt.Sprintf("%d interval iterators examined", n))
	// the planner wraps every window aggregate in the interval iterator; only a lone
	// selector without GROUP BY time keeps the time of the selected point
	if f := c.r.Need(c.p, qP, "exprIteratorBuilder.buildCallIterator"); f != nil {
		g := f.Graph()
		selF, ivF := core.LookupField(c.pk, "exprIteratorBuilder", "selector"), core.LookupField(c.pk, "IteratorOptions", "Interval")
		wrap := g.Calling(call(qP + ".NewIntervalIterator"))
		isZero := func(e ast.Expr) bool {
			zc, ok := ast.Unparen(e).(*ast.CallExpr)
			return ok && call(qP+".Interval.IsZero")(info, zc) && core.FieldOf(info, core.Recv(zc)) == ivF
		}
		a, b := c.boolEdge(c.path(selF), true), c.boolEdge(isZero, true)
		keepTime := func(e *core.Edge) bool { return a(e) && b(e) }
		reach := g.ReachFromEntry(wrap, keepTime)
		var bad *core.Node
		nRet := 0
		for _, x := range g.SuccessExits() {
			rs, ok := x.N.(*ast.ReturnStmt)
			if !ok || len(rs.Results) != 2 {
				continue
			}
			if _, isVar := ast.Unparen(rs.Results[0]).(*ast.Ident); !isVar {
				continue // a stream / selector builder returned directly
			}
			nRet++
			if reach[x] {
				bad = x
			}
		}
		c.r.Check(selF != nil && ivF != nil && nRet >= 1 && len(g.Select(wrap)) >= 2, rule, f.String(), "interval-wrap:absent", f.Pos(), "aggregate iterators are wrapped in NewIntervalIterator")
		c.r.Check(bad == nil, rule, f.String(), "aggregate-not-stamped", c.line(g, bad), "an aggregate's iterator is returned unwrapped only on a path that established selector == true and a zero interval")
	}
}

// ---------------------------------------------------------------- (9) WHERE filter

func (c *c22) whereFilter() {
	const rule = "where-filter"
	t := c.tsm
	ti := t.info
	n := 0
	for _, k := range c.kinds {
		typ := lowerFirst(k) + "Iterator"
		f := c.r.Need(c.p, tsm1, typ+".Next")
		point, opt, cur := core.LookupField(t.pk, typ, "point"), core.LookupField(t.pk, typ, "opt"), core.LookupField(t.pk, typ, "cur")
		if f == nil || !c.r.Check(point != nil && opt != nil && cur != nil, "anchor", tsm1+"."+typ, "fields:unresolved", "", "fields resolved") {
			continue
		}
		cond := core.N1FieldOfType(opt.Type(), "Condition")
		pTime := core.N1FieldOfType(point.Type(), "Time")
		if cond == nil || pTime == nil {
			continue
		}
		n++
		g := f.Inline(nil).G
		emit := func(nd *core.Node) bool {
			rs, ok := nd.N.(*ast.ReturnStmt)
			if !ok || len(rs.Results) != 2 {
				return false
			}
			u, ok := ast.Unparen(rs.Results[0]).(*ast.UnaryExpr)
			return ok && u.Op == token.AND && core.N1Path(ti, point)(ast.Unparen(u.X))
		}
		c.r.Check(len(g.Select(emit)) >= 1 && len(g.Select(pointReturn(ti))) == len(g.Select(emit)), rule, f.String(), "return-of-point:shape", f.Pos(), "the iterator returns &itr.point")
		isEval := func(e ast.Expr) bool {
			cl, ok := ast.Unparen(e).(*ast.CallExpr)
			return ok && call(influxqlPath+".ValuerEval.EvalBool")(ti, cl) && len(cl.Args) == 1 && t.path(opt, cond)(cl.Args[0])
		}
		pass := t.factEdge(core.X1AnyFact(core.X1NilFact(ti, t.path(opt, cond), true), core.X1BoolFact(isEval, true)))
		bad := g.N1ReachableWithout(emit, nil, pass)
		c.r.Check(bad == nil, rule, f.String(), "unfiltered-point", c.line(g, bad), "a point is returned only on a path that established Condition == nil or EvalBool(Condition) == true")
		// EOF
		isEOF := func(e ast.Expr) bool { kc := core.ConstOf(ti, e); return kc != nil && kc.Name() == "EOF" }
		bad = g.N1ReachableWithout(emit, nil, t.cmpEdge(t.path(point, pTime), isEOF, core.X1NE))
		c.r.Check(bad == nil, rule, f.String(), "point-at-EOF", c.line(g, bad), "a point is returned only on a path that established Time != EOF")
		// auxiliary / condition cursors are read at the main cursor's timestamp
		var seek types.Object
		okSeek, nAt := true, 0
		for _, cl := range core.AllCalls(ti, f.Decl.Body, call(tsm1+".cursorAt.nextAt")) {
			nAt++
			o := core.ObjOf(ti, ast.Unparen(cl.Args[0]))
			if o == nil || (seek != nil && o != seek) {
				okSeek = false
			}
			seek = o
		}
		c.r.Check(nAt >= 2 && okSeek, rule, f.String(), "nextAt:arguments", f.Pos(), fmt.Sprintf("%d nextAt calls, all at the same timestamp variable", nAt))
		if seek != nil && okSeek {
			sync := g.N1Assign(token.ILLEGAL, func(e ast.Expr) bool { return false }, nil)
			sync = func(nd *core.Node) bool {
				as, ok := nd.N.(*ast.AssignStmt)
				return ok && len(as.Lhs) == 1 && len(as.Rhs) == 1 && core.ObjOf(ti, as.Lhs[0]) == seek && core.N1Path(ti, point, pTime)(ast.Unparen(as.Rhs[0]))
			}
			var starts []*core.Node
			haveCur := t.factEdge(core.X1NilFact(ti, t.path(cur), false))
			for _, nd := range g.Nodes {
				for _, e := range nd.Succ {
					if haveCur(e) {
						starts = append(starts, e.To)
					}
				}
			}
			at := g.Calling(call(tsm1 + ".cursorAt.nextAt"))
			var hit *core.Node
			for x := range g.Reach(starts, sync, nil) {
				if x.N != nil && at(x) {
					hit = x
				}
			}
			c.r.Check(len(starts) >= 1 && hit == nil, rule, f.String(), "aux-read-at-other-time", c.line(g, hit), "with a main cursor the auxiliary/condition cursors are read at seek = point.Time")
		}
	}
	c.r.Check(n >= 5, rule, tsm1, "iterators:fewer-than-confirmed", "", fmt.Sprintf("%d tsm1 field iterators examined", n))
}
