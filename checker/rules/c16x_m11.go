package rules

import (
	"fmt"
	"go/ast"
	"go/constant"
	"go/token"
	"go/types"

	"verif/checker/core"
)

// C16 extensions (m11), driven by the surviving faults of the generic enumeration.
//
// The combinator tables say what AND/OR answer; what was still open is how a key
// is fed into the tree (which tag popper, when the loop stops, which answer
// ends it), when a comparison node may answer at all, which operand it compares,
// and whether a Clone still evaluates like the original.

func init() {
	extend("C16", "(5) matches-loop: predicateMatcher.Matches leaves the feeding loop only with the root's definite answer (`return true` only where root.Update() == true, `return false` inside the loop only where it == false, no break), updates the root exactly when state.Set accepted the tag, answers false after the loop, and uses the escape-aware tag popper whenever the key contains a backslash; "+
		"(6) comparison-table: predicateNodeComparison.Update evaluated abstractly on all combinations of (cache valid, cached answer, left/right literal nil?, regex nil?, left/right tag value nil?, predicateEval result): the cached answer when valid, needMore exactly while a needed operand is missing, otherwise the result of predicateEval(p.comp, literal-or-tag-value, literal-or-tag-value, p.rightReg); "+
		"(7) regex-iff: buildPredicateNode rejects exactly (regex operator without compiled regex) and (compiled regex with a non-regex operator); "+
		"(8) clone-semantics: predicateCache.Clone keeps the state it is given (a fresh state only when none is given), predicateNodeComparison.Clone gives a literal to the clone exactly when the original has one and copies its bytes; "+
		"(9) comma-ok: values of type assertions, map lookups and predicateCache.Cached() are read only where ok is true.",
		nil, func(p *core.Prog, r *core.Report, tier string) {
			pk := p.Pkg(tsm1)
			if pk == nil {
				return
			}
			c16MatchesLoopM11(p, r)
			c16ComparisonTableM11(p, r)
			c16RegexIffM11(p, r)
			c16CloneSemanticsM11(p, r)
			c16OperandStoresM11(p, r)
			n := 0
			for _, fn := range []string{"buildPredicateNode", "predicateState.Set", "NewProtobufPredicate", "predicateNodeComparison.Update", "predicateNodeAnd.Update", "predicateNodeOr.Update"} {
				if f := r.Need(p, tsm1, fn); f != nil {
					n += core.RuleCommaOkXM11(r, f, "comma-ok", call("tsdb/engine/tsm1.predicateCache.Cached"))
				}
			}
			r.Check(n >= 5, "comma-ok", tsm1, "sites:count", "-", fmt.Sprintf("%d comma-ok forms examined (>= 5; 8 today)", n))
		})
}

func c16ConstM11(p *core.Prog, name string) types.Object {
	pk := p.Pkg(tsm1)
	if pk == nil {
		return nil
	}
	return pk.Types.Scope().Lookup(name)
}

// ---------------------------------------------------------------- (5) Matches

func c16MatchesLoopM11(p *core.Prog, r *core.Report) {
	const rule = "matches-loop"
	f := r.Need(p, tsm1, "predicateMatcher.Matches")
	cTrue, cFalse := c16ConstM11(p, "predicateResponse_true"), c16ConstM11(p, "predicateResponse_false")
	if f == nil || cTrue == nil || cFalse == nil {
		return
	}
	info, g, body := f.Info(), f.Graph(), f.Decl.Body
	update := call("tsdb/engine/tsm1.predicateNode.Update")
	setM := call("tsdb/engine/tsm1.predicateState.Set")
	// the feeding loop: the loop that updates the root
	var loop ast.Stmt
	for _, l := range core.LoopStmtsM11(body) {
		if len(core.AllCalls(info, l, update)) > 0 {
			loop = l
		}
	}
	if !r.Check(loop != nil, rule, f.String(), "loop:absent", f.Pos(), "a loop feeds the tags and updates the root") {
		return
	}
	// resp: the root's answer (a variable defined from Update(), or the call itself)
	isResp := func(e ast.Expr) bool {
		e = ast.Unparen(e)
		if c, ok := e.(*ast.CallExpr); ok && update(info, c) {
			return true
		}
		if o := core.ObjOf(info, e); o != nil {
			if d, ok := core.SingleDef(info, body, o); ok && d.Rhs != nil && core.AsCall(info, d.Rhs, update) != nil {
				return true
			}
		}
		return false
	}
	respIs := func(c types.Object) core.EdgePred {
		byCond := core.ImpliesEdge8(func(x ast.Expr, val bool) bool {
			be, ok := ast.Unparen(x).(*ast.BinaryExpr)
			if !ok || (be.Op != token.EQL && be.Op != token.NEQ) {
				return false
			}
			a, b := ast.Unparen(be.X), ast.Unparen(be.Y)
			if core.ObjOf(info, a) == c {
				a, b = b, a
			}
			return isResp(a) && core.ObjOf(info, b) == c && val == (be.Op == token.EQL)
		})
		byTag := core.TagEdge8(func(tag, caseExpr ast.Expr) bool { return isResp(tag) && core.ObjOf(info, caseExpr) == c })
		return core.OrEdge8(byCond, byTag)
	}
	isTrue, isFalse := respIs(cTrue), respIs(cFalse)
	escapes := g.LoopEscapesM11(loop, core.OrEdge8(isTrue, isFalse))
	for _, e := range escapes {
		r.Bad(rule, f.String(), "loop-left-without-answer", g.Line(e.From), "the feeding loop is left (break / return) although the root has not given a definite answer for this key: the remaining tags are never fed")
	}
	if len(escapes) == 0 {
		r.Ok(rule, f.String(), p.Pos(loop.Pos()), "the loop is left early only with the root's definite answer")
	}
	nTrue, nFalseIn, okConst := 0, 0, true
	for _, x := range g.Exits {
		rs, ok := x.N.(*ast.ReturnStmt)
		if !ok || len(rs.Results) != 1 {
			okConst = false
			continue
		}
		inLoop := core.InRegion(x, loop)
		switch {
		case core.IsConstBool8(info, rs.Results[0], true):
			nTrue++
			r.Check(len(g.Bypassing8([]*core.Node{x}, isTrue)) == 0 && inLoop, rule, f.String(), "true-without-root-true", g.Line(x), "`return true` is reachable only where root.Update() answered true")
		case core.IsConstBool8(info, rs.Results[0], false):
			if inLoop {
				nFalseIn++
				r.Check(len(g.Bypassing8([]*core.Node{x}, isFalse)) == 0, rule, f.String(), "false-without-root-false", g.Line(x), "inside the loop `return false` is reachable only where root.Update() answered false")
			}
		default:
			okConst = false
		}
	}
	r.Check(okConst && nTrue >= 1 && nFalseIn >= 1, rule, f.String(), "answers", f.Pos(), fmt.Sprintf("constant answers: %d `return true`, %d `return false` inside the loop; a key that never gets a definite answer does not match", nTrue, nFalseIn))
	// the root is updated exactly when Set accepted the tag
	_, bodyN, _ := g.LoopNodes(loop)
	head, _, _ := g.LoopNodes(loop)
	if bodyN != nil {
		stop := func(n *core.Node) bool { return n == head && head != bodyN }
		tagFromPop := func(v bool) core.Leaf10 {
			return func(e ast.Expr) (bool, bool) {
				x, nonNilOnTrue, ok := core.NilTest(info, e)
				if ok && core.ObjOf(info, x) != nil && info.TypeOf(x) != nil {
					if _, isSlice := info.TypeOf(x).Underlying().(*types.Slice); isSlice {
						return nonNilOnTrue == v, true
					}
				}
				return false, false
			}
		}
		for _, row := range []struct {
			label string
			set   bool
			want  bool
		}{{"Set=true", true, true}, {"Set=false", false, false}} {
			reach := g.ReachUnder10([]*core.Node{bodyN}, stop, core.Leaves10(tagFromPop(true), core.CallLeaf10(info, setM, nil, row.set)))
			_, calls := g.CallsReached10(reach, update)
			r.Check((len(calls) > 0) == row.want, rule, f.String(), "row:"+row.label, p.Pos(loop.Pos()), fmt.Sprintf("with a tag and state.%s the root is updated: %v (want %v)", row.label, len(calls) > 0, row.want))
		}
	}
	// Set gets the (tag, value) the popper returned
	okSet := false
	for _, sc := range core.AllCalls(info, loop, setM) {
		if len(sc.Args) == 2 {
			a, b := core.ObjOf(info, sc.Args[0]), core.ObjOf(info, sc.Args[1])
			for _, d := range core.DefsOf(info, loop, a) {
				for _, d2 := range core.DefsOf(info, loop, b) {
					if d.Stmt == d2.Stmt && d.Index == 0 && d2.Index == 1 && d.Rhs != nil {
						okSet = true
					}
				}
			}
		}
	}
	r.Check(okSet, rule, f.String(), "Set-arguments", p.Pos(loop.Pos()), "state.Set gets the tag and the value popped together from the key (results 0 and 1 of the same pop)")

	// ---- popper selection
	pk := p.Pkg(tsm1)
	plain, _ := pk.Types.Scope().Lookup("predicatePopTag").(*types.Func)
	esc, _ := pk.Types.Scope().Lookup("predicatePopTagEscape").(*types.Func)
	if !r.Check(plain != nil && esc != nil, "anchor", tsm1+".predicatePopTag/predicatePopTagEscape", "unresolved", "-", "tag poppers resolved") {
		return
	}
	hasBackslash := func(v bool) core.Leaf10 {
		return func(e ast.Expr) (bool, bool) {
			isSearch := func(c *ast.CallExpr) bool {
				n := core.FName(core.Callee(info, c))
				if n != "bytes.IndexByte" && n != "bytes.IndexRune" && n != "bytes.ContainsRune" && n != "bytes.Contains" && n != "bytes.Index" && n != "bytes.ContainsAny" && n != "bytes.IndexAny" {
					return false
				}
				if len(c.Args) != 2 {
					return false
				}
				cv := core.ConstVal(info, c.Args[1])
				if cv == nil {
					// []byte("\\") / []byte{'\\'}
					ast.Inspect(c.Args[1], func(n ast.Node) bool {
						if x, ok := n.(ast.Expr); ok && cv == nil {
							if v := core.ConstVal(info, x); v != nil && (v.Kind() == constant.String || v.Kind() == constant.Int) {
								cv = v
							}
						}
						return true
					})
				}
				if cv == nil {
					return false
				}
				switch cv.Kind() {
				case constant.Int:
					n, ok := constant.Int64Val(cv)
					return ok && n == '\\'
				case constant.String:
					return constant.StringVal(cv) == "\\"
				}
				return false
			}
			e = ast.Unparen(e)
			if c, ok := e.(*ast.CallExpr); ok && isSearch(c) && isBool8(info.TypeOf(c)) {
				return v, true
			}
			if x, op, k, ok := core.IntCmp(info, e); ok {
				if c, isCall := x.(*ast.CallExpr); isCall && isSearch(c) {
					pos := int64(-1)
					if v {
						pos = 0
					}
					switch op {
					case token.EQL:
						return pos == k, true
					case token.NEQ:
						return pos != k, true
					case token.LSS:
						return pos < k, true
					case token.LEQ:
						return pos <= k, true
					case token.GTR:
						return pos > k, true
					case token.GEQ:
						return pos >= k, true
					}
				}
			}
			return false, false
		}
	}
	refersTo := func(e ast.Expr, fn *types.Func) bool {
		id, ok := ast.Unparen(e).(*ast.Ident)
		return ok && info.Uses[id] == fn
	}
	// the pop call(s) of the loop
	var popNodes []*core.Node
	var fvar types.Object
	direct := map[*types.Func]bool{}
	for _, n := range g.Nodes {
		if n.N == nil || !core.InRegion(n, loop) {
			continue
		}
		for _, c := range core.CallsIn(info, n.N, func(i *types.Info, c *ast.CallExpr) bool { return true }, core.WalkOpts{}) {
			if fn := core.Callee(info, c); fn == plain || fn == esc {
				direct[fn] = true
				popNodes = append(popNodes, n)
			} else if v, ok := core.ObjOf(info, c.Fun).(*types.Var); ok && fn == nil {
				for _, d := range core.DefsOf(info, body, v) {
					if d.Rhs != nil && (refersTo(d.Rhs, plain) || refersTo(d.Rhs, esc)) {
						fvar = v
						popNodes = append(popNodes, n)
					}
				}
			}
		}
	}
	if !r.Check(len(popNodes) >= 1, rule, f.String(), "pop:absent", p.Pos(loop.Pos()), "the loop pops tag pairs with predicatePopTag / predicatePopTagEscape") {
		return
	}
	rawLeaf := hasBackslash(true)
	leaf := throughTempsM11(p, info, body, func(core.EnvHD2) core.LeafEval { return core.LeafEval(rawLeaf) }) // `escaped := …; if escaped`
	escAssign := func(n *core.Node) bool {
		if fvar == nil || !g.AssigningObj(fvar)(n) {
			return false
		}
		as, ok := n.N.(*ast.AssignStmt)
		if !ok {
			if ds, isDecl := n.N.(*ast.DeclStmt); isDecl {
				found := false
				ast.Inspect(ds, func(x ast.Node) bool {
					if e, ok := x.(ast.Expr); ok && refersTo(e, esc) {
						found = true
					}
					return true
				})
				return found
			}
			return false
		}
		for _, rh := range as.Rhs {
			if refersTo(rh, esc) {
				return true
			}
		}
		return false
	}
	reach := g.ReachUnder10([]*core.Node{g.Entry}, escAssign, leaf)
	bad := ""
	for _, n := range popNodes {
		if !reach[n] {
			continue
		}
		// reached without passing an assignment of the escape-aware popper: is the plain one what runs here?
		for _, c := range core.CallsIn(info, n.N, func(i *types.Info, c *ast.CallExpr) bool { return true }, core.WalkOpts{}) {
			fn := core.Callee(info, c)
			if fn == plain || (fn == nil && fvar != nil && core.ObjOf(info, c.Fun) == fvar) {
				bad = g.Line(n)
			}
		}
	}
	r.Check(bad == "", rule, f.String(), "plain-popper-on-escaped-key", f.Pos(), "a key that contains a backslash is split with the escape-aware popper (with the plain one an escaped comma or equals sign inside a tag value starts a new tag)"+bad)
	// anti-vacuity: the decision exists
	decided := false
	for _, n := range g.Nodes {
		if c, ok := n.N.(ast.Expr); ok && len(n.Succ) == 2 {
			if _, known := core.EvalCond(c, core.LeafEval(leaf)); known {
				decided = true
			}
		}
	}
	r.Check(decided, rule, f.String(), "backslash-test:absent", f.Pos(), "the key is searched for a backslash to choose the popper")
}

// ---------------------------------------------------------------- (6) comparison node table

func c16ComparisonTableM11(p *core.Prog, r *core.Report) {
	const rule = "comparison-table"
	f := r.Need(p, tsm1, "predicateNodeComparison.Update")
	pk := p.Pkg(tsm1)
	if f == nil || pk == nil {
		return
	}
	consts := map[types.Object]string{}
	for name, sym := range map[string]string{"predicateResponse_needMore": "nm", "predicateResponse_true": "t", "predicateResponse_false": "f"} {
		o := pk.Types.Scope().Lookup(name)
		if o == nil {
			return
		}
		consts[o] = sym
	}
	doms := []core.DDomain{
		{Path: "P", Values: []string{"ptr"}},
		{Path: "cached.ok", Values: []string{"false", "true"}},
		{Path: "cached.resp", Values: []string{"nm", "t", "f"}},
		{Path: "*P.leftLiteral", Values: []string{"nil", "lit"}},
		{Path: "*P.rightLiteral", Values: []string{"nil", "lit"}},
		{Path: "*P.rightReg", Values: []string{"nil", "ptr"}},
		{Path: "*P.state", Values: []string{"ptr"}},
		{Path: "*P.leftIndex", Values: []string{"0"}},
		{Path: "*P.rightIndex", Values: []string{"1"}},
		{Path: "**P.state.values[0]", Values: []string{"nil", "v"}},
		{Path: "**P.state.values[1]", Values: []string{"nil", "v"}},
		{Path: "eval", Values: []string{"true", "false"}},
	}
	opaque := map[string]string{
		"tsdb/engine/tsm1.predicateCache.Cached": "cached.resp,cached.ok",
		"tsdb/engine/tsm1.predicateEval":         "eval",
	}
	rows, bad := 0, 0
	und, first := "", ""
	core.EnumModels(doms, func(m core.DModel) {
		rows++
		res, u := core.EvalOnX(p, f, m, []core.DVal{core.Path("P")}, consts, []string{"tsdb/engine/tsm1.predicateCache.Store"}, opaque)
		if u != "" {
			und = u
			return
		}
		var want string
		switch {
		case m["cached.ok"] == "true":
			want = m["cached.resp"]
		case m["*P.leftLiteral"] == "nil" && m["**P.state.values[0]"] == "nil":
			want = "nm"
		case m["*P.rightLiteral"] == "nil" && m["*P.rightReg"] == "nil" && m["**P.state.values[1]"] == "nil":
			want = "nm"
		case m["eval"] == "true":
			want = "t"
		default:
			want = "f"
		}
		if res.Panicked || res.Value != want {
			bad++
			if first == "" {
				first = fmt.Sprintf("%s ⇒ %s (want %s)", m.String(), res.Value, want)
			}
		}
	})
	switch {
	case und != "":
		r.Bad(rule, f.String(), "undecided", f.Pos(), "the comparison node left the decidable fragment: "+und)
	case bad > 0:
		r.Bad(rule, f.String(), "wrong-answer", f.Pos(), fmt.Sprintf("%d of %d rows wrong; first: %s", bad, rows, first))
	default:
		r.Check(rows == 384, rule, f.String(), "rows:count", f.Pos(), fmt.Sprintf("%d rows: cached answer when valid, needMore exactly while a needed operand is missing, otherwise predicateEval's verdict", rows))
	}
	// operands handed to predicateEval
	info, body := f.Info(), f.Decl.Body
	st := core.StructOf(pk.Types, "predicateNodeComparison")
	if st == nil {
		return
	}
	fld := func(n string) *types.Var { return core.LookupField(pk.Types, "predicateNodeComparison", n) }
	valuesF := core.LookupField(pk.Types, "predicateState", "values")
	// e is p.state.values[p.<idx>]
	isValueAt := func(e ast.Expr, idx *types.Var) bool {
		ix, ok := ast.Unparen(e).(*ast.IndexExpr)
		return ok && core.FieldOf(info, ix.X) == valuesF && core.FieldOf(info, ix.Index) == idx
	}
	operand := func(e ast.Expr, lit, idx *types.Var) bool {
		o := core.ObjOf(info, e)
		if o == nil {
			return false
		}
		nLit, nVal := 0, 0
		for _, d := range core.DefsOf(info, body, o) {
			switch {
			case d.Rhs != nil && core.FieldOf(info, d.Rhs) == lit:
				nLit++
			case d.Rhs != nil && isValueAt(d.Rhs, idx):
				nVal++
			default:
				return false
			}
		}
		return nLit == 1 && nVal == 1
	}
	evals := core.AllCalls(info, body, call("tsdb/engine/tsm1.predicateEval"))
	okArgs := len(evals) == 1
	for _, c := range evals {
		okArgs = okArgs && len(c.Args) == 4 && core.FieldOf(info, c.Args[0]) == fld("comp") && core.FieldOf(info, c.Args[3]) == fld("rightReg") &&
			operand(c.Args[1], fld("leftLiteral"), fld("leftIndex")) && operand(c.Args[2], fld("rightLiteral"), fld("rightIndex"))
	}
	r.Check(okArgs, rule, f.String(), "predicateEval-operands", f.Pos(), "predicateEval gets (p.comp, left literal or the tag value at leftIndex, right literal or the tag value at rightIndex, p.rightReg)")
}

// ---------------------------------------------------------------- (7) regex iff regex operator

func c16RegexIffM11(p *core.Prog, r *core.Report) {
	const rule = "regex-iff"
	f := r.Need(p, tsm1, "buildPredicateNode")
	pk, dt := p.Pkg(tsm1), p.Pkg("storage/reads/datatypes")
	if f == nil || pk == nil || dt == nil {
		return
	}
	info, g := f.Info(), f.Graph()
	regF := core.LookupField(pk.Types, "predicateNodeComparison", "rightReg")
	compF := core.LookupField(pk.Types, "predicateNodeComparison", "comp")
	if !r.Check(regF != nil && compF != nil, "anchor", tsm1+".predicateNodeComparison.rightReg/comp", "unresolved", "-", "fields resolved") {
		return
	}
	cval := func(n string) constant.Value {
		if k, ok := dt.Types.Scope().Lookup(n).(*types.Const); ok {
			return k.Val()
		}
		return nil
	}
	regNil := func(isNil bool) core.Leaf10 {
		return func(e ast.Expr) (bool, bool) {
			x, nonNilOnTrue, ok := core.NilTest(info, e)
			if ok && core.FieldOf(info, x) == regF {
				return nonNilOnTrue != isNil, true
			}
			return false, false
		}
	}
	isComp := func(e ast.Expr) bool { return core.FieldOf(info, e) == compF }
	// start: the first condition that tests the compiled regex
	var start *core.Node
	for _, n := range g.Nodes {
		if c, ok := n.N.(ast.Expr); ok && len(n.Succ) == 2 {
			for _, a := range core.Atoms(c) {
				if x, _, isT := core.NilTest(info, a); isT && core.FieldOf(info, x) == regF && start == nil {
					start = n
				}
			}
		}
	}
	if !r.Check(start != nil, rule, f.String(), "regex-test:absent", f.Pos(), "the compiled regex is tested against the operator") {
		return
	}
	for _, row := range []struct {
		op      string
		regNil  bool
		wantErr bool
	}{
		{"Node_ComparisonRegex", true, true}, {"Node_ComparisonNotRegex", true, true}, {"Node_ComparisonEqual", true, false}, {"Node_ComparisonNotEqual", true, false},
		{"Node_ComparisonRegex", false, false}, {"Node_ComparisonNotRegex", false, false}, {"Node_ComparisonEqual", false, true}, {"Node_ComparisonStartsWith", false, true},
	} {
		v := cval(row.op)
		if !r.Check(v != nil, "anchor", "datatypes."+row.op, "unresolved", "-", "constant resolved") {
			continue
		}
		atoms := core.Leaves10(regNil(row.regNil), core.ConstEqLeaf10(info, isComp, v))
		reach := g.ReachUnder10([]*core.Node{start}, nil, throughTempsM11(p, info, f.Decl.Body, func(core.EnvHD2) core.LeafEval { return core.LeafEval(atoms) })) // `isRegexOp := …`
		nOK, nErr := 0, 0
		for _, x := range g.Exits {
			rs, ok := x.N.(*ast.ReturnStmt)
			if !ok || !reach[x] || len(rs.Results) != 2 {
				continue
			}
			if core.IsNilIdent(info, rs.Results[1]) {
				nOK++
			} else {
				nErr++
			}
		}
		good := (row.wantErr && nOK == 0 && nErr >= 1) || (!row.wantErr && nOK >= 1 && nErr == 0)
		r.Check(good, rule, f.String(), fmt.Sprintf("row:%s,regex-nil=%v", row.op, row.regNil), g.Line(start),
			fmt.Sprintf("operator %s with compiled regex nil=%v: rejected=%v (want %v)", row.op, row.regNil, nErr >= 1 && nOK == 0, row.wantErr))
	}
}

// ---------------------------------------------------------------- (8) Clone semantics

func c16CloneSemanticsM11(p *core.Prog, r *core.Report) {
	const rule = "clone-semantics"
	pk := p.Pkg(tsm1)
	if pk == nil {
		return
	}
	if f := r.Need(p, tsm1, "predicateCache.Clone"); f != nil {
		info, g := f.Info(), f.Graph()
		stateP := f.Param(0)
		stateF := core.LookupField(pk.Types, "predicateCache", "state")
		given := func(v bool) core.Leaf10 {
			return func(e ast.Expr) (bool, bool) {
				x, nonNilOnTrue, ok := core.NilTest(info, e)
				if ok && stateP != nil && core.ObjOf(info, x) == stateP {
					return nonNilOnTrue == v, true
				}
				return false, false
			}
		}
		cl := call("tsdb/engine/tsm1.predicateState.Clone")
		_, withState := g.CallsReached10(g.ReachUnder10([]*core.Node{g.Entry}, nil, given(true)), cl)
		_, without := g.CallsReached10(g.ReachUnder10([]*core.Node{g.Entry}, nil, given(false)), cl)
		r.Check(len(withState) == 0, rule, f.String(), "state-given-but-cloned", f.Pos(), "when a state is given the clone keeps it (all nodes of a cloned tree must share the matcher's state, or Set is never seen by them)")
		r.Check(len(without) >= 1, rule, f.String(), "no-state-none-made", f.Pos(), "without a given state a fresh copy of the own state is made")
		// the state stored is the parameter
		okStore := false
		ast.Inspect(f.Decl.Body, func(n ast.Node) bool {
			if kv, ok := n.(*ast.KeyValueExpr); ok {
				if id, ok := kv.Key.(*ast.Ident); ok && info.Uses[id] == stateF && core.ObjOf(info, kv.Value) == stateP && stateP != nil {
					okStore = true
				}
			}
			return true
		})
		r.Check(okStore, rule, f.String(), "state-field", f.Pos(), "the clone's state field is the state parameter")
	}
	if f := r.Need(p, tsm1, "predicateNodeComparison.Clone"); f != nil {
		info, g := f.Info(), f.Graph()
		st := core.StructOf(pk.Types, "predicateNodeComparison")
		var recv types.Object
		if f.Decl.Recv != nil && len(f.Decl.Recv.List) == 1 && len(f.Decl.Recv.List[0].Names) == 1 {
			recv = info.Defs[f.Decl.Recv.List[0].Names[0]]
		}
		if st == nil || recv == nil {
			return
		}
		n := 0
		for i := 0; i < st.NumFields(); i++ {
			fv := st.Field(i)
			if _, isSlice := fv.Type().Underlying().(*types.Slice); !isSlice {
				continue
			}
			n++
			ofRecv := func(e ast.Expr) bool {
				se, ok := ast.Unparen(core.ResolveLocal(info, f.Decl.Body, e)).(*ast.SelectorExpr) // also through `lit := p.leftLiteral`
				return ok && core.FieldOf(info, se) == fv && core.ObjOf(info, se.X) == recv
			}
			ofClone := func(e ast.Expr) bool {
				se, ok := ast.Unparen(e).(*ast.SelectorExpr)
				return ok && core.FieldOf(info, se) == fv && core.ObjOf(info, se.X) != recv
			}
			has := func(v bool) core.Leaf10 {
				return func(e ast.Expr) (bool, bool) {
					x, nonNilOnTrue, ok := core.NilTest(info, e)
					if ok && ofRecv(x) {
						return nonNilOnTrue == v, true
					}
					return false, false
				}
			}
			stores := g.Select(func(nd *core.Node) bool {
				as, ok := nd.N.(*ast.AssignStmt)
				if !ok {
					return false
				}
				for _, l := range as.Lhs {
					if ofClone(l) {
						return true
					}
				}
				return false
			})
			construct := f.String() + ":" + fv.Name()
			if len(stores) == 0 {
				// shared through the composite literal is fine (nil stays nil); it must be mentioned at all (clone-coverage)
				r.Ok(rule, construct, f.Pos(), "no separate store: nil-ness is whatever the literal copies")
				continue
			}
			isStore := func(nd *core.Node) bool {
				for _, s := range stores {
					if s == nd {
						return true
					}
				}
				return false
			}
			reached := func(reach map[*core.Node]bool) bool {
				for _, s := range stores {
					if reach[s] {
						return true
					}
				}
				return false
			}
			withLit := reached(g.ReachUnder10([]*core.Node{g.Entry}, nil, has(true)))
			withoutLit := reached(g.ReachUnder10([]*core.Node{g.Entry}, nil, has(false)))
			r.Check(withLit && !withoutLit, rule, construct, "nil-ness", g.Line(stores[0]),
				fmt.Sprintf("the clone gets its own %s exactly when the original has one (has: %v, has not: %v); a nil literal means `take the tag value`, an empty non-nil one compares against \"\"", fv.Name(), withLit, withoutLit))
			// after the allocation the bytes are copied before returning
			cp := func(nd *core.Node) bool {
				if nd.N == nil {
					return false
				}
				for _, c := range core.CallsIn(info, nd.N, core.Builtin("copy"), core.WalkOpts{}) {
					if len(c.Args) == 2 && ofClone(c.Args[0]) && ofRecv(c.Args[1]) {
						return true
					}
				}
				return false
			}
			okCopy := true
			for _, s := range stores {
				rr := g.Reach(core.After(s, nil), cp, nil)
				for _, x := range g.Exits {
					if rr[x] {
						okCopy = false
					}
				}
			}
			_ = isStore
			r.Check(okCopy, rule, construct, "bytes-not-copied", g.Line(stores[0]), "after allocating the clone's "+fv.Name()+" the original's bytes are copied into it on every path to the return")
		}
		r.Check(n >= 2, rule, f.String(), "literal-fields:count", f.Pos(), fmt.Sprintf("%d byte-slice literal fields examined (>= 2 confirmed by reading)", n))
	}
}

// ---------------------------------------------------------------- (10) operands of a compiled comparison

// c16OperandStoresM11: buildPredicateNode fills the comparison node from the
// right child: a tag reference stores the tag's slot (state.locs of that
// child's GetTagRefValue) in leftIndex/rightIndex, a string literal its bytes in
// leftLiteral/rightLiteral, a regex its compiled form in rightReg — each store
// inside the switch over that child's node type, and passed on every
// non-failing path through its case. A dropped or misplaced store leaves the
// zero value: slot 0 (another tag) or a nil literal (meaning "take the tag value").
func c16OperandStoresM11(p *core.Prog, r *core.Report) {
	const rule = "operand-stores"
	f := r.Need(p, tsm1, "buildPredicateNode")
	pk, dt := p.Pkg(tsm1), p.Pkg("storage/reads/datatypes")
	if f == nil || pk == nil || dt == nil {
		return
	}
	info, g, body := f.Info(), f.Graph(), f.Decl.Body
	// left, right := children[0], children[1]
	side := map[int]types.Object{}
	ast.Inspect(body, func(n ast.Node) bool {
		as, ok := n.(*ast.AssignStmt)
		if !ok || len(as.Lhs) != len(as.Rhs) {
			return true
		}
		for i, rh := range as.Rhs {
			ix, ok := ast.Unparen(rh).(*ast.IndexExpr)
			if !ok {
				continue
			}
			k, isC := core.ConstInt(info, ix.Index)
			src := core.ResolveLocal(info, body, ix.X)
			if !isC || core.AsCall(info, src, call("storage/reads/datatypes.Node.GetChildren")) == nil {
				continue
			}
			if o := core.ObjOf(info, as.Lhs[i]); o != nil && (k == 0 || k == 1) {
				side[int(k)] = o
			}
		}
		return true
	})
	if !r.Check(side[0] != nil && side[1] != nil && side[0] != side[1], rule, f.String(), "children:unresolved", f.Pos(), "left is children[0] and right is children[1] of the comparison node") {
		return
	}
	// the switch statements over <side>.GetNodeType()
	sideSwitch := map[int]*ast.SwitchStmt{}
	ast.Inspect(body, func(n ast.Node) bool {
		sw, ok := n.(*ast.SwitchStmt)
		if !ok || sw.Tag == nil {
			return true
		}
		if c := core.AsCall(info, sw.Tag, call("storage/reads/datatypes.Node.GetNodeType")); c != nil {
			for k, o := range side {
				if core.ObjOf(info, core.Recv(c)) == o {
					sideSwitch[k] = sw
				}
			}
		}
		return true
	})
	inside := func(n ast.Node, region ast.Node) bool {
		return region != nil && n != nil && region.Pos() <= n.Pos() && n.End() <= region.End()
	}
	mentions := func(e ast.Expr, test func(ast.Node) bool) bool {
		found := false
		viaLocalsRW5(info, body, e, 3, map[types.Object]bool{}, func(n ast.Node) {
			ast.Inspect(n, func(x ast.Node) bool {
				if test(x) {
					found = true
				}
				return !found
			})
		})
		return found
	}
	isCallOn := func(name string, recv types.Object) func(ast.Node) bool {
		return func(x ast.Node) bool {
			c, ok := x.(*ast.CallExpr)
			return ok && core.FName(core.Callee(info, c)) == name && core.ObjOf(info, core.Recv(c)) == recv
		}
	}
	isField := func(typ, field string) func(ast.Node) bool {
		fv := core.LookupField(dt.Types, typ, field)
		return func(x ast.Node) bool {
			se, ok := x.(*ast.SelectorExpr)
			return ok && fv != nil && core.FieldOf(info, se) == fv
		}
	}
	isCall := func(name string) func(ast.Node) bool {
		return func(x ast.Node) bool {
			c, ok := x.(*ast.CallExpr)
			return ok && core.FName(core.Callee(info, c)) == name
		}
	}
	for _, t := range []struct {
		field string
		side  int
		src   []func(ast.Node) bool
		what  string
	}{
		{"leftIndex", 0, []func(ast.Node) bool{isCallOn("storage/reads/datatypes.Node.GetTagRefValue", side[0])}, "the slot of the left child's tag reference"},
		{"rightIndex", 1, []func(ast.Node) bool{isCallOn("storage/reads/datatypes.Node.GetTagRefValue", side[1])}, "the slot of the right child's tag reference"},
		{"leftLiteral", 0, []func(ast.Node) bool{isField("Node_StringValue", "StringValue")}, "the left child's string literal"},
		{"rightLiteral", 1, []func(ast.Node) bool{isField("Node_StringValue", "StringValue")}, "the right child's string literal"},
		{"rightReg", 1, []func(ast.Node) bool{isField("Node_RegexValue", "RegexValue"), isCall("regexp.Compile")}, "the right child's compiled regex"},
	} {
		fv := core.LookupField(pk.Types, "predicateNodeComparison", t.field)
		if fv == nil {
			r.Bad("anchor", tsm1+".predicateNodeComparison."+t.field, "unresolved", "-", "field not found")
			continue
		}
		construct := f.String() + ":" + t.field
		stores := g.Select(g.Assigning(fv))
		if !r.Check(len(stores) >= 1, rule, construct, "store:absent", f.Pos(), "the comparison node gets "+t.what) {
			continue
		}
		for _, s := range stores {
			as, ok := s.N.(*ast.AssignStmt)
			if !ok || len(as.Lhs) != 1 || len(as.Rhs) != 1 {
				r.Bad(rule, construct, "store-shape", g.Line(s), "unrecognised store form")
				continue
			}
			okSrc := true
			for _, test := range t.src {
				if !mentions(as.Rhs[0], test) {
					okSrc = false
				}
			}
			okSide := inside(as, sideSwitch[t.side]) && !inside(as, sideSwitch[1-t.side])
			r.Check(okSrc && okSide, rule, construct, "source", g.Line(s), "the value is "+t.what+", stored inside the switch over that child's node type")
			// passed on every non-failing path through its case clause
			var clause ast.Node
			ast.Inspect(body, func(n ast.Node) bool {
				if cc, ok := n.(*ast.CaseClause); ok && inside(as, cc) && len(cc.Body) > 0 {
					// the statements of the case (not its case expressions); innermost wins: Inspect visits outer first
					clause = &ast.BlockStmt{Lbrace: cc.Body[0].Pos(), List: cc.Body, Rbrace: cc.End() - 1}
				}
				return true
			})
			if clause == nil {
				r.Bad(rule, construct, "clause:absent", g.Line(s), "the store is not inside a case clause")
				continue
			}
			bad := ""
			seen := map[*core.Node]bool{}
			var walk func(n *core.Node)
			walk = func(n *core.Node) {
				if n == nil || seen[n] || n == s {
					return
				}
				seen[n] = true
				if len(n.Succ) == 0 {
					if rs, ok := n.N.(*ast.ReturnStmt); ok && len(rs.Results) == 2 && core.IsNilIdent(info, rs.Results[1]) {
						bad = g.Line(n)
					}
					return
				}
				for _, e := range n.Succ {
					if !core.InRegion(e.To, clause) {
						bad = g.Line(n)
						continue
					}
					walk(e.To)
				}
			}
			for _, n := range g.Nodes {
				if !core.InRegion(n, clause) || n.N == nil {
					continue
				}
				for _, pe := range n.Pred {
					if !core.InRegion(pe.From, clause) {
						walk(n)
					}
				}
			}
			r.Check(bad == "", rule, construct, "store-skipped", g.Line(s), "every non-failing path through the case that recognises this operand passes the store"+bad)
		}
	}
}
