package rules

import (
	"go/ast"
	"go/token"
	"go/types"

	"verif/checker/core"
)

// escape.Bytes does not escape the backslash itself, so an escaped name may
// contain `\` immediately followed by an escape sequence (`\\"`). A scanner that
// looks for escape sequences therefore has to resume at the byte right after a
// backslash that did not start one — skipping further jumps over the backslash
// that does, and the field key is then returned still escaped (no round trip).
func init() {
	extend("C11", "escape-scan-step: escape.IsEscaped, after a backslash that is not followed by an escapable byte, resumes scanning at the very next byte (slice offset index+1); it answers true only on finding a backslash followed by a member of the escape table, and false only when no backslash remains.",
		[]string{"./pkg/escape"}, func(p *core.Prog, r *core.Report, tier string) {
			const rule = "escape-scan-step"
			f := r.Need(p, "pkg/escape", "IsEscaped")
			if f == nil {
				return
			}
			info := f.Info()
			// i := bytes.IndexByte(b, '\\')
			var idx types.Object
			ast.Inspect(f.Decl.Body, func(n ast.Node) bool {
				if as, ok := n.(*ast.AssignStmt); ok && len(as.Lhs) == 1 && len(as.Rhs) == 1 {
					if c, ok := as.Rhs[0].(*ast.CallExpr); ok && call("bytes.IndexByte")(info, c) {
						idx = core.ObjOf(info, as.Lhs[0])
					}
				}
				return true
			})
			if !r.Check(idx != nil, rule, f.String(), "index:absent", f.Pos(), "position of the next backslash is computed with bytes.IndexByte") {
				return
			}
			// every re-slicing of the scanned parameter is b = b[idx+1:]
			param := f.Obj.Type().(*types.Signature).Params().At(0)
			steps := 0
			ast.Inspect(f.Decl.Body, func(n ast.Node) bool {
				as, ok := n.(*ast.AssignStmt)
				if !ok || len(as.Lhs) != 1 || len(as.Rhs) != 1 || core.ObjOf(info, as.Lhs[0]) != param {
					return true
				}
				steps++
				good := false
				if se, ok := ast.Unparen(as.Rhs[0]).(*ast.SliceExpr); ok && se.High == nil && core.ObjOf(info, se.X) == param && se.Low != nil {
					if be, ok := ast.Unparen(se.Low).(*ast.BinaryExpr); ok && be.Op == token.ADD {
						for _, s := range [][2]ast.Expr{{be.X, be.Y}, {be.Y, be.X}} {
							if core.ObjOf(info, s[0]) == idx {
								if v := core.ConstVal(info, s[1]); v != nil && v.ExactString() == "1" {
									good = true
								}
							}
						}
					}
				}
				r.Check(good, rule, f.String(), "resume-offset", p.Pos(as.Pos()), "the scan resumes exactly one byte after the backslash that was examined")
				return true
			})
			r.Check(steps >= 1, rule, f.String(), "step:absent", f.Pos(), "the scan advances")
			// `return true` only behind a membership test in the escape table of the byte after the backslash
			g := f.Graph()
			for _, x := range g.Exits {
				rs, ok := x.N.(*ast.ReturnStmt)
				if !ok || len(rs.Results) != 1 || core.ExprStr(rs.Results[0]) != "true" {
					continue
				}
				guarded := false
				for _, e := range g.EnclosingGuards(x) {
					if e.Branch && len(core.CallsIn(info, e.Cond, call("strings.IndexByte", "bytes.IndexByte", "strings.ContainsRune", "bytes.ContainsRune"), core.WalkOpts{})) > 0 {
						guarded = true
					}
				}
				r.Check(guarded, rule, f.String(), "true-unguarded", g.Line(x), "`true` is answered only after the byte following a backslash was found in the escape table")
			}
		})
}
