package rules

import (
	"go/ast"
	"go/types"

	"verif/checker/core"
)

// The segment's maxSize is also the bound the readers (current, peek, the
// scanner) enforce on a record length. segment.append deliberately accepts a
// record longer than the configured segment size (it raises the bound to the
// record). After a reopen the bound is rebuilt by newSegment: unless it is raised
// to (at least) the size of the file that was found, an entry that was appended
// successfully is rejected as "record size out of range" and — on the scanner
// path — the whole head segment is trimmed away with it.
func init() {
	extend("C26", "bound-covers-file: segment.append raises the record bound (maxSize) to the length of an oversize record before writing it, and newSegment builds the reloaded segment with a maxSize that was raised to the on-disk file size (a value assigned from FileInfo.Size()), so every record a previous run accepted passes the readers' length check after a reopen.",
		nil, func(p *core.Prog, r *core.Report, tier string) {
			const rule = "bound-covers-file"
			pk := p.Pkg("pkg/durablequeue")
			if pk == nil {
				return
			}
			maxF := core.LookupField(pk.Types, "segment", "maxSize")
			if !r.Check(maxF != nil, "anchor", "durablequeue.segment.maxSize", "unresolved", "-", "field resolved") {
				return
			}
			if f := r.Need(p, "pkg/durablequeue", "segment.append"); f != nil {
				// evaluated with same-package helpers spliced in (helper extraction must not matter)
				g := f.Inline(dqAnchors).G
				raises := g.Select(g.Assigning(maxF))
				writes := g.Select(g.Calling(call("pkg/durablequeue.segment.writeBytes")))
				if r.Check(len(raises) >= 1 && len(writes) >= 1, rule, f.String(), "raise:absent", f.Pos(), "append raises the record bound for an oversize record") {
					// no raise is after a write
					for _, w := range writes {
						after := g.Reach(core.After(w, nil), nil, nil)
						for _, ra := range raises {
							r.Check(!after[ra], rule, f.String(), "raise-after-write", g.Line(ra), "the bound is raised before the record is written")
						}
					}
				}
			}
			if f := r.Need(p, "pkg/durablequeue", "newSegment"); f != nil {
				info := f.Info()
				// the value stored into segment.maxSize by the constructor
				var src types.Object
				ast.Inspect(f.Decl.Body, func(n ast.Node) bool {
					if kv, ok := n.(*ast.KeyValueExpr); ok {
						if id, ok := kv.Key.(*ast.Ident); ok && info.Uses[id] == maxF {
							src = core.ObjOf(info, kv.Value)
						}
					}
					return true
				})
				if r.Check(src != nil, rule, f.String(), "ctor-maxSize:absent", f.Pos(), "the constructor sets segment.maxSize from a variable") {
					fromSize := false
					ast.Inspect(f.Decl.Body, func(n ast.Node) bool {
						as, ok := n.(*ast.AssignStmt)
						if !ok || len(as.Lhs) != 1 || len(as.Rhs) != 1 || core.ObjOf(info, as.Lhs[0]) != src {
							return true
						}
						if c, ok := ast.Unparen(as.Rhs[0]).(*ast.CallExpr); ok && call("io/fs.FileInfo.Size", "os.FileInfo.Size")(info, c) {
							fromSize = true
						}
						return true
					})
					r.Check(fromSize, rule, f.String(), "bound-not-raised-to-file-size", f.Pos(), "the reloaded segment's record bound is raised to the size of the file found on disk")
				}
			}
		})
}
