package rules

import (
	"fmt"
	"go/ast"
	"go/token"
	"go/types"
	"sort"
	"strings"

	"verif/checker/core"
)

const (
	tenantPkg = "tenant"
	kvPkg     = "kv"
)

func init() {
	register(&Prop{
		ID:       "C30",
		Patterns: []string{"./tenant", "./kv"},
		Level:    "other",
		Explanation: "Necessary-condition rules for the tenant store (kv buckets resolved through `tx.Bucket(<package variable>)`, key operands traced to the function that built them). " +
			"(key-function) for every kv bucket of the tenant store, the key operand of every Get and Delete is built by the same function as the key operand of the Puts (bucketIndexKey, organizationIndexKey, []byte conversion, ID.Encode, userResourceKey); kv.Index.Insert/Delete build their key with the same IndexKey call on the same index bucket. " +
			"(unique-check, unique-before-put) the uniqueness checks are derived, not listed: an error-only function whose single kv operation is a Get on a name index, keyed from its name parameter, and which succeeds only under kv.IsNotFound of that Get's error; every Put on a name index (bucket, organization, user) is reachable only through the nil-branch of such a check on the same index. " +
			"(rename) in UpdateBucket/UpdateOrg/UpdateUser the old index key is computed and deleted before the record's Name is overwritten, the new key is put afterwards, Delete precedes Put, and the index entry points at the key under which the record is stored. " +
			"(create-delete-pair) Create* puts and Delete* deletes the same {record bucket, name index} on every success path, DeleteUser additionally the password and the memberships, CreateURM/DeleteURM the record and the by-user index; (kv-errors) the errors of those kv operations and of the cascade calls are never dropped. " +
			"(system-bucket) the rename effects of Store.UpdateBucket are unreachable when bucket.Type == BucketTypeSystem; BucketSvc.DeleteBucket reaches Store.DeleteBucket for a system bucket only under isInternal(ctx), and internalCtx is used only by OrgSvc.DeleteOrganization; bucket creation and rename pass validBucketName. " +
			"(org-cascade) every success path of OrgSvc.DeleteOrganization lists the organization's buckets and deletes each (internal context), deletes the organization record, lists and deletes its tasks and removes its memberships; removeResourceRelations deletes every mapping it finds; BucketSvc.DeleteBucket removes the bucket's memberships.",
		NotCovered:  "contents of the kv store after a history; atomicity across the separate transactions of DeleteOrganization; that the name passed to a uniqueness check is the name later indexed when they are different expressions (UpdateBucket/UpdateOrg use *upd.Name for the check and the record field for the key); name validation rules; pagination of listings.",
		Assumptions: []string{"kv.Bucket Get/Put/Delete behave as a map inside one transaction"},
		Run:         runC30,
	})
}

// kvOp is one Get/Put/Delete on a kv bucket.
type kvOp struct {
	fn      *core.Func
	g       *core.Graph
	node    *core.Node
	call    *ast.CallExpr
	op      string
	bucket  *types.Var // package-level variable naming the bucket (nil: bucket name is a parameter)
	keyFn   string     // canonical name of the function that built the key ("?" if undecidable)
	keyExpr ast.Expr   // the expression that built the key (call or conversion)
	keyNode *core.Node // node evaluating keyExpr
	keyVar  types.Object
}

var mKvOp = call("kv.Bucket.Get", "kv.Bucket.Put", "kv.Bucket.Delete")

// keyOrigin traces a key operand to the expression that produced it.
func keyOrigin(f *core.Func, e ast.Expr) (name string, origin ast.Expr, v types.Object) {
	info := f.Info()
	e = ast.Unparen(e)
	if cl, ok := e.(*ast.CallExpr); ok {
		if _, isConv := core.IsConversion(info, cl); isConv {
			return "conv:" + types.TypeString(info.TypeOf(cl), nil), cl, nil
		}
		if callee := core.Callee(info, cl); callee != nil {
			return core.FName(callee), cl, nil
		}
		return "?", cl, nil
	}
	v = core.ObjOf(info, e)
	if v == nil {
		return "?", e, nil
	}
	sc := core.SoleCall(info, f.Decl.Body, v)
	if sc == nil {
		return "?", e, v
	}
	if _, isConv := core.IsConversion(info, sc); isConv {
		return "conv:" + types.TypeString(info.TypeOf(sc), nil), sc, v
	}
	if callee := core.Callee(info, sc); callee != nil {
		return core.FName(callee), sc, v
	}
	return "?", sc, v
}

// kvOpsOf lists the kv operations of f (its own graph and its literals).
func kvOpsOf(f *core.Func) []*kvOp {
	var out []*kvOp
	info := f.Info()
	for _, g := range f.Graphs() {
		for _, nd := range g.Nodes {
			if nd.N == nil {
				continue
			}
			for _, cl := range core.CallsIn(info, nd.N, mKvOp, core.WalkOpts{}) {
				recv, callee := core.RecvCall(info, cl)
				if callee == nil || len(cl.Args) < 1 {
					continue
				}
				op := &kvOp{fn: f, g: g, node: nd, call: cl, op: callee.Name()}
				if bv := core.ObjOf(info, recv); bv != nil {
					if sc := core.SoleCall(info, f.Decl.Body, bv); sc != nil && call("kv.Tx.Bucket")(info, sc) && len(sc.Args) == 1 {
						op.bucket = core.PkgVar(info, sc.Args[0])
					}
				}
				op.keyFn, op.keyExpr, op.keyVar = keyOrigin(f, cl.Args[0])
				if op.keyExpr != nil {
					op.keyNode = g.NodeOf(op.keyExpr)
				}
				out = append(out, op)
			}
		}
	}
	return out
}

// tables confirmed by reading
var (
	c30NameIndex = map[string]bool{"bucketIndex": true, "organizationIndex": true, "userIndex": true}
	c30MinOps    = map[string]int{"bucketIndex": 6, "organizationIndex": 6, "userIndex": 6, "bucketBucket": 4, "organizationBucket": 4, "userBucket": 5, "userpasswordBucket": 4, "urmBucket": 4}
)

type c30ctx struct {
	p        *core.Prog
	r        *core.Report
	ops      map[*core.Func][]*kvOp
	byBucket map[string][]*kvOp
	unique   map[string][]*types.Func // index bucket -> verified uniqueness checks
}

func runC30(p *core.Prog, r *core.Report, tier string) {
	if p.Pkg(tenantPkg) == nil || p.Pkg(kvPkg) == nil {
		r.Bad("anchor", tenantPkg+"|"+kvPkg, "unresolved", "-", "package not loaded")
		return
	}
	c := &c30ctx{p: p, r: r, ops: map[*core.Func][]*kvOp{}, byBucket: map[string][]*kvOp{}, unique: map[string][]*types.Func{}}
	for _, f := range p.Funcs(tenantPkg) {
		if f.Decl.Body == nil || f.Obj == nil {
			continue
		}
		ops := kvOpsOf(f)
		if len(ops) == 0 {
			continue
		}
		r.Saw(f)
		c.ops[f] = ops
		for _, op := range ops {
			if op.bucket != nil {
				c.byBucket[op.bucket.Name()] = append(c.byBucket[op.bucket.Name()], op)
			}
		}
	}
	c.keyFunctions()
	c.kvIndex()
	c.uniqueChecks()
	c.uniqueBeforePut()
	c.renames()
	c.pairs()
	c.systemBuckets()
	c.cascade()
}

// ---------------------------------------------------------------- (key-function)

func (c *c30ctx) keyFunctions() {
	const rule = "key-function"
	r := c.r
	var names []string
	for b := range c30MinOps {
		names = append(names, b)
	}
	sort.Strings(names)
	for _, b := range names {
		ops := c.byBucket[b]
		if !r.Check(len(ops) >= c30MinOps[b], rule, "tenant."+b, "ops:count", "-", fmt.Sprintf("%d Get/Put/Delete operations on %s (>= %d confirmed by reading)", len(ops), b, c30MinOps[b])) {
			continue
		}
		// the writers define the index
		putFns := map[string]bool{}
		for _, op := range ops {
			if op.op == "Put" {
				putFns[op.keyFn] = true
			}
		}
		if !r.Check(len(putFns) == 1 && !putFns["?"], rule, "tenant."+b, "put-keys-disagree", "-", fmt.Sprintf("all Puts on %s build their key with one function %v", b, keys(putFns))) {
			continue
		}
		want := keys(putFns)[0]
		for _, op := range ops {
			what := b + ":" + op.op
			r.Check(op.keyFn == want, rule, op.fn.String(), what, c.p.Pos(op.call.Pos()), fmt.Sprintf("%s on %s builds its key with %s (Puts use %s)", op.op, b, op.keyFn, want))
		}
	}
	// buckets not in the table: still must agree with themselves
	for b, ops := range c.byBucket {
		if _, known := c30MinOps[b]; known {
			continue
		}
		fns := map[string]bool{}
		for _, op := range ops {
			fns[op.keyFn] = true
		}
		r.Check(len(fns) == 1 && !fns["?"], rule, "tenant."+b, "keys-disagree", "-", fmt.Sprintf("operations on unlisted bucket %s use one key function %v", b, keys(fns)))
	}
}

// kv.Index.Insert / Delete: same bucket accessor, same IndexKey(foreign, primary).
func (c *c30ctx) kvIndex() {
	const rule = "key-function"
	r, p := c.r, c.p
	type side struct {
		f  *core.Func
		op string
	}
	var sig []string
	for _, s := range []side{{r.Need(p, kvPkg, "Index.Insert"), "Put"}, {r.Need(p, kvPkg, "Index.Delete"), "Delete"}} {
		if s.f == nil {
			return
		}
		info := s.f.Info()
		ops := kvOpsOf(s.f)
		if !r.Check(len(ops) == 1 && ops[0].op == s.op, rule, s.f.String(), "op-shape", s.f.Pos(), "exactly one "+s.op+" on the index bucket") {
			return
		}
		op := ops[0]
		recv, _ := core.RecvCall(info, op.call)
		bsrc := core.SoleCall(info, s.f.Decl.Body, core.ObjOf(info, recv))
		okB := bsrc != nil && call("kv.Index.indexBucket")(info, bsrc)
		r.Check(okB, rule, s.f.String(), "bucket", s.f.Pos(), "operates on the bucket returned by Index.indexBucket")
		okK := op.keyFn == "kv.IndexKey"
		roles := ""
		if kc, isCall := op.keyExpr.(*ast.CallExpr); okK && isCall && len(kc.Args) == 2 {
			for _, a := range kc.Args {
				o := core.ObjOf(info, a)
				for i := 0; i < 3; i++ {
					if s.f.Param(i) == o {
						roles += fmt.Sprint(i)
					}
				}
			}
		}
		r.Check(okK && roles == "12", rule, s.f.String(), "index-key", s.f.Pos(), "key is IndexKey(foreignKey, primaryKey) of the parameters, in that order")
		sig = append(sig, op.keyFn+roles)
		core.RuleErrorsUsed(r, s.f, "kv-errors", "indexBucket/IndexKey/"+s.op, core.Or(mKvOp, call("kv.Index.indexBucket", "kv.IndexKey")), false, 3)
	}
	r.Check(len(sig) == 2 && sig[0] == sig[1], rule, "kv.Index", "insert-delete-agree", "-", "Insert and Delete address the same index entry")
}

// ---------------------------------------------------------------- (unique-before-put)

// uniqueChecks derives, for each name index, the functions that are uniqueness
// checks on it: error-only result, a Get on the index (no Put/Delete), success
// only under kv.IsNotFound of that Get's error.
func (c *c30ctx) uniqueChecks() {
	const rule = "unique-check"
	r := c.r
	for f, ops := range c.ops {
		sig := f.Obj.Type().(*types.Signature)
		if sig.Results().Len() != 1 || !core.IsErrorType(sig.Results().At(0).Type()) {
			continue
		}
		if len(ops) != 1 || ops[0].op != "Get" || ops[0].bucket == nil || !c30NameIndex[ops[0].bucket.Name()] || ops[0].g != f.Graph() {
			continue
		}
		op := ops[0]
		g := op.g
		info := f.Info()
		ev := g.ErrVarOf(op.node)
		if !r.Check(ev != nil, rule, f.String(), "get-error-dropped", g.Line(op.node), "the error of the index Get is kept") {
			continue
		}
		// edges implying kv.IsNotFound(ev)
		var nf []*core.Edge
		for _, n := range g.Nodes {
			for _, e := range n.Succ {
				if e.Cond == nil || e.Tag != nil {
					continue
				}
				core.Implied(e.Cond, e.Branch, func(leaf ast.Expr, val bool) {
					if cl, ok := leaf.(*ast.CallExpr); ok && val && call("kv.IsNotFound")(info, cl) && len(cl.Args) == 1 && core.ObjOf(info, cl.Args[0]) == ev {
						nf = append(nf, e)
					}
				})
			}
		}
		if !r.Check(len(nf) >= 1, rule, f.String(), "IsNotFound:absent", f.Pos(), "branches on kv.IsNotFound of the Get error") {
			continue
		}
		// the error variable is not redefined between the Get and the test
		reach := g.ReachFromEntry(nil, core.WithoutEdges(nf))
		leak := false
		for _, x := range g.SuccessExitsX() {
			if reach[x] {
				leak = true
				r.Bad(rule, f.String(), "success-without-IsNotFound", g.Line(x), "the check can succeed although the name was found (or the lookup failed)")
			}
		}
		redef := 0
		for _, a := range core.AssignmentsTo(info, f.Decl.Body, ev) {
			if a.Rhs != nil && ast.Unparen(a.Rhs) != ast.Expr(op.call) && !isPriorTo(a.Stmt, op.call) {
				redef++
			}
		}
		r.Check(redef == 0, rule, f.String(), "error-redefined", f.Pos(), "the Get error is not overwritten before it is classified")
		// the key derives from a parameter
		derived := false
		if kc, ok := op.keyExpr.(*ast.CallExpr); ok {
			for i := 0; i < sig.Params().Len(); i++ {
				if core.Mentions(info, kc, sig.Params().At(i)) && types.Identical(sig.Params().At(i).Type(), types.Typ[types.String]) {
					derived = true
				}
			}
		}
		r.Check(derived, rule, f.String(), "key-not-from-name", g.Line(op.node), "the looked-up key is built from the name parameter")
		if !leak {
			r.Ok(rule, f.String(), f.Pos(), "succeeds only under kv.IsNotFound of the Get on "+op.bucket.Name())
			c.unique[op.bucket.Name()] = append(c.unique[op.bucket.Name()], f.Obj)
		}
	}
	for b := range c30NameIndex {
		r.Check(len(c.unique[b]) >= 1, rule, "tenant."+b, "absent", "-", fmt.Sprintf("%d verified uniqueness check(s) on %s", len(c.unique[b]), b))
	}
}

func isPriorTo(a ast.Node, b ast.Node) bool { return a.End() <= b.Pos() }

func (c *c30ctx) uniqueBeforePut() {
	const rule = "unique-before-put"
	r, p := c.r, c.p
	n := 0
	for f, ops := range c.ops {
		for _, op := range ops {
			if op.op != "Put" || op.bucket == nil || !c30NameIndex[op.bucket.Name()] {
				continue
			}
			n++
			g := op.g
			if !r.Check(g == f.Graph(), rule, f.String(), op.bucket.Name()+":in-closure", p.Pos(op.call.Pos()), "index Put is in the function's own body") {
				continue
			}
			isU := func(info *types.Info, cl *ast.CallExpr) bool {
				callee := core.Callee(info, cl)
				for _, u := range c.unique[op.bucket.Name()] {
					if u == callee {
						return true
					}
				}
				return false
			}
			var succ []*core.Edge
			for _, un := range g.Select(g.Calling(isU)) {
				if gt, ok := g.GateOf(un, nil); ok {
					succ = append(succ, gt.Succ)
				}
			}
			reach := g.ReachFromEntry(nil, core.WithoutEdges(succ))
			r.Check(len(succ) > 0 && !reach[op.node], rule, f.String(), op.bucket.Name(), p.Pos(op.call.Pos()), "Put on "+op.bucket.Name()+" is reachable only after the uniqueness check returned nil")
		}
	}
	r.Check(n >= 6, rule, tenantPkg, "sites:count", "-", fmt.Sprintf("%d Puts on name indexes (>= 6 confirmed by reading)", n))
}

// ---------------------------------------------------------------- (rename)

func (c *c30ctx) opsIn(f *core.Func, bucket, op string) []*kvOp {
	var out []*kvOp
	for _, o := range c.ops[f] {
		if o.bucket != nil && o.bucket.Name() == bucket && o.op == op {
			out = append(out, o)
		}
	}
	return out
}

func (c *c30ctx) renames() {
	const rule = "rename"
	r, p := c.r, c.p
	for _, t := range []struct{ fn, idx, rec, typ string }{
		{"Store.UpdateBucket", "bucketIndex", "bucketBucket", "Bucket"},
		{"Store.UpdateOrg", "organizationIndex", "organizationBucket", "Organization"},
		{"Store.UpdateUser", "userIndex", "userBucket", "User"},
	} {
		f := r.Need(p, tenantPkg, t.fn)
		if f == nil {
			continue
		}
		g := f.Graph()
		info := f.Info()
		dels, puts, recPuts := c.opsIn(f, t.idx, "Delete"), c.opsIn(f, t.idx, "Put"), c.opsIn(f, t.rec, "Put")
		if !r.Check(len(dels) == 1 && len(puts) == 1 && len(recPuts) == 1, rule, f.String(), "shape", f.Pos(), fmt.Sprintf("one index Delete, one index Put, one record Put (found %d/%d/%d)", len(dels), len(puts), len(recPuts))) {
			continue
		}
		del, put, rec := dels[0], puts[0], recPuts[0]
		// the Name field of the record type (root package)
		var nameFld *types.Var
		if rp := p.Pkg(""); rp != nil {
			nameFld = core.LookupField(rp.Types, t.typ, "Name")
		}
		if !r.Check(nameFld != nil, "anchor", "influxdb."+t.typ+".Name", "unresolved", "-", "field resolved") {
			continue
		}
		stores := g.Select(g.Assigning(nameFld))
		if !r.Check(len(stores) >= 1, rule, f.String(), "name-store:absent", f.Pos(), "the record's Name is overwritten on rename") {
			continue
		}
		isStore := func(n *core.Node) bool {
			for _, s := range stores {
				if s == n {
					return true
				}
			}
			return false
		}
		after := g.Reach(stores, nil, nil)
		// old key: computed before the store, from the record's (old) Name
		okOld := del.keyNode != nil && !after[del.keyNode] && keyMentionsField(info, del.keyExpr, nameFld)
		r.Check(okOld, rule, f.String(), "old-key", p.Pos(del.call.Pos()), "the deleted index key is built from the record's Name before that Name is overwritten")
		// new key: computed after the store (from the record) or directly from the update
		beforeStore := g.ReachFromEntry(isStore, nil)
		okNew := put.keyNode != nil && (!beforeStore[put.keyNode] || !keyMentionsField(info, put.keyExpr, nameFld))
		r.Check(okNew, rule, f.String(), "new-key", p.Pos(put.call.Pos()), "the inserted index key is built from the record's Name only after that Name was overwritten (or directly from the update)")
		// Delete precedes Put
		noDel := g.ReachFromEntry(func(n *core.Node) bool { return n == del.node }, nil)
		r.Check(!noDel[put.node], rule, f.String(), "delete<put", p.Pos(put.call.Pos()), "the old index entry is deleted before the new one is inserted")
		// index value == record key
		okPt := len(put.call.Args) == 2 && rec.keyVar != nil && core.ObjOf(info, put.call.Args[1]) == rec.keyVar
		r.Check(okPt, rule, f.String(), "index-points-to-record", p.Pos(put.call.Pos()), "the index entry stores the key under which the record is put")
		// every success exit stores the record
		core.RuleMustPassN(r, f, g, rule, "record Put", func(n *core.Node) bool { return n == rec.node }, nil)
		core.RuleErrorsUsed(r, f, "kv-errors", "Put/Delete", mKvOp, false, 3)
	}
	// Create*: the index entry points at the record key
	for _, t := range []struct{ fn, idx, rec string }{
		{"Store.CreateBucket", "bucketIndex", "bucketBucket"},
		{"Store.CreateOrg", "organizationIndex", "organizationBucket"},
		{"Store.CreateUser", "userIndex", "userBucket"},
	} {
		f := r.Need(p, tenantPkg, t.fn)
		if f == nil {
			continue
		}
		puts, recPuts := c.opsIn(f, t.idx, "Put"), c.opsIn(f, t.rec, "Put")
		if !r.Check(len(puts) == 1 && len(recPuts) == 1, rule, f.String(), "shape", f.Pos(), "one index Put and one record Put") {
			continue
		}
		put, rec := puts[0], recPuts[0]
		okPt := len(put.call.Args) == 2 && rec.keyVar != nil && core.ObjOf(f.Info(), put.call.Args[1]) == rec.keyVar
		r.Check(okPt, rule, f.String(), "index-points-to-record", p.Pos(put.call.Pos()), "the index entry stores the key under which the record is put")
		// the key's name is the Name of the record being created (the parameter)
		rp := f.Param(f.Obj.Type().(*types.Signature).Params().Len() - 1)
		okN := false
		if kc, ok := put.keyExpr.(*ast.CallExpr); ok {
			ast.Inspect(kc, func(n ast.Node) bool {
				if se, ok := n.(*ast.SelectorExpr); ok {
					if fv := core.FieldOf(f.Info(), se); fv != nil && fv.Name() == "Name" && core.ObjOf(f.Info(), se.X) == rp {
						okN = true
					}
				}
				return true
			})
		}
		r.Check(okN, rule, f.String(), "key-from-record-name", p.Pos(put.call.Pos()), "the index key is built from the Name of the record being created")
	}
}

func keyMentionsField(info *types.Info, e ast.Expr, fld *types.Var) bool {
	found := false
	if e == nil {
		return false
	}
	ast.Inspect(e, func(n ast.Node) bool {
		if se, ok := n.(*ast.SelectorExpr); ok && core.FieldOf(info, se) == fld {
			found = true
		}
		return true
	})
	return found
}

// ---------------------------------------------------------------- (create-delete-pair)

func bucketSet(ops []*kvOp, op string) map[string]bool {
	out := map[string]bool{}
	for _, o := range ops {
		if o.op == op && o.bucket != nil {
			out[o.bucket.Name()] = true
		}
	}
	return out
}

func (c *c30ctx) pairs() {
	const rule = "create-delete-pair"
	r, p := c.r, c.p
	for _, t := range []struct {
		create, del string
		want        []string
	}{
		{"Store.CreateBucket", "Store.DeleteBucket", []string{"bucketBucket", "bucketIndex"}},
		{"Store.CreateOrg", "Store.DeleteOrg", []string{"organizationBucket", "organizationIndex"}},
		{"Store.CreateUser", "Store.DeleteUser", []string{"userBucket", "userIndex"}},
	} {
		fc, fd := r.Need(p, tenantPkg, t.create), r.Need(p, tenantPkg, t.del)
		if fc == nil || fd == nil {
			continue
		}
		put, del := bucketSet(c.ops[fc], "Put"), bucketSet(c.ops[fd], "Delete")
		for _, b := range t.want {
			r.Check(put[b], rule, fc.String(), "put:"+b, fc.Pos(), "create writes "+b)
		}
		for b := range put {
			r.Check(del[b], rule, fd.String(), "delete:"+b, fd.Pos(), "delete removes what create wrote to "+b)
		}
		for _, side := range []struct {
			f  *core.Func
			op string
		}{{fc, "Put"}, {fd, "Delete"}} {
			g := side.f.Graph()
			for _, o := range c.ops[side.f] {
				if o.op != side.op || o.bucket == nil || o.g != g {
					continue
				}
				on := o.node
				core.RuleMustPassN(r, side.f, g, rule, side.op+" "+o.bucket.Name(), func(n *core.Node) bool { return n == on }, nil)
			}
			core.RuleErrorsUsed(r, side.f, "kv-errors", "Put/Delete", mKvOp, false, 2)
		}
	}
	// DeleteUser: password and memberships
	if f := r.Need(p, tenantPkg, "Store.DeleteUser"); f != nil {
		g := f.Graph()
		del := bucketSet(c.ops[f], "Delete")
		r.Check(del["userpasswordBucket"], rule, f.String(), "delete:userpasswordBucket", f.Pos(), "deleting a user deletes the stored password hash")
		core.RuleMustPass(r, f, rule, "Store.ListURMs", call("tenant.Store.ListURMs"), false)
		c.loopMustPass(rule, f, g, call("tenant.Store.ListURMs"), call("tenant.Store.DeleteURM"), "Store.DeleteURM")
		core.RuleErrorsUsed(r, f, "kv-errors", "ListURMs/DeleteURM", call("tenant.Store.ListURMs", "tenant.Store.DeleteURM"), false, 2)
	}
	// URM: record + by-user index
	fc, fd := r.Need(p, tenantPkg, "Store.CreateURM"), r.Need(p, tenantPkg, "Store.DeleteURM")
	if fc != nil && fd != nil {
		ins, rm := call("kv.Index.Insert"), call("kv.Index.Delete")
		core.RuleMustPass(r, fc, rule, "Index.Insert", ins, false)
		core.RuleMustPass(r, fd, rule, "Index.Delete", rm, false)
		for _, o := range c.ops[fc] {
			if o.op == "Put" && o.bucket != nil {
				on := o.node
				core.RuleMustPassN(r, fc, fc.Graph(), rule, "Put "+o.bucket.Name(), func(n *core.Node) bool { return n == on }, nil)
			}
		}
		for _, o := range c.ops[fd] {
			if o.op == "Delete" && o.bucket != nil {
				on := o.node
				core.RuleMustPassN(r, fd, fd.Graph(), rule, "Delete "+o.bucket.Name(), func(n *core.Node) bool { return n == on }, nil)
			}
		}
		r.Check(bucketSet(c.ops[fc], "Put")["urmBucket"] && bucketSet(c.ops[fd], "Delete")["urmBucket"], rule, "tenant.Store.CreateURM|DeleteURM", "urmBucket", "-", "both sides operate on urmBucket")
		// same index, same operand roles: (tx, <encoded user id>, <urm key>)
		roles := func(f *core.Func, m core.Matcher) string {
			cs := core.AllCalls(f.Info(), f.Decl.Body, m)
			if len(cs) != 1 || len(cs[0].Args) != 3 {
				return "?"
			}
			recv, _ := core.RecvCall(f.Info(), cs[0])
			fld := core.FieldOf(f.Info(), recv)
			a1, _, _ := keyOrigin(f, cs[0].Args[1])
			a2, _, _ := keyOrigin(f, cs[0].Args[2])
			fn := ""
			if fld != nil {
				fn = fld.Name()
			}
			return fn + "(" + a1 + "," + a2 + ")"
		}
		ri, rd := roles(fc, ins), roles(fd, rm)
		r.Check(ri == rd && !strings.Contains(ri, "?"), rule, "tenant.Store.CreateURM|DeleteURM", "index-operands", "-", fmt.Sprintf("Insert %s and Delete %s address the same index entry", ri, rd))
		core.RuleErrorsUsed(r, fc, "kv-errors", "Put/Insert", core.Or(mKvOp, ins), false, 2)
		core.RuleErrorsUsed(r, fd, "kv-errors", "Delete/Index.Delete", core.Or(mKvOp, rm), false, 2)
	}
}

// loopMustPass: f ranges over the slice returned by a call of class src and
// every iteration of that loop passes a call of class sink whose arguments
// mention the loop element.
func (c *c30ctx) loopMustPass(rule string, f *core.Func, g *core.Graph, src, sink core.Matcher, sinkName string) bool {
	r := c.r
	info := f.Info()
	for _, loop := range g.RangeStmts() {
		xv := core.ObjOf(info, loop.X)
		if xv == nil {
			continue
		}
		sc := core.SoleCall(info, g.Body, xv)
		if sc == nil {
			// variables reassigned in a loop (tasks, _, err := … inside for{})
			for _, a := range core.AssignmentsTo(info, g.Body, xv) {
				if cl, ok := a.Rhs.(*ast.CallExpr); ok && src(info, cl) {
					sc = cl
				}
			}
		}
		if sc == nil || !src(info, sc) {
			continue
		}
		rv := core.ObjOf(info, loop.Value)
		head := g.RangeHead(loop)
		if rv == nil || head == nil || len(head.Succ) != 2 {
			continue
		}
		isSink := func(n *core.Node) bool {
			if n.N == nil || !core.InRegion(n, loop.Body) {
				return false
			}
			for _, cl := range core.CallsIn(info, n.N, sink, core.WalkOpts{}) {
				for _, a := range cl.Args {
					if core.Mentions(info, a, rv) {
						return true
					}
				}
			}
			return false
		}
		if len(g.Select(isSink)) == 0 {
			continue
		}
		again := g.Reach([]*core.Node{head.Succ[0].To}, isSink, nil)
		// leaving the iteration without the sink: back at the head, or out of the loop body on a success path
		escaped := again[head]
		for n := range again {
			if n != head && !core.InRegion(n, loop.Body) {
				for _, x := range g.SuccessExits() {
					if x == n {
						escaped = true
					}
				}
				if n.N != nil && n.Kind == core.KNormal && !core.InRegion(n, loop) {
					escaped = true
				}
			}
		}
		return r.Check(!escaped, rule, f.String(), "loop:"+sinkName, c.p.Pos(loop.Pos()), "every iteration over the listed items passes "+sinkName+" on the item")
	}
	r.Bad(rule, f.String(), "loop:"+sinkName+":absent", f.Pos(), "no loop over the listing that applies "+sinkName+" to each item")
	return false
}

// ---------------------------------------------------------------- (system-bucket)

func (c *c30ctx) systemLeaf(info *types.Info, sys bool, internal *bool) core.LeafEval {
	return func(e ast.Expr) (bool, bool) {
		if be, ok := e.(*ast.BinaryExpr); ok && (be.Op == token.EQL || be.Op == token.NEQ) {
			isType := func(x ast.Expr) bool {
				fv := core.FieldOf(info, x)
				return fv != nil && fv.Name() == "Type" && namedIs(fv.Type(), ".", "BucketType")
			}
			isSys := func(x ast.Expr) bool {
				k := core.ConstOf(info, x)
				return k != nil && k.Name() == "BucketTypeSystem"
			}
			if (isType(be.X) && isSys(be.Y)) || (isType(be.Y) && isSys(be.X)) {
				return sys == (be.Op == token.EQL), true
			}
		}
		if cl, ok := e.(*ast.CallExpr); ok && internal != nil && call("tenant.isInternal")(info, cl) {
			return *internal, true
		}
		return false, false
	}
}

func (c *c30ctx) systemBuckets() {
	const rule = "system-bucket"
	r, p := c.r, c.p
	if f := r.Need(p, tenantPkg, "Store.UpdateBucket"); f != nil {
		g := f.Graph()
		info := f.Info()
		under := g.ReachUnder([]*core.Node{g.Entry}, nil, c.systemLeaf(info, true, nil))
		var nameFld *types.Var
		if rp := p.Pkg(""); rp != nil {
			nameFld = core.LookupField(rp.Types, "Bucket", "Name")
		}
		n := 0
		for _, o := range c.ops[f] {
			if o.bucket != nil && o.bucket.Name() == "bucketIndex" {
				n++
				r.Check(!under[o.node], rule, f.String(), "rename-index-"+o.op, p.Pos(o.call.Pos()), "the index "+o.op+" of a rename is unreachable for a system bucket")
			}
		}
		for _, s := range g.Select(g.Assigning(nameFld)) {
			n++
			r.Check(!under[s], rule, f.String(), "rename-name-store", g.Line(s), "the Name of a system bucket is never overwritten")
		}
		r.Check(n >= 3, rule, f.String(), "effects:count", f.Pos(), fmt.Sprintf("%d rename effects examined (>= 3 confirmed by reading)", n))
		// the guard talks about the bucket that is renamed
		okObj := false
		for _, nd := range g.Nodes {
			for _, e := range nd.Succ {
				if e.Cond == nil {
					continue
				}
				core.Implied(e.Cond, e.Branch, func(leaf ast.Expr, val bool) {
					if v, known := c.systemLeaf(info, true, nil)(leaf); known && v == val {
						be := leaf.(*ast.BinaryExpr)
						for _, x := range []ast.Expr{be.X, be.Y} {
							if se, ok := ast.Unparen(x).(*ast.SelectorExpr); ok && core.FieldOf(info, se) != nil {
								for _, s := range g.Select(g.Assigning(nameFld)) {
									if as, ok := s.N.(*ast.AssignStmt); ok {
										if ls, ok := as.Lhs[0].(*ast.SelectorExpr); ok && core.ObjOf(info, ls.X) == core.ObjOf(info, se.X) && core.ObjOf(info, se.X) != nil {
											okObj = true
										}
									}
								}
							}
						}
					}
				})
			}
		}
		r.Check(okObj, rule, f.String(), "guard-object", f.Pos(), "the system-type test reads the Type of the very bucket whose Name is overwritten")
		// rename passes validBucketName
		gts := gatesOf(g, call("tenant.validBucketName"))
		reach := g.ReachFromEntry(nil, core.WithoutEdges(gts))
		for _, o := range c.opsIn(f, "bucketIndex", "Put") {
			r.Check(len(gts) > 0 && !reach[o.node], rule, f.String(), "validBucketName<rename", p.Pos(o.call.Pos()), "the new name passed validBucketName before it is indexed")
		}
	}
	if f := r.Need(p, tenantPkg, "BucketSvc.DeleteBucket"); f != nil {
		info := f.Info()
		found := 0
		for _, g := range f.Graphs() {
			dn := g.Select(g.Calling(call("tenant.Store.DeleteBucket")))
			if len(dn) == 0 {
				continue
			}
			no := false
			under := g.ReachUnder([]*core.Node{g.Entry}, nil, c.systemLeaf(info, true, &no))
			for _, d := range dn {
				found++
				r.Check(!under[d], rule, f.String(), "delete-system-bucket", g.Line(d), "Store.DeleteBucket is unreachable for a system bucket unless the context is internal")
				// the tested bucket is the one being deleted
				dc := core.CallsIn(info, d.N, call("tenant.Store.DeleteBucket"), core.WalkOpts{})[0]
				same := false
				for _, gn := range g.Select(g.Calling(call("tenant.Store.GetBucket"))) {
					gc := core.CallsIn(info, gn.N, call("tenant.Store.GetBucket"), core.WalkOpts{})[0]
					if len(gc.Args) == 3 && len(dc.Args) == 3 && core.ObjOf(info, gc.Args[2]) != nil && core.ObjOf(info, gc.Args[2]) == core.ObjOf(info, dc.Args[2]) {
						// and the Type test reads the fetched bucket
						if as, ok := gn.N.(*ast.AssignStmt); ok {
							bv := core.ObjOf(info, as.Lhs[0])
							for _, cn := range g.Nodes {
								if e, ok := cn.N.(ast.Expr); ok && len(cn.Succ) == 2 && bv != nil && core.Mentions(info, e, bv) {
									if _, known := core.EvalCond(e, c.systemLeaf(info, true, &no)); known {
										same = true
									}
								}
							}
						}
					}
				}
				r.Check(same, rule, f.String(), "guard-object", g.Line(d), "the system-type test reads the bucket fetched with the id that is deleted")
			}
		}
		r.Check(found >= 1, rule, f.String(), "Store.DeleteBucket:absent", f.Pos(), "the store delete is called")
	}
	// internalCtx only from DeleteOrganization; the context key only in internalCtx / isInternal
	nCall := 0
	for _, f := range p.Funcs(tenantPkg) {
		if f.Decl.Body == nil {
			continue
		}
		for _, cl := range core.AllCalls(f.Info(), f.Decl.Body, call("tenant.internalCtx")) {
			nCall++
			r.Check(f.Name == "OrgSvc.DeleteOrganization", rule, f.String(), "internalCtx-caller", p.Pos(cl.Pos()), "internalCtx (which lifts the system-bucket protection) is used only by the organization delete cascade")
		}
		ast.Inspect(f.Decl.Body, func(n ast.Node) bool {
			if id, ok := n.(*ast.Ident); ok {
				if k, ok := f.Info().Uses[id].(*types.Const); ok && k.Name() == "ctxInternal" && k.Pkg() == f.Pkg.Types {
					r.Check(f.Name == "internalCtx" || f.Name == "isInternal", rule, f.String(), "ctxInternal-use", p.Pos(id.Pos()), "the internal-context key is used only by internalCtx and isInternal")
				}
			}
			return true
		})
	}
	r.Check(nCall >= 1, rule, tenantPkg, "internalCtx:absent", "-", "internalCtx is used by the cascade")
	if f := r.Need(p, tenantPkg, "isInternal"); f != nil {
		core.RuleHasCall(r, f, rule, "context.Value", call("context.Context.Value"))
	}
	// creation passes validBucketName
	if f := r.Need(p, tenantPkg, "BucketSvc.CreateBucket"); f != nil {
		g := f.Graph()
		gts := gatesOf(g, call("tenant.validBucketName"))
		reach := g.ReachFromEntry(nil, core.WithoutEdges(gts))
		up := g.Select(g.Calling(call("tenant.Store.Update")))
		r.Check(len(up) >= 1 && len(gts) >= 1, rule, f.String(), "shape", f.Pos(), "validBucketName and the store update are present")
		for _, u := range up {
			r.Check(!reach[u], rule, f.String(), "validBucketName<create", g.Line(u), "the store is updated only after validBucketName returned nil")
		}
	}
}

// gatesOf returns the nil-branch edges of the error tests of calls of class m.
func gatesOf(g *core.Graph, m core.Matcher) []*core.Edge {
	var out []*core.Edge
	for _, n := range g.Select(g.Calling(m)) {
		if gt, ok := g.GateOf(n, nil); ok {
			out = append(out, gt.Succ)
		}
	}
	return out
}

// ---------------------------------------------------------------- (org-cascade)

// litFieldIsAddrOf: composite literal lit sets field to &obj (or obj).
func litFieldIs(info *types.Info, e ast.Expr, field string, obj types.Object) bool {
	cl, ok := ast.Unparen(e).(*ast.CompositeLit)
	if !ok {
		return false
	}
	for _, el := range cl.Elts {
		kv, ok := el.(*ast.KeyValueExpr)
		if !ok {
			continue
		}
		if id, ok := kv.Key.(*ast.Ident); ok && id.Name == field {
			v := ast.Unparen(kv.Value)
			if u, ok := v.(*ast.UnaryExpr); ok && u.Op == token.AND {
				v = ast.Unparen(u.X)
			}
			return core.ObjOf(info, v) == obj
		}
	}
	return false
}

// argLit resolves a call argument to the composite literal it denotes
// (directly, or through a variable with a single definition).
func argLit(f *core.Func, e ast.Expr) ast.Expr {
	e = ast.Unparen(e)
	if _, ok := e.(*ast.CompositeLit); ok {
		return e
	}
	if v := core.ObjOf(f.Info(), e); v != nil {
		as := core.AssignmentsTo(f.Info(), f.Decl.Body, v)
		if len(as) == 1 && as[0].Rhs != nil {
			return ast.Unparen(as[0].Rhs)
		}
	}
	return nil
}

func (c *c30ctx) cascade() {
	const rule = "org-cascade"
	r, p := c.r, c.p
	if f := r.Need(p, tenantPkg, "OrgSvc.DeleteOrganization"); f != nil {
		g := f.Graph()
		info := f.Info()
		id := f.Param(1)
		findB := call("*.BucketService.FindBuckets")
		delB := call("*.BucketService.DeleteBucket")
		findT := call("*.TaskService.FindTasks")
		delT := call("*.TaskService.DeleteTask")
		rrr := call("tenant.OrgSvc.removeResourceRelations")
		core.RuleMustPass(r, f, rule, "FindBuckets", findB, false)
		for _, cl := range core.AllCalls(info, f.Decl.Body, findB) {
			r.Check(len(cl.Args) >= 2 && litFieldIs(info, argLit(f, cl.Args[1]), "OrganizationID", id), rule, f.String(), "FindBuckets-filter", p.Pos(cl.Pos()), "the buckets are listed for the organization being deleted")
		}
		c.loopMustPass(rule, f, g, findB, delB, "DeleteBucket")
		for _, cl := range core.AllCalls(info, f.Decl.Body, delB) {
			ok := false
			if len(cl.Args) >= 1 {
				if ic, isCall := ast.Unparen(cl.Args[0]).(*ast.CallExpr); isCall && call("tenant.internalCtx")(info, ic) {
					ok = true
				}
			}
			r.Check(ok, rule, f.String(), "DeleteBucket-internal-ctx", p.Pos(cl.Pos()), "the cascade deletes buckets with the internal context (system buckets go with their organization)")
		}
		// the record delete: s.store.Update(ctx, func(tx){ … DeleteOrg(ctx, tx, id) … })
		isDelOrg := func(n *core.Node) bool {
			if n.N == nil {
				return false
			}
			for _, cl := range core.CallsIn(info, n.N, call("tenant.Store.Update"), core.WalkOpts{}) {
				for _, a := range cl.Args {
					if fl, ok := ast.Unparen(a).(*ast.FuncLit); ok {
						for _, dc := range core.AllCalls(info, fl.Body, call("tenant.Store.DeleteOrg")) {
							if len(dc.Args) == 3 && core.ObjOf(info, dc.Args[2]) == id {
								return true
							}
						}
					}
				}
			}
			return false
		}
		core.RuleMustPassN(r, f, g, rule, "Store.Update(DeleteOrg(id))", isDelOrg, nil)
		core.RuleMustPass(r, f, rule, "FindTasks", findT, false)
		for _, cl := range core.AllCalls(info, f.Decl.Body, findT) {
			r.Check(len(cl.Args) >= 2 && litFieldIs(info, argLit(f, cl.Args[1]), "OrganizationID", id), rule, f.String(), "FindTasks-filter", p.Pos(cl.Pos()), "the tasks are listed for the organization being deleted")
		}
		c.loopMustPass(rule, f, g, findT, delT, "DeleteTask")
		core.RuleMustPass(r, f, rule, "removeResourceRelations", rrr, false)
		for _, cl := range core.AllCalls(info, f.Decl.Body, rrr) {
			r.Check(len(cl.Args) == 2 && core.ObjOf(info, cl.Args[1]) == id, rule, f.String(), "removeResourceRelations-operand", p.Pos(cl.Pos()), "memberships are removed for the organization being deleted")
		}
		core.RuleErrorsUsed(r, f, "kv-errors", "cascade calls", core.Or(findB, delB, findT, delT, rrr, call("tenant.Store.Update")), false, 6)
	}
	for _, n := range []string{"OrgSvc.removeResourceRelations", "BucketSvc.removeResourceRelations"} {
		f := r.Need(p, tenantPkg, n)
		if f == nil {
			continue
		}
		info := f.Info()
		findM := call("*.UserResourceMappingService.FindUserResourceMappings")
		delM := call("*.UserResourceMappingService.DeleteUserResourceMapping")
		core.RuleMustPass(r, f, rule, "FindUserResourceMappings", findM, false)
		for _, cl := range core.AllCalls(info, f.Decl.Body, findM) {
			r.Check(len(cl.Args) >= 2 && litFieldIs(info, argLit(f, cl.Args[1]), "ResourceID", f.Param(1)), rule, f.String(), "filter", p.Pos(cl.Pos()), "mappings are listed for the resource being deleted")
		}
		c.loopMustPass(rule, f, f.Graph(), findM, delM, "DeleteUserResourceMapping")
		core.RuleErrorsUsed(r, f, "kv-errors", "mapping calls", core.Or(findM, delM), false, 2)
	}
	if f := r.Need(p, tenantPkg, "BucketSvc.DeleteBucket"); f != nil {
		g := f.Graph()
		info := f.Info()
		id := f.Param(1)
		rrr := call("tenant.BucketSvc.removeResourceRelations")
		core.RuleMustPass(r, f, rule, "removeResourceRelations", rrr, false)
		for _, cl := range core.AllCalls(info, f.Decl.Body, rrr) {
			r.Check(len(cl.Args) == 2 && core.ObjOf(info, cl.Args[1]) == id, rule, f.String(), "removeResourceRelations-operand", p.Pos(cl.Pos()), "memberships are removed for the bucket being deleted")
		}
		core.RuleMustPass(r, f, rule, "Store.Update", call("tenant.Store.Update"), false)
		// inside the transaction every success exit passes Store.DeleteBucket
		for _, lg := range f.Graphs()[1:] {
			if len(lg.Select(lg.Calling(call("tenant.Store.GetBucket")))) > 0 {
				core.RuleMustPassN(r, f, lg, rule, "Store.DeleteBucket (in transaction)", lg.Calling(call("tenant.Store.DeleteBucket")), nil)
			}
		}
		_ = g
		core.RuleErrorsUsed(r, f, "kv-errors", "Update/DeleteBucket", call("tenant.Store.Update", "tenant.Store.DeleteBucket", "tenant.Store.GetBucket"), false, 3)
	}
	if f := r.Need(p, tenantPkg, "UserSvc.DeleteUser"); f != nil {
		for _, lg := range f.Graphs()[1:] {
			core.RuleMustPassN(r, f, lg, rule, "Store.DeleteUser (in transaction)", lg.Calling(call("tenant.Store.DeleteUser")), nil)
		}
		core.RuleErrorsUsed(r, f, "kv-errors", "Update/DeleteUser", call("tenant.Store.Update", "tenant.Store.DeleteUser", "tenant.Store.DeletePassword"), false, 3)
	}
}
