package rules

import (
	"fmt"
	"go/ast"
	"go/token"
	"go/types"
	"sort"
	"strings"

	"verif/checker/core"
)

const (
	authzPkg = "authorizer"
	authnPkg = "authorization"
)

func init() {
	register(&Prop{
		ID:       "C29",
		Patterns: []string{"./authorizer", "./authorization"},
		Level:    "other",
		Explanation: "Necessary-condition rules for the authorizing service wrappers, decided on CFG paths with type-resolved callees. " +
			"Wrappers are recognised structurally (a struct with an interface-typed field whose methods the struct itself declares and implements): every such type in authorizer/ plus authorization.AuthedAuthorizationService. " +
			"(check-core) authorizer.authorize returns the verdict of isAllowed on a permission built from its own action/type parameters; isAllowedAll/IsAllowedAny fail when PermissionSet() fails, isAllowedAll fails on the first permission not Allowed, IsAllowedAny succeeds only under an Allowed hit; VerifyPermissions checks every element of its argument. " +
			"(action-class) every Authorize* helper is a pure forwarder whose action constant (read/write), derived through the call chain to authorize, agrees with its name. " +
			"(error-transformer) a wrapper helper through which a check error is passed before it is tested (taskServiceValidator.processPermissionError) returns its error parameter or a non-nil literal on every path, so a denial stays a denial. " +
			"(gate-before-mutate) in every wrapper method each delegate call that is not a read (Find*/Get*/List*/Load*/DefaultSource) is reachable only through the nil-branch of the error test of a write-class or IsAllowed* check. " +
			"(gate-results) in every wrapper method that returns data, each success return is reachable only through the nil-branch of some check (or a checked sibling method), or returns the output of an AuthorizeFind* filter, a sibling method, or an authorizing wrapper value. " +
			"(no-promoted-passthrough) a wrapper that embeds its delegate declares every method of the delegate interface itself. " +
			"(verify-permissions) both CreateAuthorization wrappers reach the delegate only after VerifyPermissions(a.Permissions) of the same authorization succeeded. " +
			"(filter) each of the AuthorizeFind* filters appends the loop element only after every read check in the loop body returned nil (decided by enumerating the error/EUnauthorized valuations along the CFG), checks arguments derived from the element, starts from an empty accumulator and returns the accumulator. " +
			"(resource-type) the ResourceType constants used by each wrapper and each filter are the ones confirmed by reading.",
		NotCovered:  "store contents after a denied call beyond 'the mutating delegate call is not reached'; whether the IDs/org passed to a check are the right ones for the target (value level, only the resource type constant and, for filters, derivation from the loop element are checked); the matching semantics of PermissionSet.Allowed (C28); the tenant.Authed* middlewares and every wrapper outside authorizer/ and authorization.AuthedAuthorizationService; methods promoted from embedded helper services (e.g. CheckService embedding UserResourceMappingService).",
		Assumptions: []string{"a wrapper is only used through the interface of its delegate", "context.GetAuthorizer returns the authenticated principal"},
		Run:         runC29,
	})
}

// ---------------------------------------------------------------- tables (confirmed by reading)

// delegate methods that only read; everything else is treated as mutating (fail-closed).
var c29ReadPrefixes = []string{"Find", "Get", "List", "Load"}
var c29ReadExact = map[string]bool{"DefaultSource": true}

// ungated mutating delegate calls that are legitimate, with the reason.
var c29MutateExceptions = map[string]string{
	"authorizer.BackupService.RLockKVStore:RLockKVStore":                 "lock management only; documented to be used behind an already authorized backup handler",
	"authorizer.BackupService.RUnlockKVStore:RUnlockKVStore":             "lock management only; documented to be used behind an already authorized backup handler",
	"authorizer.SqlBackupRestoreService.RLockSqlStore:RLockSqlStore":     "lock management only; documented to be used behind an already authorized backup handler",
	"authorizer.SqlBackupRestoreService.RUnlockSqlStore:RUnlockSqlStore": "lock management only; documented to be used behind an already authorized backup handler",
	"authorizer.DocumentService.CreateDocumentStore:CreateDocumentStore": "creates an (empty) namespace; every document operation on the returned store goes through the authorizing documentStore wrapper (checked by gate-results)",
}

// resource types used by each wrapper (first entry = primary type).
var c29WrapperRT = map[string][]string{
	"authorizer.AnnotationService":             {"AnnotationsResourceType"},
	"authorizer.AuthorizationService":          {"AuthorizationsResourceType", "UsersResourceType"},
	"authorization.AuthedAuthorizationService": {"AuthorizationsResourceType", "UsersResourceType"},
	"authorizer.BackupService":                 {},
	"authorizer.BucketService":                 {"BucketsResourceType"},
	"authorizer.CheckService":                  {"ChecksResourceType"},
	"authorizer.DashboardService":              {"DashboardsResourceType"},
	"authorizer.DocumentService":               {},
	"authorizer.documentStore":                 {"DocumentsResourceType"},
	"authorizer.LabelService":                  {"LabelsResourceType"},
	"authorizer.NotebookService":               {"NotebooksResourceType"},
	"authorizer.NotificationEndpointService":   {"NotificationEndpointResourceType"},
	"authorizer.NotificationRuleStore":         {"NotificationRuleResourceType"},
	"authorizer.OrgService":                    {"OrgsResourceType"},
	"authorizer.PasswordService":               {"UsersResourceType"},
	"authorizer.RestoreService":                {},
	"authorizer.ScraperTargetStoreService":     {"ScraperResourceType", "BucketsResourceType"},
	"authorizer.SecretService":                 {"SecretsResourceType"},
	"authorizer.SourceService":                 {"SourcesResourceType"},
	"authorizer.SqlBackupRestoreService":       {},
	"authorizer.taskServiceValidator":          {"TasksResourceType"},
	"authorizer.TelegrafConfigService":         {"TelegrafsResourceType"},
	"authorizer.URMService":                    {},
	"authorizer.UserService":                   {"UsersResourceType"},
	"authorizer.VariableService":               {"VariablesResourceType"},
}

// resource type checked by each filter ("" = the check takes no constant type).
var c29FilterRT = map[string][]string{
	"AuthorizeFindDBRPs":                 {"BucketsResourceType"},
	"AuthorizeFindAuthorizations":        {"AuthorizationsResourceType", "UsersResourceType"},
	"AuthorizeFindBuckets":               {},
	"AuthorizeFindDashboards":            {"DashboardsResourceType"},
	"AuthorizeFindAnnotations":           {"AnnotationsResourceType"},
	"AuthorizeFindStreams":               {"AnnotationsResourceType"},
	"AuthorizeFindNotebooks":             {"NotebooksResourceType"},
	"AuthorizeFindOrganizations":         {},
	"AuthorizeFindSources":               {"SourcesResourceType"},
	"AuthorizeFindTasks":                 {"TasksResourceType"},
	"AuthorizeFindTelegrafs":             {"TelegrafsResourceType"},
	"AuthorizeFindUsers":                 {"UsersResourceType"},
	"AuthorizeFindVariables":             {"VariablesResourceType"},
	"AuthorizeFindScrapers":              {"ScraperResourceType"},
	"AuthorizeFindLabels":                {"LabelsResourceType"},
	"AuthorizeFindNotificationRules":     {"NotificationRuleResourceType"},
	"AuthorizeFindNotificationEndpoints": {"NotificationEndpointResourceType"},
	"AuthorizeFindChecks":                {"ChecksResourceType"},
	"AuthorizeFindUserResourceMappings":  {},
}

// ---------------------------------------------------------------- context

type c29ctx struct {
	p      *core.Prog
	r      *core.Report
	class  map[*types.Func]string // Authorize* helper -> "read" | "write"
	filter map[*types.Func]bool   // AuthorizeFind* functions
	xform  map[*types.Func]int    // verified error transformers -> index of the error argument
	// summaries of checking helpers (see helperCheck)
	helperMemo map[*core.Graph]helperSum
}

const (
	ckNone = iota
	ckRead
	ckWrite
	ckGeneric // IsAllowed / IsAllowedAll / IsAllowedAny
	ckVerify  // VerifyPermissions
	ckSibling // another method of the same wrapper
)

func runC29(p *core.Prog, r *core.Report, tier string) {
	c := &c29ctx{p: p, r: r, class: map[*types.Func]string{}, filter: map[*types.Func]bool{}, xform: map[*types.Func]int{}}
	if p.Pkg(authzPkg) == nil || p.Pkg(authnPkg) == nil {
		r.Bad("anchor", authzPkg+"|"+authnPkg, "unresolved", "-", "package not loaded")
		return
	}
	c.actionClasses()
	c.checkCore()
	c.filters()
	c.wrappers()
}

func isCtxType(t types.Type) bool {
	n := core.NamedOf(t)
	return n != nil && n.Obj().Pkg() != nil && n.Obj().Pkg().Path() == "context" && n.Obj().Name() == "Context"
}

func namedIs(t types.Type, pkgSuffix, name string) bool {
	n := core.NamedOf(t)
	if n == nil || n.Obj().Pkg() == nil || n.Obj().Name() != name {
		return false
	}
	return core.Short(n.Obj().Pkg().Path()) == pkgSuffix
}

// isCheckSig: func(ctx, …) (influxdb.Authorizer, influxdb.Permission, error)
func isCheckSig(sig *types.Signature) bool {
	if sig == nil || sig.Recv() != nil || sig.Results().Len() != 3 {
		return false
	}
	rs := sig.Results()
	return namedIs(rs.At(0).Type(), ".", "Authorizer") && namedIs(rs.At(1).Type(), ".", "Permission") && core.IsErrorType(rs.At(2).Type())
}

// ---------------------------------------------------------------- (action-class)

func (c *c29ctx) actionClasses() {
	const rule = "action-class"
	p, r := c.p, c.r
	base := r.Need(p, authzPkg, "authorize")
	if base == nil {
		return
	}
	actParam := -1
	sig := base.Obj.Type().(*types.Signature)
	for i := 0; i < sig.Params().Len(); i++ {
		if namedIs(sig.Params().At(i).Type(), ".", "Action") {
			actParam = i
		}
	}
	if !r.Check(actParam >= 0, rule, base.String(), "action-param", base.Pos(), "authorize takes the action as a parameter") {
		return
	}
	var cands []*core.Func
	for _, f := range p.Funcs(authzPkg) {
		if f == base || f.Obj == nil || f.Decl.Body == nil {
			continue
		}
		if isCheckSig(f.Obj.Type().(*types.Signature)) {
			cands = append(cands, f)
		}
	}
	// fixpoint over pure forwarders
	actions := map[*types.Func]map[string]bool{}
	bad := map[*core.Func]string{}
	for iter := 0; iter < 6; iter++ {
		for _, f := range cands {
			set := map[string]bool{}
			why := ""
			nret := 0
			ast.Inspect(f.Decl.Body, func(n ast.Node) bool {
				rs, ok := n.(*ast.ReturnStmt)
				if !ok {
					return true
				}
				nret++
				if len(rs.Results) != 1 {
					why = "a return is not a forwarded call"
					return true
				}
				call, ok := ast.Unparen(rs.Results[0]).(*ast.CallExpr)
				if !ok {
					why = "a return is not a forwarded call"
					return true
				}
				callee := core.Callee(f.Info(), call)
				switch {
				case callee == base.Obj:
					k := core.ConstOf(f.Info(), call.Args[actParam])
					if k == nil {
						why = "action argument of authorize is not a constant"
						return true
					}
					set[k.Name()] = true
				case callee != nil && actions[callee] != nil:
					for a := range actions[callee] {
						set[a] = true
					}
				case callee != nil && c.p.FuncOf(callee) != nil && isCheckSig(callee.Type().(*types.Signature)):
					// not yet summarised; next iteration
					why = "pending"
				default:
					why = "forwards to " + core.FName(callee) + ", which is not an authorize helper"
				}
				return true
			})
			if nret == 0 {
				why = "no return"
			}
			if why == "" {
				actions[f.Obj] = set
				delete(bad, f)
			} else {
				bad[f] = why
			}
		}
	}
	n := 0
	for _, f := range cands {
		r.Saw(f)
		if why, isBad := bad[f]; isBad {
			r.Bad(rule, f.String(), "not-a-forwarder", f.Pos(), "cannot derive the action: "+why)
			continue
		}
		set := actions[f.Obj]
		cls := ""
		switch {
		case len(set) == 1 && set["ReadAction"]:
			cls = "read"
		case len(set) == 1 && set["WriteAction"]:
			cls = "write"
		}
		if !r.Check(cls != "", rule, f.String(), "mixed-action", f.Pos(), fmt.Sprintf("derived action set %v is a single action", keys(set))) {
			continue
		}
		c.class[f.Obj] = cls
		n++
		name := f.Decl.Name.Name
		want := ""
		switch {
		case strings.Contains(name, "Read"):
			want = "read"
		case strings.Contains(name, "Write"), strings.Contains(name, "Create"):
			want = "write"
		}
		if want != "" {
			r.Check(cls == want, rule, f.String(), "name-vs-action", f.Pos(), fmt.Sprintf("helper named %s checks the %s action (derived: %s)", name, want, cls))
		} else {
			r.Bad(rule, f.String(), "unclassifiable-name", f.Pos(), "authorize helper whose name states neither Read nor Write/Create; add it to the rule table after reading")
		}
	}
	r.Check(n >= 13, rule, authzPkg, "helpers:count", base.Pos(), fmt.Sprintf("%d Authorize* helpers classified (>= 13 confirmed by reading)", n))
}

func keys(m map[string]bool) []string {
	var out []string
	for k := range m {
		out = append(out, k)
	}
	sort.Strings(out)
	return out
}

// ---------------------------------------------------------------- (check-core)

var (
	mPermSet  = call("..Authorizer.PermissionSet")
	mAllowed  = call("..PermissionSet.Allowed")
	mGetAuthz = call("context.GetAuthorizer")
	mPermCtor = call("..NewPermissionAtID", "..NewResourcePermission", "..NewPermission", "..NewGlobalPermission")
)

func (c *c29ctx) checkCore() {
	const rule = "check-core"
	p, r := c.p, c.r
	// authorize
	if f := r.Need(p, authzPkg, "authorize"); f != nil {
		g := f.Graph()
		info := f.Info()
		exits := g.SuccessExits()
		okN := 0
		for _, x := range exits {
			rs, _ := x.N.(*ast.ReturnStmt)
			good := false
			if rs != nil && len(rs.Results) == 3 {
				if cl, ok := ast.Unparen(rs.Results[2]).(*ast.CallExpr); ok && call("authorizer.isAllowed")(info, cl) && len(cl.Args) == 2 {
					// first argument: the authorizer fetched from the context; second: *p
					a := core.ObjOf(info, cl.Args[0])
					sc := core.SoleCall(info, f.Decl.Body, a)
					okA := sc != nil && mGetAuthz(info, sc)
					okP := false
					if st, ok := ast.Unparen(cl.Args[1]).(*ast.StarExpr); ok {
						pv := core.ObjOf(info, st.X)
						as := core.AssignmentsTo(info, f.Decl.Body, pv)
						okP = len(as) >= 4
						for _, a := range as {
							cc, _ := a.Rhs.(*ast.CallExpr)
							if a.Rhs == nil {
								continue // var p *Permission
							}
							if cc == nil || !mPermCtor(info, cc) {
								okP = false
							}
						}
					}
					good = okA && okP
				}
			}
			if good {
				okN++
			} else {
				r.Bad(rule, f.String(), "success-return-not-isAllowed", g.Line(x), "a success return of authorize does not yield isAllowed(<authorizer from context>, *<constructed permission>)")
			}
		}
		if okN > 0 && okN == len(exits) {
			r.Ok(rule, f.String(), f.Pos(), fmt.Sprintf("%d success exit(s) return the isAllowed verdict", okN))
		}
		r.Check(len(exits) >= 1, rule, f.String(), "success-exit:absent", f.Pos(), "authorize has a success exit")
		// operand roles of the permission constructors: action and type come from the parameters
		aPar, rtPar := f.ParamNamed("a"), (*types.Var)(nil)
		sig := f.Obj.Type().(*types.Signature)
		for i := 0; i < sig.Params().Len(); i++ {
			if namedIs(sig.Params().At(i).Type(), ".", "Action") {
				aPar = sig.Params().At(i)
			}
			if namedIs(sig.Params().At(i).Type(), ".", "ResourceType") {
				rtPar = sig.Params().At(i)
			}
		}
		ctors := core.AllCalls(info, f.Decl.Body, mPermCtor)
		r.Check(len(ctors) >= 4, rule, f.String(), "constructors:count", f.Pos(), fmt.Sprintf("%d permission constructor calls (>= 4 confirmed by reading)", len(ctors)))
		for _, cc := range ctors {
			callee := core.Callee(info, cc)
			csig := callee.Type().(*types.Signature)
			good := aPar != nil && rtPar != nil
			for i := 0; i < csig.Params().Len() && i < len(cc.Args); i++ {
				pt := csig.Params().At(i).Type()
				if namedIs(pt, ".", "Action") && core.ObjOf(info, cc.Args[i]) != aPar {
					good = false
				}
				if namedIs(pt, ".", "ResourceType") && core.ObjOf(info, cc.Args[i]) != rtPar {
					good = false
				}
			}
			r.Check(good, rule, f.String(), "constructor-operands:"+callee.Name(), p.Pos(cc.Pos()), callee.Name()+" receives authorize's own action and resource-type parameters")
		}
		core.RuleErrorsUsed(r, f, rule, "GetAuthorizer/constructors", core.Or(mGetAuthz, mPermCtor), false, 5)
	}
	// isAllowedAll
	if f := r.Need(p, authzPkg, "isAllowedAll"); f != nil {
		c.permSetFailsClosed(rule, f)
		c.allowedLoop(rule, f, true)
	}
	// IsAllowedAny
	if f := r.Need(p, authzPkg, "IsAllowedAny"); f != nil {
		c.permSetFailsClosed(rule, f)
		c.allowedLoop(rule, f, false)
		c.getAuthzFailsClosed(rule, f)
	}
	// thin forwarders: every success exit returns the named callee applied to the parameter
	fw := func(name, callee string) {
		f := r.Need(p, authzPkg, name)
		if f == nil {
			return
		}
		g := f.Graph()
		exits := g.SuccessExits()
		good := len(exits) > 0
		for _, x := range exits {
			rs, _ := x.N.(*ast.ReturnStmt)
			ok := false
			if rs != nil && len(rs.Results) == 1 {
				if cl, isCall := ast.Unparen(rs.Results[0]).(*ast.CallExpr); isCall && call("authorizer."+callee)(f.Info(), cl) {
					// the permission argument mentions the permission parameter
					sig := f.Obj.Type().(*types.Signature)
					perm := sig.Params().At(sig.Params().Len() - 1)
					ok = len(cl.Args) == 2 && core.Mentions(f.Info(), cl.Args[1], perm)
				}
			}
			if !ok {
				good = false
				r.Bad(rule, f.String(), "success-return-not-"+callee, g.Line(x), "a success return does not yield "+callee+"(…, <permission parameter>)")
			}
		}
		if good {
			r.Ok(rule, f.String(), f.Pos(), fmt.Sprintf("%d success exit(s) return %s on the parameter", len(exits), callee))
		}
	}
	fw("isAllowed", "isAllowedAll")
	fw("IsAllowed", "IsAllowedAll")
	fw("IsAllowedAll", "isAllowedAll")
	if f := r.Need(p, authzPkg, "IsAllowedAll"); f != nil {
		c.getAuthzFailsClosed(rule, f)
	}
	// VerifyPermissions (the one the wrappers call)
	if f := r.Need(p, authzPkg, "VerifyPermissions"); f != nil {
		g := f.Graph()
		info := f.Info()
		ps := f.Param(1)
		loops := g.RangeStmts()
		if r.Check(len(loops) == 1 && core.ObjOf(info, loops[0].X) == ps, rule, f.String(), "range-over-parameter", f.Pos(), "ranges over the whole permission slice parameter") {
			rv := core.ObjOf(info, loops[0].Value)
			checks := g.Select(g.Calling(call("authorizer.IsAllowed")))
			r.Check(len(checks) >= 1, rule, f.String(), "IsAllowed:absent", f.Pos(), "each permission is passed to IsAllowed")
			succ := g.SuccessExits()
			for _, n := range checks {
				cl := core.CallsIn(info, n.N, call("authorizer.IsAllowed"), core.WalkOpts{})[0]
				r.Check(len(cl.Args) == 2 && rv != nil && core.ObjOf(info, cl.Args[1]) == rv, rule, f.String(), "IsAllowed-operand", g.Line(n), "IsAllowed is applied to the loop element")
				gt, ok := g.GateOf(n, nil)
				if !r.Check(ok, rule, f.String(), "IsAllowed-unchecked", g.Line(n), "the verdict of IsAllowed is tested") {
					continue
				}
				reach := g.Reach([]*core.Node{gt.Fail.To}, nil, nil)
				leak := false
				for _, x := range succ {
					if reach[x] {
						leak = true
					}
				}
				r.Check(!leak, rule, f.String(), "denied-permission-accepted", g.Line(n), "a denied permission leads only to failing returns")
				// every iteration passes the check
				head := g.RangeHead(loops[0])
				if head != nil && len(head.Succ) == 2 {
					again := g.Reach([]*core.Node{head.Succ[0].To}, func(m *core.Node) bool { return m == n }, nil)
					r.Check(!again[head], rule, f.String(), "IsAllowed-skipped", g.Line(n), "no iteration completes without calling IsAllowed")
				}
			}
		}
	}
}

// permSetFailsClosed: the error of PermissionSet() (inactive token, expired
// session) leads only to failing returns.
func (c *c29ctx) permSetFailsClosed(rule string, f *core.Func) {
	g := f.Graph()
	nodes := g.Select(g.Calling(mPermSet))
	if !c.r.Check(len(nodes) >= 1, rule, f.String(), "PermissionSet:absent", f.Pos(), "the permission set is obtained from the authorizer") {
		return
	}
	for _, n := range nodes {
		gt, ok := g.GateOf(n, nil)
		if !c.r.Check(ok, rule, f.String(), "PermissionSet-error-unchecked", g.Line(n), "the error of PermissionSet() is tested") {
			continue
		}
		reach := g.Reach([]*core.Node{gt.Fail.To}, nil, nil)
		leak := false
		for _, x := range g.SuccessExits() {
			if reach[x] {
				leak = true
			}
		}
		c.r.Check(!leak, rule, f.String(), "PermissionSet-error-accepted", g.Line(n), "a failing PermissionSet() leads only to failing returns")
	}
}

func (c *c29ctx) getAuthzFailsClosed(rule string, f *core.Func) {
	g := f.Graph()
	nodes := g.Select(g.Calling(mGetAuthz))
	if !c.r.Check(len(nodes) >= 1, rule, f.String(), "GetAuthorizer:absent", f.Pos(), "the authorizer comes from the context") {
		return
	}
	for _, n := range nodes {
		gt, ok := g.GateOf(n, nil)
		if !c.r.Check(ok, rule, f.String(), "GetAuthorizer-error-unchecked", g.Line(n), "the error of GetAuthorizer is tested") {
			continue
		}
		reach := g.Reach([]*core.Node{gt.Fail.To}, nil, nil)
		leak := false
		for _, x := range g.SuccessExits() {
			if reach[x] {
				leak = true
			}
		}
		c.r.Check(!leak, rule, f.String(), "GetAuthorizer-error-accepted", g.Line(n), "a missing authorizer leads only to failing returns")
	}
}

// allowedLoop: all=true: a permission that is not Allowed leads only to failing
// returns; all=false: success exits are reachable only through an Allowed hit.
func (c *c29ctx) allowedLoop(rule string, f *core.Func, all bool) {
	g := f.Graph()
	info := f.Info()
	r := c.r
	loops := g.RangeStmts()
	sig := f.Obj.Type().(*types.Signature)
	perms := sig.Params().At(sig.Params().Len() - 1)
	if !r.Check(len(loops) == 1 && core.ObjOf(info, loops[0].X) == perms, rule, f.String(), "range-over-parameter", f.Pos(), "ranges over the whole permission slice parameter") {
		return
	}
	rv := core.ObjOf(info, loops[0].Value)
	// edges that imply Allowed(p) == true / == false
	var hit, denied []*core.Edge
	conds := map[*core.Node]bool{}
	for _, n := range g.Nodes {
		for _, e := range n.Succ {
			if e.Cond == nil || e.Tag != nil {
				continue
			}
			core.Implied(e.Cond, e.Branch, func(leaf ast.Expr, val bool) {
				cl, ok := leaf.(*ast.CallExpr)
				if !ok || !mAllowed(info, cl) {
					return
				}
				if !conds[n] {
					conds[n] = true
					// operand roles: receiver is the set obtained from PermissionSet(), argument is the loop element
					recv, _ := core.RecvCall(info, cl)
					sc := core.SoleCall(info, f.Decl.Body, core.ObjOf(info, recv))
					r.Check(sc != nil && mPermSet(info, sc), rule, f.String(), "Allowed-receiver", g.Line(n), "Allowed is asked of the set returned by PermissionSet()")
					r.Check(len(cl.Args) == 1 && rv != nil && core.ObjOf(info, cl.Args[0]) == rv, rule, f.String(), "Allowed-operand", g.Line(n), "Allowed is applied to the loop element")
				}
				if val {
					hit = append(hit, e)
				} else {
					denied = append(denied, e)
				}
			})
		}
	}
	succ := g.SuccessExits()
	if all {
		if !r.Check(len(denied) >= 1, rule, f.String(), "Allowed-test:absent", f.Pos(), "the loop has a branch taken exactly when a permission is not Allowed") {
			return
		}
		for _, e := range denied {
			reach := g.Reach([]*core.Node{e.To}, nil, nil)
			leak := false
			for _, x := range succ {
				if reach[x] {
					leak = true
				}
			}
			r.Check(!leak, rule, f.String(), "denied-permission-accepted", g.Line(e.From), "a permission that is not Allowed leads only to failing returns")
		}
		head := g.RangeHead(loops[0])
		if head != nil && len(head.Succ) == 2 {
			again := g.Reach([]*core.Node{head.Succ[0].To}, func(m *core.Node) bool { return conds[m] }, nil)
			r.Check(!again[head], rule, f.String(), "Allowed-skipped", f.Pos(), "no iteration completes without the Allowed test")
		}
	} else {
		if !r.Check(len(hit) >= 1, rule, f.String(), "Allowed-test:absent", f.Pos(), "the loop has a branch taken only when a permission is Allowed") {
			return
		}
		reach := g.ReachFromEntry(nil, core.WithoutEdges(hit))
		leak := false
		for _, x := range succ {
			if reach[x] {
				leak = true
				r.Bad(rule, f.String(), "success-without-Allowed", g.Line(x), "a success return is reachable without an Allowed hit")
			}
		}
		if !leak {
			r.Ok(rule, f.String(), f.Pos(), fmt.Sprintf("%d success exit(s), each only under an Allowed hit", len(succ)))
		}
		r.Check(len(succ) >= 1, rule, f.String(), "success-exit:absent", f.Pos(), "has a success exit")
	}
}

// ---------------------------------------------------------------- (filter)

func (c *c29ctx) isFilterSig(f *core.Func) (sliceParam *types.Var, ok bool) {
	sig := f.Obj.Type().(*types.Signature)
	if sig.Recv() != nil || sig.Results().Len() != 3 || sig.Params().Len() < 2 {
		return nil, false
	}
	if !isCtxType(sig.Params().At(0).Type()) || !core.IsErrorType(sig.Results().At(2).Type()) {
		return nil, false
	}
	res0 := sig.Results().At(0).Type()
	if _, isSlice := res0.Underlying().(*types.Slice); !isSlice {
		return nil, false
	}
	last := sig.Params().At(sig.Params().Len() - 1)
	if !types.Identical(last.Type(), res0) {
		return nil, false
	}
	return last, true
}

func (c *c29ctx) filters() {
	const rule = "filter"
	p, r := c.p, c.r
	n := 0
	for _, f := range p.Funcs(authzPkg) {
		if f.Obj == nil || f.Decl.Recv != nil || !strings.HasPrefix(f.Decl.Name.Name, "AuthorizeFind") {
			continue
		}
		sp, ok := c.isFilterSig(f)
		if !r.Check(ok, rule, f.String(), "signature", f.Pos(), "AuthorizeFind* has the filter signature (ctx, …, []T) ([]T, int, error)") {
			continue
		}
		r.Saw(f)
		c.filter[f.Obj] = true
		n++
		c.filterOne(rule, f, sp)
	}
	r.Check(n >= 19, rule, authzPkg, "filters:count", "-", fmt.Sprintf("%d AuthorizeFind* filters analysed (>= 19 confirmed by reading)", n))
}

func (c *c29ctx) filterOne(rule string, f *core.Func, sp *types.Var) {
	r, p := c.r, c.p
	g := f.Graph()
	info := f.Info()
	loops := g.RangeStmts()
	if !r.Check(len(loops) == 1 && core.ObjOf(info, loops[0].X) == sp, rule, f.String(), "range-over-parameter", f.Pos(), "one loop, over the whole input slice") {
		return
	}
	loop := loops[0]
	rv := core.ObjOf(info, loop.Value)
	head := g.RangeHead(loop)
	if !r.Check(rv != nil && head != nil && len(head.Succ) == 2, rule, f.String(), "loop-shape", f.Pos(), "loop element variable and loop head resolved") {
		return
	}
	// accumulator: acc = append(acc, rv)
	var acc types.Object
	var appends []*core.Node
	okApp := true
	for _, nd := range g.Nodes {
		as, isAs := nd.N.(*ast.AssignStmt)
		if !isAs || len(as.Rhs) != 1 {
			continue
		}
		cl, isCall := ast.Unparen(as.Rhs[0]).(*ast.CallExpr)
		if !isCall || !core.Builtin("append")(info, cl) {
			continue
		}
		appends = append(appends, nd)
		a := core.ObjOf(info, as.Lhs[0])
		if a == nil || len(cl.Args) != 2 || core.ObjOf(info, cl.Args[0]) != a || core.ObjOf(info, cl.Args[1]) != rv || cl.Ellipsis.IsValid() {
			okApp = false
			r.Bad(rule, f.String(), "append-shape", g.Line(nd), "the append is not acc = append(acc, <loop element>)")
			continue
		}
		if acc != nil && acc != a {
			okApp = false
			r.Bad(rule, f.String(), "append-shape", g.Line(nd), "more than one accumulator")
		}
		acc = a
		if !core.InRegion(nd, loop.Body) {
			okApp = false
			r.Bad(rule, f.String(), "append-outside-loop", g.Line(nd), "an append outside the filtering loop")
		}
	}
	if !r.Check(len(appends) >= 1 && acc != nil, rule, f.String(), "append:absent", f.Pos(), "authorized elements are appended to an accumulator") || !okApp {
		return
	}
	// accumulator starts empty
	for _, a := range core.AssignmentsTo(info, f.Decl.Body, acc) {
		if cl, isCall := a.Rhs.(*ast.CallExpr); isCall && core.Builtin("append")(info, cl) {
			continue
		}
		empty := false
		switch x := ast.Unparen(a.Rhs).(type) {
		case *ast.SliceExpr:
			if x.Low == nil && x.High != nil {
				if v := core.ConstVal(info, x.High); v != nil && v.ExactString() == "0" {
					empty = true
				}
			}
		case *ast.CompositeLit:
			empty = len(x.Elts) == 0
		case *ast.CallExpr:
			if core.Builtin("make")(info, x) && len(x.Args) >= 2 {
				if v := core.ConstVal(info, x.Args[1]); v != nil && v.ExactString() == "0" {
					empty = true
				}
			}
		case *ast.Ident:
			empty = core.IsNilIdent(info, x)
		case nil:
			empty = true // var acc []T
		}
		r.Check(empty, rule, f.String(), "accumulator-not-empty", p.Pos(a.Stmt.Pos()), "the accumulator starts empty (rs[:0], nil, empty literal)")
	}
	// checks in the loop body
	isRead := func(i *types.Info, cl *ast.CallExpr) bool { return c.class[core.Callee(i, cl)] == "read" }
	var checks []*core.Node
	for _, nd := range g.Nodes {
		if nd.N != nil && core.InRegion(nd, loop.Body) && len(core.CallsIn(info, nd.N, isRead, core.WalkOpts{})) > 0 {
			checks = append(checks, nd)
		}
	}
	want := 1
	if f.Decl.Name.Name == "AuthorizeFindAuthorizations" {
		want = 2 // authorization and owning user
	}
	if !r.Check(len(checks) >= want, rule, f.String(), "read-check:count", f.Pos(), fmt.Sprintf("%d read check(s) in the loop body (>= %d confirmed by reading)", len(checks), want)) {
		return
	}
	isAppend := func(m *core.Node) bool {
		for _, a := range appends {
			if a == m {
				return true
			}
		}
		return false
	}
	var rts []string
	for _, cn := range checks {
		cl := core.CallsIn(info, cn.N, isRead, core.WalkOpts{})[0]
		// (a) must pass: no iteration appends without evaluating this check
		skip := g.Reach([]*core.Node{head.Succ[0].To}, func(m *core.Node) bool { return m == cn }, nil)
		passed := true
		for _, a := range appends {
			if skip[a] {
				passed = false
			}
		}
		r.Check(passed, rule, f.String(), "append-without-check", g.Line(cn), "the append is reachable in an iteration only after "+core.FName(core.Callee(info, cl)))
		// (b) a non-nil verdict never reaches the append (nor is it overwritten by a later check)
		ev := g.ErrVarOf(cn)
		if !r.Check(ev != nil, rule, f.String(), "check-error-dropped", g.Line(cn), "the error of the check is kept in a variable") {
			continue
		}
		for _, unauth := range []bool{true, false} {
			vis := c.simulateDenied(g, cn, ev, unauth, head)
			leak, overw := false, false
			for m := range vis {
				if isAppend(m) {
					leak = true
				}
				if m != cn && g.ErrVarOf(m) == ev {
					overw = true
				}
			}
			what := "other-error"
			if unauth {
				what = "EUnauthorized"
			}
			r.Check(!leak, rule, f.String(), "denied-element-appended:"+what, g.Line(cn), "with a non-nil check error ("+what+") the element is not appended")
			r.Check(!overw, rule, f.String(), "denied-verdict-overwritten:"+what, g.Line(cn), "a non-nil check error ("+what+") is not overwritten before it is acted on")
		}
		// (c) arguments derive from the loop element
		for i, a := range cl.Args {
			if i == 0 && isCtxType(info.TypeOf(a)) {
				continue
			}
			if k := core.ConstOf(info, a); k != nil {
				if namedIs(k.Type(), ".", "ResourceType") {
					rts = append(rts, k.Name())
				}
				continue
			}
			derived := core.Mentions(info, a, rv)
			if !derived {
				if o := core.ObjOf(info, a); o != nil {
					if sc := core.SoleCall(info, loop.Body, o); sc != nil && core.Mentions(info, sc, rv) {
						derived = true
					}
				}
			}
			r.Check(derived, rule, f.String(), fmt.Sprintf("check-operand-%d", i), p.Pos(a.Pos()), "the check argument is derived from the loop element")
		}
	}
	// resource types
	wantRT, listed := c29FilterRT[f.Decl.Name.Name]
	if r.Check(listed, "resource-type", f.String(), "unlisted", f.Pos(), "filter is listed in the resource-type table") {
		sort.Strings(rts)
		ws := append([]string(nil), wantRT...)
		sort.Strings(ws)
		r.Check(strings.Join(rts, ",") == strings.Join(ws, ","), "resource-type", f.String(), "mismatch", f.Pos(), fmt.Sprintf("checks use resource types %v (table: %v)", rts, ws))
	}
	// success exits return the accumulator
	exits := g.SuccessExits()
	good := len(exits) >= 1
	for _, x := range exits {
		rs, _ := x.N.(*ast.ReturnStmt)
		if rs == nil || len(rs.Results) != 3 || !(core.ObjOf(info, rs.Results[0]) == acc || core.IsNilIdent(info, rs.Results[0])) {
			good = false
			r.Bad(rule, f.String(), "returns-unfiltered", g.Line(x), "a success return yields something other than the filtered accumulator")
		}
	}
	if good {
		r.Ok(rule, f.String(), f.Pos(), fmt.Sprintf("%d success exit(s) return the accumulator", len(exits)))
	}
}

// simulateDenied walks the CFG from the check node under the facts
// "err != nil" and "ErrorCode(err) == EUnauthorized is <unauth>", following
// only the branch those facts select at every condition they decide (both
// branches otherwise). It stops at the loop head and at nodes that redefine
// the error variable. Returns the visited nodes (without the start).
func (c *c29ctx) simulateDenied(g *core.Graph, start *core.Node, ev types.Object, unauth bool, head *core.Node) map[*core.Node]bool {
	var starts []*core.Node
	for _, e := range start.Succ {
		starts = append(starts, e.To)
	}
	stop := func(n *core.Node) bool { return n == head || g.ErrVarOf(n) == ev }
	// region in which ev still holds the verdict of this check (no facts applied)
	region := g.Reach(starts, stop, nil)
	var body ast.Node = g.Body
	if g.Fn != nil {
		body = g.Fn.Decl.Body
	}
	// temp resolves a temporary that is defined once, inside the region (so
	// from the verdict of this check), to its defining expression.
	temp := func(env core.EnvHD2, e ast.Expr) ast.Expr {
		id, ok := ast.Unparen(e).(*ast.Ident)
		if !ok || env.Info != g.Info {
			return nil
		}
		rhs, stmt, ok := core.SoleDefHD2(g.Info, body, core.ObjOf(g.Info, id))
		if !ok {
			return nil
		}
		if dn := g.NodeOfStmtHD2(stmt); dn == nil || !region[dn] || dn == head {
			return nil
		}
		return rhs
	}
	var mk func(env core.EnvHD2) core.LeafEval
	mk = func(env core.EnvHD2) core.LeafEval {
		info := env.Info
		isEv := func(e ast.Expr) bool {
			if env.Obj(e) == ev {
				return true
			}
			// e2 := err (defined from the verdict inside the region)
			if rhs := temp(env, e); rhs != nil {
				return env.Obj(rhs) == ev
			}
			return false
		}
		var isCode func(e ast.Expr) bool
		isCode = func(e ast.Expr) bool {
			if cl, ok := ast.Unparen(e).(*ast.CallExpr); ok {
				return call("kit/platform/errors.ErrorCode")(info, cl) && len(cl.Args) == 1 && isEv(cl.Args[0])
			}
			// code := errors.ErrorCode(err)
			if rhs := temp(env, e); rhs != nil {
				if _, isCall := ast.Unparen(rhs).(*ast.CallExpr); isCall {
					return isCode(rhs)
				}
			}
			return false
		}
		isUnauth := func(e ast.Expr) bool {
			k := core.ConstOf(info, e)
			return k != nil && k.Name() == "EUnauthorized" && k.Pkg() != nil && strings.HasSuffix(k.Pkg().Path(), "kit/platform/errors")
		}
		var leaf core.LeafEval
		leaf = func(cond ast.Expr) (val, known bool) {
			if x, nonNilOnTrue, ok := core.NilTest(info, cond); ok && isEv(x) {
				return nonNilOnTrue, true
			}
			if be, ok := cond.(*ast.BinaryExpr); ok && (be.Op == token.EQL || be.Op == token.NEQ) {
				if (isCode(be.X) && isUnauth(be.Y)) || (isCode(be.Y) && isUnauth(be.X)) {
					return unauth == (be.Op == token.EQL), true
				}
				return false, false
			}
			// denied := errors.ErrorCode(err) == errors.EUnauthorized; if denied {…}
			if rhs := temp(env, cond); rhs != nil {
				if b, isB := info.TypeOf(rhs).Underlying().(*types.Basic); isB && b.Info()&types.IsBoolean != 0 {
					if _, isId := ast.Unparen(rhs).(*ast.Ident); !isId {
						return core.EvalCond(rhs, c.p.LeafThroughPredicatesHD2(env, mk))
					}
				}
			}
			return false, false
		}
		return leaf
	}
	return g.ReachUnder(starts, stop, c.p.LeafThroughPredicatesHD2(core.BaseEnvHD2(g.Info, body), mk))
}

// ---------------------------------------------------------------- wrappers

type wrapperT struct {
	pkg       string
	named     *types.Named
	name      string // "authorizer.BucketService"
	delegates []*types.Var
	embedded  map[*types.Var]bool
	methods   []*core.Func
	byObj     map[*types.Func]*core.Func
	// names of the delegate interfaces' methods
	ifaceMethod map[string]bool
}

func ifaceOf(t types.Type) *types.Interface {
	if t == nil {
		return nil
	}
	i, _ := t.Underlying().(*types.Interface)
	return i
}

func (c *c29ctx) findWrappers(pkg string, only map[string]bool) []*wrapperT {
	pk := c.p.Pkg(pkg)
	var out []*wrapperT
	scope := pk.Types.Scope()
	for _, nm := range scope.Names() {
		tn, ok := scope.Lookup(nm).(*types.TypeName)
		if !ok || tn.IsAlias() {
			continue
		}
		if only != nil && !only[nm] {
			continue
		}
		named, _ := tn.Type().(*types.Named)
		st, _ := tn.Type().Underlying().(*types.Struct)
		if named == nil || st == nil {
			continue
		}
		w := &wrapperT{pkg: pkg, named: named, name: pkg + "." + nm, embedded: map[*types.Var]bool{}, byObj: map[*types.Func]*core.Func{}, ifaceMethod: map[string]bool{}}
		declared := map[string]bool{}
		for _, f := range c.p.Funcs(pkg) {
			if f.Decl.Recv != nil && strings.HasPrefix(f.Name, nm+".") && f.Obj != nil && f.Decl.Body != nil {
				w.methods = append(w.methods, f)
				w.byObj[f.Obj] = f
				declared[f.Decl.Name.Name] = true
			}
		}
		for i := 0; i < st.NumFields(); i++ {
			fld := st.Field(i)
			it := ifaceOf(fld.Type())
			if it == nil || it.NumMethods() == 0 {
				continue
			}
			if !types.Implements(types.NewPointer(named), it) && !types.Implements(named, it) {
				continue
			}
			hit := false
			for j := 0; j < it.NumMethods(); j++ {
				if declared[it.Method(j).Name()] {
					hit = true
				}
			}
			if hit {
				for j := 0; j < it.NumMethods(); j++ {
					w.ifaceMethod[it.Method(j).Name()] = true
				}
				w.delegates = append(w.delegates, fld)
				if fld.Embedded() {
					w.embedded[fld] = true
				}
			}
		}
		if len(w.delegates) > 0 {
			out = append(out, w)
		}
	}
	return out
}

// delegateCall: is call a method call on one of the wrapper's delegate fields
// (explicitly x.f.M(…) or implicitly through embedding)?
func (w *wrapperT) delegateCall(info *types.Info, cl *ast.CallExpr) (method string, ok bool) {
	se, isSel := ast.Unparen(cl.Fun).(*ast.SelectorExpr)
	if !isSel {
		return "", false
	}
	if fv := core.FieldOf(info, se.X); fv != nil {
		for _, d := range w.delegates {
			if d == fv {
				return se.Sel.Name, true
			}
		}
	}
	if sel := info.Selections[se]; sel != nil && sel.Kind() == types.MethodVal && len(sel.Index()) > 1 {
		if n := core.NamedOf(sel.Recv()); n != nil && n.Obj() == w.named.Obj() {
			st := w.named.Underlying().(*types.Struct)
			fv := st.Field(sel.Index()[0])
			for _, d := range w.delegates {
				if d == fv {
					return se.Sel.Name, true
				}
			}
		}
	}
	return "", false
}

func c29IsRead(method string) bool {
	if c29ReadExact[method] {
		return true
	}
	for _, pre := range c29ReadPrefixes {
		if strings.HasPrefix(method, pre) {
			return true
		}
	}
	return false
}

func (c *c29ctx) classify(w *wrapperT, info *types.Info, cl *ast.CallExpr) int {
	callee := core.Callee(info, cl)
	if callee == nil {
		return ckNone
	}
	switch c.class[callee] {
	case "read":
		return ckRead
	case "write":
		return ckWrite
	}
	switch core.FName(callee) {
	case "authorizer.IsAllowed", "authorizer.IsAllowedAll", "authorizer.IsAllowedAny":
		return ckGeneric
	case "authorizer.VerifyPermissions":
		return ckVerify
	}
	// a sibling counts as a check only if it is itself a checked read of the
	// delegate interface (its own success exits are decided by gate-results)
	if w != nil && w.byObj[callee] != nil && w.ifaceMethod[callee.Name()] && c29IsRead(callee.Name()) {
		return ckSibling
	}
	return ckNone
}

func (c *c29ctx) transformer() core.ErrTransformer {
	return func(info *types.Info, cl *ast.CallExpr) (int, bool) {
		idx, ok := c.xform[core.Callee(info, cl)]
		return idx, ok
	}
}

// verifyTransformers: a method whose every return is either its error
// parameter or a composite literal maps a non-nil error to a non-nil error.
func (c *c29ctx) verifyTransformers(w *wrapperT) {
	for _, f := range w.methods {
		sig := f.Obj.Type().(*types.Signature)
		if sig.Results().Len() != 1 || !core.IsErrorType(sig.Results().At(0).Type()) {
			continue
		}
		idx := -1
		for i := 0; i < sig.Params().Len(); i++ {
			if core.IsErrorType(sig.Params().At(i).Type()) {
				idx = i
			}
		}
		if idx < 0 {
			continue
		}
		par := sig.Params().At(idx)
		good, n := true, 0
		ast.Inspect(f.Decl.Body, func(x ast.Node) bool {
			if _, isLit := x.(*ast.FuncLit); isLit {
				return false
			}
			rs, ok := x.(*ast.ReturnStmt)
			if !ok {
				return true
			}
			n++
			if len(rs.Results) != 1 {
				good = false
				return true
			}
			e := ast.Unparen(rs.Results[0])
			if core.ObjOf(f.Info(), e) == par {
				return true
			}
			if u, ok := e.(*ast.UnaryExpr); ok && u.Op == token.AND {
				e = ast.Unparen(u.X)
			}
			if _, ok := e.(*ast.CompositeLit); !ok {
				good = false
			}
			return true
		})
		// the parameter must not be reassigned
		if len(core.AssignmentsTo(f.Info(), f.Decl.Body, par)) > 0 {
			good = false
		}
		if good && n > 0 {
			c.xform[f.Obj] = idx
			c.r.Ok("error-transformer", f.String(), f.Pos(), "every return is the error parameter or a non-nil literal: a non-nil check error stays non-nil")
		}
	}
}

func (c *c29ctx) wrappers() {
	r := c.r
	ws := c.findWrappers(authzPkg, nil)
	ws = append(ws, c.findWrappers(authnPkg, map[string]bool{"AuthedAuthorizationService": true})...)
	r.Check(len(ws) >= 25, "wrapper-set", authzPkg+"+"+authnPkg, "count", "-", fmt.Sprintf("%d authorizing wrapper types recognised (>= 25 confirmed by reading)", len(ws)))
	hasAuthed := false
	nMeth, nMut := 0, 0
	for _, w := range ws {
		if w.name == "authorization.AuthedAuthorizationService" {
			hasAuthed = true
		}
		c.verifyTransformers(w)
	}
	r.Check(hasAuthed, "anchor", "authorization.AuthedAuthorizationService", "unresolved", "-", "wrapper type recognised")
	for _, w := range ws {
		c.noPromoted(w)
		usedRT := map[string]bool{}
		for _, f := range w.methods {
			if _, isX := c.xform[f.Obj]; isX {
				continue
			}
			r.Saw(f)
			nMeth++
			nMut += c.method(w, f, usedRT)
		}
		// resource-type table
		want, listed := c29WrapperRT[w.name]
		if r.Check(listed, "resource-type", w.name, "unlisted", "-", "wrapper is listed in the resource-type table") {
			allowed := map[string]bool{}
			for _, k := range want {
				allowed[k] = true
			}
			for k := range usedRT {
				r.Check(allowed[k], "resource-type", w.name, "unexpected:"+k, "-", "resource type "+k+" is one of "+strings.Join(want, ","))
			}
			for _, k := range want {
				r.Check(usedRT[k], "resource-type", w.name, "unused:"+k, "-", "resource type "+k+" is checked by the wrapper")
			}
		}
	}
	r.Check(nMeth >= 140, "wrapper-set", authzPkg+"+"+authnPkg, "methods:count", "-", fmt.Sprintf("%d wrapper methods analysed (>= 140 confirmed by reading)", nMeth))
	r.Check(nMut >= 85, "gate-before-mutate", authzPkg+"+"+authnPkg, "sites:count", "-", fmt.Sprintf("%d mutating delegate calls examined (>= 85 confirmed by reading)", nMut))
	c.verifyPermissionsRule(ws)
}

func (c *c29ctx) noPromoted(w *wrapperT) {
	for d := range w.embedded {
		it := ifaceOf(d.Type())
		missing := []string{}
		for j := 0; j < it.NumMethods(); j++ {
			m := it.Method(j).Name()
			found := false
			for _, f := range w.methods {
				if f.Decl.Name.Name == m {
					found = true
				}
			}
			if !found {
				missing = append(missing, m)
			}
		}
		sort.Strings(missing)
		if len(missing) == 0 {
			c.r.Ok("no-promoted-passthrough", w.name, "-", fmt.Sprintf("all %d methods of embedded delegate %s are declared by the wrapper", it.NumMethods(), d.Name()))
		}
		for _, m := range missing {
			c.r.Bad("no-promoted-passthrough", w.name, m, "-", "method "+m+" of the embedded delegate "+d.Name()+" is promoted unchecked (the wrapper does not declare it)")
		}
	}
}

// gatesIn collects the gates of graph g, by check class.
func (c *c29ctx) gatesIn(w *wrapperT, g *core.Graph) (byKind map[int][]*core.Gate, rts map[string]bool, perMethodRT []string) {
	byKind = map[int][]*core.Gate{}
	rts = map[string]bool{}
	info := g.Info
	for _, nd := range g.Nodes {
		if nd.N == nil {
			continue
		}
		as, ok := nd.N.(*ast.AssignStmt)
		if !ok || len(as.Rhs) != 1 {
			continue
		}
		cl, ok := ast.Unparen(as.Rhs[0]).(*ast.CallExpr)
		if !ok {
			continue
		}
		k := c.classify(w, info, cl)
		if k == ckNone {
			// a checking helper (extracted statements): all its success exits
			// lie behind successful checks of one class
			if hk, hrts := c.helperCheck(w, g, info, cl, 2); hk != ckNone {
				k = hk
				for rt := range hrts {
					rts[rt] = true
				}
				if gt, ok := g.GateOf(nd, c.transformer()); ok {
					byKind[k] = append(byKind[k], gt)
				}
			}
			continue
		}
		if k == ckRead || k == ckWrite {
			for _, a := range cl.Args {
				if kc := core.ConstOf(info, a); kc != nil && namedIs(kc.Type(), ".", "ResourceType") {
					rts[kc.Name()] = true
				}
			}
		}
		if gt, ok := g.GateOf(nd, c.transformer()); ok {
			byKind[k] = append(byKind[k], gt)
		}
	}
	return byKind, rts, nil
}

func succEdges(gs ...[]*core.Gate) []*core.Edge {
	var out []*core.Edge
	for _, l := range gs {
		for _, g := range l {
			out = append(out, g.Succ)
		}
	}
	return out
}

// method applies gate-before-mutate and gate-results to one wrapper method.
// Returns the number of mutating delegate calls examined.
func (c *c29ctx) method(w *wrapperT, f *core.Func, usedRT map[string]bool) int {
	r, p := c.r, c.p
	nMut := 0
	primary := ""
	if t := c29WrapperRT[w.name]; len(t) > 0 {
		primary = t[0]
	}
	for gi, g := range f.Graphs() {
		info := g.Info
		gates, rts, _ := c.gatesIn(w, g)
		for k := range rts {
			usedRT[k] = true
		}
		if gi == 0 && primary != "" && len(rts) > 0 {
			r.Check(rts[primary], "resource-type", f.String(), "primary-missing", f.Pos(), "a method that checks constant resource types checks the wrapper's own type "+primary)
		}
		// ---- gate-before-mutate
		writeReach := g.ReachFromEntry(nil, core.WithoutEdges(succEdges(gates[ckWrite], gates[ckGeneric])))
		for _, nd := range g.Nodes {
			if nd.N == nil {
				continue
			}
			for _, cl := range core.CallsIn(info, nd.N, func(i *types.Info, cl *ast.CallExpr) bool { _, ok := w.delegateCall(i, cl); return ok }, core.WalkOpts{IntoDefer: true}) {
				m, _ := w.delegateCall(info, cl)
				if c29IsRead(m) {
					continue
				}
				nMut++
				key := f.String() + ":" + m
				if why, ok := c29MutateExceptions[key]; ok {
					r.Ok("gate-before-mutate", f.String(), p.Pos(cl.Pos()), "exception: "+why)
					continue
				}
				if gi > 0 {
					r.Bad("gate-before-mutate", f.String(), m+":in-closure", p.Pos(cl.Pos()), "mutating delegate call inside a function literal; gating cannot be decided")
					continue
				}
				r.Check(!writeReach[nd], "gate-before-mutate", f.String(), m, p.Pos(cl.Pos()), "delegate."+m+" is reachable only through the nil-branch of a write-class (or IsAllowed*) check")
			}
		}
		if gi > 0 {
			continue
		}
		// ---- gate-results
		sig := g.Sig
		var dataIdx []int
		for i := 0; i < sig.Results().Len(); i++ {
			t := sig.Results().At(i).Type()
			if core.IsErrorType(t) {
				continue
			}
			if b, ok := t.Underlying().(*types.Basic); ok && b.Info()&types.IsInteger != 0 {
				continue
			}
			dataIdx = append(dataIdx, i)
		}
		if len(dataIdx) == 0 {
			continue
		}
		anyReach := g.ReachFromEntry(nil, core.WithoutEdges(succEdges(gates[ckRead], gates[ckWrite], gates[ckGeneric], gates[ckSibling])))
		exits := g.SuccessExits()
		bad := 0
		for _, x := range exits {
			if !anyReach[x] {
				continue
			}
			rs, _ := x.N.(*ast.ReturnStmt)
			why := ""
			switch {
			case rs == nil || len(rs.Results) == 0:
				why = "bare return"
			case len(rs.Results) == 1 && sig.Results().Len() > 1:
				cl, isCall := ast.Unparen(rs.Results[0]).(*ast.CallExpr)
				callee := (*types.Func)(nil)
				if isCall {
					callee = core.Callee(info, cl)
				}
				if callee == nil || !(c.filter[callee] || (w.byObj[callee] != nil && w.ifaceMethod[callee.Name()])) {
					why = "forwards " + core.Trim(core.ExprStr(rs.Results[0]), 40) + " unchecked"
				}
			default:
				for _, i := range dataIdx {
					if i >= len(rs.Results) {
						why = "unexpected return arity"
						break
					}
					if !c.safeOperand(w, g, f, x, rs.Results[i]) {
						why = "returns " + core.Trim(core.ExprStr(rs.Results[i]), 40) + " unchecked"
						break
					}
				}
			}
			if why != "" {
				bad++
				r.Bad("gate-results", f.String(), "unchecked-success-return", g.Line(x), "a data-carrying success return is reachable without passing a successful check: "+why)
			}
		}
		if bad == 0 {
			r.Ok("gate-results", f.String(), f.Pos(), fmt.Sprintf("%d success exit(s), each behind a successful check or returning filtered/wrapped data", len(exits)))
		}
	}
	return nMut
}

// safeOperand: a returned data operand that carries nothing unauthorised: nil,
// an empty literal, an authorizing wrapper value, or a variable whose value at
// this exit is the output of an AuthorizeFind* filter.
func (c *c29ctx) safeOperand(w *wrapperT, g *core.Graph, f *core.Func, x *core.Node, e ast.Expr) bool {
	info := g.Info
	e = ast.Unparen(e)
	if core.IsNilIdent(info, e) {
		return true
	}
	lit := e
	if u, ok := e.(*ast.UnaryExpr); ok && u.Op == token.AND {
		lit = ast.Unparen(u.X)
	}
	if cl, ok := lit.(*ast.CompositeLit); ok {
		if len(cl.Elts) == 0 {
			return true
		}
		if n := core.NamedOf(info.TypeOf(cl)); n != nil && n.Obj().Pkg() != nil && core.Short(n.Obj().Pkg().Path()) == w.pkg {
			for _, ow := range c.findWrappersCached(w.pkg) {
				if ow.named.Obj() == n.Obj() {
					return true
				}
			}
		}
		return false
	}
	v := core.ObjOf(info, e)
	if v == nil {
		return false
	}
	isFA := func(n *core.Node) bool {
		as, ok := n.N.(*ast.AssignStmt)
		if !ok || len(as.Rhs) != 1 || len(as.Lhs) < 1 || core.ObjOf(info, as.Lhs[0]) != v {
			return false
		}
		cl, ok := ast.Unparen(as.Rhs[0]).(*ast.CallExpr)
		return ok && c.filter[core.Callee(info, cl)]
	}
	fa := g.Select(isFA)
	if len(fa) == 0 {
		return false
	}
	if g.ReachFromEntry(isFA, nil)[x] {
		return false // some path reaches the exit without the filter
	}
	// no other definition of v between the filter and the exit
	after := map[*core.Node]bool{}
	for _, n := range fa {
		for _, e := range n.Succ {
			for m := range g.Reach([]*core.Node{e.To}, isFA, nil) {
				after[m] = true
			}
		}
	}
	for m := range after {
		if m.N == nil || isFA(m) {
			continue
		}
		if _, wr := nodeWrites(info, m.N, v); wr {
			return false
		}
	}
	return true
}

var wrapCache = map[string][]*wrapperT{}

func (c *c29ctx) findWrappersCached(pkg string) []*wrapperT {
	key := c.p.Repo + "|" + pkg
	if ws, ok := wrapCache[key]; ok {
		return ws
	}
	ws := c.findWrappers(pkg, nil)
	wrapCache[key] = ws
	return ws
}

// nodeWrites reports whether statement n assigns to v.
func nodeWrites(info *types.Info, n ast.Node, v types.Object) (reads, writes bool) {
	ast.Inspect(n, func(x ast.Node) bool {
		switch s := x.(type) {
		case *ast.AssignStmt:
			for _, l := range s.Lhs {
				if core.ObjOf(info, l) == v {
					writes = true
				}
			}
		case *ast.IncDecStmt:
			if core.ObjOf(info, s.X) == v {
				writes = true
			}
		case *ast.UnaryExpr:
			if s.Op == token.AND && core.ObjOf(info, s.X) == v {
				writes = true // address taken: may be written through the pointer
			}
		}
		return true
	})
	return false, writes
}

// (verify-permissions): CreateAuthorization reaches its delegate only after
// VerifyPermissions(a.Permissions) succeeded, a being the authorization created.
func (c *c29ctx) verifyPermissionsRule(ws []*wrapperT) {
	const rule = "verify-permissions"
	r, p := c.r, c.p
	n := 0
	for _, w := range ws {
		for _, f := range w.methods {
			if f.Decl.Name.Name != "CreateAuthorization" {
				continue
			}
			n++
			g := f.Graph()
			info := f.Info()
			gates, _, _ := c.gatesIn(w, g)
			if !r.Check(len(gates[ckVerify]) >= 1, rule, f.String(), "VerifyPermissions:absent", f.Pos(), "VerifyPermissions is called and its error tested") {
				continue
			}
			reach := g.ReachFromEntry(nil, core.WithoutEdges(succEdges(gates[ckVerify])))
			found := false
			for _, nd := range g.Nodes {
				if nd.N == nil {
					continue
				}
				for _, cl := range core.CallsIn(info, nd.N, func(i *types.Info, cl *ast.CallExpr) bool {
					m, ok := w.delegateCall(i, cl)
					return ok && m == "CreateAuthorization"
				}, core.WalkOpts{}) {
					found = true
					r.Check(!reach[nd], rule, f.String(), "delegate-before-verify", p.Pos(cl.Pos()), "delegate.CreateAuthorization is reachable only after VerifyPermissions returned nil")
					// same authorization object
					var authArg types.Object
					for _, a := range cl.Args {
						if namedIs(info.TypeOf(a), ".", "Authorization") {
							authArg = core.ObjOf(info, a)
						}
					}
					for _, gt := range gates[ckVerify] {
						vc := core.CallsIn(info, gt.Call.N, call("authorizer.VerifyPermissions"), core.WalkOpts{})
						good := false
						if len(vc) == 1 && len(vc[0].Args) == 2 {
							if se, ok := ast.Unparen(vc[0].Args[1]).(*ast.SelectorExpr); ok {
								fld := core.FieldOf(info, se)
								good = fld != nil && fld.Name() == "Permissions" && authArg != nil && core.ObjOf(info, se.X) == authArg
							}
						}
						r.Check(good, rule, f.String(), "verify-operand", g.Line(gt.Call), "VerifyPermissions is applied to the Permissions of the authorization handed to the delegate")
					}
				}
			}
			r.Check(found, rule, f.String(), "delegate:absent", f.Pos(), "delegate.CreateAuthorization is called")
		}
	}
	r.Check(n >= 2, rule, authzPkg+"+"+authnPkg, "sites:count", "-", fmt.Sprintf("%d CreateAuthorization wrappers (>= 2 confirmed by reading)", n))
}
