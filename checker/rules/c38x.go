package rules

import (
	"fmt"
	"go/ast"
	"go/types"
	"strconv"

	"verif/checker/core"
)

// "An export of a time range contains exactly the points in that range": for a
// partially overlapping file Export copies whole blocks; a block must be copied
// exactly when its closed range [minTime,maxTime] intersects the closed export
// range [start,end]. The guard touches the four values only through comparisons,
// so it is a finite table over their orderings.
func init() {
	extend("C38", "export block filter (exhaustive over orderings): in Engine.filterFileToBackup the condition guarding WriteBlock, evaluated on every ordering of a block's [minTime,maxTime] and the export range [start,end], is true exactly when the two closed ranges intersect (no in-range block is dropped at either inclusive bound, no out-of-range block is copied).",
		nil, func(p *core.Prog, r *core.Report, tier string) {
			const rule = "export-overlap-table"
			f := r.Need(p, tsm1, "Engine.filterFileToBackup")
			if f == nil {
				return
			}
			info := f.Info()
			g := f.Graph()
			wb := g.Select(g.Calling(call("tsdb/engine/tsm1.TSMWriter.WriteBlock")))
			if !r.Check(len(wb) == 1, rule, f.String(), "WriteBlock:absent", f.Pos(), "block copy found") {
				return
			}
			guards := g.EnclosingGuards(wb[0])
			var cond ast.Expr
			for _, e := range guards {
				if e.Branch && e.Cond != nil {
					cond = e.Cond // innermost true guard wins (source order)
				}
			}
			if !r.Check(cond != nil, rule, f.String(), "guard:absent", g.Line(wb[0]), "the block copy is conditional") {
				return
			}
			// bind: block range = results 1,2 of BlockIterator.Read; export range = the two int64 parameters
			bind := map[types.Object]core.DVal{}
			ast.Inspect(f.Decl.Body, func(n ast.Node) bool {
				if as, ok := n.(*ast.AssignStmt); ok && len(as.Rhs) == 1 && len(as.Lhs) >= 3 {
					if c, ok := as.Rhs[0].(*ast.CallExpr); ok && call("tsdb/engine/tsm1.BlockIterator.Read")(info, c) {
						if o := core.ObjOf(info, as.Lhs[1]); o != nil {
							bind[o] = core.Path("MIN")
						}
						if o := core.ObjOf(info, as.Lhs[2]); o != nil {
							bind[o] = core.Path("MAX")
						}
					}
				}
				return true
			})
			sig := f.Obj.Type().(*types.Signature)
			var ints []*types.Var
			for i := 0; i < sig.Params().Len(); i++ {
				if b, ok := sig.Params().At(i).Type().Underlying().(*types.Basic); ok && b.Kind() == types.Int64 {
					ints = append(ints, sig.Params().At(i))
				}
			}
			if !r.Check(len(bind) == 2 && len(ints) == 2, rule, f.String(), "operands", f.Pos(), "block range and export range identified") {
				return
			}
			bind[ints[0]], bind[ints[1]] = core.Path("S"), core.Path("E")
			vals := []string{"0", "1", "2", "3"}
			doms := []core.DDomain{{Path: "MIN", Values: vals}, {Path: "MAX", Values: vals}, {Path: "S", Values: vals}, {Path: "E", Values: vals}}
			rows, bad := 0, 0
			und, first := "", ""
			core.EnumModels(doms, func(m core.DModel) {
				mn, _ := strconv.Atoi(m["MIN"])
				mx, _ := strconv.Atoi(m["MAX"])
				s, _ := strconv.Atoi(m["S"])
				e, _ := strconv.Atoi(m["E"])
				if mn > mx || s > e {
					return
				}
				rows++
				res, u := core.EvalExprOn(p, f, cond, m, bind, nil, nil)
				if u != "" {
					und = u
					return
				}
				want := mn <= e && mx >= s
				if (res.Value == "true") != want {
					bad++
					if first == "" {
						first = fmt.Sprintf("block [%d,%d] export [%d,%d]: copied=%s, intersect=%v", mn, mx, s, e, res.Value, want)
					}
				}
			})
			switch {
			case und != "":
				r.Bad(rule, f.String(), "undecided", g.Line(wb[0]), "guard left the decidable fragment: "+und)
			case bad > 0:
				r.Bad(rule, f.String(), "overlap-test-wrong", g.Line(wb[0]), fmt.Sprintf("%d of %d orderings wrong; first: %s", bad, rows, first))
			default:
				r.Check(rows == 100, rule, f.String(), "rows:count", g.Line(wb[0]), fmt.Sprintf("%d orderings enumerated, guard == closed-range intersection", rows))
			}
		})
}
