package rules

import (
	"fmt"
	"go/ast"
	"go/constant"
	"go/token"
	"go/types"
	"strings"

	"verif/checker/core"
)

// C22, part 2: option mapping, direction, shard clipping.

const influxqlPath = "github.com/influxdata/influxql"

func (c *c23) importPkg(path string) *types.Package {
	for _, imp := range c.pk.Imports() {
		if imp.Path() == path {
			return imp
		}
	}
	return nil
}

func lowerFirst(s string) string { return strings.ToLower(s[:1]) + s[1:] }

// ---------------------------------------------------------------- (4) option mapping

func (c *c22) optionMapping() {
	const rule = "option-mapping"
	info := c.info
	f := c.r.Need(c.p, qP, "newIteratorOptionsStmt")
	if f == nil {
		return
	}
	g := f.Graph()
	stmtT := f.X1Param(0).Type()
	optF := func(n string) *types.Var { return core.LookupField(c.pk, "IteratorOptions", n) }
	// every 1:1 store into IteratorOptions.<field>
	type store struct {
		nd  *core.Node
		rhs ast.Expr
	}
	storesOf := func(fv *types.Var) []store {
		var out []store
		for _, nd := range g.Nodes {
			as, ok := nd.N.(*ast.AssignStmt)
			if !ok || len(as.Lhs) != len(as.Rhs) {
				continue
			}
			for i, l := range as.Lhs {
				if core.N1Path(info, fv)(ast.Unparen(l)) {
					out = append(out, store{nd, ast.Unparen(as.Rhs[i])})
				}
			}
		}
		return out
	}
	for _, name := range []string{"Limit", "Offset", "SLimit", "SOffset", "Fill", "FillValue", "Dedupe", "StripName", "Location"} {
		of, sf := optF(name), core.N1FieldOfType(stmtT, name)
		if !c.r.Check(of != nil && sf != nil, "anchor", qP+".IteratorOptions/SelectStatement."+name, "unresolved", "", "fields resolved") {
			continue
		}
		ss := storesOf(of)
		c.r.Check(len(ss) >= 1, rule, f.String(), name+":never-set", f.Pos(), "opt."+name+" is set")
		for _, s := range ss {
			if c.path(sf)(s.rhs) {
				c.r.Ok(rule, f.String(), g.Line(s.nd), "opt."+name+" = stmt."+name)
				continue
			}
			if name == "Fill" {
				k := core.ConstOf(info, s.rhs)
				target := core.N1FieldOfType(stmtT, "Target")
				okG := k != nil && k.Name() == "NoFill" && target != nil &&
					g.N1ReachableWithout(func(x *core.Node) bool { return x == s.nd }, nil, c.factEdge(core.X1NilFact(info, c.path(target), false))) == nil
				c.r.Check(okG, rule, f.String(), "Fill:override", g.Line(s.nd), "Fill is overridden only with NoFill and only on a path that established stmt.Target != nil")
				continue
			}
			c.r.Bad(rule, f.String(), name+":from-other-source", g.Line(s.nd), "opt."+name+" is set from "+core.ExprStr(s.rhs)+", not from stmt."+name)
		}
	}
	// Ascending
	if of := optF("Ascending"); of != nil {
		ss := storesOf(of)
		c.r.Check(len(ss) >= 1, rule, f.String(), "Ascending:never-set", f.Pos(), "opt.Ascending is set")
		for _, s := range ss {
			cl, ok := s.rhs.(*ast.CallExpr)
			c.r.Check(ok && call(influxqlPath+".SelectStatement.TimeAscending")(info, cl), rule, f.String(), "Ascending:from-other-source", g.Line(s.nd), "opt.Ascending = stmt.TimeAscending()")
		}
	}
	// StartTime / EndTime
	for _, b := range []struct{ opt, rng, dflt string }{{"StartTime", "Min", "MinTime"}, {"EndTime", "Max", "MaxTime"}} {
		of := optF(b.opt)
		if of == nil {
			continue
		}
		ss := storesOf(of)
		nR, nD := 0, 0
		for _, s := range ss {
			if k := core.ConstOf(info, s.rhs); k != nil {
				nD++
				c.r.Check(k.Name() == b.dflt, rule, f.String(), b.opt+":wrong-default", g.Line(s.nd), "an open "+b.opt+" defaults to influxql."+b.dflt)
				continue
			}
			cl, ok := s.rhs.(*ast.CallExpr)
			rv := ast.Expr(nil)
			if ok {
				rv = core.Recv(cl)
			}
			fv := core.FieldOf(info, rv)
			okR := ok && call("time.Time.UnixNano")(info, cl) && fv != nil && fv.Name() == b.rng
			nR++
			if !c.r.Check(okR, rule, f.String(), b.opt+":from-other-bound", g.Line(s.nd), "opt."+b.opt+" = timeRange."+b.rng+".UnixNano()") {
				continue
			}
			isZero := func(e ast.Expr) bool {
				zc, ok := ast.Unparen(e).(*ast.CallExpr)
				return ok && call("time.Time.IsZero")(info, zc) && core.SameExpr(info, core.Recv(zc), rv)
			}
			bad := g.N1ReachableWithout(func(x *core.Node) bool { return x == s.nd }, nil, c.boolEdge(isZero, false))
			c.r.Check(bad == nil, rule, f.String(), b.opt+":unset-bound-used", g.Line(s.nd), "the bound is used only on a path that established !timeRange."+b.rng+".IsZero()")
		}
		c.r.Check(nR >= 1 && nD >= 1, rule, f.String(), b.opt+":stores-absent", f.Pos(), fmt.Sprintf("%d stores from the time range, %d defaults", nR, nD))
	}
	// SeekTime / StopTime
	for _, t := range []struct{ fn, asc, desc string }{{"IteratorOptions.SeekTime", "S", "E"}, {"IteratorOptions.StopTime", "E", "S"}} {
		tf := c.r.Need(c.p, qP, t.fn)
		if tf == nil {
			continue
		}
		okAll := true
		why := ""
		for _, asc := range []string{"true", "false"} {
			m := core.DModel{"O.Ascending": asc, "O.StartTime": "S", "O.EndTime": "E"}
			res, und := core.EvalOn(c.p, tf, m, []core.DVal{core.Path("O")}, nil, nil)
			want := t.asc
			if asc == "false" {
				want = t.desc
			}
			if und != "" || res.Value != want {
				okAll = false
				why = fmt.Sprintf("Ascending=%s yields %s %s, want %s", asc, res.Value, und, want)
			}
		}
		c.r.Check(okAll, rule, tf.String(), "direction-table", tf.Pos(), "ascending → "+map[string]string{"S": "StartTime", "E": "EndTime"}[t.asc]+", descending → "+map[string]string{"S": "StartTime", "E": "EndTime"}[t.desc]+" "+why)
	}
}

// ---------------------------------------------------------------- (5) direction

// paramDeps computes, for every local variable of f, which of the two index
// parameters (0 = i, 1 = j) its value is derived from.
func paramDeps(info *types.Info, f *core.Func) func(ast.Expr) (i, j bool) {
	pi, pj := types.Object(f.X1Param(0)), types.Object(f.X1Param(1))
	deps := map[types.Object][2]bool{pi: {true, false}, pj: {false, true}}
	of := func(e ast.Node) (r [2]bool) {
		if e == nil {
			return
		}
		ast.Inspect(e, func(x ast.Node) bool {
			if id, ok := x.(*ast.Ident); ok {
				if d, ok := deps[info.Uses[id]]; ok {
					r[0], r[1] = r[0] || d[0], r[1] || d[1]
				}
			}
			return true
		})
		return
	}
	for round := 0; round < 6; round++ {
		ast.Inspect(f.Decl.Body, func(x ast.Node) bool {
			as, ok := x.(*ast.AssignStmt)
			if !ok {
				return true
			}
			for k, l := range as.Lhs {
				id, ok := l.(*ast.Ident)
				if !ok || id.Name == "_" {
					continue
				}
				o := core.ObjOf(info, id)
				if o == nil || o == pi || o == pj {
					continue
				}
				var d [2]bool
				if len(as.Lhs) == len(as.Rhs) {
					d = of(as.Rhs[k])
				} else {
					for _, r := range as.Rhs {
						x := of(r)
						d[0], d[1] = d[0] || x[0], d[1] || x[1]
					}
				}
				old := deps[o]
				deps[o] = [2]bool{old[0] || d[0], old[1] || d[1]}
			}
			return true
		})
	}
	return func(e ast.Expr) (bool, bool) { d := of(e); return d[0], d[1] }
}

func (c *c22) direction() {
	const rule = "direction"
	info := c.info
	ascF := core.LookupField(c.pk, "IteratorOptions", "Ascending")
	if !c.r.Check(ascF != nil, "anchor", qP+".IteratorOptions.Ascending", "unresolved", "", "field resolved") {
		return
	}
	// ---- (a) merge heaps
	nLess := 0
	for _, k := range c.kinds {
		for _, heap := range []string{"MergeHeap", "SortedMergeHeap"} {
			f := c.r.Need(c.p, qP, lowerFirst(k)+heap+".Less")
			if f == nil {
				continue
			}
			nLess++
			g := f.Graph()
			side := paramDeps(info, f)
			isAsc := func(e ast.Expr) bool {
				return core.FieldOf(info, c.res.Resolve(e)) == ascF
			}
			up, down := c.boolEdge(isAsc, true), c.boolEdge(isAsc, false)
			nUp, nDown := 0, 0
			for _, nd := range g.Nodes {
				rs, ok := nd.N.(*ast.ReturnStmt)
				if !ok || len(rs.Results) != 1 {
					continue
				}
				be, ok := ast.Unparen(rs.Results[0]).(*ast.BinaryExpr)
				if !ok {
					continue
				}
				var lt bool
				switch be.Op {
				case token.LSS, token.LEQ:
					lt = true
				case token.GTR, token.GEQ:
					lt = false
				default:
					continue
				}
				xi, xj := side(be.X)
				yi, yj := side(be.Y)
				switch {
				case xi && !xj && yj && !yi:
				case xj && !xi && yi && !yj:
					lt = !lt
				default:
					c.r.Bad(rule, f.String(), "comparison-sides-unclear", g.Line(nd), "cannot attribute the operands of "+core.ExprStr(be)+" to the two heap items")
					continue
				}
				if lt {
					nUp++
					bad := g.N1ReachableWithout(func(x *core.Node) bool { return x == nd }, nil, up)
					c.r.Check(bad == nil, rule, f.String(), "ascending-comparison-when-descending", g.Line(nd), "item i sorts before item j when it is SMALLER only on a path that established Ascending == true ("+core.ExprStr(be)+")")
				} else {
					nDown++
					bad := g.N1ReachableWithout(func(x *core.Node) bool { return x == nd }, nil, down)
					c.r.Check(bad == nil, rule, f.String(), "descending-comparison-when-ascending", g.Line(nd), "item i sorts before item j when it is LARGER only on a path that established Ascending == false ("+core.ExprStr(be)+")")
				}
			}
			c.r.Check(nUp >= 3 && nDown >= 3 && nUp == nDown, rule, f.String(), "comparisons:unbalanced", f.Pos(), fmt.Sprintf("%d ascending and %d descending comparisons (name, tags, time/window …)", nUp, nDown))
		}
	}
	c.r.Check(nLess >= 10, rule, qP, "less-methods:fewer-than-confirmed", "", fmt.Sprintf("%d merge-heap Less methods examined", nLess))

	// ---- (b) tsm1 iterators: time bound per direction
	t := c.tsm
	ti := t.info
	nItr := 0
	for _, k := range c.kinds {
		typ := lowerFirst(k) + "Iterator"
		f := c.r.Need(c.p, tsm1, typ+".Next")
		if f == nil {
			continue
		}
		point, opt := core.LookupField(t.pk, typ, "point"), core.LookupField(t.pk, typ, "opt")
		if !c.r.Check(point != nil && opt != nil, "anchor", tsm1+"."+typ, "fields:unresolved", "", "point/opt resolved") {
			continue
		}
		pTime := core.N1FieldOfType(point.Type(), "Time")
		asc, st, en := core.N1FieldOfType(opt.Type(), "Ascending"), core.N1FieldOfType(opt.Type(), "StartTime"), core.N1FieldOfType(opt.Type(), "EndTime")
		if pTime == nil || asc == nil || st == nil || en == nil {
			continue
		}
		nItr++
		g := f.Graph()
		isT := t.path(point, pTime)
		nEnd, nStart := 0, 0
		for _, nd := range g.Nodes {
			for _, e := range nd.Succ {
				facts := core.X1EdgeFacts(e)
				for _, b := range []struct {
					bound *types.Var
					rel   core.X1Rel
					asc   bool
					n     *int
					what  string
				}{{en, core.X1GT, true, &nEnd, "Time > EndTime ends an ASCENDING scan"}, {st, core.X1LT, false, &nStart, "Time < StartTime ends a DESCENDING scan"}} {
					any := core.X1AnyFact(core.X1CmpFact(isT, t.path(opt, b.bound), core.X1NE), core.X1CmpFact(isT, t.path(opt, b.bound), core.X1EQ),
						core.X1CmpFact(isT, t.path(opt, b.bound), core.X1LE), core.X1CmpFact(isT, t.path(opt, b.bound), core.X1GE))
					has, strict, dir := false, false, false
					for _, ft := range facts {
						if any(ft) {
							has = true
						}
						if core.X1CmpFact(isT, t.path(opt, b.bound), b.rel)(ft) {
							strict = true
						}
						if core.X1BoolFact(t.path(opt, asc), b.asc)(ft) {
							dir = true
						}
					}
					if !has {
						continue
					}
					*b.n++
					c.r.Check(strict && dir, rule, f.String(), "time-bound:"+b.bound.Name(), g.Line(nd), b.what)
				}
			}
		}
		c.r.Check(nEnd >= 1 && nStart >= 1, rule, f.String(), "time-bounds:absent", f.Pos(), fmt.Sprintf("%d EndTime and %d StartTime stop tests", nEnd, nStart))
	}
	c.r.Check(nItr >= 5, rule, tsm1, "iterators:fewer-than-confirmed", "", fmt.Sprintf("%d tsm1 field iterators examined", nItr))

	// ---- (c) first()/last() shortcut
	if f := c.r.Need(c.p, tsm1, "Engine.CreateIterator"); f != nil {
		g := f.Graph()
		qpkg := t.importPkg("github.com/influxdata/influxdb/v2/" + qP)
		nameF := core.LookupField(t.importPkg(influxqlPath), "Call", "Name")
		var ascQ, limQ, ivQ *types.Var
		if qpkg != nil {
			ascQ, limQ, ivQ = core.LookupField(qpkg, "IteratorOptions", "Ascending"), core.LookupField(qpkg, "IteratorOptions", "Limit"), core.LookupField(qpkg, "IteratorOptions", "Interval")
		}
		if c.r.Check(ascQ != nil && limQ != nil && ivQ != nil && nameF != nil, "anchor", tsm1+".Engine.CreateIterator", "fields:unresolved", "", "option fields resolved") {
			n := 0
			for _, nd := range g.Select(g.N1Stores(core.N1Path(ti, ascQ))) {
				as := nd.N.(*ast.AssignStmt)
				n++
				ok := false
				if be, isBin := t.res.Resolve(as.Rhs[0]).(*ast.BinaryExpr); isBin && be.Op == token.EQL && len(as.Rhs) == 1 {
					x, y := ast.Unparen(be.X), ast.Unparen(be.Y)
					if core.FieldOf(ti, x) != nameF {
						x, y = y, x
					}
					v := core.ConstVal(ti, y)
					ok = core.FieldOf(ti, x) == nameF && v != nil && v.Kind() == constant.String && constant.StringVal(v) == "first"
				}
				c.r.Check(ok, rule, f.String(), "first/last:ascending-flag", g.Line(nd), "the shortcut scans ascending exactly for first(): Ascending = (call.Name == \"first\")")
				isZero := func(e ast.Expr) bool {
					zc, ok := ast.Unparen(e).(*ast.CallExpr)
					return ok && t.path(ivQ)(core.Recv(zc)) && core.Callee(ti, zc) != nil && core.Callee(ti, zc).Name() == "IsZero"
				}
				bad := g.N1ReachableWithout(func(x *core.Node) bool { return x == nd }, nil, t.boolEdge(isZero, true))
				c.r.Check(bad == nil, rule, f.String(), "first/last:with-interval", g.Line(nd), "the shortcut is taken only without a GROUP BY interval")
				isName := func(want string) core.X1FactPred {
					return core.X1CmpFact(func(e ast.Expr) bool { return core.FieldOf(ti, e) == nameF }, func(e ast.Expr) bool {
						v := core.ConstVal(ti, e)
						return v != nil && v.Kind() == constant.String && constant.StringVal(v) == want
					}, core.X1EQ)
				}
				bad = g.N1ReachableWithout(func(x *core.Node) bool { return x == nd }, nil, t.factEdge(core.X1AnyFact(isName("first"), isName("last"))))
				c.r.Check(bad == nil, rule, f.String(), "first/last:other-function", g.Line(nd), "the shortcut is taken only for first() and last()")
			}
			c.r.Check(n == 1, rule, f.String(), "first/last:shortcut-absent", f.Pos(), fmt.Sprintf("%d stores of Ascending", n))
		}
	}
	// ---- (d) tag sets reversed only when descending
	for _, fn := range []string{"Engine.createCallIterator", "Engine.createVarRefIterator"} {
		f := c.r.Need(c.p, tsm1, fn)
		if f == nil {
			continue
		}
		g := f.Graph()
		rev := g.Calling(call("*" + qP + ".TagSet.Reverse"))
		qpkg := t.importPkg("github.com/influxdata/influxdb/v2/" + qP)
		if qpkg == nil {
			continue
		}
		ascQ := core.LookupField(qpkg, "IteratorOptions", "Ascending")
		c.r.Check(len(g.Select(rev)) >= 1, rule, f.String(), "reverse:absent", f.Pos(), "TagSet.Reverse is called")
		bad := g.N1ReachableWithout(rev, nil, t.boolEdge(t.path(ascQ), false))
		c.r.Check(bad == nil, rule, f.String(), "reverse-when-ascending", c.line(g, bad), "series keys are reversed only on a path that established Ascending == false")
	}
}

// ---------------------------------------------------------------- (10) shard clip

func (c *c22) shardClip() {
	const rule = "shard-clip"
	co := c.co
	info := co.info
	if f := c.r.Need(c.p, c22Coord, "LocalShardMapping.CreateIterator"); f != nil {
		g := f.Graph()
		optT := f.X1Param(2).Type()
		for _, b := range []struct {
			opt, bound string
			rel        core.X1Rel
			what       string
		}{{"StartTime", "MinTime", core.X1LT, "raised"}, {"EndTime", "MaxTime", core.X1GT, "lowered"}} {
			of := core.N1FieldOfType(optT, b.opt)
			if !c.r.Check(of != nil, "anchor", qP+".IteratorOptions."+b.opt, "unresolved", "", "field resolved") {
				continue
			}
			stores := g.Select(g.N1Stores(core.N1Path(info, of)))
			c.r.Check(len(stores) == 1, rule, f.String(), b.opt+":stores", f.Pos(), fmt.Sprintf("%d stores of opt.%s", len(stores), b.opt))
			for _, nd := range stores {
				as, ok := nd.N.(*ast.AssignStmt)
				if !ok || as.Tok != token.ASSIGN || len(as.Rhs) != 1 {
					c.r.Bad(rule, f.String(), b.opt+":not-a-plain-store", g.Line(nd), "")
					continue
				}
				rhs := as.Rhs[0]
				fromBound := false
				if cl, ok := co.res.Resolve(rhs).(*ast.CallExpr); ok {
					if fv := core.FieldOf(info, core.Recv(cl)); fv != nil && fv.Name() == b.bound {
						fromBound = true
					}
				}
				c.r.Check(fromBound, rule, f.String(), b.opt+":clipped-to-other-bound", g.Line(nd), "opt."+b.opt+" is clipped to the mapping's "+b.bound)
				guard := co.cmpEdge(co.path(of), func(e ast.Expr) bool { return core.SameExpr(info, e, rhs) }, b.rel)
				bad := g.N1ReachableWithout(func(x *core.Node) bool { return x == nd }, nil, guard)
				c.r.Check(bad == nil, rule, f.String(), b.opt+":unguarded", g.Line(nd), "opt."+b.opt+" is "+b.what+" only on a path that established opt."+b.opt+" "+map[core.X1Rel]string{core.X1LT: "<", core.X1GT: ">"}[b.rel]+" bound (the range only shrinks)")
			}
		}
	}
	if f := c.r.Need(c.p, c22Coord, "LocalShardMapper.mapShards"); f != nil {
		cs := core.AllCalls(info, f.Decl.Body, call("*.ShardGroupsByTimeRange"))
		if c.r.Check(len(cs) == 1 && len(cs[0].Args) == 4, rule, f.String(), "ShardGroupsByTimeRange:absent", f.Pos(), "shard groups are looked up by time range") {
			okOrder := core.ObjOf(info, ast.Unparen(cs[0].Args[2])) == types.Object(f.X1Param(3)) && core.ObjOf(info, ast.Unparen(cs[0].Args[3])) == types.Object(f.X1Param(4))
			c.r.Check(okOrder, rule, f.String(), "time-range-arguments", c.p.Pos(cs[0].Pos()), "ShardGroupsByTimeRange(…, tmin, tmax) in that order")
		}
		// every shard of every group: append(ids, si.ID) inside range g.Shards inside range groups
		nApp := 0
		ast.Inspect(f.Decl.Body, func(x ast.Node) bool {
			outer, ok := x.(*ast.RangeStmt)
			if !ok || outer.Value == nil {
				return true
			}
			ov := core.ObjOf(info, outer.Value)
			ast.Inspect(outer.Body, func(y ast.Node) bool {
				inner, ok := y.(*ast.RangeStmt)
				if !ok || inner.Value == nil || core.X1RootObj(info, inner.X) != ov {
					return true
				}
				iv := core.ObjOf(info, inner.Value)
				for _, st := range inner.Body.List {
					as, ok := st.(*ast.AssignStmt)
					if !ok || len(as.Rhs) != 1 {
						continue
					}
					if cl, ok := ast.Unparen(as.Rhs[0]).(*ast.CallExpr); ok && core.Builtin("append")(info, cl) && len(cl.Args) == 2 && core.X1RootObj(info, cl.Args[1]) == iv {
						nApp++
					}
				}
				return true
			})
			return true
		})
		c.r.Check(nApp >= 1, rule, f.String(), "shards-not-collected", f.Pos(), "every shard of every group is appended (unconditionally, in the inner loop)")
	}
	// Source keys
	nSrc := 0
	for _, fn := range []string{"LocalShardMapper.mapShards", "LocalShardMapping.FieldDimensions", "LocalShardMapping.MapType", "LocalShardMapping.CreateIterator", "LocalShardMapping.IteratorCost"} {
		f := c.r.Need(c.p, c22Coord, fn)
		if f == nil {
			continue
		}
		ast.Inspect(f.Decl.Body, func(x ast.Node) bool {
			cl, ok := x.(*ast.CompositeLit)
			if !ok {
				return true
			}
			nt, ok := info.TypeOf(cl).(*types.Named)
			if !ok || nt.Obj().Name() != "Source" || nt.Obj().Pkg() != co.pk {
				return true
			}
			nSrc++
			db := core.N1KeyValue(info, cl, core.N1FieldOfType(nt, "Database"))
			rp := core.N1KeyValue(info, cl, core.N1FieldOfType(nt, "RetentionPolicy"))
			ok = db != nil && rp != nil
			if ok {
				ds, ok1 := ast.Unparen(db).(*ast.SelectorExpr)
				rs, ok2 := ast.Unparen(rp).(*ast.SelectorExpr)
				ok = ok1 && ok2 && core.SameExpr(info, ds.X, rs.X) && ds.Sel.Name == "Database" && rs.Sel.Name == "RetentionPolicy" && core.FieldOf(info, ds) != nil && core.FieldOf(info, rs) != nil
			}
			c.r.Check(ok, rule, f.String(), "source-key", c.p.Pos(cl.Pos()), "the shard-map key is {m.Database, m.RetentionPolicy} of one measurement")
			return true
		})
	}
	c.r.Check(nSrc >= 5, rule, c22Coord, "source-keys:fewer-than-confirmed", "", fmt.Sprintf("%d Source keys examined", nSrc))
}
