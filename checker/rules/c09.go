package rules

import (
	"fmt"
	"go/ast"
	"go/types"

	"verif/checker/core"
)

// cacheLocks is the guarded-by table of tsm1's Cache, entry and ring partitions
// (confirmed by reading cache.go / ring.go). The same table is reused by C39.
var cacheLocks = &core.LockRules{
	Pkg: tsm1,
	Guards: []core.Guard{
		{Type: "Cache", Fields: []string{"store", "snapshot", "snapshotting", "snapshotAttempts", "lastWriteTime"}, Locks: []string{"mu"}},
		{Type: "entry", Fields: []string{"values"}, Locks: []string{"mu"}},
		{Type: "partition", Fields: []string{"store"}, Locks: []string{"mu"}},
	},
	// the snapshot Cache object hangs off its parent and is protected by the parent's lock
	OwnedBy:     []string{"snapshot"},
	CallerHolds: map[string]map[string]byte{},
	ExemptFunc:  map[string]string{},
	ExemptAccess: map[string]string{
		"Cache.Split:store":                "runs on the snapshot object handed to the compactor (Compactor.WriteSnapshot); no writer touches a snapshot's store while it is being flushed",
		"Cache.values:store":               "same: only called on the snapshot object inside the compactor's cache key iterator",
		"Engine.LoadMetadataIndex:values":  "runs during Engine.Open before the shard accepts writes (single goroutine)",
		"cacheKeyIterator.encode:values":   "iterates entries of the read-only snapshot being written by the compactor",
	},
}

func init() {
	register(&Prop{
		ID:       "C09",
		Patterns: []string{"./tsdb/engine/tsm1"},
		Level:    "other",
		Technique: "static analysis: lockset (guarded-by) dataflow over go/cfg with inferred wrapper summaries, atomic-only field rule, check-then-act (re-check under write lock) rule, path/ordering rules for the size accounting",
		Explanation: "Necessary conditions of a race-free, size-bounded newest-wins cache, decided on every function of package tsm1: " +
			"(1) guarded-by: Cache.{store,snapshot,snapshotting,snapshotAttempts,lastWriteTime} are accessed only with Cache.mu held (write mode for writes; the snapshot object's fields under the parent's lock), entry.values only under entry.mu, the ring partition map only under partition.mu — accesses from other types (Engine) included; " +
			"(2) atomic-only: Cache.size / snapshotSize are touched only through sync/atomic; " +
			"(3) get-or-create atomicity: partition.write inserts a new entry only after re-checking the map under the write lock (otherwise two racing first writers of a key lose one writer's acknowledged values and double-count the size); " +
			"(4) limit-before-store: in Cache.WriteMulti every store.write and the optimistic increaseSize are reachable only through the not-exceeded branch of the size-limit test, and a failed store.write passes decreaseSize before the loop continues; " +
			"(5) delete accounting: in Cache.DeleteRange every store.remove / entry.filter is accompanied by a decreaseSize on the same loop iteration; " +
			"(6) type conflict: entry.add and newEntryValues return ErrFieldTypeConflict from a comparison of valueType(v) with the entry's type before any value is stored; " +
			"(7) newest-wins merge order in Cache.Values: snapshot entry appended before the hot entry, result passed through Values.Deduplicate after the copy; " +
			"(8) Cache.Snapshot swaps stores and moves size→snapshotSize inside one critical section; ClearSnapshot(true) zeroes snapshotSize.",
		NotCovered:  "linearizability of concrete histories; exact size arithmetic; races on state that is not in the table.",
		Assumptions: []string{"lock identity is by access path: two different expressions for the same object are treated as different locks (conservative: reports, never hides)", "deferred closures see the lock state at their registration"},
		Run:         runC09,
	})
}

func runC09(p *core.Prog, r *core.Report, tier string) {
	core.RuleLocks(r, p, cacheLocks, "guarded-by", 60)
	core.RuleAtomicOnly(r, p, tsm1, "Cache", []string{"size", "snapshotSize"}, 8)

	pk := p.Pkg(tsm1)
	if pk == nil {
		return
	}
	// (3) get-or-create
	if f := r.Need(p, tsm1, "partition.write"); f != nil {
		// the rule is about whichever function inserts into the map: partition.write
		// today, a helper it calls after an extraction
		mapF := core.LookupField(pk.Types, "partition", "store")
		inserts := func(fn *core.Func) bool {
			hit := false
			if fn.Decl.Body == nil {
				return false
			}
			ast.Inspect(fn.Decl.Body, func(x ast.Node) bool {
				if as, ok := x.(*ast.AssignStmt); ok {
					for _, l := range as.Lhs {
						if ix, ok := ast.Unparen(l).(*ast.IndexExpr); ok && core.FieldOf(fn.Info(), ix.X) == mapF {
							hit = true
						}
					}
				}
				return true
			})
			return hit
		}
		if inserts(f) {
			core.RuleRecheckUnderLock(r, f, "recheck-under-lock", mapF)
		} else {
			n := 0
			for _, c := range core.AllCalls(f.Info(), f.Decl.Body, func(*types.Info, *ast.CallExpr) bool { return true }) {
				if h := p.FuncOf(core.Callee(f.Info(), c)); h != nil && h.Pkg == f.Pkg && inserts(h) {
					n++
					r.Saw(h)
					core.RuleRecheckUnderLock(r, h, "recheck-under-lock", mapF)
				}
			}
			r.Check(n >= 1, "recheck-under-lock", f.String(), "insert:absent", f.Pos(), "partition.write (or a helper it calls) inserts the new entry into partition.store")
		}
	}

	// (4) limit before store
	if f := r.Need(p, tsm1, "Cache.WriteMulti"); f != nil {
		const rule = "limit-before-store"
		g := f.Graph()
		info := f.Info()
		limErr := g.Select(g.Calling(call("tsdb/engine/tsm1.ErrCacheMemorySizeLimitExceeded")))
		if r.Check(len(limErr) == 1, rule, f.String(), "limit-error:absent", f.Pos(), "the size-limit rejection exists") {
			guards := g.EnclosingGuards(limErr[0])
			if r.Check(len(guards) >= 1, rule, f.String(), "limit-guard:absent", g.Line(limErr[0]), "the rejection is conditional") {
				// the guards are the edges every path to the rejection takes (one edge for
				// `a && b`, several for nested ifs); their condition nodes are the limit test
				gate := map[*core.Node]bool{}
				for _, e := range guards {
					gate[e.From] = true
				}
				guard := guards[len(guards)-1]
				// the limit test reads maxSize and the current size
				maxSize := core.LookupField(pk.Types, "Cache", "maxSize")
				readsMax, readsSize := false, false
				limVar := map[types.Object]bool{}
				ast.Inspect(f.Decl.Body, func(n ast.Node) bool {
					if as, ok := n.(*ast.AssignStmt); ok && len(as.Lhs) == 1 && len(as.Rhs) == 1 {
						mentions := false
						ast.Inspect(as.Rhs[0], func(x ast.Node) bool {
							if se, ok := x.(*ast.SelectorExpr); ok && core.FieldOf(info, se) == maxSize {
								mentions = true
							}
							if c, ok := x.(*ast.CallExpr); ok && call("tsdb/engine/tsm1.Cache.Size")(info, c) {
								mentions = true
							}
							return true
						})
						if mentions {
							if o := core.ObjOf(info, as.Lhs[0]); o != nil {
								limVar[o] = true
							}
						}
					}
					return true
				})
				for _, ge := range guards {
					cond := ge.Cond
					if id, ok := ast.Unparen(cond).(*ast.Ident); ok { // `over := n > limit; if over`
						cond = core.ResolveLocal(info, f.Decl.Body, id)
					}
					ast.Inspect(cond, func(x ast.Node) bool {
						if id, ok := x.(*ast.Ident); ok && limVar[info.Uses[id]] {
							readsMax = true
							readsSize = true
						}
						if se, ok := x.(*ast.SelectorExpr); ok && core.FieldOf(info, se) == maxSize {
							readsMax = true
						}
						return true
					})
				}
				r.Check(readsMax && readsSize, rule, f.String(), "limit-test-operands", g.Line(guard.From), "the limit test compares values derived from Cache.maxSize and Cache.Size()")
				// effects are reachable neither without evaluating the limit test nor
				// from the rejecting branch (the innermost guard edge: no further test behind it)
				reach := g.ReachFromEntry(func(n *core.Node) bool { return gate[n] }, nil)
				for _, ge := range guards {
					behind := g.Reach([]*core.Node{ge.To}, nil, nil)
					inner := true
					for n := range behind {
						if gate[n] {
							inner = false
						}
					}
					if inner {
						for n := range behind {
							reach[n] = true
						}
					}
				}
				effects := g.Select(core.AnyOf(g.Calling(call("tsdb/engine/tsm1.storer.write")), g.Calling(call("tsdb/engine/tsm1.Cache.increaseSize"))))
				r.Check(len(effects) >= 3, rule, f.String(), "effects:count", f.Pos(), fmt.Sprintf("%d store.write/increaseSize sites (>= 3 confirmed by reading)", len(effects)))
				for _, n := range effects {
					r.Check(!reach[n], rule, f.String(), "effect-before-limit-test", g.Line(n), "store.write / increaseSize happen only after the size limit test passed (a rejected write stores nothing)")
				}
			}
		}
		// failed store.write → decreaseSize before the iteration ends
		dec := g.Calling(call("tsdb/engine/tsm1.Cache.decreaseSize"))
		n := 0
		for _, w := range g.Select(g.Calling(call("tsdb/engine/tsm1.storer.write"))) {
			fail, _, ok := g.ErrEdges(w)
			if !ok {
				r.Bad(rule, f.String(), "store.write-unchecked", g.Line(w), "the error of store.write is not tested")
				continue
			}
			n++
			body := core.ThenBody(fail.To)
			esc := false
			for x := range g.Reach([]*core.Node{fail.To}, dec, nil) {
				if body == nil || !core.InRegion(x, body) {
					esc = true
				}
			}
			r.Check(!esc, rule, f.String(), "failed-write-not-unaccounted", g.Line(w), "a failed store.write gives back the optimistically added size before going on")
		}
		r.Check(n >= 1, rule, f.String(), "store.write:absent", f.Pos(), "store.write call found")
	}

	// (5) delete accounting
	if f := r.Need(p, tsm1, "Cache.DeleteRange"); f != nil {
		const rule = "delete-accounting"
		g := f.Graph()
		dec := g.Calling(call("tsdb/engine/tsm1.Cache.decreaseSize"))
		mut := g.Select(core.AnyOf(g.Calling(call("tsdb/engine/tsm1.storer.remove")), g.Calling(call("tsdb/engine/tsm1.entry.filter"))))
		r.Check(len(mut) >= 3, rule, f.String(), "mutations:count", f.Pos(), fmt.Sprintf("%d remove/filter sites (>= 3 confirmed)", len(mut)))
		// loop head: the synthetic node every iteration returns to
		var heads []*core.Node
		for _, n := range g.Nodes {
			if n.N == nil && g.OnCycle(n) {
				heads = append(heads, n)
			}
		}
		for _, m := range mut {
			// either a decreaseSize precedes m within the iteration, or follows it before the next iteration
			fw := g.Reach(core.After(m, nil), dec, nil)
			leaks := false
			for _, h := range heads {
				if fw[h] {
					leaks = true
				}
			}
			if leaks {
				// accept when a decreaseSize dominates m inside the iteration
				dom := true
				for _, h := range heads {
					if g.Reach(core.After(h, nil), dec, nil)[m] {
						dom = false
					}
				}
				leaks = !dom
			}
			r.Check(!leaks, rule, f.String(), "mutation-without-decreaseSize", g.Line(m), "every removal/filter of cached values adjusts the accounted size in the same iteration")
		}
		// removal of a whole key gives back the key length too
		core.RuleHasCall(r, f, rule, "storer.entry", call("tsdb/engine/tsm1.storer.entry"))
	}

	// (6) type conflict
	for _, name := range []string{"entry.add", "newEntryValues"} {
		if f := r.Need(p, tsm1, name); f != nil {
			const rule = "type-conflict"
			g := f.Graph()
			info := f.Info()
			// a return of ErrFieldTypeConflict guarded by a condition that calls valueType
			ok := false
			for _, x := range g.Exits {
				rs, isRet := x.N.(*ast.ReturnStmt)
				if !isRet {
					continue
				}
				isConflict := false
				for _, res := range rs.Results {
					if se, ok := ast.Unparen(res).(*ast.SelectorExpr); ok {
						if v, ok := info.Uses[se.Sel].(*types.Var); ok && v.Name() == "ErrFieldTypeConflict" {
							isConflict = true
						}
					}
				}
				if !isConflict {
					continue
				}
				for _, e := range g.EnclosingGuards(x) {
					if len(core.CallsIn(info, e.Cond, call("tsdb/engine/tsm1.valueType"), core.WalkOpts{})) > 0 {
						ok = true
					}
				}
			}
			r.Check(ok, rule, f.String(), "conflict-test:absent", f.Pos(), "returns ErrFieldTypeConflict under a test that compares valueType(v) with the entry's type")
			// the conflict test precedes taking the entry lock / storing values
			if name == "entry.add" {
				vals := core.LookupField(pk.Types, "entry", "values")
				stores := g.Select(g.Assigning(vals))
				r.Check(len(stores) >= 2, rule, f.String(), "stores:count", f.Pos(), "value stores found")
				vt := g.Select(g.Calling(call("tsdb/engine/tsm1.valueType")))
				// no store is followed by the (first) type test: test comes first
				if len(vt) > 0 {
					after := g.Reach(core.After(stores[0], nil), nil, nil)
					r.Check(!after[vt[0]], rule, f.String(), "test-after-store", g.Line(vt[0]), "the type test is not executed after values were already stored")
				}
			}
		}
	}

	// (7) Cache.Values merge order
	if f := r.Need(p, tsm1, "Cache.Values"); f != nil {
		const rule = "newest-wins-order"
		g := f.Graph()
		info := f.Info()
		// appends to the local `entries` slice: first the snapshot entry, then the hot entry
		var apps []*core.Node
		var what []string
		snapField := core.LookupField(pk.Types, "Cache", "snapshot")
		// variable assigned from c.snapshot.store.entry(...)
		snapVar := map[types.Object]bool{}
		ast.Inspect(f.Decl.Body, func(n ast.Node) bool {
			if as, ok := n.(*ast.AssignStmt); ok && len(as.Lhs) == 1 && len(as.Rhs) == 1 {
				if c, ok := as.Rhs[0].(*ast.CallExpr); ok && call("tsdb/engine/tsm1.storer.entry")(info, c) {
					viaSnap := false
					ast.Inspect(c.Fun, func(x ast.Node) bool {
						if se, ok := x.(*ast.SelectorExpr); ok && core.FieldOf(info, se) == snapField {
							viaSnap = true
						}
						return true
					})
					if viaSnap {
						snapVar[core.ObjOf(info, as.Lhs[0])] = true
					}
				}
			}
			return true
		})
		for _, n := range g.Nodes {
			as, ok := n.N.(*ast.AssignStmt)
			if !ok || len(as.Rhs) != 1 {
				continue
			}
			c, ok := as.Rhs[0].(*ast.CallExpr)
			if !ok || !core.Builtin("append")(info, c) || len(c.Args) != 2 {
				continue
			}
			if t, ok := info.TypeOf(c.Args[0]).(*types.Slice); !ok || t.Elem().String() != "*"+core.Mod+"/tsdb/engine/tsm1.entry" {
				continue
			}
			apps = append(apps, n)
			if snapVar[core.ObjOf(info, c.Args[1])] {
				what = append(what, "snapshot")
			} else {
				what = append(what, "hot")
			}
		}
		if r.Check(len(apps) == 2 && len(snapVar) == 1, rule, f.String(), "shape", f.Pos(), "two appends to the merge list, one of the snapshot entry and one of the hot entry") {
			okOrder := what[0] == "snapshot" && what[1] == "hot" && !g.Reach(core.After(apps[1], nil), nil, nil)[apps[0]]
			r.Check(okOrder, rule, f.String(), "snapshot-before-hot", g.Line(apps[0]), "the snapshot entry is placed before the hot entry, so Deduplicate lets hot values win")
		}
		// Deduplicate after the copy loop, on every non-nil return
		dd := g.Select(g.Calling(call("tsdb/engine/tsm1.Values.Deduplicate")))
		cp := g.Select(g.Calling(core.Builtin("copy")))
		if r.Check(len(dd) >= 1 && len(cp) >= 1, rule, f.String(), "dedup:absent", f.Pos(), "copy loop and Values.Deduplicate found") {
			r.Check(!g.Reach(core.After(dd[len(dd)-1], nil), nil, nil)[cp[0]], rule, f.String(), "dedup-after-copy", g.Line(dd[len(dd)-1]), "Deduplicate runs after all values were copied")
			// returns of a non-nil value pass Deduplicate
			reach := g.ReachFromEntry(g.Calling(call("tsdb/engine/tsm1.Values.Deduplicate")), nil)
			for _, x := range g.Exits {
				if rs, ok := x.N.(*ast.ReturnStmt); ok && len(rs.Results) == 1 && !core.IsNilIdent(info, rs.Results[0]) {
					r.Check(!reach[x], rule, f.String(), "return-without-dedup", g.Line(x), "values are returned only after Deduplicate")
				}
			}
		}
	}

	// (8) snapshot swap is one critical section; sizes move with it
	if f := r.Need(p, tsm1, "Cache.Snapshot"); f != nil {
		const rule = "snapshot-accounting"
		g := f.Graph()
		info := f.Info()
		store := core.LookupField(pk.Types, "Cache", "store")
		swaps := g.Select(g.Assigning(store))
		r.Check(len(swaps) >= 1, rule, f.String(), "swap:absent", f.Pos(), "store swap found")
		stores := g.Select(g.Calling(call("sync/atomic.StoreUint64")))
		// after the swap: size is zeroed and snapshotSize is set before returning
		sizeF := core.LookupField(pk.Types, "Cache", "size")
		snapSizeF := core.LookupField(pk.Types, "Cache", "snapshotSize")
		zeroed, moved := false, false
		for _, n := range stores {
			for _, c := range core.CallsIn(info, n.N, call("sync/atomic.StoreUint64"), core.WalkOpts{}) {
				if len(c.Args) != 2 {
					continue
				}
				u, ok := ast.Unparen(c.Args[0]).(*ast.UnaryExpr)
				if !ok {
					continue
				}
				se, _ := ast.Unparen(u.X).(*ast.SelectorExpr)
				fv := core.FieldOf(info, se)
				base := ""
				if se != nil {
					base = core.ExprStr(se.X)
				}
				if fv == sizeF && base == "c" {
					if v := core.ConstVal(info, c.Args[1]); v != nil && v.ExactString() == "0" {
						zeroed = true
					}
				}
				if fv == snapSizeF && base == "c" {
					moved = true
				}
			}
		}
		r.Check(zeroed, rule, f.String(), "size-not-reset", f.Pos(), "the hot size is reset to 0 when the store is handed to the snapshot")
		r.Check(moved, rule, f.String(), "snapshotSize-not-set", f.Pos(), "the snapshot's size is recorded in snapshotSize (reported size = hot + snapshot)")
		if len(swaps) > 0 {
			core.RuleMustPassN(r, f, g, rule, "atomic.StoreUint64 after swap", g.Calling(call("sync/atomic.StoreUint64")),
				func(e *core.Edge) bool { // paths that return before the swap (in progress / retry of a failed snapshot) are exempt
					return !g.Reach([]*core.Node{e.To}, nil, nil)[swaps[0]] && g.ReachFromEntry(nil, nil)[e.From] && !g.Reach(core.After(swaps[0], nil), nil, nil)[e.From]
				})
		}
	}
	if f := r.Need(p, tsm1, "Cache.ClearSnapshot"); f != nil {
		const rule = "snapshot-accounting"
		info := f.Info()
		snapSizeF := core.LookupField(pk.Types, "Cache", "snapshotSize")
		okZero := false
		for _, c := range core.AllCalls(info, f.Decl.Body, call("sync/atomic.StoreUint64")) {
			if len(c.Args) == 2 {
				if u, ok := ast.Unparen(c.Args[0]).(*ast.UnaryExpr); ok {
					if se, ok := ast.Unparen(u.X).(*ast.SelectorExpr); ok && core.FieldOf(info, se) == snapSizeF {
						if v := core.ConstVal(info, c.Args[1]); v != nil && v.ExactString() == "0" {
							okZero = true
						}
					}
				}
			}
		}
		r.Check(okZero, rule, f.String(), "snapshotSize-not-cleared", f.Pos(), "a successful flush gives the snapshot's size back (snapshotSize = 0)")
		// … and ONLY a successful one: after ClearSnapshot(false) the snapshot's values are
		// kept for the retry, so its size must keep counting against the limit.
		g := f.Graph()
		success := f.Obj.Type().(*types.Signature).Params().At(0)
		onSuccess := core.AtomEdge(func(x ast.Expr, val bool) bool { return val && core.ObjOf(info, x) == success })
		reach := g.ReachFromEntry(nil, onSuccess)
		touches := func(n *core.Node) bool {
			hit := false
			for _, c := range core.CallsIn(info, n.N, call("sync/atomic.StoreUint64", "sync/atomic.SwapUint64", "sync/atomic.AddUint64", "sync/atomic.CompareAndSwapUint64"), core.WalkOpts{}) {
				if len(c.Args) >= 1 {
					if u, ok := ast.Unparen(c.Args[0]).(*ast.UnaryExpr); ok {
						if se, ok := ast.Unparen(u.X).(*ast.SelectorExpr); ok && core.FieldOf(info, se) == snapSizeF {
							hit = true
						}
					}
				}
			}
			return hit
		}
		for _, n := range g.Select(func(n *core.Node) bool { return n.N != nil && touches(n) }) {
			r.Check(!reach[n], rule, f.String(), "snapshotSize-changed-on-failure", g.Line(n), "snapshotSize is modified only on the success branch (a failed flush keeps the snapshot and its accounted size)")
		}
	}
}
