package rules

import (
	"verif/checker/core"
)

// cacheLocks is the guarded-by table of tsm1's Cache, entry and ring partitions
// (confirmed by reading cache.go / ring.go).
var cacheLocks = &core.LockRules{
	Pkg: tsm1,
	Guards: []core.Guard{
		{Type: "Cache", Fields: []string{"store", "snapshot", "snapshotting", "snapshotAttempts", "lastWriteTime"}, Locks: []string{"mu"}},
		{Type: "entry", Fields: []string{"values", "vtype"}, Locks: []string{"mu"}},
		{Type: "partition", Fields: []string{"store"}, Locks: []string{"mu"}},
	},
	CallerHolds: map[string]map[string]byte{},
	ExemptFunc:  map[string]string{},
	ExemptAccess: map[string]string{},
}

func init() {
	register(&Prop{
		ID:          "C09",
		Patterns:    []string{"./tsdb/engine/tsm1"},
		Level:       "other",
		Explanation: "lockset (guarded-by) analysis of the cache",
		Run: func(p *core.Prog, r *core.Report, tier string) {
			core.RuleLocks(r, p, cacheLocks, "guarded-by", 40)
		},
	})
}
