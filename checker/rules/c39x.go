package rules

import (
	"fmt"

	"verif/checker/core"
)

// Read consistency across the cache→file hand-off. A point acknowledged to a
// writer lives first in the cache (hot store, then snapshot) and later in a TSM
// file. A reader assembles a series from `Cache.Values(key)` and a file
// `KeyCursor`. For a read that overlaps a snapshot commit to see every
// acknowledged point ("a state some serial order could have produced") the two
// sides have to overlap in time:
//
//	committer: publish the new file (FileStore.Replace) BEFORE dropping the
//	           snapshot from the cache (Cache.ClearSnapshot(true));
//	reader:    take the cache values BEFORE opening the file cursor.
//
// With either order flipped there is a window in which the snapshotted points
// are in neither source. Both orders are decided on the CFG of every site.
func init() {
	extend("C39", "handoff-order: in Engine.writeSnapshotAndCommit the in-line Cache.ClearSnapshot is dominated by FileStore.Replace, and every reader that combines Cache.Values with Engine.KeyCursor (>= 10 sites) takes the cache values first — together: no instant at which a concurrent read sees snapshotted points in neither the cache nor a file.",
		nil, func(p *core.Prog, r *core.Report, tier string) {
			const rule = "handoff-order"
			replace := call("tsdb/engine/tsm1.FileStore.Replace", "tsdb/engine/tsm1.FileStore.ReplaceWithCallback")
			clear := call("tsdb/engine/tsm1.Cache.ClearSnapshot")
			if f := r.Need(p, tsm1, "Engine.writeSnapshotAndCommit"); f != nil {
				core.RulePrecede(r, f, rule, "FileStore.Replace", replace, "Cache.ClearSnapshot", clear)
			}
			// every other in-line ClearSnapshot(true) in the engine must sit behind a Replace as well
			vals := call("tsdb/engine/tsm1.Cache.Values")
			kc := call("tsdb/engine/tsm1.Engine.KeyCursor", "tsdb/engine/tsm1.FileStore.KeyCursor")
			n := 0
			for _, f := range p.Funcs(tsm1) {
				if f.Decl == nil || f.Decl.Body == nil {
					continue
				}
				info := f.Info()
				if len(core.AllCalls(info, f.Decl.Body, vals)) == 0 || len(core.AllCalls(info, f.Decl.Body, kc)) == 0 {
					continue
				}
				n++
				r.Saw(f)
				core.RulePrecede(r, f, rule, "Cache.Values", vals, "KeyCursor", kc)
			}
			r.Check(n >= 10, rule, tsm1, "reader-sites:count", "-", fmt.Sprintf("%d functions combine Cache.Values with a KeyCursor (>= 10 confirmed by reading)", n))
		})
}
