package rules

import (
	"fmt"
	"go/ast"
	"go/types"

	"verif/checker/core"
)

// C08 extension (m9): survivor-driven rules — a recorded tombstone is written,
// written with its own bytes, read back completely, and re-applied with its key.
func init() {
	extend("C08", "(7) tombstone-recorded: Tombstoner.AddRange reports success without Tombstoner.prepareV4 only on a branch establishing that the key list is empty or t.Path is the empty string; in its loops over the keys an iteration skips writeTombstone / the append to t.tombstones only on a branch establishing that FilterFn(key) is false, and the loops are not left early except by a failing return; writeTombstoneV3 (whole-file rewrite from memory) is reachable only when prepareV4 returned errIncompatibleVersion; Tombstoner.prepareV4 copies the existing tombstone file into the new temp file unless os.IsNotExist / the header probe failed / a pending file is reused, writes the header or that copy before it succeeds, and writes the header only when no file exists; (8) buffer-filled: in Tombstoner.writeTombstone/prepareV4/writeTombstoneV3 and tsmWriter.writeHeader/Write/WriteBlock/WriteIndex every Write of a fixed-size scratch array is preceded, since the previous Write of that array, by a store into it (binary Put*/copy/element store), and writeTombstone encodes len(Key), Min, Max in that order; (9) tombstone-read-complete: Tombstoner.readTombstoneV4 reports success before the first io.ReadFull only when gzip.NewReader reported io.EOF, leaves its stream loop only on a branch establishing err == io.EOF (or by a failing return), and the record loop ends successfully only when a read reported io.EOF / io.ErrUnexpectedEOF; Tombstoner.readTombstoneV3 leaves its record loop only on a branch establishing io.EOF / io.ErrUnexpectedEOF (or by a failing return) and hands the callback a key buffer that was filled by copy after it was allocated; Tombstoner.writeTombstoneV3 stores the new temp file, gzip writer and buffered writer in t.pendingFile/t.gz/t.bw before it calls commit (commit is a no-op without a pending file); FileStore.DeleteRange reports success without BatchDeleters.Commit only when no file overlaps (empty batch list); (10) tombstone-key-copied: in the Walk callback of TSMReader.applyTombstones every successful return passes a statement that transfers the bytes of the walked tombstone's Key into the batch (copy / append / element store; a mere len(ts.Key) does not count); the interface-typed Values.Exclude/Include/FindRange/search used to hide tombstoned ranges equal their typed siblings.",
		nil, func(p *core.Prog, r *core.Report, tier string) {
			m9AddRange(p, r)
			m9PrepareV4Copies(p, r)
			for _, n := range []string{"Tombstoner.writeTombstone", "Tombstoner.prepareV4", "Tombstoner.writeTombstoneV3", "tsmWriter.writeHeader", "tsmWriter.Write", "tsmWriter.WriteBlock", "tsmWriter.WriteIndex"} {
				m9BufferFilled(p, r, n)
			}
			m9TombstoneFieldOrder(p, r)
			m9ReadV4Complete(p, r)
			m9ReadV3Complete(p, r)
			m9FileStoreDeletes(p, r)
			m9V3Publishes(p, r)
			m9KeyCopied(p, r)
			m9GenericSiblings(p, r, "sibling-uniformity", []string{"Exclude", "Include", "FindRange", "search"})
		})
}

// ---------------------------------------------------------------- AddRange

func m9AddRange(p *core.Prog, r *core.Report) {
	const rule = "tombstone-recorded"
	f := r.Need(p, tsm1, "Tombstoner.AddRange")
	if f == nil {
		return
	}
	info, g := f.Info(), f.Graph()
	body := f.Decl.Body
	pk := f.Pkg.Types
	pathF := core.LookupField(pk, "Tombstoner", "Path")
	filterF := core.LookupField(pk, "Tombstoner", "FilterFn")
	tombsF := core.LookupField(pk, "Tombstoner", "tombstones")
	keys := types.Object(f.X1Param(0))
	if !r.Check(pathF != nil && filterF != nil && tombsF != nil && keys != nil, "anchor", tsm1+".Tombstoner.Path/FilterFn/tombstones", "unresolved", "-", "fields resolved") {
		return
	}
	isKeys := core.IsObj(info, keys)
	noKeys := core.M9EmptyEdge(info, body, isKeys, true)
	// t.Path == ""
	isPath := func(e ast.Expr) bool { return core.FieldOf(info, e) == pathF }
	isEmptyStr := func(e ast.Expr) bool {
		tv, ok := info.Types[e]
		return ok && tv.Value != nil && tv.Value.ExactString() == `""`
	}
	noPath := core.X1FactEdge(core.M9ResolvedFact(info, body, core.X1AnyFact(
		core.X1CmpFact(isPath, isEmptyStr, core.X1EQ),
		func(ft core.X1Fact) bool { // len(t.Path) == 0
			x, br, ok := core.EmptyOn(info, ft.E)
			return ok && br == ft.True && isPath(x)
		})))
	core.RuleMustPassN(r, f, g, rule, "Tombstoner.prepareV4 (unless no keys or no path)", g.Calling(call(tsm1+".Tombstoner.prepareV4")), core.OrEdge(noKeys, noPath))

	// the v3 rewrite replaces the whole file by the in-memory list: only for a file prepareV4 refused
	if incompat := pk.Scope().Lookup("errIncompatibleVersion"); r.Check(incompat != nil, "anchor", tsm1+".errIncompatibleVersion", "unresolved", "-", "sentinel resolved") {
		isErrV := func(e ast.Expr) bool {
			o := core.ObjOf(info, e)
			return o != nil && o != incompat && core.IsErrorType(o.Type())
		}
		isIncompat := func(e ast.Expr) bool { return core.ObjOf(info, e) == incompat }
		refused := core.X1FactEdge(core.M9ResolvedFact(info, body, core.X1AnyFact(
			core.X1CmpFact(isErrV, isIncompat, core.X1EQ),
			func(ft core.X1Fact) bool {
				c, ok := ast.Unparen(ft.E).(*ast.CallExpr)
				return ok && ft.True && call("errors.Is")(info, c) && len(c.Args) == 2 && isErrV(ast.Unparen(c.Args[0])) && isIncompat(ast.Unparen(c.Args[1]))
			})))
		un := g.ReachFromEntry(nil, refused)
		v3 := g.Select(g.Calling(call(tsm1 + ".Tombstoner.writeTombstoneV3")))
		bad := ""
		for _, n := range v3 {
			if un[n] {
				bad = g.Line(n)
			}
		}
		r.Check(len(v3) >= 1 && bad == "", rule, f.String(), "v3-rewrite-only-if-incompatible", firstNonEmpty12(bad, f.Pos()),
			"writeTombstoneV3 (which replaces the tombstone file by the in-memory list) is reachable only through a branch establishing that prepareV4 returned errIncompatibleVersion (for a v4 file the in-memory list does not hold the recorded tombstones: the rewrite would drop them)")
	}

	// loops over the keys
	filtered := core.X1FactEdge(core.M9ResolvedFact(info, body, func(ft core.X1Fact) bool {
		c, ok := ast.Unparen(ft.E).(*ast.CallExpr)
		return ok && !ft.True && core.FieldOf(info, c.Fun) == filterF
	}))
	writes := core.AnyOf(g.Calling(call(tsm1+".Tombstoner.writeTombstone")), g.Assigning(tombsF))
	loops := core.RangeOver(body, isKeys)
	n := 0
	success := map[*core.Node]bool{}
	for _, x := range g.SuccessExits() {
		success[x] = true
	}
	for i, loop := range loops {
		if len(g.Select(func(m *core.Node) bool { return core.InRegion(m, loop.Body) && writes(m) })) == 0 {
			continue
		}
		n++
		what := fmt.Sprintf("key-loop#%d", i+1)
		esc, ok := g.IterEscapes12(loop, writes, filtered)
		if !r.Check(ok, rule, f.String(), what+":unresolved", p.Pos(loop.Pos()), "loop found in the control-flow graph") {
			continue
		}
		bad := ""
		for _, e := range esc {
			switch {
			case e.Kind == "next":
				bad = g.Line(e.Via) + " (key skipped)"
			case e.Kind == "leave":
				bad = g.Line(e.Via) + " (loop left)"
			case e.Kind == "return" && success[e.Via]:
				bad = g.Line(e.Via) + " (success return)"
			}
		}
		r.Check(bad == "", rule, f.String(), what+":key-skipped", firstNonEmpty12(bad, p.Pos(loop.Pos())),
			"an iteration over the keys ends without recording the key (writeTombstone / append to t.tombstones) only on a branch establishing FilterFn(key) == false, or by a failing return")
	}
	r.Check(n >= 2, rule, f.String(), "key-loops:count", f.Pos(), fmt.Sprintf("%d recording loops over the keys (v3 rewrite and v4 append: 2 confirmed by reading)", n))
}

// ---------------------------------------------------------------- scratch buffers

// m9ArrayBase returns the variable / field of fixed-size byte-array type that e
// (x, x[:], x[a:b], x[i]) is based on.
func m9ArrayBase(info *types.Info, e ast.Expr) types.Object {
	for {
		switch t := ast.Unparen(e).(type) {
		case *ast.SliceExpr:
			e = t.X
			continue
		case *ast.IndexExpr:
			e = t.X
			continue
		}
		break
	}
	e = ast.Unparen(e)
	tv := info.TypeOf(e)
	if tv == nil {
		return nil
	}
	arr, ok := tv.Underlying().(*types.Array)
	if !ok {
		return nil
	}
	if b, isB := arr.Elem().Underlying().(*types.Basic); !isB || b.Kind() != types.Byte && b.Kind() != types.Uint8 {
		return nil
	}
	if fv := core.FieldOf(info, e); fv != nil {
		return fv
	}
	return core.ObjOf(info, e)
}

func m9BufferFilled(p *core.Prog, r *core.Report, name string) {
	const rule = "buffer-filled"
	f := r.Need(p, tsm1, name)
	if f == nil {
		return
	}
	info, g := f.Info(), f.Graph()
	isWrite := func(c *ast.CallExpr) bool {
		fn := core.Callee(info, c)
		return fn != nil && fn.Name() == "Write" && len(c.Args) == 1
	}
	anyCall := func(*types.Info, *ast.CallExpr) bool { return true }
	bufs := map[types.Object]bool{}
	writeOf := func(v types.Object) core.NodePred {
		return g.X1CallingWith(anyCall, func(c *ast.CallExpr) bool {
			return isWrite(c) && m9ArrayBase(info, c.Args[0]) == v
		})
	}
	for _, n := range g.Nodes {
		if n.N == nil {
			continue
		}
		for _, c := range core.CallsIn(info, n.N, anyCall, core.WalkOpts{}) {
			if isWrite(c) {
				if v := m9ArrayBase(info, c.Args[0]); v != nil {
					bufs[v] = true
				}
			}
		}
	}
	put := call("encoding/binary.bigEndian.Put*", "encoding/binary.ByteOrder.Put*", "encoding/binary.littleEndian.Put*")
	for v := range bufs {
		v := v
		fill := core.AnyOf(
			g.X1CallingWith(core.Or(put, core.Builtin("copy")), func(c *ast.CallExpr) bool {
				return len(c.Args) >= 1 && m9ArrayBase(info, c.Args[0]) == v
			}),
			func(n *core.Node) bool {
				as, ok := n.N.(*ast.AssignStmt)
				if !ok {
					return false
				}
				for _, l := range as.Lhs {
					if _, isIx := ast.Unparen(l).(*ast.IndexExpr); isIx && m9ArrayBase(info, l) == v {
						return true
					}
				}
				return false
			})
		ws := g.Select(writeOf(v))
		starts := append([]*core.Node{g.Entry}, core.X1SuccsOf(ws)...)
		stale := g.Reach(starts, fill, nil)
		bad := ""
		for _, w := range ws {
			if stale[w] && !fill(w) {
				bad = g.Line(w)
			}
		}
		r.Check(bad == "", rule, f.String(), "stale-"+v.Name(), firstNonEmpty12(bad, f.Pos()),
			fmt.Sprintf("every Write of the scratch array %s is preceded, since function entry and since the previous Write of it, by a store into it (%d write(s))", v.Name(), len(ws)))
	}
	if name == "Tombstoner.writeTombstone" || name == "tsmWriter.WriteIndex" || name == "tsmWriter.writeHeader" {
		r.Check(len(bufs) >= 1, rule, f.String(), "scratch:absent", f.Pos(), "writes through a fixed-size scratch array")
	}
}

// m9TombstoneFieldOrder: writeTombstone encodes len(Key), Min, Max in that order.
func m9TombstoneFieldOrder(p *core.Prog, r *core.Report) {
	const rule = "buffer-filled"
	f := r.Need(p, tsm1, "Tombstoner.writeTombstone")
	if f == nil {
		return
	}
	info := f.Info()
	put := call("encoding/binary.bigEndian.Put*", "encoding/binary.ByteOrder.Put*")
	var got []string
	for _, c := range core.AllCalls(info, f.Decl.Body, put) {
		if len(c.Args) != 2 {
			continue
		}
		for fld := range core.FieldsRead(info, c.Args[1]) {
			if fld.Name() == "Key" || fld.Name() == "Min" || fld.Name() == "Max" {
				got = append(got, fld.Name())
			}
		}
	}
	r.Check(len(got) == 3 && got[0] == "Key" && got[1] == "Min" && got[2] == "Max", rule, f.String(), "field-order", f.Pos(),
		fmt.Sprintf("the record is encoded as len(Key), Min, Max (found %v) — the order every reader decodes", got))
}

// ---------------------------------------------------------------- readTombstoneV4

func m9ReadV4Complete(p *core.Prog, r *core.Report) {
	const rule = "tombstone-read-complete"
	f := r.Need(p, tsm1, "Tombstoner.readTombstoneV4")
	if f == nil {
		return
	}
	info, g := f.Info(), f.Graph()
	body := f.Decl.Body
	isErr := func(e ast.Expr) bool {
		o := core.ObjOf(info, e)
		return o != nil && core.IsErrorType(o.Type())
	}
	sentinel := func(names ...string) func(ast.Expr) bool {
		return func(e ast.Expr) bool {
			se, ok := ast.Unparen(e).(*ast.SelectorExpr)
			if !ok {
				return false
			}
			v, ok := info.Uses[se.Sel].(*types.Var)
			if !ok || v.Pkg() == nil || v.Pkg().Path() != "io" {
				return false
			}
			for _, n := range names {
				if v.Name() == n {
					return true
				}
			}
			return false
		}
	}
	eofFact := func(names ...string) core.X1FactPred {
		is := sentinel(names...)
		return core.X1AnyFact(core.X1CmpFact(isErr, is, core.X1EQ), func(ft core.X1Fact) bool {
			c, ok := ast.Unparen(ft.E).(*ast.CallExpr)
			return ok && ft.True && call("errors.Is")(info, c) && len(c.Args) == 2 && isErr(ast.Unparen(c.Args[0])) && is(c.Args[1])
		})
	}
	atEOF := core.X1FactEdge(core.M9ResolvedFact(info, body, eofFact("EOF")))
	endOfData := core.X1FactEdge(core.M9ResolvedFact(info, body, eofFact("EOF", "ErrUnexpectedEOF")))
	readFull := call("io.ReadFull", "io.ReadAtLeast", "io.Reader.Read", "compress/gzip.Reader.Read")
	// (r1) success before the first read only at EOF
	core.RuleMustPassN(r, f, g, rule, "io.ReadFull (unless gzip.NewReader reported io.EOF)", g.Calling(readFull), atEOF)
	// (r2) the stream loop
	var outer *ast.ForStmt
	var lit *ast.FuncLit
	ast.Inspect(body, func(n ast.Node) bool {
		switch t := n.(type) {
		case *ast.FuncLit:
			if lit == nil && len(core.AllCalls(info, t.Body, readFull)) > 0 {
				lit = t
			}
			return false
		case *ast.ForStmt:
			if outer == nil && len(core.AllCalls(info, t.Body, call("compress/gzip.Reader.Reset"))) > 0 {
				outer = t
			}
		}
		return true
	})
	if r.Check(outer != nil, rule, f.String(), "stream-loop:absent", f.Pos(), "a loop that advances to the next gzip stream (gzip.Reader.Reset) was found") {
		success := map[*core.Node]bool{}
		for _, x := range g.SuccessExits() {
			success[x] = true
		}
		esc, ok := g.IterEscapes12(outer, nil, atEOF)
		bad := ""
		for _, e := range esc {
			if e.Kind == "leave" || e.Kind == "return" && success[e.Via] {
				bad = g.Line(e.Via)
			}
		}
		r.Check(ok && bad == "", rule, f.String(), "stream-loop-left-early", firstNonEmpty12(bad, p.Pos(outer.Pos())),
			"the loop over the appended gzip streams is left only on a branch establishing err == io.EOF, or by a failing return (later deletes are separate streams; leaving early drops them on reopen)")
	}
	// (r3) the record loop ends successfully only at end of data
	if r.Check(lit != nil, rule, f.String(), "record-loop:absent", f.Pos(), "the in-place literal reading the records was found") {
		lg := f.LitGraph(lit)
		reach := lg.ReachFromEntry(nil, endOfData)
		bad := ""
		for _, x := range lg.Exits {
			if !reach[x] || x.Kind == core.KPanic {
				continue
			}
			rs, ok := x.N.(*ast.ReturnStmt)
			if !ok || len(rs.Results) == 1 && core.IsNilIdent(info, rs.Results[0]) {
				bad = lg.Line(x)
			}
		}
		r.Check(bad == "", rule, f.String(), "records-end-only-at-eof", firstNonEmpty12(bad, p.Pos(lit.Pos())),
			"the record loop returns nil only on a branch establishing that a read reported io.EOF or io.ErrUnexpectedEOF")
		// every decoded record is handed to the callback
		fn := types.Object(f.X1Param(1))
		cb := func(n *core.Node) bool {
			if n.N == nil {
				return false
			}
			hit := false
			ast.Inspect(n.N, func(x ast.Node) bool {
				if c, ok := x.(*ast.CallExpr); ok && fn != nil && core.ObjOf(info, c.Fun) == fn {
					hit = true
				}
				return true
			})
			return hit
		}
		var inner *ast.ForStmt
		ast.Inspect(lit.Body, func(n ast.Node) bool {
			if t, ok := n.(*ast.ForStmt); ok && inner == nil {
				inner = t
			}
			return true
		})
		if inner != nil {
			esc, ok := lg.IterEscapes12(inner, cb, nil)
			bad := ""
			for _, e := range esc {
				if e.Kind == "next" {
					bad = lg.Line(e.Via)
				}
			}
			r.Check(ok && bad == "", rule, f.String(), "record-not-delivered", firstNonEmpty12(bad, p.Pos(inner.Pos())), "an iteration of the record loop reaches the next record only after the callback received the decoded tombstone")
		}
	}
}

// ---------------------------------------------------------------- applyTombstones key bytes

func m9KeyCopied(p *core.Prog, r *core.Report) {
	const rule = "tombstone-key-copied"
	f := r.Need(p, tsm1, "TSMReader.applyTombstones")
	if f == nil {
		return
	}
	info, g := f.Info(), f.Graph()
	pk := f.Pkg.Types
	keyF := core.LookupField(pk, "Tombstone", "Key")
	walkM := call(tsm1 + ".Tombstoner.Walk")
	delM := call(tsm1+".TSMIndex.DeleteRange", tsm1+".indirectIndex.DeleteRange")
	var lit *ast.FuncLit
	for _, n := range g.Select(g.Calling(walkM)) {
		for _, c := range core.CallsIn(info, n.N, walkM, core.WalkOpts{}) {
			if len(c.Args) == 1 {
				lit, _ = ast.Unparen(c.Args[0]).(*ast.FuncLit)
			}
		}
	}
	var batch types.Object
	for _, c := range core.AllCalls(info, f.Decl.Body, delM) {
		if len(c.Args) == 3 {
			batch = core.ObjOf(info, c.Args[0])
		}
	}
	if lit == nil || batch == nil || keyF == nil {
		return // reported by tombstone-apply
	}
	lg := f.LitGraph(lit)
	var base func(e ast.Expr) ast.Expr
	base = func(e ast.Expr) ast.Expr {
		switch t := ast.Unparen(e).(type) {
		case *ast.IndexExpr:
			return base(t.X)
		case *ast.SliceExpr:
			return base(t.X)
		case *ast.StarExpr:
			return base(t.X)
		}
		return ast.Unparen(e)
	}
	isBatch := func(e ast.Expr) bool { return core.ObjOf(info, base(e)) == batch }
	// the Key bytes as a value: a Tombstone.Key selector that is not merely measured
	keyValue := func(e ast.Expr) bool {
		hit := false
		var walk func(n ast.Node)
		walk = func(n ast.Node) {
			ast.Inspect(n, func(x ast.Node) bool {
				switch t := x.(type) {
				case *ast.CallExpr:
					if core.Builtin("len")(info, t) || core.Builtin("cap")(info, t) {
						return false
					}
				case *ast.SelectorExpr:
					if core.FieldOf(info, t) == keyF {
						hit = true
					}
				}
				return true
			})
		}
		walk(e)
		return hit
	}
	transfer := func(n *core.Node) bool {
		switch s := n.N.(type) {
		case *ast.ExprStmt:
			c, ok := ast.Unparen(s.X).(*ast.CallExpr)
			return ok && core.Builtin("copy")(info, c) && len(c.Args) == 2 && isBatch(c.Args[0]) && keyValue(c.Args[1])
		case *ast.AssignStmt:
			for i, l := range s.Lhs {
				if !isBatch(l) {
					continue
				}
				if len(s.Lhs) == len(s.Rhs) && keyValue(s.Rhs[i]) {
					return true
				}
				// n := copy(batch[i], ts.Key) and the like
			}
			for _, rh := range s.Rhs {
				if c, ok := ast.Unparen(rh).(*ast.CallExpr); ok && core.Builtin("copy")(info, c) && len(c.Args) == 2 && isBatch(c.Args[0]) && keyValue(c.Args[1]) {
					return true
				}
			}
		}
		return false
	}
	if !r.Check(len(lg.Select(transfer)) >= 1, rule, f.String(), "key-transfer:absent", p.Pos(lit.Pos()), "the callback copies / appends / stores the walked tombstone's Key bytes into the batch") {
		return
	}
	reach := lg.ReachFromEntry(transfer, nil)
	bad := ""
	for _, x := range lg.Exits {
		if !reach[x] || x.Kind == core.KPanic {
			continue
		}
		rs, ok := x.N.(*ast.ReturnStmt)
		if !ok || len(rs.Results) == 0 || core.IsNilIdent(info, rs.Results[len(rs.Results)-1]) {
			bad = lg.Line(x)
		}
	}
	r.Check(bad == "", rule, f.String(), "key-bytes-reach-batch", firstNonEmpty12(bad, p.Pos(lit.Pos())),
		"every successful return of the Walk callback passes a statement that transfers the Key bytes of the walked tombstone into the batch (sizing the slot with len(ts.Key) alone leaves stale or zero bytes: the range would be re-applied to the wrong key after reopen)")
}

// ---------------------------------------------------------------- prepareV4 keeps the recorded set

// m9PrepareV4Copies: the temp file that will replace the tombstone file starts
// with the complete old file (io.Copy) or, when there is none, with the header.
func m9PrepareV4Copies(p *core.Prog, r *core.Report) {
	const rule = "tombstone-recorded"
	f := r.Need(p, tsm1, "Tombstoner.prepareV4")
	if f == nil {
		return
	}
	info, g := f.Info(), f.Graph()
	body := f.Decl.Body
	pending := core.LookupField(f.Pkg.Types, "Tombstoner", "pendingFile")
	notExist := func(val bool) core.EdgePred {
		return core.X1FactEdge(core.M9ResolvedFact(info, body, func(ft core.X1Fact) bool {
			c, ok := ast.Unparen(ft.E).(*ast.CallExpr)
			return ok && ft.True == val && call("os.IsNotExist")(info, c)
		}))
	}
	// the header probe `n, err := f.Read(b[:])` failing or short: nothing that could be copied is recognised
	var nObj, eObj types.Object
	for _, n := range g.Select(g.Calling(call("os.File.Read"))) {
		if as, ok := n.N.(*ast.AssignStmt); ok && len(as.Lhs) == 2 {
			nObj, eObj = core.ObjOf(info, as.Lhs[0]), core.ObjOf(info, as.Lhs[1])
		}
	}
	isN := func(e ast.Expr) bool { return nObj != nil && core.ObjOf(info, e) == nObj }
	isE := func(e ast.Expr) bool { return eObj != nil && core.ObjOf(info, e) == eObj }
	anyConst := func(e ast.Expr) bool { tv, ok := info.Types[e]; return ok && tv.Value != nil }
	_ = anyConst
	_ = notExist
	copyN := g.Calling(call("io.Copy"))
	put := call("encoding/binary.bigEndian.PutUint32", "encoding/binary.ByteOrder.PutUint32")
	var hdrBuf types.Object
	for _, c := range core.AllCalls(info, body, put) {
		if len(c.Args) == 2 {
			hdrBuf = m9ArrayBase(info, c.Args[0])
		}
	}
	hdrWrite := g.X1CallingWith(call("bufio.Writer.Write", "os.File.Write", "io.Writer.Write"), func(c *ast.CallExpr) bool {
		return len(c.Args) == 1 && hdrBuf != nil && m9ArrayBase(info, c.Args[0]) == hdrBuf
	})
	if !r.Check(len(g.Select(copyN)) >= 1 && len(g.Select(hdrWrite)) >= 1 && pending != nil, rule, f.String(), "copy/header:absent", f.Pos(), "copies the old file and writes a header") {
		return
	}
	_, _, _ = isN, isE, notExist
	// (a) a v4 tombstone file always starts with a header: every success exit passes the copy of the
	// old file (which carries its header) or the header write, unless a pending file is reused.
	// Boolean flags assigned constants are tracked, so `needHeader := false … needHeader = true … if needHeader`
	// and `if os.IsNotExist(err)` are judged alike. The case "a file exists but holds no complete header"
	// (zero length: Walk reads it as empty) must end in the header write like a missing file.
	pendingSet := g.NilEdge(func(e ast.Expr) bool { return core.FieldOf(info, e) == pending }, false)
	gate := func(n *core.Node) bool { return copyN(n) || hdrWrite(n) }
	success := map[*core.Node]bool{}
	for _, x := range g.SuccessExits() {
		success[x] = true
	}
	bad := ""
	for n := range g.FlagReachM2([]*core.Node{g.Entry}, gate, pendingSet) {
		if success[n] && !gate(n) && (bad == "" || g.Line(n) < bad) {
			bad = g.Line(n)
		}
	}
	r.Check(bad == "", rule, f.String(), "headerless-file", firstNonEmpty12(bad, f.Pos()),
		"every path on which prepareV4 reports success (nothing pending) passes io.Copy of the old file or the header write: the temp file that replaces the tombstone file never starts without a header (a headerless file is read back as v1 text) and never without the recorded tombstones")
	// (b) the header is written only under a guard (os.IsNotExist(err) true, or a boolean flag true),
	// and no such flag is set after the old file was copied (a second header in the middle of a
	// copied file would end the read there)
	guard := core.AtomEdge(func(x ast.Expr, val bool) bool {
		x = core.M9ResolveCond(info, body, x)
		if c, ok := ast.Unparen(x).(*ast.CallExpr); ok && call("os.IsNotExist")(info, c) {
			return val
		}
		if o, ok := core.ObjOf(info, ast.Unparen(x)).(*types.Var); ok && !o.IsField() && types.Identical(o.Type().Underlying(), types.Typ[types.Bool]) {
			return val
		}
		return false
	})
	for _, h := range g.Select(hdrWrite) {
		r.Check(g.OnlyVia(h, guard), rule, f.String(), "header-unguarded", g.Line(h), "the header is written only on a branch establishing that there is nothing to copy (no file, or no complete header in it)")
	}
	var after []*core.Node
	for _, c := range g.Select(copyN) {
		after = append(after, core.After(c, nil)...)
	}
	flagSet := ""
	for n := range g.Reach(after, nil, nil) {
		if as, ok := n.N.(*ast.AssignStmt); ok && len(as.Lhs) == 1 && len(as.Rhs) == 1 {
			if o, ok := core.ObjOf(info, as.Lhs[0]).(*types.Var); ok && !o.IsField() && types.Identical(o.Type().Underlying(), types.Typ[types.Bool]) {
				if tv, has := info.Types[as.Rhs[0]]; has && tv.Value != nil && tv.Value.ExactString() == "true" {
					flagSet = g.Line(n)
				}
			}
		}
	}
	r.Check(flagSet == "", rule, f.String(), "header-after-copy", firstNonEmpty12(flagSet, f.Pos()), "no header flag is raised after the old file was copied")
}

// ---------------------------------------------------------------- readTombstoneV3 / FileStore.DeleteRange

func m9ReadV3Complete(p *core.Prog, r *core.Report) {
	const rule = "tombstone-read-complete"
	f := r.Need(p, tsm1, "Tombstoner.readTombstoneV3")
	if f == nil {
		return
	}
	info, g := f.Info(), f.Graph()
	body := f.Decl.Body
	isErr := func(e ast.Expr) bool {
		o := core.ObjOf(info, e)
		return o != nil && core.IsErrorType(o.Type())
	}
	isEnd := func(e ast.Expr) bool {
		se, ok := ast.Unparen(e).(*ast.SelectorExpr)
		if !ok {
			return false
		}
		v, ok := info.Uses[se.Sel].(*types.Var)
		return ok && v.Pkg() != nil && v.Pkg().Path() == "io" && (v.Name() == "EOF" || v.Name() == "ErrUnexpectedEOF")
	}
	endOfData := core.X1FactEdge(core.M9ResolvedFact(info, body, core.X1AnyFact(core.X1CmpFact(isErr, isEnd, core.X1EQ), func(ft core.X1Fact) bool {
		c, ok := ast.Unparen(ft.E).(*ast.CallExpr)
		return ok && ft.True && call("errors.Is")(info, c) && len(c.Args) == 2 && isErr(ast.Unparen(c.Args[0])) && isEnd(c.Args[1])
	})))
	readFull := call("io.ReadFull", "io.ReadAtLeast")
	var loop *ast.ForStmt
	ast.Inspect(body, func(n ast.Node) bool {
		if t, ok := n.(*ast.ForStmt); ok && loop == nil && len(core.AllCalls(info, t.Body, readFull)) > 0 {
			loop = t
		}
		return true
	})
	if !r.Check(loop != nil, rule, f.String(), "record-loop:absent", f.Pos(), "the loop reading the records was found") {
		return
	}
	success := map[*core.Node]bool{}
	for _, x := range g.SuccessExits() {
		success[x] = true
	}
	esc, ok := g.IterEscapes12(loop, nil, endOfData)
	bad := ""
	for _, e := range esc {
		if e.Kind == "leave" || e.Kind == "return" && success[e.Via] {
			bad = g.Line(e.Via)
		}
	}
	r.Check(ok && bad == "", rule, f.String(), "records-end-only-at-eof", firstNonEmpty12(bad, p.Pos(loop.Pos())),
		"the record loop is left only on a branch establishing that a read reported io.EOF or io.ErrUnexpectedEOF, or by a failing return")
	// the key handed to the callback: allocated, then filled
	fn := types.Object(f.X1Param(1))
	cb := func(n *core.Node) bool {
		hit := false
		if n.N != nil {
			ast.Inspect(n.N, func(x ast.Node) bool {
				if c, ok := x.(*ast.CallExpr); ok && fn != nil && core.ObjOf(info, c.Fun) == fn {
					hit = true
				}
				return true
			})
		}
		return hit
	}
	for _, n := range g.Nodes {
		as, isAs := n.N.(*ast.AssignStmt)
		if !isAs || len(as.Lhs) != 1 || len(as.Rhs) != 1 || !core.InRegion(n, loop.Body) {
			continue
		}
		mk, isCall := ast.Unparen(as.Rhs[0]).(*ast.CallExpr)
		v := core.ObjOf(info, as.Lhs[0])
		if !isCall || !core.Builtin("make")(info, mk) || v == nil {
			continue
		}
		// only buffers that travel to the callback
		used := false
		for _, c := range g.Select(cb) {
			if core.Mentions(info, c.N, v) {
				used = true
			}
		}
		if !used {
			continue
		}
		fill := g.X1CallingWith(core.Or(core.Builtin("copy"), readFull), func(c *ast.CallExpr) bool {
			return len(c.Args) >= 2 && (core.X1RootObj(info, c.Args[0]) == v || core.X1RootObj(info, c.Args[1]) == v && !core.Builtin("copy")(info, c))
		})
		stale := g.Reach(core.X1Succs(n), fill, nil)
		bad := ""
		for _, c := range g.Select(cb) {
			if stale[c] && core.Mentions(info, c.N, v) {
				bad = g.Line(c)
			}
		}
		r.Check(bad == "", rule, f.String(), "key-buffer-filled:"+v.Name(), firstNonEmpty12(bad, g.Line(n)),
			"a buffer allocated per record and handed to the callback is filled (copy / io.ReadFull into it) on every path between the allocation and the callback")
	}
}

func m9FileStoreDeletes(p *core.Prog, r *core.Report) {
	const rule = "tombstone-recorded"
	f := r.Need(p, tsm1, "FileStore.DeleteRange")
	if f == nil {
		return
	}
	info, g := f.Info(), f.Graph()
	cm := call(tsm1 + ".BatchDeleters.Commit")
	var batches types.Object
	for _, c := range core.AllCalls(info, f.Decl.Body, cm) {
		batches = core.X1RootObj(info, x1RecvExpr(c))
	}
	if batches == nil {
		return // reported by tombstone-commit
	}
	core.RuleMustPassN(r, f, g, rule, "BatchDeleters.Commit (unless no file overlaps the range)", g.Calling(cm), core.M9EmptyEdge(info, f.Decl.Body, core.IsObj(info, batches), true))
}

// m9V3Publishes: writeTombstoneV3 hands its temp file to commit through the
// pending state; commit returns nil without renaming anything when
// t.pendingFile is nil, so a missing store turns the rewrite into a silent no-op.
func m9V3Publishes(p *core.Prog, r *core.Report) {
	const rule = "tombstone-commit"
	f := r.Need(p, tsm1, "Tombstoner.writeTombstoneV3")
	if f == nil {
		return
	}
	g := f.Graph()
	commit := g.Calling(call(tsm1 + ".Tombstoner.commit"))
	pre := g.ReachFromEntry(nil, nil)
	_ = pre
	for _, name := range []string{"pendingFile", "gz", "bw"} {
		fv := core.LookupField(f.Pkg.Types, "Tombstoner", name)
		if fv == nil {
			continue
		}
		store := g.Assigning(fv)
		if len(g.Select(store)) == 0 {
			r.Bad(rule, f.String(), "publishes-"+name+":absent", f.Pos(), "t."+name+" is never stored: commit would work on no (or a stale) pending state")
			continue
		}
		unpublished := g.ReachFromEntry(store, nil)
		bad := ""
		for _, c := range g.Select(commit) {
			if unpublished[c] {
				bad = g.Line(c)
			}
		}
		r.Check(len(g.Select(commit)) >= 1 && bad == "", rule, f.String(), "publishes-"+name, firstNonEmpty12(bad, f.Pos()), "every path to Tombstoner.commit passes the store of t."+name+" (the temp file written here is what commit syncs and renames)")
	}
}
