package rules

import (
	"fmt"
	"go/ast"
	"go/constant"
	"go/types"

	"verif/checker/core"
)

// C15 extensions (m11), driven by the surviving faults of the generic enumeration.
//
// The operator tables start where a comparison has already been recognised as
// `tag OP literal`. What decides that — and therefore whether the index selects
// by the tag at all or hands every series of the measurement to the query
// engine — is the chain of tests in front of the literal-type switch of
// seriesByBinaryExprIterator. The value loops of the regex helpers and the
// `_name` pseudo tag under a regex were the other open ends.

func init() {
	extend("C15", "(9) tag-recognition table — seriesByBinaryExprIterator, evaluated per valuation of (LHS/RHS is a nested expression, key is a VarRef, key.Val is _name, key.Type, HasField(key), value is a VarRef, value.Val, value.Type, HasField(value)): a tag key (Type Tag, or Unknown and not a field, or _name) compared with a literal or with another tag reaches the literal-type switch without the newSeriesIDExprIterator fallback; a field key, a field value or a nested expression takes the fallback and never the switch; "+
		"(10) regex-name-table — seriesByBinaryExprRegexIterator on the _name pseudo tag: =~ with a match and !~ without one return the measurement's series, the other two rows return nothing; "+
		"(11) value-enumeration — in the four regex helpers the loop over the tag values is left only at the end of the iterator or on an error, the value is read only after the end test, the per-value series iterator is appended exactly when it is non-nil, and possibly-nil iterators are dereferenced only behind their nil guard; "+
		"(12) comma-ok — the key asserted from one side of the comparison is read only where its assertion succeeded.",
		nil, func(p *core.Prog, r *core.Report, tier string) {
			pk := p.Pkg(influxqlPkg10)
			if pk == nil || pk.Types == nil || p.Pkg(tsdbP) == nil {
				return
			}
			c := &c15ctx{p: p, r: r, iq: pk.Types}
			c.tagRecognitionM11()
			c.regexNameTableM11()
			c.valueEnumerationM11()
		})
}

// throughTempsM11 lets a leaf see through boolean temporaries with a single
// definition and through single-expression predicates (helper extraction).
func throughTempsM11(p *core.Prog, info *types.Info, body ast.Node, mk func(core.EnvHD2) core.LeafEval) core.Leaf10 {
	base := p.LeafThroughPredicatesHD2(core.BaseEnvHD2(info, body), mk)
	var leaf func(e ast.Expr, depth int) (bool, bool)
	leaf = func(e ast.Expr, depth int) (bool, bool) {
		if v, k := base(e); k {
			return v, true
		}
		if depth <= 0 {
			return false, false
		}
		if o, ok := core.ObjOf(info, e).(*types.Var); ok && isBool8(o.Type()) {
			if d, single := core.SingleDef(info, body, o); single && d.Rhs != nil && d.Index == -1 {
				return core.EvalCond(d.Rhs, func(x ast.Expr) (bool, bool) { return leaf(x, depth-1) })
			}
		}
		return false, false
	}
	return func(e ast.Expr) (bool, bool) { return leaf(e, 2) }
}

// ---------------------------------------------------------------- (9) is this a comparison on a tag?

func (c *c15ctx) tagRecognitionM11() {
	const rule = "tag-recognition"
	r, p := c.r, c.p
	f := r.Need(p, tsdbP, "IndexSet.seriesByBinaryExprIterator")
	if f == nil {
		return
	}
	info, g, body := f.Info(), f.Graph(), f.Decl.Body
	nP := f.Param(1)
	lhsF := core.LookupField(c.iq, "BinaryExpr", "LHS")
	rhsF := core.LookupField(c.iq, "BinaryExpr", "RHS")
	valF := core.LookupField(c.iq, "VarRef", "Val")
	typF := core.LookupField(c.iq, "VarRef", "Type")
	if !r.Check(nP != nil && lhsF != nil && rhsF != nil && valF != nil && typF != nil, "anchor", "influxql.BinaryExpr/VarRef fields", "unresolved", f.Pos(), "fields resolved") {
		return
	}
	// the literal-type switch
	var sw *core.TypeSwitch10
	for _, s := range core.TypeSwitches10(info, body) {
		for _, a := range s.Arms {
			for _, t := range a.Types {
				if core.NamedName10(t) == "influxql.StringLiteral" {
					sw = s
				}
			}
		}
	}
	if !r.Check(sw != nil, rule, f.String(), "value-switch:absent", f.Pos(), "type switch over the literal kind of the compared value") {
		return
	}
	at := g.NodeOf(sw.Stmt.Assign)
	valueVar := core.ObjOf(info, sw.Operand)
	// comma-ok assertions, classified by what is asserted from where
	sideOf := func(e ast.Expr) *types.Var {
		se, ok := ast.Unparen(e).(*ast.SelectorExpr)
		if !ok || core.ObjOf(info, se.X) != nP {
			return nil
		}
		return core.FieldOf(info, se)
	}
	var okLB, okRB, okKey, okVR, keyVar, valRef types.Object
	ast.Inspect(body, func(n ast.Node) bool {
		as, ok := n.(*ast.AssignStmt)
		if !ok || len(as.Lhs) != 2 || len(as.Rhs) != 1 {
			return true
		}
		ta, ok := ast.Unparen(as.Rhs[0]).(*ast.TypeAssertExpr)
		if !ok || ta.Type == nil {
			return true
		}
		tn := ""
		if pt, ok := info.TypeOf(ta.Type).(*types.Pointer); ok {
			tn = core.NamedName10(pt)
		}
		v, okv := core.ObjOf(info, as.Lhs[0]), core.ObjOf(info, as.Lhs[1])
		switch {
		case tn == "influxql.BinaryExpr" && sideOf(ta.X) == lhsF:
			okLB = okv
		case tn == "influxql.BinaryExpr" && sideOf(ta.X) == rhsF:
			okRB = okv
		case tn == "influxql.VarRef" && sideOf(ta.X) == lhsF:
			keyVar, okKey = v, okv
		case tn == "influxql.VarRef" && valueVar != nil && core.ObjOf(info, ta.X) == valueVar:
			valRef, okVR = v, okv
		}
		return true
	})
	if !r.Check(at != nil && okLB != nil && okRB != nil && okKey != nil && keyVar != nil && okVR != nil && valRef != nil, rule, f.String(), "shape:unresolved", f.Pos(),
		"the tests `n.LHS/n.RHS is a *BinaryExpr`, `key is a *VarRef of n.LHS`, `value is a *VarRef` are found") {
		return
	}
	tok := c.tok
	type val struct {
		lb, rb    bool
		keyName   bool
		keyType   string
		keyField  bool
		valIsRef  bool
		valName   bool
		valType   string
		valField  bool
		wantIndex bool
		label     string
	}
	mkLeaf := func(v val) core.Leaf10 {
		return throughTempsM11(p, info, body, func(env core.EnvHD2) core.LeafEval {
			objIs := func(o types.Object, b bool) core.Leaf10 {
				return func(e ast.Expr) (bool, bool) {
					if o != nil && env.Obj(ast.Unparen(e)) == o {
						if _, isId := ast.Unparen(e).(*ast.Ident); isId {
							return b, true
						}
					}
					return false, false
				}
			}
			fieldOf := func(fld *types.Var, owner types.Object) func(ast.Expr) bool {
				return func(e ast.Expr) bool {
					se, ok := ast.Unparen(e).(*ast.SelectorExpr)
					return ok && core.FieldOf(env.Info, se) == fld && owner != nil && env.Obj(se.X) == owner
				}
			}
			name := func(b bool) constant.Value {
				if b {
					return constant.MakeString("_name")
				}
				return constant.MakeString("\x00some tag")
			}
			hasField := func(owner types.Object, b bool) core.Leaf10 {
				return func(e ast.Expr) (bool, bool) {
					cl, ok := ast.Unparen(e).(*ast.CallExpr)
					if !ok || core.FName(core.Callee(env.Info, cl)) != "tsdb.IndexSet.HasField" || len(cl.Args) != 2 {
						return false, false
					}
					if fieldOf(valF, owner)(cl.Args[1]) {
						return b, true
					}
					return false, false
				}
			}
			return core.LeafEval(core.Leaves10(
				objIs(okLB, v.lb), objIs(okRB, v.rb), objIs(okKey, true), objIs(okVR, v.valIsRef),
				core.ConstEqLeaf10(env.Info, fieldOf(valF, keyVar), name(v.keyName)),
				core.ConstEqLeaf10(env.Info, fieldOf(typF, keyVar), tok(v.keyType)),
				hasField(keyVar, v.keyField),
				core.ConstEqLeaf10(env.Info, fieldOf(valF, valRef), name(v.valName)),
				core.ConstEqLeaf10(env.Info, fieldOf(typF, valRef), tok(v.valType)),
				hasField(valRef, v.valField),
			))
		})
	}
	rows := []val{
		{label: "tag(Type=Tag) OP literal", keyType: "Tag", wantIndex: true},
		{label: "tag(Type=Unknown, not a field) OP literal", keyType: "Unknown", wantIndex: true},
		{label: "field(Type=Unknown, HasField) OP literal", keyType: "Unknown", keyField: true, wantIndex: false},
		{label: "field(Type=AnyField) OP literal", keyType: "AnyField", wantIndex: false},
		{label: "field(Type=Float) OP literal", keyType: "Float", wantIndex: false},
		{label: "_name(Type=Unknown, HasField) OP literal", keyName: true, keyType: "Unknown", keyField: true, wantIndex: true},
		{label: "_name(Type=Float) OP literal", keyName: true, keyType: "Float", wantIndex: true},
		{label: "(a OP b) OP x", lb: true, keyType: "Tag", wantIndex: false},
		{label: "x OP (a OP b)", rb: true, keyType: "Tag", wantIndex: false},
		{label: "tag OP tag(Type=Tag)", keyType: "Tag", valIsRef: true, valType: "Tag", wantIndex: true},
		{label: "tag OP tag(Type=Unknown, not a field)", keyType: "Tag", valIsRef: true, valType: "Unknown", wantIndex: true},
		{label: "tag OP field(Type=Unknown, HasField)", keyType: "Tag", valIsRef: true, valType: "Unknown", valField: true, wantIndex: false},
		{label: "tag OP field(Type=Float)", keyType: "Tag", valIsRef: true, valType: "Float", wantIndex: false},
		{label: "tag OP _name(Type=Float)", keyType: "Tag", valIsRef: true, valName: true, valType: "Float", wantIndex: true},
	}
	fallback := call("tsdb.newSeriesIDExprIterator")
	for _, row := range rows {
		if !r.Check(tok(row.keyType) != nil && (row.valType == "" || tok(row.valType) != nil), "anchor", "influxql."+row.keyType, "unresolved", "-", "data type constant resolved") {
			continue
		}
		if row.valType == "" {
			row.valType = "Tag"
		}
		reach := g.ReachUnder10([]*core.Node{g.Entry}, func(n *core.Node) bool { return n == at }, mkLeaf(row))
		_, fb := g.CallsReached10(reach, fallback)
		atSwitch := reach[at]
		var good bool
		if row.wantIndex {
			good = atSwitch && len(fb) == 0
		} else {
			good = !atSwitch && len(fb) >= 1
		}
		want := "selected on the index (literal-type switch, no fallback)"
		if !row.wantIndex {
			want = "handed to the query engine (fallback, never the switch)"
		}
		r.Check(good, rule, f.String(), "row:"+row.label, f.Pos(),
			fmt.Sprintf("%s is %s — reaches the switch: %v, fallback calls reachable before it: %d", row.label, want, atSwitch, len(fb)))
	}
	n := core.RuleCommaOkM11(r, f, "comma-ok")
	r.Check(n >= 3, "comma-ok", f.String(), "sites:count", f.Pos(), fmt.Sprintf("%d comma-ok forms examined (>= 3; 5 today)", n))
}

// ---------------------------------------------------------------- (10) regex on _name

func (c *c15ctx) regexNameTableM11() {
	const rule = "regex-name-table"
	r, p := c.r, c.p
	f := r.Need(p, tsdbP, "IndexSet.seriesByBinaryExprRegexIterator")
	if f == nil {
		return
	}
	info, g, body := f.Info(), f.Graph(), f.Decl.Body
	nameP, keyP, valP, opP := f.Param(0), f.Param(1), f.Param(2), f.Param(3)
	isName := core.CallLeaf10(info, call("bytes.Equal"), func(cl *ast.CallExpr) bool { return core.Mentions(info, cl, keyP) }, true)
	// does the regex match the measurement name?  value.Match(name) / MatchString(string(name)), directly or through a temporary
	matchCall := func(cl *ast.CallExpr) bool {
		n := core.FName(core.Callee(info, cl))
		return (n == "regexp.Regexp.Match" || n == "regexp.Regexp.MatchString") && core.ObjOf(info, core.Recv(cl)) == valP && len(cl.Args) == 1 && core.Mentions(info, cl.Args[0], nameP)
	}
	for _, row := range []struct {
		op    string
		match bool
		want  bool
	}{{"EQREGEX", true, true}, {"EQREGEX", false, false}, {"NEQREGEX", true, false}, {"NEQREGEX", false, true}} {
		atoms := core.Leaves10(isName, core.ConstEqLeaf10(info, isParam10(info, opP), c.tok(row.op)), callOrVarLeafM11(info, body, matchCall, row.match))
		leaf := throughTempsM11(p, info, body, func(core.EnvHD2) core.LeafEval { return core.LeafEval(atoms) }) // `selected := …; if !selected`
		reach := g.ReachUnder10([]*core.Node{g.Entry}, nil, leaf)
		names, calls := g.CallsReached10(reach, call(c15Meas, c15Match))
		okCalls := (row.want && sameSet10(names, []string{c15Meas})) || (!row.want && len(names) == 0)
		for _, cl := range calls {
			okCalls = okCalls && len(cl.Args) == 1 && core.ObjOf(info, cl.Args[0]) == nameP
		}
		rets := successReturns10(g, reach)
		okRet := len(rets) >= 1
		for _, rs := range rets {
			if len(rs.Results) == 0 {
				okRet = false
				continue
			}
			if row.want {
				okRet = okRet && !core.IsNilIdent(info, rs.Results[0])
			} else {
				okRet = okRet && core.IsNilIdent(info, rs.Results[0])
			}
		}
		label := fmt.Sprintf("_name %s, regex matches the name=%v", row.op, row.match)
		r.Check(okCalls && okRet, rule, f.String(), "row:"+label, f.Pos(),
			fmt.Sprintf("%s selects the measurement's series: want %v (set constructions reached: %s)", label, row.want, setStr10(names)))
	}
}

// ---------------------------------------------------------------- (11) the value loops of the regex helpers

func (c *c15ctx) valueEnumerationM11() {
	const rule = "value-enumeration"
	r, p := c.r, c.p
	loops, nilSites, appends := 0, 0, 0
	for _, fn := range []string{
		"IndexSet.matchTagValueEqualEmptySeriesIDIterator", "IndexSet.matchTagValueEqualNotEmptySeriesIDIterator",
		"IndexSet.matchTagValueNotEqualEmptySeriesIDIterator", "IndexSet.matchTagValueNotEqualNotEmptySeriesIDIterator",
	} {
		f := r.Need(p, tsdbP, fn)
		if f == nil {
			continue
		}
		info := f.Info()
		for _, g := range f.Graphs() {
			loops += core.RuleIterProtocolM11(r, f, g, g.Body, rule, f.String(), nil, nil)
			// the per-value series iterator is collected exactly when it is non-nil
			for _, n := range g.Nodes {
				as, ok := n.N.(*ast.AssignStmt)
				if !ok || len(as.Rhs) != 1 || len(as.Lhs) != 2 || core.AsCall(info, as.Rhs[0], call(c15Val)) == nil {
					continue
				}
				itr := core.ObjOf(info, as.Lhs[0])
				if itr == nil {
					continue
				}
				isApp := func(m *core.Node) bool {
					if m.N == nil {
						return false
					}
					for _, ap := range core.CallsIn(info, m.N, core.Builtin("append"), core.WalkOpts{}) {
						if len(ap.Args) == 2 && core.ObjOf(info, ap.Args[1]) == itr {
							return true
						}
					}
					return false
				}
				nonNil := func(v bool) core.Leaf10 {
					return func(e ast.Expr) (bool, bool) {
						x, nonNilOnTrue, ok := core.NilTest(info, e)
						if ok && core.ObjOf(info, x) == itr {
							return nonNilOnTrue == v, true
						}
						if ok && core.IsErrorType(info.TypeOf(x)) {
							return !nonNilOnTrue, true // no error
						}
						return false, false
					}
				}
				stop := func(m *core.Node) bool { return m == n }
				has := func(reach map[*core.Node]bool) bool {
					for m := range reach {
						if isApp(m) {
							return true
						}
					}
					return false
				}
				appends++
				with := has(g.ReachUnder10(core.After(n, nil), stop, nonNil(true)))
				without := has(g.ReachUnder10(core.After(n, nil), stop, nonNil(false)))
				r.Check(with && !without, rule, f.String(), "collect-iff-non-nil", g.Line(n),
					fmt.Sprintf("the series iterator of a selected value is appended when it is non-nil (%v) and not when it is nil (%v)", with, without))
			}
		}
		bad, n := core.NilResultUsesM11(p, f)
		nilSites += n
		for _, b := range bad {
			r.Bad(rule, f.String(), "unguarded-use:"+b.Callee, b.G.Line(b.Use), "the result of "+b.Callee+" may be nil and is dereferenced on a path where `!= nil` was not established")
		}
	}
	r.Check(loops >= 4 && nilSites >= 4 && appends >= 4, rule, tsdbP, "sites:count", "-", fmt.Sprintf("%d value loops, %d possibly-nil iterators, %d collection sites examined (>= 4 each)", loops, nilSites, appends))
}
