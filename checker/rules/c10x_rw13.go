package rules

import (
	"fmt"
	"go/ast"
	"go/types"

	"verif/checker/core"
)

// C10 extension (rw13): chain of custody of a newly created field.
//
// CreateFieldIfNotExists inserts the field into the in-memory MeasurementFields
// at once and reports created=true exactly once, to the caller that inserted it.
// Every later writer of that field sees created=false and logs nothing, so the
// ONE caller that saw created=true is the only chance the field ever has of
// reaching fields.idxl. "The recorded type survives a restart" therefore needs,
// on every path (including the paths that reject the point):
//
//	created edge ─► queued in ValidateAndCreateFields ─► returned by every exit
//	 ─► appended to the shard's save list on every way out of the iteration
//	 ─► returned by validateSeriesAndFields ─► saveFieldsAndMeasurements ─► one
//	 AddMeasurementField change per element ─► MeasurementFieldSet.Save
//
// The last hop (Save → fields.idxl) is decided by change-log-io.

func init() {
	extend("C10", "(9) created-field-persisted: in ValidateAndCreateFields the created edge of CreateFieldIfNotExists always queues a FieldCreate carrying the returned field and every exit (rejecting ones included) returns that queue; "+
		"in Shard.validateSeriesAndFields every way of finishing a point's iteration after ValidateAndCreateFields (continue on a dropped point included) appends the returned fields to the list that every later exit returns; "+
		"Shard.WritePoints hands that list to saveFieldsAndMeasurements on every success path and before the engine write; saveFieldsAndMeasurements turns every element into an AddMeasurementField change of the slice given to MeasurementFieldSet.Save.",
		nil, func(p *core.Prog, r *core.Report, tier string) { rw13CreatedPersisted(p, r) })
}

// rw13AppendsFrom: node n is `acc = append(acc, …)` (acc any local) whose appended
// arguments mention obj; returns the accumulator.
func rw13AppendsFrom(info *types.Info, n *core.Node, acc types.Object, obj types.Object) (types.Object, bool) {
	if n.N == nil || obj == nil {
		return nil, false
	}
	as, ok := n.N.(*ast.AssignStmt)
	if !ok || len(as.Lhs) != 1 {
		return nil, false
	}
	o := core.ObjOf(info, as.Lhs[0])
	if o == nil || (acc != nil && o != acc) {
		return nil, false
	}
	args := rw3AppendTo(info, n.N, func(e ast.Expr) bool { return core.ObjOf(info, e) == o })
	for _, a := range args {
		if core.MentionsObj(info, a, obj) {
			return o, true
		}
	}
	return nil, false
}

// rw13OnlyAppended: every definition of acc is `acc = append(acc, …)`, a nil /
// empty initialisation, or a make(); i.e. nothing collected is ever dropped.
func rw13OnlyAppended(info *types.Info, body ast.Node, acc types.Object) bool {
	for _, d := range rw3Defs(info, body, acc) {
		if d.Range || d.IncDec || d.Rhs == nil {
			return false
		}
		rhs := ast.Unparen(d.Rhs)
		if core.IsNilIdent(info, rhs) {
			continue
		}
		if cl, ok := rhs.(*ast.CompositeLit); ok && len(cl.Elts) == 0 {
			continue
		}
		c, ok := rhs.(*ast.CallExpr)
		if !ok {
			return false
		}
		if core.Builtin("make")(info, c) {
			continue
		}
		if core.Builtin("append")(info, c) && len(c.Args) >= 1 && core.ObjOf(info, c.Args[0]) == acc {
			continue
		}
		return false
	}
	return true
}

func rw13CreatedPersisted(p *core.Prog, r *core.Report) {
	const rule = "created-field-persisted"
	pk := p.Pkg(tsdbP)
	if pk == nil {
		return
	}
	fcFieldF := core.LookupField(pk.Types, "FieldCreate", "Field")
	chCreateF := core.LookupField(pk.Types, "FieldChange", "FieldCreate")
	chTypeF := core.LookupField(pk.Types, "FieldChange", "ChangeType")
	addC := rw3PkgConst(p, tsdbP, "AddMeasurementField")
	if !r.Check(fcFieldF != nil && chCreateF != nil && chTypeF != nil && addC != nil, "anchor", "tsdb.FieldCreate.Field / FieldChange / AddMeasurementField", "unresolved", "-", "anchors resolved") {
		return
	}
	createM := call("tsdb.MeasurementFields.CreateFieldIfNotExists")
	validateM := call("tsdb.ValidateAndCreateFields")
	vsfM := call("tsdb.Shard.validateSeriesAndFields")
	saveFM := call("tsdb.Shard.saveFieldsAndMeasurements")
	engineWrite := call("tsdb.Engine.WritePoints")
	fsSave := call("tsdb.MeasurementFieldSet.Save")

	// ---- (A) ValidateAndCreateFields
	if f := r.Need(p, tsdbP, "ValidateAndCreateFields"); f != nil {
		info, g, name := f.Info(), f.Graph(), f.String()
		var loop *rw3Loop
		for _, s := range rw3TopLoops(f.Decl.Body) {
			if fs, ok := s.(*ast.ForStmt); ok && fs.Cond != nil && len(core.AllCalls(info, fs.Cond, call("models.FieldIterator.Next"))) > 0 {
				loop = rw3FindLoop(g, fs)
			}
		}
		cns := g.Select(g.Calling(createM))
		if r.Check(loop != nil && len(cns) >= 1, rule, name, "field-loop/CreateFieldIfNotExists:absent", f.Pos(), "field loop with CreateFieldIfNotExists found") {
			var queue types.Object
			for _, cn := range cns {
				as, ok := cn.N.(*ast.AssignStmt)
				if !ok || len(as.Lhs) != 3 || len(as.Rhs) != 1 {
					r.Bad(rule, name, "create-results", g.Line(cn), "the three results of CreateFieldIfNotExists are not kept")
					continue
				}
				fld, created, errObj := core.ObjOf(info, as.Lhs[0]), core.ObjOf(info, as.Lhs[1]), core.ObjOf(info, as.Lhs[2])
				if !r.Check(fld != nil && created != nil && errObj != nil, rule, name, "create-results", g.Line(cn), "field, created and err of CreateFieldIfNotExists are kept in variables") {
					continue
				}
				// the queueing statement: append(queue, &FieldCreate{…, fld})
				isQueue := func(n *core.Node) bool {
					if n.N == nil {
						return false
					}
					as, ok := n.N.(*ast.AssignStmt)
					if !ok || len(as.Lhs) != 1 {
						return false
					}
					o := core.ObjOf(info, as.Lhs[0])
					if o == nil || (queue != nil && o != queue) {
						return false
					}
					for _, a := range rw3AppendTo(info, n.N, func(e ast.Expr) bool { return core.ObjOf(info, e) == o }) {
						cl := rw3Lit(a)
						if cl == nil || !rw3IsNamed(info.TypeOf(cl), tsdbP, "FieldCreate") {
							continue
						}
						v := rw3LitField(info, cl, fcFieldF)
						if v == nil && len(cl.Elts) == 2 {
							if _, keyed := cl.Elts[1].(*ast.KeyValueExpr); !keyed {
								v = cl.Elts[1]
							}
						}
						if v != nil && core.ObjOf(info, v) == fld {
							return true
						}
					}
					return false
				}
				for _, n := range g.Nodes {
					if loop.In(n) && isQueue(n) {
						queue = core.ObjOf(info, n.N.(*ast.AssignStmt).Lhs[0])
						break
					}
				}
				if !r.Check(queue != nil, rule, name, "queue:absent", g.Line(cn), "a FieldCreate carrying the field returned by CreateFieldIfNotExists is queued") {
					continue
				}
				// only `created == false` or a failed call may bypass the queue
				notCreated := func(e *core.Edge) bool {
					if rw3BoolEdge(info, e, created, false) || rw3NilSide(info, e, errObj, false) {
						return true
					}
					return rw3EdgeImplies(e, func(c ast.Expr, val bool) bool { // errors.Is(err, …) / errors.As
						cx, ok := c.(*ast.CallExpr)
						return ok && val && call("errors.Is", "errors.As")(info, cx) && len(cx.Args) >= 1 && core.ObjOf(info, cx.Args[0]) == errObj
					})
				}
				esc := loop.EscapesFrom(g, core.After(cn, nil), isQueue, notCreated)
				if len(esc) == 0 {
					r.Ok(rule, name+":created-queued", g.Line(cn), "every way of finishing the iteration after CreateFieldIfNotExists queues the field, except on created == false / err != nil edges")
				} else {
					r.Bad(rule, name, "created-not-queued", g.Line(cn), "a field reported as created (it is already in the in-memory schema, later writers get created=false) can finish its iteration without being queued for fields.idxl")
				}
			}
			if queue != nil {
				r.Check(rw13OnlyAppended(info, f.Decl.Body, queue), rule, name, "queue-overwritten", f.Pos(), "the queue of created fields is only appended to")
				n := 0
				for _, x := range g.Exits {
					rs, ok := x.N.(*ast.ReturnStmt)
					if !ok {
						continue
					}
					n++
					r.Check(len(rs.Results) == 2 && core.ObjOf(info, rs.Results[0]) == queue, rule, name, "exit-drops-created", g.Line(x),
						"every exit, the rejecting ones included, hands back the fields created so far (they are already in memory; dropping them here loses their only chance of being logged)")
				}
				r.Check(n >= 4, rule, name, "exits:count", f.Pos(), fmt.Sprintf("%d return(s) examined (4 confirmed by reading)", n))
			}
		}
	}

	// ---- (B) Shard.validateSeriesAndFields
	if f := r.Need(p, tsdbP, "Shard.validateSeriesAndFields"); f != nil {
		info, g, name := f.Info(), f.Graph(), f.String()
		vns := g.Select(g.Calling(validateM))
		if r.Check(len(vns) >= 1, rule, name, "ValidateAndCreateFields:absent", f.Pos(), "the validator is called") {
			var acc types.Object
			for _, vn := range vns {
				as, ok := vn.N.(*ast.AssignStmt)
				var nf types.Object
				if ok && len(as.Lhs) == 2 && len(as.Rhs) == 1 {
					nf = core.ObjOf(info, as.Lhs[0])
				}
				if !r.Check(nf != nil, rule, name, "created-result-dropped", g.Line(vn), "the created-fields result of ValidateAndCreateFields is kept in a variable") {
					continue
				}
				r.Check(len(rw3Defs(info, f.Decl.Body, nf)) == 1, rule, name, "created-result-reassigned", g.Line(vn), "that variable is assigned only by the validator call")
				var loop *rw3Loop
				for _, s := range rw3TopLoops(f.Decl.Body) {
					if l := rw3FindLoop(g, s); l != nil && l.In(vn) {
						if loop == nil || (l.Body.Pos() >= loop.Body.Pos() && l.Body.End() <= loop.Body.End()) {
							loop = l // innermost
						}
					}
				}
				if !r.Check(loop != nil, rule, name, "point-loop:absent", g.Line(vn), "the validator is called inside the loop over the points") {
					continue
				}
				isKeep := func(n *core.Node) bool {
					o, ok := rw13AppendsFrom(info, n, acc, nf)
					if ok && acc == nil {
						acc = o
					}
					return ok
				}
				for _, n := range g.Nodes { // fix the accumulator first
					if isKeep(n) {
						break
					}
				}
				if !r.Check(acc != nil, rule, name, "save-list:absent", g.Line(vn), "the created fields are appended to the shard's save list") {
					continue
				}
				empty := func(e *core.Edge) bool { return rw3ZeroEdge(info, e, nf) }
				esc := loop.EscapesFrom(g, core.After(vn, nil), isKeep, empty)
				if len(esc) == 0 {
					r.Ok(rule, name+":created-kept", g.Line(vn), "every way of finishing a point's iteration after ValidateAndCreateFields appends the created fields to "+acc.Name())
				} else {
					// name the last statement of the iteration on the way out
					via, viaID := "-", -1
					reach := g.Reach(core.After(vn, nil), func(n *core.Node) bool { return isKeep(n) || !loop.In(n) }, empty)
					for n := range reach {
						for _, e := range n.Succ {
							if !empty(e) && !loop.In(e.To) && !isKeep(e.To) && n.ID > viaID {
								via, viaID = g.Line(n), n.ID
							}
						}
					}
					r.Bad(rule, name, "created-not-kept", g.Line(vn),
						"an iteration can end (last statement "+via+") without appending the fields ValidateAndCreateFields created: they are already in the in-memory schema (later writers see created=false and log nothing), "+
							"so they never reach fields.idxl and their type is lost at the next restart")
				}
			}
			if acc != nil {
				r.Check(rw13OnlyAppended(info, f.Decl.Body, acc), rule, name, "save-list-overwritten", f.Pos(), "the save list is only appended to")
				var starts []*core.Node
				for _, vn := range vns {
					starts = append(starts, core.After(vn, nil)...)
				}
				n := 0
				for x := range g.Reach(starts, nil, nil) {
					rs, ok := x.N.(*ast.ReturnStmt)
					if !ok || len(x.Succ) != 0 {
						continue
					}
					n++
					r.Check(len(rs.Results) == 3 && core.ObjOf(info, rs.Results[1]) == acc, rule, name, "save-list-not-returned", g.Line(x), "every exit after the validator ran returns the save list")
				}
				r.Check(n >= 1, rule, name, "exit-after-validator:absent", f.Pos(), "an exit after the validator exists")
			}
		}
	}

	// ---- (C) Shard.WritePoints
	if f := r.Need(p, tsdbP, "Shard.WritePoints"); f != nil {
		info, g, name := f.Info(), f.Graph(), f.String()
		for _, vn := range g.Select(g.Calling(vsfM)) {
			as, ok := vn.N.(*ast.AssignStmt)
			var list types.Object
			if ok && len(as.Lhs) == 3 && len(as.Rhs) == 1 {
				list = core.ObjOf(info, as.Lhs[1])
			}
			if !r.Check(list != nil, rule, name, "save-list-dropped", g.Line(vn), "the save list returned by validateSeriesAndFields is kept in a variable") {
				continue
			}
			r.Check(len(rw3Defs(info, f.Decl.Body, list)) == 1, rule, name, "save-list-reassigned", g.Line(vn), "that variable is assigned only by the validator call")
			isSave := g.Calling(func(info *types.Info, c *ast.CallExpr) bool {
				return saveFM(info, c) && len(c.Args) == 1 && core.ObjOf(info, c.Args[0]) == list
			})
			if !r.Check(len(g.Select(isSave)) >= 1, rule, name, "saveFieldsAndMeasurements:absent", g.Line(vn), "saveFieldsAndMeasurements receives the save list") {
				continue
			}
			miss := rw3SuccessMissing(g, core.After(vn, nil), isSave, nil)
			r.Check(len(miss) == 0, rule, name, "success-without-save", g.Line(vn), "every success exit after the validator passes saveFieldsAndMeasurements(list), also when points were dropped (PartialWriteError)")
			reach := g.Reach(core.After(vn, nil), isSave, nil)
			for _, en := range g.Select(g.Calling(engineWrite)) {
				r.Check(!reach[en], rule, name, "engine-write-before-save", g.Line(en), "the created fields are logged before the engine stores data of those fields")
			}
		}
		core.RuleErrorsUsed(r, f, rule, "saveFieldsAndMeasurements", saveFM, false, 1)
	}

	// ---- (D) Shard.saveFieldsAndMeasurements: one change per element
	if f := r.Need(p, tsdbP, "Shard.saveFieldsAndMeasurements"); f != nil {
		info, g, name := f.Info(), f.Graph(), f.String()
		param := f.Param(0)
		var loop *rw3Loop
		for _, s := range rw3TopLoops(f.Decl.Body) {
			if rs, ok := s.(*ast.RangeStmt); ok && param != nil && core.ObjOf(info, rs.X) == types.Object(param) {
				loop = rw3FindLoop(g, rs)
			}
		}
		if r.Check(loop != nil && loop.Val != nil, rule, name, "element-loop:absent", f.Pos(), "loop over the fields to save found") {
			var changes types.Object
			isChange := func(n *core.Node) bool {
				if n.N == nil {
					return false
				}
				as, ok := n.N.(*ast.AssignStmt)
				if !ok || len(as.Lhs) != 1 {
					return false
				}
				o := core.ObjOf(info, as.Lhs[0])
				if o == nil || (changes != nil && o != changes) {
					return false
				}
				for _, a := range rw3AppendTo(info, n.N, func(e ast.Expr) bool { return core.ObjOf(info, e) == o }) {
					cl := rw3Lit(a)
					if cl == nil || !rw3IsNamed(info.TypeOf(cl), tsdbP, "FieldChange") {
						continue
					}
					fc, ct := rw3LitField(info, cl, chCreateF), rw3LitField(info, cl, chTypeF)
					if fc != nil && core.MentionsObj(info, fc, loop.Val) && ct != nil && core.ObjOf(info, ct) == types.Object(addC) {
						return true
					}
				}
				return false
			}
			for _, n := range g.Nodes {
				if loop.In(n) && isChange(n) {
					changes = core.ObjOf(info, n.N.(*ast.AssignStmt).Lhs[0])
					break
				}
			}
			if r.Check(changes != nil, rule, name, "change:absent", f.Pos(), "each element becomes FieldChange{FieldCreate: *elem, ChangeType: AddMeasurementField}") {
				esc := loop.Escapes(g, isChange, nil)
				r.Check(len(esc) == 0, rule, name, "element-skipped", p.Pos(loop.Stmt.Pos()), "every element of the save list is turned into a change")
				r.Check(rw13OnlyAppended(info, f.Decl.Body, changes), rule, name, "changes-overwritten", f.Pos(), "the change list is only appended to")
				ok := false
				for _, c := range core.AllCalls(info, f.Decl.Body, fsSave) {
					ok = len(c.Args) == 1 && core.ObjOf(info, c.Args[0]) == changes
				}
				r.Check(ok, rule, name, "saved-changes", f.Pos(), "MeasurementFieldSet.Save receives that change list")
			}
		}
	}
}
