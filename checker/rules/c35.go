package rules

import (
	"fmt"
	"go/ast"
	"go/constant"
	"go/token"
	"go/types"
	"sort"
	"strings"

	"verif/checker/core"
)

// C35 — HyperLogLog++ sketches (pkg/estimator/hll).
//
// The property (merge algebra, error bound, marshal round trip of the estimate)
// is value-level. What IS visible in the shape of the code, and is a necessary
// condition of it, is narrow:
//
//	register-max   a dense register is only ever raised (max-semilattice) — the
//	               one mechanism that makes Merge commutative/associative/idempotent
//	rep-guard      a sketch is sparse (tmpSet + sparseList) or dense (denseList);
//	               each representation is only touched under the matching test of
//	               the SAME sketch's `sparse` flag (or after toNormal)
//	merge-operands Merge checks the precision first and folds EVERY part of the
//	               other sketch's representation into the receiver
//	flush          pending sparse entries are folded in before they are counted /
//	               converted
//	marshal-tags   header layout and the sparse/dense tag agree between
//	               MarshalBinary and UnmarshalBinary; each branch covers its
//	               representation
//	clone-fields   Clone copies every field
const hllP = "pkg/estimator/hll"

func init() {
	register(&Prop{
		ID:       "C35",
		Patterns: []string{"./pkg/estimator/hll"},
		Level:    "other",
		Explanation: "Narrow structural necessary conditions of the HyperLogLog++ sketch (pkg/estimator/hll.Plus), decided on the CFG with type-resolved fields and callees: " +
			"(1) register-max: every store into a dense register X.denseList[i] = v in Add, Merge and toNormal sits directly under a comparison establishing v > X.denseList[i] with no redefinition of v or i in between, i.e. registers only grow (the max-semilattice that merge commutativity/associativity/idempotence rests on); " +
			"(2) rep-guard: in Add, Count, Merge and MarshalBinary the dense array of a sketch X is touched only after X.toNormal() or under X.sparse == false, the sparse parts (tmpSet, sparseList) and the sparse-only helpers mergeSparse/toNormal only under X.sparse == true and never after X.toNormal(), for the receiver and for the merged-in sketch alike; " +
			"(3) merge-operands: Merge changes the receiver only after the precisions were compared equal, and every successful merge folds in both other.tmpSet and other.sparseList when the other sketch is sparse, or other.denseList when it is dense; " +
			"(4) flush: Count reads sparseList.count only after mergeSparse, toNormal iterates the sparse list only after mergeSparse (or with an empty tmpSet); " +
			"(5) marshal-tags: MarshalBinary writes [version, p, tag] as the first three bytes, the tag constants of the sparse and the dense branch differ, UnmarshalBinary reads p from the same offset, tests the same offset against the sparse tag constant and sets the sparse flag accordingly; the sparse branch of both covers tmpSet and sparseList, the dense branch denseList; " +
			"(6) clone-fields: Plus.Clone and compressedList.Clone assign every field of their struct.",
		NotCovered:  "The algebra itself (commutativity, associativity, idempotence of Merge as a function of register VALUES), the estimate's error bound, the equality of the estimate before and after a marshal round trip, the encodeHash/decodeHash bit arithmetic, the variable-length delta encoding of the sparse list and the merge of sorted sparse lists are value-level and NOT decided; the version byte is written but never checked by UnmarshalBinary, so nothing is claimed about it; buffer-length validation of UnmarshalBinary is not covered.",
		Assumptions: []string{"a rule passing means the mechanism is in place on every CFG path, not that the computed registers are value-correct"},
		Run:         runC35,
	})
}

func runC35(p *core.Prog, r *core.Report, tier string) {
	pk := p.Pkg(hllP)
	if !r.Check(pk != nil, "anchor", hllP, "unresolved", "", "package loaded") {
		return
	}
	fld := func(typ, name string) *types.Var {
		v := core.LookupField(pk.Types, typ, name)
		r.Check(v != nil, "anchor", hllP+"."+typ+"."+name, "unresolved", "", "field resolved")
		return v
	}
	h := &hllCtx{p: p, r: r,
		sparse: fld("Plus", "sparse"), dense: fld("Plus", "denseList"), tmpSet: fld("Plus", "tmpSet"),
		sparseList: fld("Plus", "sparseList"), prec: fld("Plus", "p"), count: fld("compressedList", "count")}
	if h.sparse == nil || h.dense == nil || h.tmpSet == nil || h.sparseList == nil || h.prec == nil || h.count == nil {
		return
	}
	h.registerMax()
	h.repGuard()
	h.mergeOperands()
	h.flush()
	h.marshalTags()
	h.cloneFields(pk.Types)
}

type hllCtx struct {
	p                                              *core.Prog
	r                                              *core.Report
	sparse, dense, tmpSet, sparseList, prec, count *types.Var
}

const (
	hllMergeSparse = hllP + ".Plus.mergeSparse"
	hllToNormal    = hllP + ".Plus.toNormal"
)

// fieldOfRoot recognises `<root>.<field>` (one hop).
func fieldOfRoot(info *types.Info, root types.Object, field *types.Var) func(ast.Expr) bool {
	return func(e ast.Expr) bool {
		ro, path, ok := core.X1FieldPath(info, e)
		return ok && ro == root && len(path) == 1 && path[0] == field
	}
}

// methodOn selects nodes calling the method named by m with receiver expression
// rooted directly at object root (`root.m()`).
func methodOn(g *core.Graph, m core.Matcher, root types.Object) core.NodePred {
	return g.X1CallingWith(m, func(c *ast.CallExpr) bool {
		rc := core.Recv(c)
		if rc == nil {
			return false
		}
		id, ok := ast.Unparen(rc).(*ast.Ident)
		return ok && core.ObjOf(g.Info, id) == root
	})
}

// ---------------------------------------------------------------- (1) register-max

func (h *hllCtx) registerMax() {
	const rule = "register-max"
	total := 0
	for _, name := range []string{"Plus.Add", "Plus.Merge", "Plus.toNormal"} {
		f := h.r.Need(h.p, hllP, name)
		if f == nil {
			continue
		}
		g, info := f.Graph(), f.Info()
		n := 0
		for _, nd := range g.Nodes {
			as, ok := nd.N.(*ast.AssignStmt)
			if !ok || len(as.Lhs) != 1 || len(as.Rhs) != 1 {
				continue
			}
			ix, ok := ast.Unparen(as.Lhs[0]).(*ast.IndexExpr)
			if !ok || core.FieldOf(info, ix.X) != h.dense {
				continue
			}
			n++
			what := fmt.Sprintf("store#%d", n)
			if as.Tok != token.ASSIGN {
				h.r.Bad(rule, f.String(), what+":not-a-plain-store", g.Line(nd), "dense register updated with "+as.Tok.String())
				continue
			}
			reg, val := as.Lhs[0], as.Rhs[0]
			isReg := func(e ast.Expr) bool { return core.SameExpr(info, e, reg) }
			isVal := func(e ast.Expr) bool { return core.SameExpr(info, e, val) }
			gate := core.X1CmpEdge(isVal, isReg, core.X1GT)
			back := g.BackReach14(nd, gate)
			locals := core.LocalsIn14(info, as)
			ok = !back[g.Entry]
			why := ""
			if !ok {
				why = "— reachable without a comparison `value > register`"
			}
			for m := range back {
				if m == nd || !ok {
					continue
				}
				if g.DefinesAny14(m, locals) {
					ok, why = false, "— index or value redefined between the comparison and the store ("+g.Line(m)+")"
				} else if m.N != nil && g.Assigning(h.dense)(m) {
					ok, why = false, "— another register store between the comparison and the store ("+g.Line(m)+")"
				}
			}
			h.r.Check(ok, rule, f.String(), what+":unguarded", g.Line(nd),
				"register store "+core.ExprStr(reg)+" = "+core.ExprStr(val)+" is guarded by value > register (registers only grow) "+why)
		}
		total += n
		h.r.Check(n >= 1, rule, f.String(), "stores:absent", f.Pos(), fmt.Sprintf("%d dense register stores", n))
	}
	h.r.Check(total >= 5, rule, hllP, "stores:fewer-than-confirmed", "", fmt.Sprintf("%d dense register stores examined (5 confirmed by reading: Add 1, Merge 3, toNormal 1)", total))
}

// ---------------------------------------------------------------- (2) rep-guard

func (h *hllCtx) repGuard() {
	const rule = "rep-guard"
	nDense, nSparse, nCalls := 0, 0, 0
	for _, name := range []string{"Plus.Add", "Plus.Count", "Plus.Merge", "Plus.MarshalBinary"} {
		f := h.r.Need(h.p, hllP, name)
		if f == nil {
			continue
		}
		g, info := f.Graph(), f.Info()
		type reachSets struct{ dense, sparse, afterNormal map[*core.Node]bool }
		cache := map[types.Object]*reachSets{}
		setsFor := func(root types.Object) *reachSets {
			if s, ok := cache[root]; ok {
				return s
			}
			isSp := fieldOfRoot(info, root, h.sparse)
			toN := methodOn(g, call(hllToNormal), root)
			s := &reachSets{
				// nodes reachable with X possibly sparse: no toNormal passed, no X.sparse==false established
				dense: g.ReachFromEntry(toN, core.X1BoolEdge(isSp, false)),
				// nodes reachable with X possibly dense: no X.sparse==true established
				sparse:      g.ReachFromEntry(nil, core.X1BoolEdge(isSp, true)),
				afterNormal: g.Reach(core.X1SuccsOf(g.Select(toN)), nil, nil),
			}
			cache[root] = s
			return s
		}
		seen := map[string]bool{}
		for _, nd := range g.Nodes {
			if nd.N == nil {
				continue
			}
			core.Walk(nd.N, core.WalkOpts{}, func(x ast.Node) bool {
				switch e := x.(type) {
				case *ast.SelectorExpr:
					fv := core.FieldOf(info, e)
					if fv != h.dense && fv != h.tmpSet && fv != h.sparseList {
						return true
					}
					root, path, ok := core.X1FieldPath(info, e)
					if !ok || len(path) != 1 {
						h.r.Bad(rule, f.String(), fv.Name()+":access-not-through-a-variable", g.Line(nd), core.ExprStr(e))
						return true
					}
					s := setsFor(root)
					key := root.Name() + "." + fv.Name()
					if fv == h.dense {
						nDense++
						if s.dense[nd] && !seen[key] {
							seen[key] = true
							h.r.Bad(rule, f.String(), key+":dense-access-while-possibly-sparse", g.Line(nd),
								"denseList is read/written on a path that neither called "+root.Name()+".toNormal() nor established "+root.Name()+".sparse == false")
						}
					} else {
						nSparse++
						if (s.sparse[nd] || s.afterNormal[nd]) && !seen[key] {
							seen[key] = true
							h.r.Bad(rule, f.String(), key+":sparse-access-while-possibly-dense", g.Line(nd),
								fv.Name()+" is used on a path that did not establish "+root.Name()+".sparse == true (or runs after toNormal, which drops it)")
						}
					}
				case *ast.CallExpr:
					if !call(hllMergeSparse, hllToNormal)(info, e) {
						return true
					}
					rc := core.Recv(e)
					root := core.ObjOf(info, rc)
					if root == nil {
						h.r.Bad(rule, f.String(), "sparse-helper:receiver-not-a-variable", g.Line(nd), core.ExprStr(e))
						return true
					}
					nCalls++
					s := setsFor(root)
					key := root.Name() + "." + core.Callee(info, e).Name()
					// the call node itself is a stop node of s.dense for toNormal; use the sparse set
					if (s.sparse[nd] || s.afterNormal[nd]) && !seen[key] {
						seen[key] = true
						h.r.Bad(rule, f.String(), key+":sparse-helper-while-possibly-dense", g.Line(nd),
							"mergeSparse/toNormal dereference the sparse list; they must run only under "+root.Name()+".sparse == true")
					}
				}
				return true
			})
		}
		h.r.Ok(rule, f.String(), f.Pos(), "representation accesses are guarded by the sparse flag of the same sketch")
	}
	// anti-vacuity (13/8/6 on the tree the rule was written against; the bounds leave room for a one-site edit,
	// which the guard checks above report themselves)
	h.r.Check(nDense >= 10 && nSparse >= 6 && nCalls >= 4, rule, hllP, "accesses:too-few", "",
		fmt.Sprintf("%d dense accesses, %d sparse accesses, %d mergeSparse/toNormal calls examined", nDense, nSparse, nCalls))
}

// ---------------------------------------------------------------- (3) merge-operands

func (h *hllCtx) mergeOperands() {
	const rule = "merge-operands"
	f := h.r.Need(h.p, hllP, "Plus.Merge")
	if f == nil {
		return
	}
	g, info := f.Graph(), f.Info()
	recv := f.X1Recv()
	// the merged-in sketch: the local assigned from the type assertion of the parameter
	var other types.Object
	ast.Inspect(f.Decl.Body, func(n ast.Node) bool {
		as, ok := n.(*ast.AssignStmt)
		if !ok || len(as.Rhs) != 1 || len(as.Lhs) < 1 {
			return true
		}
		if ta, ok := ast.Unparen(as.Rhs[0]).(*ast.TypeAssertExpr); ok && core.ObjOf(info, ta.X) == types.Object(f.X1Param(0)) {
			other = core.ObjOf(info, as.Lhs[0])
		}
		return true
	})
	if !h.r.Check(recv != nil && other != nil, rule, f.String(), "operands:unresolved", f.Pos(), "receiver and the asserted *Plus operand resolved") {
		return
	}
	// (a) precision first
	isHP, isOP := fieldOfRoot(info, recv, h.prec), fieldOfRoot(info, other, h.prec)
	precEq := core.X1CmpEdge(isHP, isOP, core.X1EQ)
	noGuard := g.ReachFromEntry(nil, precEq)
	mut := core.AnyOf(g.Assigning(h.dense), g.Assigning(h.sparse), g.Assigning(h.tmpSet), g.Assigning(h.sparseList),
		g.Calling(call(hllToNormal, hllMergeSparse)))
	muts := g.Select(mut)
	h.r.Check(len(muts) >= 3, rule, f.String(), "mutations:absent", f.Pos(), fmt.Sprintf("%d state-changing nodes", len(muts)))
	okPrec := true
	for _, m := range muts {
		if noGuard[m] {
			okPrec = false
			h.r.Bad(rule, f.String(), "precision-check-first", g.Line(m), "the receiver is changed on a path that did not establish h.p == other.p")
			break
		}
	}
	if okPrec {
		h.r.Ok(rule, f.String(), f.Pos(), "every state change is behind the precision comparison")
	}
	// (b) every part of the other sketch is folded in
	isOSp := fieldOfRoot(info, other, h.sparse)
	nilParam := core.X1NilEdge(info, core.X1IsObj(info, f.X1Param(0)), true)
	rangeOver := func(fv *types.Var) core.NodePred {
		is := fieldOfRoot(info, other, fv)
		return g.X1Ranging(func(rs *ast.RangeStmt) bool { return is(ast.Unparen(rs.X)) })
	}
	iterCall := g.X1CallingWith(call(hllP+".compressedList.Iter"), func(c *ast.CallExpr) bool {
		rc := core.Recv(c)
		return rc != nil && fieldOfRoot(info, other, h.sparseList)(ast.Unparen(rc))
	})
	part := func(what string, pred core.NodePred, exemptSparse bool) {
		core.RuleMustPassN(h.r, f, g, rule, what, pred, core.X1OrEdges(nilParam, core.X1BoolEdge(isOSp, exemptSparse)))
		// and the loop stores into the receiver's registers
	}
	part("fold other.tmpSet (other sparse)", rangeOver(h.tmpSet), false)
	part("fold other.sparseList (other sparse)", iterCall, false)
	part("fold other.denseList (other dense)", rangeOver(h.dense), true)
	// each of the three loops stores into the RECEIVER's registers
	n := 0
	for _, nd := range g.Select(g.Assigning(h.dense)) {
		as, ok := nd.N.(*ast.AssignStmt)
		if !ok || len(as.Lhs) != 1 {
			continue
		}
		if ix, ok := ast.Unparen(as.Lhs[0]).(*ast.IndexExpr); ok {
			n++
			h.r.Check(fieldOfRoot(info, recv, h.dense)(ast.Unparen(ix.X)), rule, f.String(), "store-target-is-receiver", g.Line(nd),
				"register stores in Merge go to the receiver ("+core.ExprStr(ix.X)+")")
		}
	}
	h.r.Check(n >= 3, rule, f.String(), "stores:fewer-than-confirmed", f.Pos(), fmt.Sprintf("%d register stores (one per folded part)", n))
}

// ---------------------------------------------------------------- (4) flush

func (h *hllCtx) flush() {
	const rule = "flush"
	if f := h.r.Need(h.p, hllP, "Plus.Count"); f != nil {
		g, info := f.Graph(), f.Info()
		recv := f.X1Recv()
		noFlush := g.ReachFromEntry(methodOn(g, call(hllMergeSparse), recv), nil)
		n := 0
		for _, nd := range g.Nodes {
			if nd.N != nil && core.X1MentionsField(info, nd.N, h.count) {
				n++
				h.r.Check(!noFlush[nd], rule, f.String(), "mergeSparse<sparseList.count", g.Line(nd), "the sparse count is read only after the pending tmpSet entries were folded in")
			}
		}
		h.r.Check(n >= 1, rule, f.String(), "sparseList.count:absent", f.Pos(), "sparse estimate reads sparseList.count")
	}
	if f := h.r.Need(h.p, hllP, "Plus.toNormal"); f != nil {
		g, info := f.Graph(), f.Info()
		recv := f.X1Recv()
		empty := core.X1LenZeroEdge(info, fieldOfRoot(info, recv, h.tmpSet), true)
		noFlush := g.ReachFromEntry(methodOn(g, call(hllMergeSparse), recv), empty)
		iters := g.Select(g.Calling(call(hllP + ".compressedList.Iter")))
		h.r.Check(len(iters) >= 1, rule, f.String(), "sparseList.Iter:absent", f.Pos(), "toNormal iterates the sparse list")
		for _, nd := range iters {
			h.r.Check(!noFlush[nd], rule, f.String(), "mergeSparse<sparseList.Iter", g.Line(nd), "the sparse list is converted only after the pending tmpSet entries were folded in (or tmpSet is empty)")
		}
		// the conversion ends dense: sparse flag cleared on every exit
		core.RuleMustPassN(h.r, f, g, rule, "sparse = false", func(n *core.Node) bool {
			as, ok := n.N.(*ast.AssignStmt)
			return ok && len(as.Lhs) == 1 && len(as.Rhs) == 1 && fieldOfRoot(info, recv, h.sparse)(ast.Unparen(as.Lhs[0])) && core.X1IsConstBool(info, as.Rhs[0], false)
		}, nil)
	}
}

// ---------------------------------------------------------------- (5) marshal-tags

type hdrAppend struct {
	node *core.Node
	args []ast.Expr
	off  int // number of header bytes written before this append; -1 unknown
}

func (h *hllCtx) marshalTags() {
	const rule = "marshal-tags"
	fm := h.r.Need(h.p, hllP, "Plus.MarshalBinary")
	fu := h.r.Need(h.p, hllP, "Plus.UnmarshalBinary")
	if fm == nil || fu == nil {
		return
	}
	g, info := fm.Graph(), fm.Info()
	recv := fm.X1Recv()
	data := types.Object(fm.X1Result(0))
	if !h.r.Check(data != nil && recv != nil, rule, fm.String(), "result:unnamed", fm.Pos(), "named result buffer resolved") {
		return
	}
	// appends to the result buffer: fixed (no ellipsis) and variable ones
	var fixed []*hdrAppend
	var variable []*core.Node
	for _, nd := range g.Nodes {
		as, ok := nd.N.(*ast.AssignStmt)
		if !ok || len(as.Lhs) != 1 || len(as.Rhs) != 1 || core.ObjOf(info, as.Lhs[0]) != data {
			continue
		}
		c, ok := ast.Unparen(as.Rhs[0]).(*ast.CallExpr)
		if !ok || !core.Builtin("append")(info, c) || len(c.Args) < 1 || core.ObjOf(info, c.Args[0]) != data {
			variable = append(variable, nd) // any other redefinition of the buffer
			continue
		}
		if c.Ellipsis.IsValid() {
			variable = append(variable, nd)
			continue
		}
		fixed = append(fixed, &hdrAppend{node: nd, args: c.Args[1:]})
	}
	// offset of a fixed append = bytes of the fixed appends that dominate it, provided no variable append can precede it
	for _, a := range fixed {
		a.off = 0
		for _, v := range variable {
			if g.Reach(core.X1Succs(v), nil, nil)[a.node] {
				a.off = -1
			}
		}
		if a.off < 0 {
			continue
		}
		for _, b := range fixed {
			if b == a || !g.Reach(core.X1Succs(b.node), nil, nil)[a.node] {
				continue
			}
			// b can precede a: it must precede on every path (dominate), and not be in a cycle
			if g.ReachFromEntry(func(n *core.Node) bool { return n == b.node }, nil)[a.node] || g.OnCycle(b.node) {
				a.off = -1
				break
			}
			a.off += len(b.args)
		}
	}
	isSp := fieldOfRoot(info, recv, h.sparse)
	cutTrue := g.ReachFromEntry(nil, core.X1BoolEdge(isSp, true))
	cutFalse := g.ReachFromEntry(nil, core.X1BoolEdge(isSp, false))
	constOf := func(a *hdrAppend) constant.Value {
		if len(a.args) != 1 {
			return nil
		}
		return core.ConstVal(info, a.args[0])
	}
	var verA, precA, tagS, tagD *hdrAppend
	for _, a := range fixed {
		cv := constOf(a)
		switch {
		case len(a.args) == 1 && core.ConstOf(info, core.StripConv(info, a.args[0])) != nil && core.ConstOf(info, core.StripConv(info, a.args[0])).Name() == "version":
			verA = a
		case len(a.args) == 1 && isSpField(info, recv, h.prec, core.StripConv(info, a.args[0])):
			precA = a
		case cv != nil && !cutTrue[a.node] && cutFalse[a.node]:
			if tagS != nil {
				h.r.Bad(rule, fm.String(), "sparse-tag:ambiguous", g.Line(a.node), "more than one constant byte written only by the sparse branch")
			}
			tagS = a
		case cv != nil && !cutFalse[a.node] && cutTrue[a.node]:
			if tagD != nil {
				h.r.Bad(rule, fm.String(), "dense-tag:ambiguous", g.Line(a.node), "more than one constant byte written only by the dense branch")
			}
			tagD = a
		}
	}
	if !h.r.Check(verA != nil && precA != nil && tagS != nil && tagD != nil, rule, fm.String(), "header:shape-unrecognised", fm.Pos(),
		"MarshalBinary appends the version constant, byte(h.p) and one constant tag byte per representation to the result buffer") {
		return
	}
	h.r.Check(verA.off == 0 && precA.off == 1, rule, fm.String(), "header:version,p", g.Line(precA.node),
		fmt.Sprintf("version at offset %d, precision at offset %d", verA.off, precA.off))
	h.r.Check(tagS.off == tagD.off && tagS.off == 2, rule, fm.String(), "header:tag-offset", g.Line(tagS.node),
		fmt.Sprintf("sparse tag at offset %d, dense tag at offset %d", tagS.off, tagD.off))
	cs, cd := constOf(tagS), constOf(tagD)
	h.r.Check(!constant.Compare(cs, token.EQL, cd), rule, fm.String(), "tags-distinct", g.Line(tagS.node),
		"sparse tag "+cs.String()+" differs from dense tag "+cd.String())
	// branch coverage in MarshalBinary
	covers := func(gr *core.Graph, inf *types.Info, region func(*core.Node) bool, fv *types.Var) bool {
		for _, nd := range gr.Nodes {
			if nd.N != nil && region(nd) && core.X1MentionsField(inf, nd.N, fv) {
				return true
			}
		}
		return false
	}
	onlySparse := func(n *core.Node) bool { return !cutTrue[n] }
	onlyDense := func(n *core.Node) bool { return !cutFalse[n] }
	h.r.Check(covers(g, info, onlySparse, h.tmpSet) && covers(g, info, onlySparse, h.sparseList), rule, fm.String(), "sparse-branch-covers-tmpSet+sparseList", fm.Pos(), "the sparse branch serialises both sparse parts")
	h.r.Check(covers(g, info, onlyDense, h.dense), rule, fm.String(), "dense-branch-covers-denseList", fm.Pos(), "the dense branch serialises the registers")

	// ---- UnmarshalBinary
	gu, iu := fu.Graph(), fu.Info()
	urecv := fu.X1Recv()
	buf := types.Object(fu.X1Param(0))
	// data[K] with constant K on the parameter
	bufAt := func(e ast.Expr) (int64, bool) {
		ix, ok := ast.Unparen(core.StripConv(iu, e)).(*ast.IndexExpr)
		if !ok || core.ObjOf(iu, ix.X) != buf {
			return 0, false
		}
		return core.ConstInt(iu, ix.Index)
	}
	tagFact := func(val bool) core.X1FactPred {
		return func(ft core.X1Fact) bool {
			x, y, rel, ok := core.X1CmpAtom(ft.E)
			if !ok || (rel != core.X1EQ && rel != core.X1NE) {
				return false
			}
			if _, isIdx := bufAt(x); !isIdx {
				x, y = y, x
			}
			k, isIdx := bufAt(x)
			cv := core.ConstVal(iu, y)
			if !isIdx || cv == nil || k != int64(tagS.off) || !constant.Compare(constant.ToInt(cv), token.EQL, constant.ToInt(cs)) {
				return false
			}
			isEq := (rel == core.X1EQ) == ft.True
			return isEq == val
		}
	}
	isTag, notTag := core.X1FactEdge(tagFact(true)), core.X1FactEdge(tagFact(false))
	if !h.r.Check(len(gu.Edges(isTag)) >= 1, rule, fu.String(), "tag-test:absent", fu.Pos(),
		fmt.Sprintf("UnmarshalBinary compares data[%d] with the sparse tag %s", tagS.off, cs.String())) {
		return
	}
	uTrue := gu.ReachFromEntry(nil, isTag)   // nodes reachable without data[2]==tag
	uFalse := gu.ReachFromEntry(nil, notTag) // nodes reachable without data[2]!=tag
	nSet := 0
	for _, nd := range gu.Nodes {
		as, ok := nd.N.(*ast.AssignStmt)
		if !ok || len(as.Lhs) != 1 || len(as.Rhs) != 1 || !fieldOfRoot(iu, urecv, h.sparse)(ast.Unparen(as.Lhs[0])) {
			continue
		}
		v, isConst := core.ConstBool(iu, as.Rhs[0])
		if !h.r.Check(isConst, rule, fu.String(), "sparse-flag:not-constant", gu.Line(nd), "the flag is set to a constant per branch") {
			continue
		}
		nSet++
		if v {
			h.r.Check(!uTrue[nd], rule, fu.String(), "sparse=true-only-under-sparse-tag", gu.Line(nd), "sparse = true is reached only when the tag byte equals the sparse tag")
		} else {
			h.r.Check(!uFalse[nd], rule, fu.String(), "sparse=false-only-under-other-tag", gu.Line(nd), "sparse = false is reached only when the tag byte differs from the sparse tag")
		}
	}
	h.r.Check(nSet >= 2, rule, fu.String(), "sparse-flag:absent", fu.Pos(), fmt.Sprintf("%d constant assignments of the sparse flag", nSet))
	uSparse := func(n *core.Node) bool { return !uTrue[n] }
	uDense := func(n *core.Node) bool { return !uFalse[n] }
	h.r.Check(covers(gu, iu, uSparse, h.tmpSet) && covers(gu, iu, uSparse, h.sparseList), rule, fu.String(), "sparse-branch-covers-tmpSet+sparseList", fu.Pos(), "the sparse branch restores both sparse parts")
	h.r.Check(covers(gu, iu, uDense, h.dense), rule, fu.String(), "dense-branch-covers-denseList", fu.Pos(), "the dense branch restores the registers")
	// precision read from the offset it was written to
	nNew := 0
	for _, c := range core.AllCalls(iu, fu.Decl.Body, call(hllP+".NewPlus")) {
		if len(c.Args) != 1 {
			continue
		}
		nNew++
		k, ok := bufAt(core.ResolveLocal(iu, fu.Decl.Body, c.Args[0]))
		h.r.Check(ok && k == int64(precA.off), rule, fu.String(), "precision-offset", h.p.Pos(c.Pos()),
			fmt.Sprintf("NewPlus is given data[%d] (written at offset %d)", k, precA.off))
	}
	h.r.Check(nNew >= 1, rule, fu.String(), "NewPlus:absent", fu.Pos(), "the sketch is re-initialised from the stored precision")
}

func isSpField(info *types.Info, root types.Object, fv *types.Var, e ast.Expr) bool {
	return fieldOfRoot(info, root, fv)(ast.Unparen(e))
}

// ---------------------------------------------------------------- (6) clone-fields

func (h *hllCtx) cloneFields(pk *types.Package) {
	const rule = "clone-fields"
	for _, c := range []struct{ fn, typ string }{{"Plus.Clone", "Plus"}, {"compressedList.Clone", "compressedList"}} {
		f := h.r.Need(h.p, hllP, c.fn)
		st := core.StructOf(pk, c.typ)
		if f == nil || !h.r.Check(st != nil, "anchor", hllP+"."+c.typ, "unresolved", "", "struct resolved") {
			continue
		}
		_, writes := core.FieldsTouched(f.Info(), f.Decl.Body, st)
		var missing []string
		for _, n := range core.FieldNames(st) {
			if !writes[n] {
				missing = append(missing, n)
			}
		}
		sort.Strings(missing)
		h.r.Check(len(missing) == 0, rule, f.String(), "field-not-copied:"+strings.Join(missing, ","), f.Pos(),
			fmt.Sprintf("all %d fields of %s are assigned in the clone", st.NumFields(), c.typ))
	}
}
