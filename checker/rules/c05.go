package rules

import (
	"fmt"
	"go/ast"
	"go/constant"
	"go/token"
	"go/types"
	"sort"

	"verif/checker/core"
)

func init() {
	register(&Prop{
		ID:       "C05",
		Patterns: []string{"./tsdb/engine/tsm1"},
		Level:    "other",
		Explanation: "Necessary-condition rules for 'compaction groups are disjoint from held groups and contiguous in generation order', decided on CFGs with type-resolved callees/fields: " +
			"(1) plan-acquire: every non-nil group slice returned by DefaultPlanner.Plan/PlanLevel/PlanOptimize is a variable that reaches the return only through the success branch of DefaultPlanner.acquire(thatVariable) and is not modified afterwards; " +
			"(2) book-atomic: DefaultPlanner.acquire and Compactor.add look every file up before marking any, never mark or report success after a hit, report success only after the mark loop (or for an empty request), and do not release the mutex between the lookups and the marks; Release/remove delete every file of every group; " +
			"(3) planner-locks: DefaultPlanner.filesInUse/forceFull and Compactor.files are only accessed under their mutex (write mode for stores); " +
			"(4) contiguous (E8): in every loop over a TsmGenerations value that accumulates generation data into a local slice, an iteration that does not accumulate must close the accumulator (reset, or a local closure proven to leave it empty) before the next accumulation — break/continue included; " +
			"(5) generations-sorted: FindGenerations returns only through sort.Sort or the IsSorted()==true branch, and TsmGenerations.Less orders by tsmGeneration.id; " +
			"(6) release-pairing on the engine side: each compaction goroutine runs strategy.Apply before CompactionPlan.Release of the very group it was started with and passes Release on every exit; the starter functions report 'started' exactly when the goroutine was launched; Engine.compact drops a group from its pending slice exactly on the 'started' branch and hands all five pending slices to ReleaseCompactionPlans on every path from PlanCompactions; ReleaseCompactionPlans releases every element of every slice; " +
			"(7) compactor-book: Compactor.compact is only reachable after a successful Compactor.add in CompactFull/CompactFast, with remove deferred.",
		NotCovered:  "the numeric thresholds of the planner (sizes, block counts, level arithmetic, `step`, chunk sizes); that the index arithmetic of the level-4 window visits consecutive generations (only break-vs-continue and accumulator closing are decided); correctness of TsmGenerations.IsSorted; that groups dropped inside planCompactionsInner are released (a leak, not a double booking); callers other than Engine.compact that obtain plans.",
		Assumptions: []string{"file paths are the unit of booking (CompactionGroup elements are the keys of filesInUse)", "generation order is the order of the slice produced by FindGenerations"},
		Run:         runC05,
	})
}

const (
	x2PlannerT = "tsdb/engine/tsm1.DefaultPlanner."
)

var x2PlannerLocks = &core.LockRulesX{
	LockRules: core.LockRules{
		Pkg: tsm1,
		Guards: []core.Guard{
			{Type: "DefaultPlanner", Fields: []string{"filesInUse", "forceFull"}, Locks: []string{"mu"}},
			{Type: "Compactor", Fields: []string{"files"}, Locks: []string{"mu"}},
		},
		CallerHolds:  map[string]map[string]byte{},
		ExemptFunc:   map[string]string{},
		ExemptAccess: map[string]string{},
	},
}

func runC05(p *core.Prog, r *core.Report, tier string) {
	// (3) lock table
	core.RuleLocksX(r, p, x2PlannerLocks, "planner-locks", 12, 0)

	// (1) acquire dominates every non-nil plan
	total := 0
	for _, n := range []string{"DefaultPlanner.Plan", "DefaultPlanner.PlanLevel", "DefaultPlanner.PlanOptimize"} {
		if f := r.Need(p, tsm1, n); f != nil {
			total += x2PlanAcquire(p, r, f)
		}
	}
	r.Check(total >= 4, "plan-acquire", tsm1, "returns:count", "-", fmt.Sprintf("%d non-nil plan returns examined (>= 4 confirmed by reading)", total))

	// (2) booking functions
	if f := r.Need(p, tsm1, "DefaultPlanner.acquire"); f != nil {
		x2BookAtomic(p, r, f, "DefaultPlanner", "filesInUse")
	}
	if f := r.Need(p, tsm1, "Compactor.add"); f != nil {
		x2BookAtomic(p, r, f, "Compactor", "files")
	}
	if f := r.Need(p, tsm1, "DefaultPlanner.Release"); f != nil {
		x2UnbookAll(p, r, f, "DefaultPlanner", "filesInUse")
	}
	if f := r.Need(p, tsm1, "Compactor.remove"); f != nil {
		x2UnbookAll(p, r, f, "Compactor", "files")
	}

	// (4) contiguous accumulation
	x2Contiguous(p, r)

	// (5) sorted generations
	x2GenerationsSorted(p, r)

	// (6) engine side
	x2EngineRelease(p, r)

	// (7) compactor backstop
	for _, n := range []string{"Compactor.CompactFull", "Compactor.CompactFast"} {
		if f := r.Need(p, tsm1, n); f != nil {
			x2CompactorBook(p, r, f)
		}
	}
}

// ---------------------------------------------------------------- (1)

// x2CallCond decodes a condition that is `call(...)`, `!call(...)`, or a boolean
// variable assigned exactly once from such a call; it returns the call and the
// branch value on which the call returned true.
func x2CallCond(f *core.Func, cond ast.Expr, m core.Matcher) (*ast.CallExpr, bool) {
	info := f.Info()
	pos := true
	e := ast.Unparen(cond)
	for {
		u, ok := e.(*ast.UnaryExpr)
		if !ok || u.Op != token.NOT {
			break
		}
		pos = !pos
		e = ast.Unparen(u.X)
	}
	if c, ok := e.(*ast.CallExpr); ok && m(info, c) {
		return c, pos
	}
	if o := core.ObjOf(info, e); o != nil {
		var found *ast.CallExpr
		n := 0
		ast.Inspect(f.Decl.Body, func(x ast.Node) bool {
			as, ok := x.(*ast.AssignStmt)
			if !ok {
				return true
			}
			for i, l := range as.Lhs {
				if core.ObjOf(info, l) != o {
					continue
				}
				n++
				if len(as.Lhs) == len(as.Rhs) {
					if c, ok := ast.Unparen(as.Rhs[i]).(*ast.CallExpr); ok && m(info, c) {
						found = c
					}
				}
			}
			return true
		})
		if n == 1 && found != nil {
			return found, pos
		}
	}
	return nil, false
}

func x2AssignsObj(info *types.Info, n ast.Node, o types.Object) bool {
	found := false
	core.Walk(n, core.WalkOpts{}, func(x ast.Node) bool {
		switch s := x.(type) {
		case *ast.AssignStmt:
			for _, l := range s.Lhs {
				b := l
				for {
					switch t := ast.Unparen(b).(type) {
					case *ast.IndexExpr:
						b = t.X
						continue
					case *ast.StarExpr:
						b = t.X
						continue
					}
					break
				}
				if core.ObjOf(info, b) == o {
					found = true
				}
			}
		case *ast.IncDecStmt:
			if core.ObjOf(info, s.X) == o {
				found = true
			}
		}
		return true
	})
	return found
}

func x2PlanAcquire(p *core.Prog, r *core.Report, f *core.Func) int {
	const rule = "plan-acquire"
	info := f.Info()
	g := f.Graph()
	acq := call(x2PlannerT + "acquire")
	n := 0
	for _, x := range g.Exits {
		rs, ok := x.N.(*ast.ReturnStmt)
		if !ok {
			continue
		}
		if len(rs.Results) == 0 {
			r.Bad(rule, f.String(), "bare-return", g.Line(x), "bare return: the returned plan cannot be identified")
			continue
		}
		res := ast.Unparen(rs.Results[0])
		if core.IsNilIdent(info, res) {
			continue
		}
		n++
		obj := core.ObjOf(info, res)
		if _, isVar := obj.(*types.Var); !isVar {
			r.Bad(rule, f.String(), "plan-not-a-variable", g.Line(x), "a non-nil plan is returned that is not a plain variable: "+core.ExprStr(res))
			continue
		}
		// success edges of acquire(obj)
		var targets []*core.Node
		success := core.AtomEdge(func(x ast.Expr, val bool) bool {
			c, trueBranch := x2CallCond(f, x, acq)
			if c == nil || len(c.Args) != 1 || core.ObjOf(info, c.Args[0]) != obj {
				return false
			}
			return val == trueBranch
		})
		for _, nd := range g.Nodes {
			for _, e := range nd.Succ {
				if success(e) {
					targets = append(targets, e.To)
				}
			}
		}
		what := "return(" + obj.Name() + ")"
		if len(targets) == 0 {
			r.Bad(rule, f.String(), what+":no-acquire", g.Line(x), "plan "+obj.Name()+" is returned but no branch tests acquire("+obj.Name()+")")
			continue
		}
		reach := g.ReachFromEntry(nil, success)
		if reach[x] {
			r.Bad(rule, f.String(), what+":unacquired-path", g.Line(x), "plan "+obj.Name()+" can be returned on a path that does not pass the success branch of acquire("+obj.Name()+")")
			continue
		}
		after := g.Reach(targets, nil, nil)
		modified := false
		for nd := range after {
			if nd.N != nil && x2AssignsObj(info, nd.N, obj) {
				modified = true
				r.Bad(rule, f.String(), what+":modified-after-acquire", g.Line(nd), "plan "+obj.Name()+" is modified after it was acquired")
			}
		}
		if !modified {
			r.Ok(rule, f.String(), g.Line(x), "plan "+obj.Name()+" is returned only on the success branch of acquire("+obj.Name()+") and unchanged since")
		}
	}
	return n
}

// ---------------------------------------------------------------- (2)

// x2FieldAccessNodes splits the nodes of g touching field fv into reads and writes.
func x2FieldAccessNodes(g *core.Graph, fv *types.Var) (reads, writes []*core.Node) {
	w := g.Assigning(fv)
	del := func(n *core.Node) bool {
		hit := false
		core.Walk(n.N, core.WalkOpts{}, func(x ast.Node) bool {
			if c, ok := x.(*ast.CallExpr); ok && (core.Builtin("delete")(g.Info, c) || core.Builtin("clear")(g.Info, c)) && len(c.Args) > 0 {
				if core.FieldOf(g.Info, c.Args[0]) == fv {
					hit = true
				}
			}
			return true
		})
		return hit
	}
	for _, n := range g.Nodes {
		if n.N == nil {
			continue
		}
		if w(n) || del(n) {
			writes = append(writes, n)
			continue
		}
		touched := false
		core.Walk(n.N, core.WalkOpts{}, func(x ast.Node) bool {
			if se, ok := x.(*ast.SelectorExpr); ok && core.FieldOf(g.Info, se) == fv {
				touched = true
			}
			return true
		})
		if touched {
			reads = append(reads, n)
		}
	}
	return
}

func x2BoolResult(g *core.Graph, x *core.Node) (val, ok bool) {
	rs, isRet := x.N.(*ast.ReturnStmt)
	if !isRet || len(rs.Results) != 1 {
		return false, false
	}
	v := core.ConstVal(g.Info, rs.Results[0])
	if v == nil || v.Kind() != constant.Bool {
		return false, false
	}
	return constant.BoolVal(v), true
}

// x2OutermostLoopsContaining returns the outermost for/range statements of body
// that contain one of the nodes.
func x2OutermostLoopsContaining(body *ast.BlockStmt, nodes []*core.Node) []ast.Node {
	var out []ast.Node
	var visit func(n ast.Node)
	visit = func(n ast.Node) {
		ast.Inspect(n, func(x ast.Node) bool {
			switch x.(type) {
			case *ast.FuncLit:
				return false
			case *ast.ForStmt, *ast.RangeStmt:
				for _, nd := range nodes {
					if core.InRegion(nd, x) {
						out = append(out, x)
						return false
					}
				}
			}
			return true
		})
	}
	visit(body)
	return out
}

// x2BookAtomic: check-all, then mark-all, one critical section.
func x2BookAtomic(p *core.Prog, r *core.Report, f *core.Func, typ, field string) {
	const rule = "book-atomic"
	fv := core.LookupField(f.Pkg.Types, typ, field)
	if !r.Check(fv != nil, "anchor", tsm1+"."+typ+"."+field, "unresolved", f.Pos(), "field resolved") {
		return
	}
	info := f.Info()
	g := f.Graph()
	reads, writes := x2FieldAccessNodes(g, fv)
	if !r.Check(len(reads) >= 1 && len(writes) >= 1, rule, f.String(), "lookup-or-mark:absent", f.Pos(), fmt.Sprintf("%d lookup node(s) and %d mark node(s) of %s.%s", len(reads), len(writes), typ, field)) {
		return
	}
	isWrite := map[*core.Node]bool{}
	for _, w := range writes {
		isWrite[w] = true
	}
	// (a) a hit never leads to a mark or to a `true` result
	hits := 0
	for _, rd := range reads {
		as, ok := rd.N.(*ast.AssignStmt)
		if !ok || len(as.Lhs) != 2 || len(as.Rhs) != 1 {
			continue
		}
		ix, ok := ast.Unparen(as.Rhs[0]).(*ast.IndexExpr)
		if !ok || core.FieldOf(info, ix.X) != fv {
			continue
		}
		okVar := core.ObjOf(info, as.Lhs[1])
		if okVar == nil {
			continue
		}
		var starts []*core.Node
		for _, nd := range g.Nodes {
			for _, e := range nd.Succ {
				if core.AtomEdge(func(x ast.Expr, val bool) bool { return val && core.ObjOf(info, x) == okVar })(e) {
					starts = append(starts, e.To)
				}
			}
		}
		if len(starts) == 0 {
			continue
		}
		hits++
		after := g.Reach(starts, nil, nil)
		bad := false
		for nd := range after {
			if isWrite[nd] {
				bad = true
				r.Bad(rule, f.String(), "mark-after-hit", g.Line(nd), "a file is marked in use on a path on which another requested file was found already in use")
			}
			if v, isBool := x2BoolResult(g, nd); isBool && v {
				bad = true
				r.Bad(rule, f.String(), "true-after-hit", g.Line(nd), "success is reported although a requested file was found already in use")
			}
		}
		if !bad {
			r.Ok(rule, f.String(), g.Line(rd), "a hit in "+field+" leads only to `return false`, never to a mark")
		}
	}
	r.Check(hits >= 1, rule, f.String(), "hit-test:absent", f.Pos(), "the comma-ok lookup of "+field+" is branched on")
	// (b) `true` only after the mark loop, or for an empty request
	loops := x2OutermostLoopsContaining(f.Decl.Body, writes)
	var param types.Object
	if f.Decl.Type.Params != nil && len(f.Decl.Type.Params.List) == 1 && len(f.Decl.Type.Params.List[0].Names) == 1 {
		param = info.Defs[f.Decl.Type.Params.List[0].Names[0]]
	}
	if r.Check(len(loops) >= 1 && param != nil, rule, f.String(), "mark-loop:absent", f.Pos(), "mark loop and request parameter identified") {
		// the mark loop iterates the request
		for _, l := range loops {
			rs, isRange := l.(*ast.RangeStmt)
			r.Check(isRange && core.ObjOf(info, rs.X) == param, rule, f.String(), "mark-loop-source", p.Pos(l.Pos()), "the mark loop ranges over the request parameter "+param.Name())
		}
		reach := g.ReachFromEntry(core.InStmt(loops...), g.EmptyEdge(core.IsObj(info, param)))
		bad := false
		trues := 0
		for _, x := range g.Exits {
			if v, isBool := x2BoolResult(g, x); isBool && v {
				trues++
				if reach[x] {
					bad = true
					r.Bad(rule, f.String(), "true-without-mark", g.Line(x), "success can be reported without passing the mark loop for a non-empty request")
				}
			}
		}
		if !bad {
			r.Check(trues >= 1, rule, f.String(), "true-return:absent", f.Pos(), fmt.Sprintf("%d `return true` exit(s), each after the mark loop or for an empty request", trues))
		}
		// every requested file is marked: the mark loops have no skipping iteration
		for _, l := range loops {
			x2LosslessNest(p, r, f, g, l.(ast.Stmt), writes, rule, "mark-all")
		}
		// every requested file is looked up before the first mark
		rloops := x2OutermostLoopsContaining(f.Decl.Body, reads)
		for _, l := range rloops {
			rs, isRange := l.(*ast.RangeStmt)
			r.Check(isRange && core.ObjOf(info, rs.X) == param, rule, f.String(), "check-loop-source", p.Pos(l.Pos()), "the lookup loop ranges over the request parameter "+param.Name())
		}
		for _, l := range rloops {
			x2LosslessNest(p, r, f, g, l.(ast.Stmt), reads, rule, "check-all")
		}
		if r.Check(len(rloops) >= 1, rule, f.String(), "check-loop:absent", f.Pos(), "lookup loop identified") {
			pre := g.ReachFromEntry(core.InStmt(rloops...), nil)
			for _, w := range writes {
				r.Check(!pre[w], rule, f.String(), "check<mark", g.Line(w), "no file is marked before the lookup loop ran")
			}
		}
	}
	// (c) no unlock between the lookups and the marks
	unlockNodes := g.Select(func(n *core.Node) bool {
		if n.N == nil {
			return false
		}
		if _, isDefer := n.N.(*ast.DeferStmt); isDefer {
			return false
		}
		hit := false
		core.Walk(n.N, core.WalkOpts{}, func(x ast.Node) bool {
			if c, ok := x.(*ast.CallExpr); ok {
				if _, op, ok := core.LockOpOn(info, c); ok && (op == "Unlock" || op == "RUnlock") {
					hit = true
				}
			}
			return true
		})
		return hit
	})
	bad := false
	for _, u := range unlockNodes {
		fromRead := g.Reach(reads, nil, nil)
		if !fromRead[u] {
			continue
		}
		fwd := g.Reach([]*core.Node{u}, nil, nil)
		for _, w := range writes {
			if fwd[w] {
				bad = true
				r.Bad(rule, f.String(), "unlock-between-check-and-mark", g.Line(u), "the mutex is released between the in-use lookups and the marks; two callers can both pass the check")
			}
		}
	}
	if !bad {
		r.Ok(rule, f.String(), f.Pos(), "no mutex release between the lookups and the marks")
	}
}

// x2LosslessLoop: every iteration of loop l passes one of the sink nodes.
func x2LosslessLoop(p *core.Prog, r *core.Report, f *core.Func, g *core.Graph, l ast.Stmt, sinks []*core.Node, rule, what string) bool {
	// sinks inside nested loops count through the nested loop statement
	var regions []ast.Node
	body := core.LoopBody(l)
	if body == nil {
		r.Bad(rule, f.String(), what+":not-a-loop", p.Pos(l.Pos()), "expected a loop")
		return false
	}
	for _, nested := range x2OutermostLoopsContaining(body, sinks) {
		regions = append(regions, nested)
	}
	set := map[*core.Node]bool{}
	for _, s := range sinks {
		set[s] = true
	}
	acc := core.AnyOf(core.InStmt(regions...), func(n *core.Node) bool { return set[n] })
	gaps, ok := g.LoopGaps(l, acc, nil)
	if !ok {
		r.Bad(rule, f.String(), what+":loop-not-in-cfg", p.Pos(l.Pos()), "loop not found in the CFG")
		return false
	}
	for _, gp := range gaps {
		r.Bad(rule, f.String(), what+":skips:"+gp.Label, g.Line(gp.Via), "an iteration of the loop can end without reaching the "+what+" step")
	}
	if len(gaps) == 0 {
		r.Ok(rule, f.String(), p.Pos(l.Pos()), "every iteration passes the "+what+" step")
	}
	return len(gaps) == 0
}

// x2UnbookAll: Release/remove delete every file of every group.
func x2UnbookAll(p *core.Prog, r *core.Report, f *core.Func, typ, field string) {
	const rule = "book-atomic"
	fv := core.LookupField(f.Pkg.Types, typ, field)
	if !r.Check(fv != nil, "anchor", tsm1+"."+typ+"."+field, "unresolved", f.Pos(), "field resolved") {
		return
	}
	g := f.Graph()
	_, writes := x2FieldAccessNodes(g, fv)
	var dels []*core.Node
	for _, w := range writes {
		if len(core.CallsIn(g.Info, w.N, core.Builtin("delete"), core.WalkOpts{})) > 0 {
			dels = append(dels, w)
		}
	}
	if !r.Check(len(dels) >= 1, rule, f.String(), "delete:absent", f.Pos(), "deletes from "+field) {
		return
	}
	loops := x2OutermostLoopsContaining(f.Decl.Body, dels)
	if !r.Check(len(loops) == 1, rule, f.String(), "release-loop", f.Pos(), "one loop over the request deletes the files") {
		return
	}
	var param types.Object
	if f.Decl.Type.Params != nil && len(f.Decl.Type.Params.List) == 1 && len(f.Decl.Type.Params.List[0].Names) == 1 {
		param = f.Info().Defs[f.Decl.Type.Params.List[0].Names[0]]
	}
	rs, isRange := loops[0].(*ast.RangeStmt)
	r.Check(isRange && param != nil && core.ObjOf(f.Info(), rs.X) == param, rule, f.String(), "release-loop-source", p.Pos(loops[0].Pos()), "the release loop ranges over the request parameter")
	x2LosslessNest(p, r, f, g, loops[0].(ast.Stmt), dels, rule, "release-all")
}

// x2LosslessNest: loop l and every loop nested in it that carries a sink are lossless.
func x2LosslessNest(p *core.Prog, r *core.Report, f *core.Func, g *core.Graph, l ast.Stmt, sinks []*core.Node, rule, what string) {
	x2LosslessLoop(p, r, f, g, l, sinks, rule, what)
	ast.Inspect(core.LoopBody(l), func(x ast.Node) bool {
		switch in := x.(type) {
		case *ast.FuncLit:
			return false
		case *ast.RangeStmt, *ast.ForStmt:
			has := false
			for _, s := range sinks {
				if core.InRegion(s, in) {
					has = true
				}
			}
			if has {
				x2LosslessLoop(p, r, f, g, in.(ast.Stmt), sinks, rule, what+"(inner)")
			}
		}
		return true
	})
}

// ---------------------------------------------------------------- (4) contiguous accumulation

func x2IsNamed(t types.Type, name string) bool {
	if t == nil {
		return false
	}
	if pt, ok := t.(*types.Pointer); ok {
		t = pt.Elem()
	}
	nt, ok := t.(*types.Named)
	return ok && nt.Obj().Name() == name && nt.Obj().Pkg() != nil && core.Short(nt.Obj().Pkg().Path()) == tsm1
}

// x2GenLoop: is s a loop that walks a TsmGenerations value in order?
func x2GenLoop(info *types.Info, s ast.Stmt) bool {
	switch l := s.(type) {
	case *ast.RangeStmt:
		return x2IsNamed(info.TypeOf(l.X), "TsmGenerations")
	case *ast.ForStmt:
		if l.Cond == nil {
			return false
		}
		found := false
		ast.Inspect(l.Cond, func(x ast.Node) bool {
			if c, ok := x.(*ast.CallExpr); ok && core.Builtin("len")(info, c) && len(c.Args) == 1 && x2IsNamed(info.TypeOf(c.Args[0]), "TsmGenerations") {
				found = true
			}
			return true
		})
		return found
	}
	return false
}

type x2AccInstance struct {
	loop    ast.Stmt
	acc     *types.Var
	appends []*ast.AssignStmt
}

// x2Accumulators finds, per generation loop of fn, the local slices that receive
// `A = append(A, …generation data…)` with that loop as the innermost
// generation loop around the append.
func x2Accumulators(f *core.Func) []*x2AccInstance {
	info := f.Info()
	var out []*x2AccInstance
	var loops []ast.Stmt
	ast.Inspect(f.Decl.Body, func(x ast.Node) bool {
		if s, ok := x.(ast.Stmt); ok && x2GenLoop(info, s) {
			loops = append(loops, s)
		}
		return true
	})
	for _, l := range loops {
		body := core.LoopBody(l)
		// taint: the element of the loop and everything defined from it
		tainted := map[types.Object]bool{}
		if rs, ok := l.(*ast.RangeStmt); ok && rs.Value != nil {
			if o := core.ObjOf(info, rs.Value); o != nil {
				tainted[o] = true
			}
		}
		mentions := func(e ast.Node) bool {
			hit := false
			ast.Inspect(e, func(x ast.Node) bool {
				switch t := x.(type) {
				case *ast.Ident:
					if o := info.Uses[t]; o != nil && tainted[o] {
						hit = true
					}
				case *ast.IndexExpr:
					if x2IsNamed(info.TypeOf(t.X), "TsmGenerations") {
						hit = true
					}
				}
				return true
			})
			return hit
		}
		for changed := true; changed; {
			changed = false
			ast.Inspect(body, func(x ast.Node) bool {
				switch s := x.(type) {
				case *ast.FuncLit:
					return false
				case *ast.AssignStmt:
					if s.Tok == token.DEFINE && len(s.Lhs) == len(s.Rhs) {
						for i, lh := range s.Lhs {
							if o := core.ObjOf(info, lh); o != nil && !tainted[o] && mentions(s.Rhs[i]) {
								tainted[o] = true
								changed = true
							}
						}
					}
				case *ast.RangeStmt:
					if mentions(s.X) {
						for _, kv := range []ast.Expr{s.Key, s.Value} {
							if kv == nil {
								continue
							}
							if o := core.ObjOf(info, kv); o != nil && !tainted[o] {
								tainted[o] = true
								changed = true
							}
						}
					}
				}
				return true
			})
		}
		byAcc := map[*types.Var]*x2AccInstance{}
		var visit func(n ast.Node, innermost bool)
		visit = func(n ast.Node, _ bool) {
			ast.Inspect(n, func(x ast.Node) bool {
				switch s := x.(type) {
				case *ast.FuncLit:
					return false
				case *ast.ForStmt, *ast.RangeStmt:
					if x != ast.Node(body) && x2GenLoop(info, s.(ast.Stmt)) {
						return false // a nested generation loop owns its appends
					}
				case *ast.AssignStmt:
					if len(s.Lhs) != 1 || len(s.Rhs) != 1 {
						return true
					}
					c, ok := ast.Unparen(s.Rhs[0]).(*ast.CallExpr)
					if !ok || !core.Builtin("append")(info, c) || len(c.Args) < 2 {
						return true
					}
					v, ok := core.ObjOf(info, s.Lhs[0]).(*types.Var)
					if !ok || v.IsField() || core.ObjOf(info, c.Args[0]) != v {
						return true
					}
					if _, isSlice := v.Type().Underlying().(*types.Slice); !isSlice {
						return true
					}
					data := false
					for _, a := range c.Args[1:] {
						if mentions(a) {
							data = true
						}
					}
					if !data {
						return true
					}
					inst := byAcc[v]
					if inst == nil {
						inst = &x2AccInstance{loop: l, acc: v}
						byAcc[v] = inst
						out = append(out, inst)
					}
					inst.appends = append(inst.appends, s)
				}
				return true
			})
		}
		visit(body, true)
	}
	return out
}

// x2IsEmptyValue: e evaluates to an empty slice (nil, T{}, make(T,0[,c]), A[:0]).
func x2IsEmptyValue(info *types.Info, e ast.Expr) bool {
	e = ast.Unparen(e)
	if core.IsNilIdent(info, e) {
		return true
	}
	switch t := e.(type) {
	case *ast.CompositeLit:
		return len(t.Elts) == 0
	case *ast.CallExpr:
		if core.Builtin("make")(info, t) && len(t.Args) >= 2 {
			if v := core.ConstVal(info, t.Args[1]); v != nil {
				if n, ok := constant.Int64Val(v); ok && n == 0 {
					return true
				}
			}
		}
	case *ast.SliceExpr:
		if t.High != nil && t.Max == nil {
			if v := core.ConstVal(info, t.High); v != nil {
				if n, ok := constant.Int64Val(v); ok && n == 0 {
					return true
				}
			}
		}
	}
	return false
}

// x2ResetsOf selects nodes that assign an empty value to A.
func x2ResetsOf(g *core.Graph, a *types.Var) core.NodePred {
	return func(n *core.Node) bool {
		if n.N == nil {
			return false
		}
		hit := false
		core.Walk(n.N, core.WalkOpts{}, func(x ast.Node) bool {
			if as, ok := x.(*ast.AssignStmt); ok && len(as.Lhs) == len(as.Rhs) {
				for i, l := range as.Lhs {
					if core.ObjOf(g.Info, l) == a && x2IsEmptyValue(g.Info, as.Rhs[i]) {
						hit = true
					}
				}
			}
			return true
		})
		return hit
	}
}

// x2ClosingClosures: local variables bound exactly once to a function literal
// that leaves accumulator a empty on every exit (each exit is reached through
// a reset of a, or through the branch of a length test on which a is empty).
func x2ClosingClosures(f *core.Func, a *types.Var) map[types.Object]*ast.FuncLit {
	info := f.Info()
	bind := map[types.Object]*ast.FuncLit{}
	count := map[types.Object]int{}
	ast.Inspect(f.Decl.Body, func(x ast.Node) bool {
		as, ok := x.(*ast.AssignStmt)
		if !ok || len(as.Lhs) != len(as.Rhs) {
			return true
		}
		for i, l := range as.Lhs {
			if o := core.ObjOf(info, l); o != nil {
				if _, isFn := o.Type().Underlying().(*types.Signature); isFn {
					count[o]++
					if fl, ok := ast.Unparen(as.Rhs[i]).(*ast.FuncLit); ok {
						bind[o] = fl
					}
				}
			}
		}
		return true
	})
	out := map[types.Object]*ast.FuncLit{}
	for o, fl := range bind {
		if count[o] != 1 {
			continue
		}
		lg := f.LitGraph(fl)
		if lg.Entry == nil {
			continue
		}
		reach := lg.ReachFromEntry(x2ResetsOf(lg, a), lg.EmptyEdge(core.IsObj(info, a)))
		closes := len(lg.Exits) > 0
		for _, x := range lg.Exits {
			if x.Kind != core.KPanic && reach[x] {
				closes = false
			}
		}
		if closes {
			out[o] = fl
		}
	}
	return out
}

func x2Contiguous(p *core.Prog, r *core.Report) {
	const rule = "contiguous"
	instances := 0
	closers := 0
	for _, f := range p.Funcs(tsm1) {
		if f.Decl.Body == nil {
			continue
		}
		insts := x2Accumulators(f)
		if len(insts) == 0 {
			continue
		}
		r.Saw(f)
		info := f.Info()
		for _, in := range insts {
			instances++
			// the graph holding the loop: the function's or a literal's
			var g *core.Graph
			for _, cand := range f.Graphs() {
				if cand.LoopEntry(in.loop) != nil {
					g = cand
					break
				}
			}
			what := in.acc.Name()
			if g == nil {
				r.Bad(rule, f.String(), what+":loop-not-in-cfg", p.Pos(in.loop.Pos()), "generation loop not found in a CFG")
				continue
			}
			// accumulate region: the append statements, widened to the nested
			// (non-generation) loop that carries them (for _, f := range gen.files)
			var regions []ast.Node
			body := core.LoopBody(in.loop)
			for _, ap := range in.appends {
				var region ast.Node = ap
				ast.Inspect(body, func(x ast.Node) bool {
					switch x.(type) {
					case *ast.FuncLit:
						return false
					case *ast.ForStmt, *ast.RangeStmt:
						if x.Pos() <= ap.Pos() && ap.End() <= x.End() {
							region = x
							return false
						}
					}
					return true
				})
				regions = append(regions, region)
			}
			acc := core.InStmt(regions...)
			cl := x2ClosingClosures(f, in.acc)
			closers += len(cl)
			callsCloser := func(n *core.Node) bool {
				if n.N == nil || len(cl) == 0 {
					return false
				}
				hit := false
				core.Walk(n.N, core.WalkOpts{}, func(x ast.Node) bool {
					if c, ok := x.(*ast.CallExpr); ok {
						if _, is := cl[core.ObjOf(info, c.Fun)]; is {
							hit = true
						}
					}
					return true
				})
				return hit
			}
			closeP := core.AnyOf(x2ResetsOf(g, in.acc), callsCloser)
			gaps, ok := g.LoopGaps(in.loop, acc, closeP)
			if !ok {
				r.Bad(rule, f.String(), what+":loop-not-in-cfg", p.Pos(in.loop.Pos()), "generation loop not found in the CFG")
				continue
			}
			for _, gp := range gaps {
				detail := "an iteration over the ordered generations can skip a generation (" + gp.Label + ") while the group under construction `" + what + "` stays open: the next generation is appended to the same group, which is then not contiguous in generation order"
				if gp.Kind == "leave-then-accumulate" {
					detail = "the loop is left without accumulating and `" + what + "` is appended to again before it is closed"
				}
				r.Bad(rule, f.String(), what+":skip:"+gp.Label, g.Line(gp.Via), detail)
			}
			if len(gaps) == 0 {
				r.Ok(rule, f.String()+":"+what, p.Pos(in.loop.Pos()), fmt.Sprintf("every iteration either appends to %s or closes it (%d append site(s), %d closing closure(s))", what, len(in.appends), len(cl)))
			}
			// a closing closure must save the group before it resets it
			for o, fl := range cl {
				lg := f.LitGraph(fl)
				saves := func(n *core.Node) bool {
					if n.N == nil {
						return false
					}
					hit := false
					core.Walk(n.N, core.WalkOpts{}, func(x ast.Node) bool {
						if c, ok := x.(*ast.CallExpr); ok && core.Builtin("append")(info, c) {
							for _, a := range c.Args[1:] {
								if core.ObjOf(info, a) == in.acc {
									hit = true
								}
							}
						}
						return true
					})
					return hit
				}
				pre := lg.ReachFromEntry(saves, nil)
				okSave := len(lg.Select(saves)) > 0
				for _, rn := range lg.Select(x2ResetsOf(lg, in.acc)) {
					if pre[rn] {
						okSave = false
					}
				}
				r.Check(okSave, rule, f.String(), what+":"+o.Name()+":save<reset", p.Pos(fl.Pos()), "the closing closure "+o.Name()+" appends the finished group to the result before it resets "+what)
			}
		}
	}
	r.Check(instances >= 6, rule, tsm1, "instances:count", "-", fmt.Sprintf("%d (generation loop, accumulator) instances found (>= 6 confirmed by reading: groupAdjacentGenerations, PlanLevel, PlanOptimize, Plan x3)", instances))
	r.Check(closers >= 2, rule, tsm1, "closers:count", "-", fmt.Sprintf("%d closing closures proven (>= 2: moveToNextGroup in groupAdjacentGenerations and in Plan)", closers))
}

// ---------------------------------------------------------------- (5)

func x2GenerationsSorted(p *core.Prog, r *core.Report) {
	const rule = "generations-sorted"
	if f := r.Need(p, tsm1, "DefaultPlanner.FindGenerations"); f != nil {
		g := f.Graph()
		sorted := call(tsm1 + ".TsmGenerations.IsSorted")
		exempt := core.AtomEdge(func(x ast.Expr, val bool) bool {
			c, trueBranch := x2CallCond(f, x, sorted)
			return c != nil && val == trueBranch
		})
		core.RuleMustPassN(r, f, g, rule, "sort.Sort", g.Calling(call("sort.Sort", "sort.Stable", "slices.SortFunc", "slices.SortStableFunc")), exempt)
		// the sorted value is the returned one
		for _, c := range core.AllCalls(f.Info(), f.Decl.Body, call("sort.Sort", "sort.Stable")) {
			if len(c.Args) != 1 {
				continue
			}
			so := core.ObjOf(f.Info(), c.Args[0])
			for _, x := range g.Exits {
				if rs, ok := x.N.(*ast.ReturnStmt); ok && len(rs.Results) == 1 {
					r.Check(so != nil && core.ObjOf(f.Info(), rs.Results[0]) == so, rule, f.String(), "sorted-value-returned", g.Line(x), "the slice that is sorted is the one returned")
				}
			}
		}
	}
	if f := r.Need(p, tsm1, "TsmGenerations.Less"); f != nil {
		info := f.Info()
		idF := core.LookupField(f.Pkg.Types, "tsmGeneration", "id")
		ok := false
		var ps []types.Object
		if f.Decl.Type.Params != nil {
			for _, fl := range f.Decl.Type.Params.List {
				for _, nm := range fl.Names {
					ps = append(ps, info.Defs[nm])
				}
			}
		}
		ast.Inspect(f.Decl.Body, func(x ast.Node) bool {
			rs, isRet := x.(*ast.ReturnStmt)
			if !isRet || len(rs.Results) != 1 || len(ps) != 2 {
				return true
			}
			be, isBin := ast.Unparen(rs.Results[0]).(*ast.BinaryExpr)
			if !isBin {
				return true
			}
			side := func(e ast.Expr) types.Object {
				se, isSel := ast.Unparen(e).(*ast.SelectorExpr)
				if !isSel || core.FieldOf(info, se) != idF || idF == nil {
					return nil
				}
				ix, isIx := ast.Unparen(se.X).(*ast.IndexExpr)
				if !isIx {
					return nil
				}
				return core.ObjOf(info, ix.Index)
			}
			l, rr := side(be.X), side(be.Y)
			if (be.Op == token.LSS && l == ps[0] && rr == ps[1]) || (be.Op == token.GTR && l == ps[1] && rr == ps[0]) {
				ok = true
			}
			return true
		})
		r.Check(ok, rule, f.String(), "orders-by-id", f.Pos(), "Less(i,j) is a[i].id < a[j].id")
	}
}

// ---------------------------------------------------------------- (6) engine side

func x2EngineRelease(p *core.Prog, r *core.Report) {
	const rule = "release-pairing"
	release := call(tsm1 + ".CompactionPlanner.Release")
	apply := call(tsm1 + ".compactionStrategy.Apply")
	groupF := (*types.Var)(nil)
	if pk := p.Pkg(tsm1); pk != nil {
		groupF = core.LookupField(pk.Types, "compactionStrategy", "group")
	}
	r.Check(groupF != nil, "anchor", tsm1+".compactionStrategy.group", "unresolved", "-", "field resolved")

	starters := []string{"Engine.compactHiPriorityLevel", "Engine.compactLoPriorityLevel", "Engine.compactFull", "Engine.compactOptimize"}
	starterSet := map[*types.Func]bool{}
	for _, n := range starters {
		f := r.Need(p, tsm1, n)
		if f == nil {
			continue
		}
		starterSet[f.Obj] = true
		info := f.Info()
		g := f.Graph()
		// the goroutine
		var gos []*core.Node
		var lit *ast.FuncLit
		for _, nd := range g.Nodes {
			if gs, ok := nd.N.(*ast.GoStmt); ok {
				gos = append(gos, nd)
				lit, _ = ast.Unparen(gs.Call.Fun).(*ast.FuncLit)
			}
		}
		if !r.Check(len(gos) == 1 && lit != nil, rule, f.String(), "goroutine", f.Pos(), "exactly one `go func(){…}()` statement") {
			continue
		}
		lg := f.LitGraph(lit)
		core.RuleMustPassN(r, f, lg, rule, "CompactionPlan.Release", core.AnyOf(lg.Calling(release), lg.Deferring(release)), nil)
		if len(lg.Select(lg.Calling(release))) > 0 {
			core.RulePrecedeG(r, lg, f, rule, "strategy.Apply", apply, "CompactionPlan.Release", release)
		} else {
			// only deferred: it runs when the goroutine exits, i.e. after Apply
			r.Check(len(lg.Select(lg.Calling(apply))) > 0, rule, f.String(), "strategy.Apply:absent", f.Pos(), "Release is deferred and strategy.Apply runs in the goroutine body")
		}
		// Release is given the group of the strategy that was applied, and that
		// strategy was built from the group parameter
		var grp types.Object
		if f.Decl.Type.Params != nil {
			for _, fl := range f.Decl.Type.Params.List {
				for _, nm := range fl.Names {
					if o := info.Defs[nm]; o != nil && x2IsNamed(o.Type(), "CompactionGroup") && grp == nil {
						grp = o
					}
				}
			}
		}
		var strat types.Object
		for _, c := range core.AllCalls(info, lit.Body, apply) {
			if se, ok := ast.Unparen(c.Fun).(*ast.SelectorExpr); ok {
				strat = core.ObjOf(info, se.X)
			}
		}
		okArg := strat != nil
		nrel := 0
		for _, c := range core.AllCalls(info, lit.Body, release) {
			nrel++
			good := false
			if len(c.Args) == 1 {
				if cl, ok := ast.Unparen(c.Args[0]).(*ast.CompositeLit); ok && len(cl.Elts) == 1 {
					if se, ok := ast.Unparen(cl.Elts[0]).(*ast.SelectorExpr); ok && core.FieldOf(info, se) == groupF && core.ObjOf(info, se.X) == strat {
						good = true
					}
				}
			}
			if !good {
				okArg = false
			}
		}
		r.Check(okArg && nrel >= 1, rule, f.String(), "release-arg", f.Pos(), "Release is called with exactly {s.group} of the strategy s whose Apply ran")
		// s := e.xxxStrategy(grp, …) — once — and the constructor stores its group parameter
		built := false
		if strat != nil && grp != nil {
			n := 0
			var ctor *ast.CallExpr
			ast.Inspect(f.Decl.Body, func(x ast.Node) bool {
				if as, ok := x.(*ast.AssignStmt); ok && len(as.Lhs) == len(as.Rhs) {
					for i, l := range as.Lhs {
						if core.ObjOf(info, l) == strat {
							n++
							ctor, _ = ast.Unparen(as.Rhs[i]).(*ast.CallExpr)
						}
					}
				}
				return true
			})
			if n == 1 && ctor != nil {
				pi := -1
				for i, a := range ctor.Args {
					if core.ObjOf(info, a) == grp {
						pi = i
					}
				}
				if cf := p.FuncOf(core.Callee(info, ctor)); cf != nil && pi >= 0 {
					r.Saw(cf)
					built = x2CtorStoresGroup(cf, pi, groupF)
				}
			}
		}
		r.Check(built, rule, f.String(), "strategy-group", f.Pos(), "the strategy is built once from the group parameter and its constructor stores that parameter in compactionStrategy.group")
		// 'started' is reported exactly when the goroutine was launched
		after := g.Reach(core.After(gos[0], nil), nil, nil)
		before := g.ReachFromEntry(func(n *core.Node) bool { return n == gos[0] }, nil)
		okRet := true
		for _, x := range g.Exits {
			rs, isRet := x.N.(*ast.ReturnStmt)
			if !isRet || len(rs.Results) != 1 {
				continue
			}
			started, known := false, false
			if v, isBool := x2BoolResult(g, x); isBool {
				started, known = v, true
			} else if core.IsErrorType(g.Sig.Results().At(0).Type()) {
				started, known = core.IsNilIdent(info, rs.Results[0]), true
			}
			if !known {
				okRet = false
				r.Bad(rule, f.String(), "started-result-unknown", g.Line(x), "cannot tell whether this return reports 'started'")
				continue
			}
			if started && before[x] {
				okRet = false
				r.Bad(rule, f.String(), "started-without-goroutine", g.Line(x), "'started' is reported on a path that did not launch the compaction goroutine: the caller keeps the group out of ReleaseCompactionPlans and nobody releases it")
			}
			if !started && after[x] {
				okRet = false
				r.Bad(rule, f.String(), "not-started-after-goroutine", g.Line(x), "'not started' is reported after the goroutine was launched: the caller releases a group that is being compacted")
			}
		}
		if okRet {
			r.Ok(rule, f.String(), f.Pos(), "'started' is returned exactly on the paths that launched the goroutine")
		}
	}

	// Engine.compact
	if f := r.Need(p, tsm1, "Engine.compact"); f != nil {
		info := f.Info()
		g := f.Graph()
		planC := call(tsm1 + ".Engine.PlanCompactions")
		relAll := call(tsm1 + ".Engine.ReleaseCompactionPlans")
		relNodes := g.Select(g.Calling(relAll))
		planNodes := g.Select(g.Calling(planC))
		if r.Check(len(relNodes) >= 1 && len(planNodes) == 1, rule, f.String(), "plan/release:absent", f.Pos(), "PlanCompactions and ReleaseCompactionPlans are called") {
			pn := planNodes[0]
			// pending slices = results of PlanCompactions
			var pending []types.Object
			if as, ok := pn.N.(*ast.AssignStmt); ok {
				for _, l := range as.Lhs {
					pending = append(pending, core.ObjOf(info, l))
				}
			}
			r.Check(len(pending) == 5, rule, f.String(), "pending-slices", g.Line(pn), "the five results of PlanCompactions are bound to variables")
			// every path from planning passes ReleaseCompactionPlans before the next plan / exit
			rr := g.Reach(core.After(pn, nil), g.Calling(relAll), nil)
			bad := rr[pn]
			for _, x := range g.Exits {
				if rr[x] && x.Kind != core.KPanic {
					bad = true
				}
			}
			r.Check(!bad, rule, f.String(), "release-unstarted", g.Line(pn), "every path from PlanCompactions passes ReleaseCompactionPlans before planning again or returning")
			// the release call receives exactly the pending slices
			for _, rn := range relNodes {
				for _, c := range core.CallsIn(info, rn.N, relAll, core.WalkOpts{}) {
					seen := map[types.Object]bool{}
					for _, a := range c.Args {
						if o := core.ObjOf(info, a); o != nil {
							seen[o] = true
						}
					}
					all := len(c.Args) == len(pending)
					for _, o := range pending {
						if o == nil || !seen[o] {
							all = false
						}
					}
					r.Check(all, rule, f.String(), "release-args", g.Line(rn), "ReleaseCompactionPlans receives each of the five pending slices")
				}
			}
			// started <=> popped
			sites := 0
			for _, nd := range g.Nodes {
				if nd.N == nil {
					continue
				}
				for _, c := range core.CallsIn(info, nd.N, func(i *types.Info, c *ast.CallExpr) bool { return starterSet[core.Callee(i, c)] }, core.WalkOpts{}) {
					sites++
					callee := core.Callee(info, c).Name()
					// argument 0 is S[0].Group
					var S types.Object
					if len(c.Args) > 0 {
						S = x2PendingOfGroupExpr(f, info, c.Args[0])
					}
					isPending := false
					for _, o := range pending {
						if o == S && S != nil {
							isPending = true
						}
					}
					if !r.Check(isPending, rule, f.String(), "group-source:"+callee, g.Line(nd), "the group handed to "+callee+" is element 0 of a pending slice") {
						continue
					}
					var succ, fail *core.Edge
					if e, isCond := nd.N.(ast.Expr); isCond && ast.Unparen(e) == ast.Expr(c) && len(nd.Succ) == 2 {
						for _, ed := range nd.Succ {
							if ed.Branch {
								succ = ed
							} else {
								fail = ed
							}
						}
					} else if fe, se, ok := g.ErrEdges(nd); ok {
						succ, fail = se, fe
					}
					if !r.Check(succ != nil && fail != nil, rule, f.String(), "started-test:"+callee, g.Line(nd), "the result of "+callee+" is branched on") {
						continue
					}
					pop := func(n *core.Node) bool {
						as, ok := n.N.(*ast.AssignStmt)
						if !ok || len(as.Lhs) != 1 || len(as.Rhs) != 1 || core.ObjOf(info, as.Lhs[0]) != S {
							return false
						}
						sl, ok := ast.Unparen(as.Rhs[0]).(*ast.SliceExpr)
						if !ok || core.ObjOf(info, sl.X) != S || sl.High != nil || sl.Low == nil {
							return false
						}
						v := core.ConstVal(info, sl.Low)
						if v == nil {
							return false
						}
						k, ok := constant.Int64Val(v)
						return ok && k == 1
					}
					isRel := g.Calling(relAll)
					okPop := true
					for nn := range g.Reach([]*core.Node{succ.To}, pop, nil) {
						if isRel(nn) {
							okPop = false
						}
					}
					r.Check(okPop, rule, f.String(), "started-not-popped:"+callee+":"+S.Name(), g.Line(nd),
						"when "+callee+" started the compaction, the group is removed from "+S.Name()+" before ReleaseCompactionPlans (otherwise files of a running compaction are released and can be planned again)")
					okKeep := true
					for nn := range g.Reach([]*core.Node{fail.To}, isRel, nil) {
						if pop(nn) {
							okKeep = false
						}
					}
					r.Check(okKeep, rule, f.String(), "popped-not-started:"+callee+":"+S.Name(), g.Line(nd),
						"when "+callee+" did not start, the group stays in "+S.Name()+" and is released")
				}
			}
			r.Check(sites >= 5, rule, f.String(), "starter-sites:count", f.Pos(), fmt.Sprintf("%d call sites of compaction starters (>= 5 confirmed by reading)", sites))
		}
	}

	// ReleaseCompactionPlans releases every element of every slice
	if f := r.Need(p, tsm1, "Engine.ReleaseCompactionPlans"); f != nil {
		info := f.Info()
		g := f.Graph()
		gf := core.LookupField(f.Pkg.Types, "PlannedCompactionGroup", "Group")
		np := 0
		if f.Decl.Type.Params != nil {
			for _, fl := range f.Decl.Type.Params.List {
				for _, nm := range fl.Names {
					po := info.Defs[nm]
					np++
					var loop *ast.RangeStmt
					ast.Inspect(f.Decl.Body, func(x ast.Node) bool {
						if rs, ok := x.(*ast.RangeStmt); ok && core.ObjOf(info, rs.X) == po {
							loop = rs
						}
						return true
					})
					if !r.Check(loop != nil, rule, f.String(), "param-not-ranged:"+nm.Name, f.Pos(), "parameter "+nm.Name+" is iterated") {
						continue
					}
					val := core.ObjOf(info, loop.Value)
					var sinks []*core.Node
					for _, nd := range g.Nodes {
						if nd.N == nil || !core.InRegion(nd, loop.Body) {
							continue
						}
						for _, c := range core.CallsIn(info, nd.N, release, core.WalkOpts{}) {
							uses := false
							ast.Inspect(c, func(x ast.Node) bool {
								if se, ok := x.(*ast.SelectorExpr); ok && core.FieldOf(info, se) == gf && gf != nil && core.ObjOf(info, se.X) == val && val != nil {
									uses = true
								}
								return true
							})
							if uses {
								sinks = append(sinks, nd)
							}
						}
					}
					if r.Check(len(sinks) >= 1, rule, f.String(), "release-of-element:"+nm.Name, p.Pos(loop.Pos()), "each element's Group is passed to CompactionPlan.Release") {
						x2LosslessLoop(p, r, f, g, loop, sinks, rule, "release("+nm.Name+")")
					}
				}
			}
		}
		r.Check(np == 5, rule, f.String(), "params:count", f.Pos(), "five pending slices")
	}
}

// x2PendingOfGroupExpr: e is `S[0].Group` (or a local assigned once from it); returns S.
func x2PendingOfGroupExpr(f *core.Func, info *types.Info, e ast.Expr) types.Object {
	e = ast.Unparen(e)
	if o := core.ObjOf(info, e); o != nil {
		// local alias: theGroup := S[0].Group
		var rhs ast.Expr
		n := 0
		ast.Inspect(f.Decl.Body, func(x ast.Node) bool {
			if as, ok := x.(*ast.AssignStmt); ok && len(as.Lhs) == len(as.Rhs) {
				for i, l := range as.Lhs {
					if core.ObjOf(info, l) == o {
						n++
						rhs = as.Rhs[i]
					}
				}
			}
			return true
		})
		if n != 1 || rhs == nil {
			return nil
		}
		e = ast.Unparen(rhs)
	}
	se, ok := e.(*ast.SelectorExpr)
	if !ok || se.Sel.Name == "" {
		return nil
	}
	if fv := core.FieldOf(info, se); fv == nil || fv.Name() != "Group" {
		return nil
	}
	ix, ok := ast.Unparen(se.X).(*ast.IndexExpr)
	if !ok {
		return nil
	}
	v := core.ConstVal(info, ix.Index)
	if v == nil {
		return nil
	}
	if k, ok := constant.Int64Val(v); !ok || k != 0 {
		return nil
	}
	return core.ObjOf(info, ix.X)
}

// x2CtorStoresGroup: every compactionStrategy literal in cf has group: <parameter #pi>.
func x2CtorStoresGroup(cf *core.Func, pi int, groupF *types.Var) bool {
	info := cf.Info()
	var ps []types.Object
	if cf.Decl.Type.Params != nil {
		for _, fl := range cf.Decl.Type.Params.List {
			for _, nm := range fl.Names {
				ps = append(ps, info.Defs[nm])
			}
		}
	}
	if pi >= len(ps) {
		return false
	}
	lits, good := 0, 0
	ast.Inspect(cf.Decl.Body, func(x ast.Node) bool {
		cl, ok := x.(*ast.CompositeLit)
		if !ok || !x2IsNamed(info.TypeOf(cl), "compactionStrategy") {
			return true
		}
		lits++
		for _, el := range cl.Elts {
			if kv, ok := el.(*ast.KeyValueExpr); ok {
				if id, ok := kv.Key.(*ast.Ident); ok {
					if v, ok := info.Uses[id].(*types.Var); ok && v.Origin() == groupF && core.ObjOf(info, kv.Value) == ps[pi] {
						good++
					}
				}
			}
		}
		return true
	})
	return lits >= 1 && lits == good
}

// ---------------------------------------------------------------- (7)

func x2CompactorBook(p *core.Prog, r *core.Report, f *core.Func) {
	const rule = "compactor-book"
	info := f.Info()
	g := f.Graph()
	add := call(tsm1 + ".Compactor.add")
	comp := call(tsm1 + ".Compactor.compact")
	remove := call(tsm1 + ".Compactor.remove")
	var files types.Object
	if f.Decl.Type.Params != nil && len(f.Decl.Type.Params.List) > 0 && len(f.Decl.Type.Params.List[0].Names) > 0 {
		files = info.Defs[f.Decl.Type.Params.List[0].Names[0]]
	}
	argIs := func(c *ast.CallExpr, idx int) bool {
		return idx < len(c.Args) && files != nil && core.ObjOf(info, c.Args[idx]) == files
	}
	success := core.AtomEdge(func(x ast.Expr, val bool) bool {
		c, trueBranch := x2CallCond(f, x, add)
		return c != nil && argIs(c, 0) && val == trueBranch
	})
	cn := g.Select(g.Calling(comp))
	if !r.Check(len(cn) >= 1, rule, f.String(), "compact:absent", f.Pos(), "calls Compactor.compact") {
		return
	}
	reach := g.ReachFromEntry(nil, success)
	okAll := true
	for _, n := range cn {
		for _, c := range core.CallsIn(info, n.N, comp, core.WalkOpts{}) {
			if !argIs(c, 1) {
				okAll = false
				r.Bad(rule, f.String(), "compact-arg", g.Line(n), "the files compacted are not the files booked")
			}
		}
		if reach[n] {
			okAll = false
			r.Bad(rule, f.String(), "compact-without-add", g.Line(n), "Compactor.compact is reachable without the success branch of Compactor.add(files)")
		}
	}
	// remove is deferred (or called) after the booking on every path to compact
	rm := core.AnyOf(g.Deferring(remove), g.Calling(remove))
	var starts []*core.Node
	for _, nd := range g.Nodes {
		for _, e := range nd.Succ {
			if success(e) {
				starts = append(starts, e.To)
			}
		}
	}
	fromAdd := g.Reach(starts, g.Deferring(remove), nil)
	for _, x := range g.Exits {
		if fromAdd[x] && x.Kind != core.KPanic {
			okAll = false
			r.Bad(rule, f.String(), "remove-not-deferred", g.Line(x), "an exit after a successful add is reachable without `defer c.remove(files)`")
		}
	}
	if len(g.Select(rm)) == 0 {
		okAll = false
		r.Bad(rule, f.String(), "remove:absent", f.Pos(), "no Compactor.remove")
	}
	if okAll {
		r.Ok(rule, f.String(), f.Pos(), "compact(files) runs only between a successful add(files) and the deferred remove(files)")
	}
}

var _ = sort.Strings
