package rules

import (
	"fmt"
	"go/ast"
	"go/types"

	"verif/checker/core"
)

// C04 extension (m9): survivor-driven rules — nothing the compaction has read or
// written successfully may silently disappear from its result.
func init() {
	extend("C04", "(9) no-silent-loss: in Compactor.writeNewFiles a file whose Compactor.write reported no failure (no branch established err != nil / errors.Is / errors.As on its error) is appended to the result before the next write or any return, and after a roll (first result true) every path writes the next file before it returns; Compactor.compact reports success without writeNewFiles only on a branch that established that the reader list is empty; in tsmBatchKeyIterator.Next no loop over the per-file buffers k.buf is left early (no break/return/goto out of it), an iteration of the refill loop skips BlockIterator.Next only for a buffer found non-empty, and an iteration of the key-selection / gather loops skips the key test only for a buffer found empty; tsmBatchKeyIterator.Read yields an empty tuple without error only when k.merged was found empty.",
		nil, func(p *core.Prog, r *core.Report, tier string) {
			m9WriteNewFilesLoss(p, r)
			m9CompactWrites(p, r)
			m9NextLoops(p, r)
			m9ReadEmpty(p, r)
		})
}

// m9FailureFact: the fact establishes that the error variable v holds a failure:
// v != nil, errors.Is(v, …), errors.As(v, …), v == <something that is not nil>.
func m9FailureFact(info *types.Info, v types.Object) core.X1FactPred {
	isV := func(e ast.Expr) bool { return v != nil && core.ObjOf(info, e) == v }
	nonNil := core.X1NilFact(info, isV, false)
	errIsAs := call("errors.Is", "errors.As")
	return func(f core.X1Fact) bool {
		if nonNil(f) {
			return true
		}
		if c, ok := ast.Unparen(f.E).(*ast.CallExpr); ok && f.True && errIsAs(info, c) && len(c.Args) == 2 && isV(ast.Unparen(c.Args[0])) {
			return true
		}
		if x, y, rel, ok := core.X1CmpAtom(f.E); ok && (rel == core.X1EQ) == f.True && (rel == core.X1EQ || rel == core.X1NE) {
			if isV(x) && !core.IsNilIdent(info, y) || isV(y) && !core.IsNilIdent(info, x) {
				return true
			}
		}
		return false
	}
}

func m9WriteNewFilesLoss(p *core.Prog, r *core.Report) {
	const rule = "no-silent-loss"
	f := r.Need(p, tsm1, "Compactor.writeNewFiles")
	if f == nil {
		return
	}
	info, g := f.Info(), f.Graph()
	wC := call("tsdb/engine/tsm1.Compactor.write")
	ws := g.Select(g.Calling(wC))
	if len(ws) != 1 {
		return // reported by output-accounting
	}
	W := ws[0]
	as, ok := W.N.(*ast.AssignStmt)
	if !r.Check(ok && len(as.Lhs) == 2, rule, f.String(), "write-results:absent", g.Line(W), "Compactor.write's (roll, err) results are assigned to two variables") {
		return
	}
	roll, errV := core.ObjOf(info, as.Lhs[0]), core.ObjOf(info, as.Lhs[1])
	name := x1ArgObj(info, core.CallsIn(info, W.N, wC, core.WalkOpts{})[0], 0)
	if !r.Check(roll != nil && errV != nil && name != nil, rule, f.String(), "write-results:absent", g.Line(W), "roll flag, error and file name are local variables") {
		return
	}
	recorded := g.X1CallingWith(core.Builtin("append"), func(c *ast.CallExpr) bool {
		return len(c.Args) == 2 && core.ObjOf(info, c.Args[1]) == name
	})
	failed := core.X1FactEdge(core.M9ResolvedFact(info, f.Decl.Body, m9FailureFact(info, errV)))
	lost := g.Reach(core.X1Succs(W), recorded, failed)
	bad := ""
	if lost[W] {
		bad = g.Line(W)
	}
	for _, x := range core.X1ExitsIn(lost) {
		if x.Kind != core.KPanic {
			bad = g.Line(x)
		}
	}
	r.Check(bad == "", rule, f.String(), "successful-write-recorded", firstNonEmpty12(bad, g.Line(W)),
		"after Compactor.write every path that has not established a failure of its error (err != nil, errors.Is, errors.As) appends the written file to the result before the next write or return (a complete output file is never dropped or removed)")
	// after a roll the next file is written
	rolled := core.X1BoolEdge(core.X1IsObj(info, roll), true)
	var starts []*core.Node
	for _, n := range g.Nodes {
		for _, e := range n.Succ {
			if rolled(e) {
				starts = append(starts, e.To)
			}
		}
	}
	isW := func(n *core.Node) bool { return n == W }
	bad = ""
	for _, x := range core.X1ExitsIn(g.Reach(starts, isW, nil)) {
		if x.Kind != core.KPanic {
			bad = g.Line(x)
		}
	}
	r.Check(len(starts) >= 1 && bad == "", rule, f.String(), "roll-continues", firstNonEmpty12(bad, g.Line(W)),
		"on the branch where Compactor.write reported that more data is pending (roll == true) every path reaches the next Compactor.write before the function returns (the rest of the iterator is not silently dropped)")
}

func m9CompactWrites(p *core.Prog, r *core.Report) {
	const rule = "no-silent-loss"
	f := r.Need(p, tsm1, "Compactor.compact")
	if f == nil {
		return
	}
	info, g := f.Info(), f.Graph()
	newIt := x1FirstCall(f, call("tsdb/engine/tsm1.NewTSMBatchKeyIterator"))
	if newIt == nil || len(newIt.Args) != 6 {
		return // reported by compact-inputs
	}
	trs := x1ArgObj(info, newIt, 5)
	if trs == nil {
		return
	}
	core.RuleMustPassN(r, f, g, rule, "writeNewFiles (unless no reader was opened)", g.Calling(call("tsdb/engine/tsm1.Compactor.writeNewFiles")), core.M9EmptyEdge(info, f.Decl.Body, core.IsObj(info, trs), true))
}

func m9NextLoops(p *core.Prog, r *core.Report) {
	const rule = "no-silent-loss"
	f := r.Need(p, tsm1, "tsmBatchKeyIterator.Next")
	if f == nil {
		return
	}
	info, g := f.Info(), f.Graph()
	pk := f.Pkg.Types
	bufF := core.LookupField(pk, "tsmBatchKeyIterator", "buf")
	blkKey := core.LookupField(pk, "block", "key")
	if bufF == nil || blkKey == nil {
		return
	}
	loops := core.RangeOver(f.Decl.Body, func(e ast.Expr) bool { return core.FieldOf(info, e) == bufF })
	if !r.Check(len(loops) >= 3, rule, f.String(), "buffer-loops:count", f.Pos(), fmt.Sprintf("%d loops over k.buf (refill, key selection, gather: 3 confirmed by reading)", len(loops))) {
		return
	}
	iterNext := call("tsdb/engine/tsm1.BlockIterator.Next")
	for i, loop := range loops {
		// the buffer of this iteration: the range value, or k.buf[<range key>]
		var kObj, vObj types.Object
		if loop.Key != nil {
			kObj = core.ObjOf(info, loop.Key)
		}
		if loop.Value != nil {
			vObj = core.ObjOf(info, loop.Value)
		}
		isBuf := func(e ast.Expr) bool {
			e = ast.Unparen(e)
			if vObj != nil && core.ObjOf(info, e) == vObj {
				return true
			}
			if ix, ok := e.(*ast.IndexExpr); ok && kObj != nil {
				return core.FieldOf(info, ix.X) == bufF && core.ObjOf(info, ix.Index) == kObj
			}
			return false
		}
		what := fmt.Sprintf("loop#%d", i+1)
		// (i) never left early
		esc, ok := g.IterEscapes12(loop, nil, nil)
		if !r.Check(ok, rule, f.String(), what+":unresolved", p.Pos(loop.Pos()), "loop found in the control-flow graph") {
			continue
		}
		bad := ""
		for _, e := range esc {
			if e.Kind != "next" {
				bad = g.Line(e.Via) + " (" + e.Kind + ")"
			}
		}
		r.Check(bad == "", rule, f.String(), what+":left-early", firstNonEmpty12(bad, p.Pos(loop.Pos())),
			"the loop over the per-file buffers visits every input file: no break, return or jump leaves it (a file behind the exit point would be left out of this round's key selection and merge)")
		// (ii) an iteration skips its work only for the right kind of buffer
		refill := len(core.AllCalls(info, loop.Body, iterNext)) > 0
		var work core.NodePred
		var exempt core.EdgePred
		var why string
		if refill {
			work = g.Calling(iterNext)
			exempt = core.M9EmptyEdge(info, f.Decl.Body, isBuf, false)
			why = "an iteration of the refill loop reaches the next one without BlockIterator.Next only when the file's buffer was found non-empty"
		} else {
			work = func(n *core.Node) bool {
				e, isExpr := n.N.(ast.Expr)
				return isExpr && len(n.Succ) == 2 && core.X1MentionsField(info, e, blkKey)
			}
			exempt = core.M9EmptyEdge(info, f.Decl.Body, isBuf, true)
			why = "an iteration reaches the next one without testing the buffered block's key only when the file's buffer was found empty"
		}
		if len(g.Select(func(n *core.Node) bool { return core.InRegion(n, loop.Body) && work(n) })) == 0 {
			r.Bad(rule, f.String(), what+":work:absent", p.Pos(loop.Pos()), "the loop neither refills the buffer nor tests the buffered key")
			continue
		}
		esc, _ = g.IterEscapes12(loop, work, exempt)
		bad = ""
		for _, e := range esc {
			if e.Kind == "next" {
				bad = g.Line(e.Via)
			}
		}
		r.Check(bad == "", rule, f.String(), what+":input-skipped", firstNonEmpty12(bad, p.Pos(loop.Pos())), why)
	}
}

func m9ReadEmpty(p *core.Prog, r *core.Report) {
	const rule = "no-silent-loss"
	f := r.Need(p, tsm1, "tsmBatchKeyIterator.Read")
	if f == nil {
		return
	}
	info, g := f.Info(), f.Graph()
	mergedF := core.LookupField(f.Pkg.Types, "tsmBatchKeyIterator", "merged")
	if mergedF == nil {
		return
	}
	reach := g.ReachFromEntry(nil, core.M9EmptyEdge(info, f.Decl.Body, func(e ast.Expr) bool { return core.FieldOf(info, e) == mergedF }, true))
	bad, n := "", 0
	for _, x := range g.Exits {
		rs, ok := x.N.(*ast.ReturnStmt)
		if !ok || len(rs.Results) != 5 {
			continue
		}
		// an error value built in place (errCompactionAborted{}) is a definite failure
		last := ast.Unparen(rs.Results[4])
		if u, isU := last.(*ast.UnaryExpr); isU {
			last = ast.Unparen(u.X)
		}
		if _, isLit := last.(*ast.CompositeLit); isLit {
			continue
		}
		n++
		if reach[x] && core.IsNilIdent(info, rs.Results[0]) {
			bad = g.Line(x)
		}
	}
	r.Check(n >= 1 && bad == "", rule, f.String(), "empty-only-if-nothing-merged", firstNonEmpty12(bad, f.Pos()),
		"Read returns a nil key/block without a definite error only on a branch that established len(k.merged) == 0 (Compactor.write skips empty blocks silently)")
}
