package rules

import (
	"verif/checker/core"
)

// One compiled predicate is reused for every series of a delete. Everything a
// key feeds into the shared state (predicateState.Set) must be cleared again by
// Reset before the next key; otherwise a tag value of the previous series
// satisfies the predicate for a series that does not carry that tag.
func init() {
	extend("C16", "reset-completeness: every field of predicateState that Set writes for a key (the per-tag values) is re-initialised by Reset, Reset advances the generation that invalidates the node caches, and predicateMatcher.Matches calls Reset before feeding the key.",
		nil, func(p *core.Prog, r *core.Report, tier string) {
			const rule = "reset-completeness"
			pk := p.Pkg(tsm1)
			set := r.Need(p, tsm1, "predicateState.Set")
			reset := r.Need(p, tsm1, "predicateState.Reset")
			if pk == nil || set == nil || reset == nil {
				return
			}
			st := core.StructOf(pk.Types, "predicateState")
			if !r.Check(st != nil, "anchor", "tsm1.predicateState", "unresolved", "-", "struct resolved") {
				return
			}
			_, setW := core.FieldsTouched(set.Info(), set.Decl.Body, st)
			_, resetW := core.FieldsTouched(reset.Info(), reset.Decl.Body, st)
			n := 0
			for fld := range setW {
				n++
				r.Check(resetW[fld], rule, reset.String(), "field-not-reset:"+fld, reset.Pos(), "predicateState."+fld+" (written per key by Set) is cleared by Reset")
			}
			r.Check(n >= 1, rule, set.String(), "set-writes:absent", set.Pos(), "Set stores the key's tag values in the shared state")
			r.Check(resetW["gen"], rule, reset.String(), "generation-not-advanced", reset.Pos(), "Reset advances the generation (invalidates every node's cached answer)")
			if m := r.Need(p, tsm1, "predicateMatcher.Matches"); m != nil {
				g := m.Graph()
				core.RulePrecede(r, m, rule, "predicateState.Reset", call("tsdb/engine/tsm1.predicateState.Reset"), "predicateState.Set", call("tsdb/engine/tsm1.predicateState.Set"))
				_ = g
			}
		})
}
