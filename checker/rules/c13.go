package rules

import (
	"fmt"
	"go/ast"
	"go/constant"
	"go/token"
	"go/types"
	"sort"
	"strings"

	"verif/checker/core"
)

// C13 — series ids are unique, stable and never reused.
//
// All tables below were confirmed by reading tsdb/series_partition.go,
// series_index.go, series_segment.go and series_file.go.

func init() {
	register(&Prop{
		ID:       "C13",
		Patterns: []string{"./tsdb"},
		Level:    "other",
		Explanation: "Necessary-condition rules for the series-id allocator of the series file, decided on type-resolved callees, CFG paths and the lock-state dataflow: " +
			"(1) guarded-by: SeriesPartition.{seq,segments,index,closed,compacting} are only touched under p.mu (writes under the write lock; insert/writeLogEntry/createSegment/seriesKeyByOffset/activeSegment are checked at their call sites), and every method called on the partition-owned SeriesIndex is called with p.mu held (mutators Insert/Delete/Recover/Open/Close under the write lock); " +
			"(2) double-checked create: in SeriesPartition.CreateSeriesListIfNotExists every p.insert is, in every loop iteration, preceded by a FindIDBySeriesKey that ran under the WRITE lock on the same key and p.segments, is reachable only on the 'not found' (==0) outcome of that lookup and of the per-batch duplicate map, only for keys routed to this partition, the write lock is not dropped before the function returns, the new id is recorded in the duplicate map and queued for the index on every path that continues; " +
			"(3) publish order: segment Flush (bufio flush + fsync, errors propagated) precedes index.Insert and every success return after an insert; " +
			"(4) monotone sequence: the only writers of SeriesPartition.seq are insert (seq += SeriesFilePartitionN on every success path, after the log write; the id written, returned and read from seq are the same variable) and openSegments (seq = max+SeriesFilePartitionN only when max >= seq, max taken from SeriesSegment.MaxSeriesID), the constructor seeds seq from the partition id, and id→partition / key→partition routing and the partition count use the same constant; " +
			"(5) deletes are permanent: DeleteSeriesID writes a tombstone entry (tombstone flag, the caller's id) before index.Delete and never after a failed write; FindIDBySeriesKey returns a non-zero id only on the !IsDeleted outcome; the index compactor inserts an entry into the rebuilt maps only on the !IsDeleted outcome; SeriesIndex.Recover replays exactly the entries beyond maxOffset; " +
			"(6) entry-flag tables: every switch over a SeriesEntry*Flag constant handles all flags, every emitter passes a declared flag, execEntry's arms update the maps they own; " +
			"(7) index compaction swap: compactIndexTo (header, both maps, fsync; all errors propagated) precedes a single critical section under p.mu that does index.Close < rename(tmp,index path) < index.Open < index.Recover; " +
			"(8) open/recovery order: openSegments < active segment InitForWrite < index.Open < index.Recover with all errors propagated; InitForWrite stores the scanned valid size before seeking the write handle to it; SeriesSegment.WriteLogEntry derives the entry offset before advancing size and advances size on every success path.",
		NotCovered:  "value-level correctness of the hash maps (rhh probing), byte-level decoding of torn segment entries, that MaxSeriesID sees every id ever issued after an offline segment rewrite (SeriesSegment.CompactToPath), directory fsync after the index rename (the index is derived data), equality of the recovered key↔id mapping with the acknowledged one.",
		Assumptions: []string{"os.File.Sync makes segment data durable", "a rule passing means the mechanism is in place on every CFG path, not that ids are value-correct"},
		Run:         runC13,
	})
}

// ---- lock table (E2)

var seriesPartitionLocks = &core.LockRules{
	Pkg: tsdbP,
	Guards: []core.Guard{
		{Type: "SeriesPartition", Fields: []string{"seq", "segments", "index", "closed", "compacting"}, Locks: []string{"mu"}},
	},
	CallerHolds: map[string]map[string]byte{
		"SeriesPartition.insert":            {"mu": 'W'},
		"SeriesPartition.writeLogEntry":     {"mu": 'W'},
		"SeriesPartition.createSegment":     {"mu": 'W'},
		"SeriesPartition.seriesKeyByOffset": {"mu": 'R'},
		"SeriesPartition.activeSegment":     {"mu": 'R'},
	},
	ExemptFunc: map[string]string{
		"SeriesPartition.Open":            "runs on a partition that SeriesFile.Open (or the offline build_tsi tool) has just constructed and not yet published",
		"SeriesPartition.openSegments":    "only called from SeriesPartition.Open (asserted by rule seq-monotone/openSegments-callers)",
		"SeriesPartition.Index":           "test/offline-tool accessor (cmd/influxd/inspect/build_tsi); no caller in the server; observer only, cannot influence id allocation",
		"SeriesPartition.Segments":        "test/offline-tool accessor (cmd/influxd/inspect/build_tsi); no caller in the server; observer only",
		"SeriesPartition.FileSize":        "only reached from SeriesFile.FileSize which has no non-test caller; observer only, cannot influence id allocation",
		"SeriesPartition.AppendSeriesIDs": "only reached from SeriesFile.SeriesIDIterator, used by the offline dump_tsi tool; observer only, cannot influence id allocation",
	},
	ExemptAccess: map[string]string{},
}

// SeriesIndex methods that mutate the index (need the partition write lock).
var seriesIndexMutators = map[string]bool{"Insert": true, "Delete": true, "Recover": true, "Open": true, "Close": true}

func runC13(p *core.Prog, r *core.Report, tier string) {
	pk := p.Pkg(tsdbP)
	if pk == nil {
		r.Bad("anchor", tsdbP, "unresolved", "-", "package not loaded")
		return
	}
	c13Locks(p, r)
	c13Create(p, r)
	c13Seq(p, r)
	c13Tombstone(p, r)
	c13Flags(p, r)
	c13Compact(p, r)
	c13Open(p, r)
	c13Segment(p, r)
}

// ---------------------------------------------------------------- helpers

// c13Anchors: the call classes the C13 rule tables talk about. They are never
// spliced when a function is inlined for the path / error rules; every other
// same-package helper (or local closure) is, so that extracting a run of
// statements into a helper does not change a verdict.
var c13Anchors = call(
	"tsdb.SeriesPartition.insert", "tsdb.SeriesPartition.writeLogEntry", "tsdb.SeriesPartition.createSegment", "tsdb.SeriesPartition.openSegments",
	"tsdb.SeriesPartition.Open", "tsdb.SeriesPartition.CreateSeriesListIfNotExists", "tsdb.SeriesPartition.DeleteSeriesID", "tsdb.NewSeriesPartition",
	"tsdb.SeriesIndex.Insert", "tsdb.SeriesIndex.Delete", "tsdb.SeriesIndex.Recover", "tsdb.SeriesIndex.Open", "tsdb.SeriesIndex.Close", "tsdb.SeriesIndex.execEntry",
	"tsdb.SeriesIndex.FindIDBySeriesKey", "tsdb.SeriesIndex.IsDeleted", "tsdb.SeriesIndex.FindOffsetByID",
	"tsdb.SeriesSegment.Flush", "tsdb.SeriesSegment.Open", "tsdb.SeriesSegment.InitForWrite", "tsdb.SeriesSegment.CloseForWrite", "tsdb.SeriesSegment.WriteLogEntry",
	"tsdb.SeriesSegment.ForEachEntry", "tsdb.SeriesSegment.MaxSeriesID", "tsdb.CreateSeriesSegment", "tsdb.SeriesSegmentHeader.WriteTo", "tsdb.SeriesIndexHeader.WriteTo",
	"tsdb.AppendSeriesEntry", "tsdb.ReadSeriesEntry", "tsdb.IsValidSeriesEntryFlag", "tsdb.JoinSeriesOffset",
	"tsdb.SeriesPartitionCompactor.compactIndexTo", "tsdb.SeriesPartitionCompactor.insertKeyIDMap", "tsdb.SeriesPartitionCompactor.insertIDOffsetMap",
	"tsdb.SeriesFile.SeriesKeysPartitionIDs", "tsdb.SeriesFile.SeriesIDPartitionID", "tsdb.SeriesFile.SeriesKeyPartitionID",
)

// (no cache: the fault enumerator evaluates mutants concurrently)
func c13Inl(f *core.Func) *core.Inlined { return f.Inline(c13Anchors) }

// c13NotAfterFailureG is core.RuleNotAfterFailure on an explicit (inlined) graph;
// an error forwarded by `return a(…)` inside a spliced helper is followed to the
// test at the call site.
func c13NotAfterFailureG(r *core.Report, g *core.Graph, f *core.Func, rule, aName string, a core.Matcher, bName string, b core.Matcher) bool {
	as := g.Select(g.Calling(a))
	if len(as) == 0 {
		r.Bad(rule, f.String(), aName+":absent", f.Pos(), "no call of "+aName)
		return false
	}
	ok := true
	found := 0
	for _, n := range as {
		fail, _, has, exit := g.M4ErrEdgesVia(n)
		if !has {
			continue
		}
		found++
		if exit {
			continue
		}
		reach := g.Reach([]*core.Node{fail.To}, nil, nil)
		for _, bn := range g.Select(g.Calling(b)) {
			if reach[bn] {
				r.Bad(rule, f.String(), bName+"-after-failed-"+aName, g.Line(bn), fmt.Sprintf("%s is reachable from the failure branch of %s (%s)", bName, aName, g.Line(n)))
				ok = false
			}
		}
	}
	if found == 0 {
		r.Bad(rule, f.String(), aName+":unchecked", g.Line(as[0]), "the error of "+aName+" is not tested by a following `!= nil` branch")
		return false
	}
	if ok {
		r.Ok(rule, f.String(), g.Line(as[0]), fmt.Sprintf("no %s on the failure branch of %s", bName, aName))
	}
	return ok
}

func x4Recv(f *core.Func) string {
	if f.Decl.Recv != nil && len(f.Decl.Recv.List) == 1 && len(f.Decl.Recv.List[0].Names) == 1 {
		return f.Decl.Recv.List[0].Names[0].Name
	}
	return ""
}

func x4Calls(g *core.Graph, m core.Matcher) []*core.Node { return g.Select(g.Calling(m)) }

func x4Lines(g *core.Graph, ns []*core.Node) string {
	var ls []string
	for _, n := range ns {
		ls = append(ls, g.Line(n))
	}
	return core.Join(ls)
}

// x4Param returns the i-th parameter object of f.
func x4Param(f *core.Func, name string) types.Object {
	if f.Decl.Type.Params == nil {
		return nil
	}
	for _, fl := range f.Decl.Type.Params.List {
		for _, n := range fl.Names {
			if n.Name == name {
				return f.Info().Defs[n]
			}
		}
	}
	return nil
}

// x4TheCall returns the first call of class m inside node n.
func x4TheCall(g *core.Graph, n *core.Node, m core.Matcher) *ast.CallExpr {
	cs := core.CallsIn(g.Info, n.N, m, core.WalkOpts{})
	if len(cs) == 0 {
		return nil
	}
	return cs[0]
}

// x4Norm renders an argument for comparison: a local variable with exactly one
// definition `v := E` is replaced by E, so `key` (key := keys[i]) and `keys[i]`
// compare equal.
func x4Norm(f *core.Func, e ast.Expr) string {
	e = ast.Unparen(e)
	if id, ok := e.(*ast.Ident); ok {
		o := core.ObjOf(f.Info(), id)
		var def ast.Expr
		n := 0
		ast.Inspect(f.Decl.Body, func(x ast.Node) bool {
			as, ok := x.(*ast.AssignStmt)
			if !ok {
				return true
			}
			for i, l := range as.Lhs {
				if core.ObjOf(f.Info(), l) == o && o != nil {
					n++
					if len(as.Lhs) == len(as.Rhs) {
						def = as.Rhs[i]
					}
				}
			}
			return true
		})
		if n == 1 && def != nil {
			return core.ExprStr(def)
		}
	}
	return core.ExprStr(e)
}

// x4OnlyOnSuccess: every target is reachable from the entry only through the
// `err == nil` edge of the error test that follows call node n (so a target placed
// between the call and its test, or on the failure branch, is reported). exempt
// edges are cut as well (paths through them need not pass the call at all).
func x4OnlyOnSuccess(g *core.Graph, n *core.Node, targets []*core.Node, exempt core.EdgePred) (ok, tested bool) {
	_, succ, has, exit := g.M4ErrEdgesVia(n)
	if !has || exit || succ == nil {
		return false, false
	}
	reach := g.ReachFromEntry(nil, func(e *core.Edge) bool { return e == succ || (exempt != nil && exempt(e)) })
	for _, t := range targets {
		if reach[t] {
			return false, true
		}
	}
	return true, true
}

// x4ZeroTest: node n assigns the result of a lookup to some expression L and its
// single successor is the condition `L != 0` / `L == 0`. It returns predicates for
// the out-edges on which L == 0 ("not found") and L != 0 ("found").
func x4ZeroTest(g *core.Graph, n *core.Node, rhsHas func(ast.Expr) bool) (notFound, found core.EdgePred, ok bool) {
	as, isAs := n.N.(*ast.AssignStmt)
	if !isAs || len(as.Lhs) < 1 || len(as.Rhs) != 1 || !rhsHas(as.Rhs[0]) || len(n.Succ) != 1 {
		return nil, nil, false
	}
	lhs := core.ExprStr(as.Lhs[0])
	cn := n.Succ[0].To
	if len(cn.Succ) != 2 || cn.Succ[0].Cond == nil {
		return nil, nil, false
	}
	isL := func(e ast.Expr) bool { return core.ExprStr(e) == lhs }
	isZero := func(e ast.Expr) bool {
		v := core.ConstVal(g.Info, e)
		return v != nil && v.Kind() == constant.Int && constant.Sign(v) == 0
	}
	mk := func(want token.Token) core.EdgePred {
		ce := core.X4CmpEdge(isL, isZero, want, false)
		return func(e *core.Edge) bool { return e.From == cn && ce(e) }
	}
	nf, fd := mk(token.EQL), mk(token.NEQ)
	hasNF, hasF := false, false
	for _, e := range cn.Succ {
		hasNF = hasNF || nf(e)
		hasF = hasF || fd(e)
	}
	if !hasNF || !hasF {
		return nil, nil, false
	}
	return nf, fd, true
}

// ---------------------------------------------------------------- (1) locks

func c13Locks(p *core.Prog, r *core.Report) {
	const rule = "guarded-by"
	core.RuleLocks(r, p, seriesPartitionLocks, rule, 45)

	// Methods of the partition-owned SeriesIndex are only called with p.mu held.
	pk := p.Pkg(tsdbP)
	idxField := core.LookupField(pk.Types, "SeriesPartition", "index")
	if !r.Check(idxField != nil, "anchor", "tsdb.SeriesPartition.index", "unresolved", "-", "field resolved") {
		return
	}
	sites, mutSites := 0, 0
	for _, f := range p.Funcs(tsdbP) {
		if f.Decl.Body == nil {
			continue
		}
		if _, ex := seriesPartitionLocks.ExemptFunc[f.Name]; ex {
			continue
		}
		var calls []*ast.CallExpr
		ast.Inspect(f.Decl.Body, func(n ast.Node) bool {
			c, ok := n.(*ast.CallExpr)
			if !ok {
				return true
			}
			se, ok := ast.Unparen(c.Fun).(*ast.SelectorExpr)
			if !ok || core.FieldOf(f.Info(), se.X) != idxField {
				return true
			}
			if fn := core.Callee(f.Info(), c); fn == nil || !strings.HasPrefix(core.FName(fn), "tsdb.SeriesIndex.") {
				return true
			}
			calls = append(calls, c)
			return true
		})
		if len(calls) == 0 {
			continue
		}
		r.Saw(f)
		var entry map[string]byte
		if need, ok := seriesPartitionLocks.CallerHolds[f.Name]; ok {
			entry = map[string]byte{}
			for lk, m := range need {
				entry[x4Recv(f)+"."+lk] = m
			}
		}
		held := core.X4LocksHeld(p, f, entry)
		for _, c := range calls {
			se := ast.Unparen(c.Fun).(*ast.SelectorExpr)
			base := core.ExprStr(ast.Unparen(se.X).(*ast.SelectorExpr).X)
			st, ok := held.At(c)
			if !ok {
				continue
			}
			sites++
			need := int8(1)
			if seriesIndexMutators[se.Sel.Name] {
				need = 2
				mutSites++
			}
			mode := map[int8]string{1: "read", 2: "write"}[need]
			r.Check(st[base+".mu"] >= need, "index-under-lock", f.String(), "SeriesIndex."+se.Sel.Name, p.Pos(c.Pos()),
				fmt.Sprintf("%s.index.%s is called with %s.mu held in %s mode", base, se.Sel.Name, base, mode))
		}
	}
	r.Check(sites >= 14 && mutSites >= 6, "index-under-lock", "tsdb.SeriesPartition.index", "sites:count", "-",
		fmt.Sprintf("%d calls on the owned SeriesIndex examined (%d mutators); confirmed by reading: >= 14 (>= 6)", sites, mutSites))
}

// ---------------------------------------------------------------- (2)(3) create

func c13Create(p *core.Prog, r *core.Report) {
	const rule = "double-checked-create"
	f := r.Need(p, tsdbP, "SeriesPartition.CreateSeriesListIfNotExists")
	if f == nil {
		return
	}
	pk := f.Pkg
	info := f.Info()
	g := f.Graph()
	name := f.String()
	recv := x4Recv(f)
	insertM := call("tsdb.SeriesPartition.insert")
	findM := call("tsdb.SeriesIndex.FindIDBySeriesKey")
	inserts := x4Calls(g, insertM)
	if !r.Check(len(inserts) >= 1, rule, name, "insert:absent", f.Pos(), "p.insert is called") {
		return
	}
	held := core.X4LocksHeld(p, f, nil)

	// lookups that run under the write lock
	var findW []*core.Node
	for _, n := range x4Calls(g, findM) {
		if st, ok := held.At(n.N); ok && st[recv+".mu"] == 2 {
			findW = append(findW, n)
		}
	}
	if !r.Check(len(findW) >= 1, rule, name, "lookup-under-write-lock:absent", f.Pos(), "a FindIDBySeriesKey runs while p.mu is write-locked") {
		return
	}
	isFindW := func(n *core.Node) bool {
		for _, x := range findW {
			if x == n {
				return true
			}
		}
		return false
	}
	bad := g.X4OnlyVia(inserts, isFindW, nil)
	r.Check(len(bad) == 0, rule, name, "insert-without-recheck", x4Lines(g, inserts),
		"every p.insert is preceded, in the same loop iteration, by a FindIDBySeriesKey executed under the write lock")

	// the insert is only reachable on the not-found outcome of that lookup
	for _, n := range findW {
		nf, _, ok := x4ZeroTest(g, n, func(e ast.Expr) bool { return len(core.CallsIn(info, e, findM, core.WalkOpts{})) > 0 })
		if !r.Check(ok, rule, name, "lookup-result-test:absent", g.Line(n), "the result of the re-check is compared with 0 right after the lookup") {
			continue
		}
		b := g.X4OnlyVia(inserts, nil, func(e *core.Edge) bool { return nf(e) })
		r.Check(len(b) == 0, rule, name, "insert-when-found", g.Line(n), "p.insert is reachable only when the re-check under the write lock returned 0")
	}

	// same key, and the partition's own segments
	segField := core.LookupField(pk.Types, "SeriesPartition", "segments")
	insKey := ""
	if c := x4TheCall(g, inserts[0], insertM); c != nil && len(c.Args) == 1 {
		insKey = x4Norm(f, c.Args[0])
	}
	for _, n := range findW {
		c := x4TheCall(g, n, findM)
		if c == nil || len(c.Args) != 2 {
			r.Bad(rule, name, "lookup-args", g.Line(n), "unexpected FindIDBySeriesKey argument list")
			continue
		}
		r.Check(core.FieldOf(info, c.Args[0]) == segField && segField != nil, rule, name, "lookup-segments", g.Line(n), "the re-check reads keys from p.segments")
		r.Check(insKey != "" && x4Norm(f, c.Args[1]) == insKey, rule, name, "lookup-key", g.Line(n),
			fmt.Sprintf("the re-check looks up the key that is inserted (%s)", insKey))
	}

	// only keys routed to this partition
	idField := core.LookupField(pk.Types, "SeriesPartition", "id")
	mine := core.X4CmpEdge(func(ast.Expr) bool { return true }, core.X4IsField(info, idField), token.EQL, false)
	r.Check(idField != nil && len(g.X4OnlyVia(inserts, nil, mine)) == 0 && len(g.X4OnlyVia(findW, nil, mine)) == 0, rule, name, "partition-filter", x4Lines(g, inserts),
		"lookup and insert run only for keys whose partition id equals p.id")

	// the write lock is not released in line once taken (Unlock is deferred)
	lockNodes := x4Calls(g, call("sync.RWMutex.Lock"))
	if r.Check(len(lockNodes) >= 1, rule, name, "Lock:absent", f.Pos(), "takes the write lock") {
		var st []*core.Node
		for _, n := range lockNodes {
			st = append(st, core.After(n, nil)...)
		}
		reach := g.Reach(st, nil, nil)
		var early []*core.Node
		for _, n := range x4Calls(g, call("sync.RWMutex.Unlock")) {
			if reach[n] {
				early = append(early, n)
			}
		}
		r.Check(len(early) == 0, rule, name, "unlock-before-return", x4Lines(g, early), "p.mu stays write-locked from the re-check to the return (no in-line Unlock after Lock)")
	}

	// per-batch duplicate map: recorded after insert, consulted before insert
	var idObj types.Object
	if as, ok := inserts[0].N.(*ast.AssignStmt); ok && len(as.Lhs) == 3 {
		idObj = core.ObjOf(info, as.Lhs[0])
	}
	_, succ, okE := g.ErrEdges(inserts[0])
	if r.Check(idObj != nil && okE, rule, name, "insert-result", g.Line(inserts[0]), "id, offset, err := p.insert(key) followed by an error test") {
		var mapObj types.Object
		var storeIdx ast.Expr
		isStore := func(n *core.Node) bool {
			as, ok := n.N.(*ast.AssignStmt)
			if !ok || len(as.Lhs) != 1 || len(as.Rhs) != 1 || core.ObjOf(info, as.Rhs[0]) != idObj {
				return false
			}
			ix, ok := ast.Unparen(as.Lhs[0]).(*ast.IndexExpr)
			if !ok {
				return false
			}
			o := core.ObjOf(info, ix.X)
			if o == nil {
				return false
			}
			if _, isMap := o.Type().Underlying().(*types.Map); !isMap {
				return false
			}
			mapObj, storeIdx = o, ix.Index
			return true
		}
		stores := g.Select(isStore)
		if r.Check(len(stores) >= 1, rule, name, "batch-map-store:absent", g.Line(inserts[0]), "the new id is recorded in a per-batch map keyed by the series key") {
			reach := g.Reach([]*core.Node{succ.To}, isStore, nil)
			leak := false
			for _, n := range inserts {
				if reach[n] {
					leak = true
				}
			}
			for _, x := range g.Exits {
				if reach[x] {
					leak = true
				}
			}
			r.Check(!leak, rule, name, "batch-map-store-skipped", g.Line(stores[0]), "after a successful insert every path records the id in the per-batch map before the next key is processed")
			// lookup of the same map before insert
			var lookIdx ast.Expr
			isLook := func(n *core.Node) bool {
				as, ok := n.N.(*ast.AssignStmt)
				if !ok || len(as.Rhs) != 1 {
					return false
				}
				ix, ok := ast.Unparen(as.Rhs[0]).(*ast.IndexExpr)
				if !ok || core.ObjOf(info, ix.X) != mapObj {
					return false
				}
				lookIdx = ix.Index
				return true
			}
			looks := g.Select(isLook)
			if r.Check(len(looks) >= 1, rule, name, "batch-map-lookup:absent", g.Line(inserts[0]), "the per-batch map is consulted") {
				r.Check(len(g.X4OnlyVia(inserts, isLook, nil)) == 0, rule, name, "insert-without-batch-lookup", g.Line(looks[0]),
					"every p.insert is preceded, in the same iteration, by a lookup in the per-batch map (duplicate keys inside one batch get one id)")
				nf, _, ok := x4ZeroTest(g, looks[0], func(e ast.Expr) bool { _, is := ast.Unparen(e).(*ast.IndexExpr); return is })
				if r.Check(ok, rule, name, "batch-map-test:absent", g.Line(looks[0]), "the per-batch lookup result is compared with 0") {
					r.Check(len(g.X4OnlyVia(inserts, nil, func(e *core.Edge) bool { return nf(e) })) == 0, rule, name, "insert-when-in-batch", g.Line(looks[0]),
						"p.insert is reachable only when the key was not already created in this batch")
				}
				a, b := x4Norm(f, storeIdx), x4Norm(f, lookIdx)
				r.Check(a == b && strings.Contains(strings.ReplaceAll(a, " ", ""), strings.ReplaceAll(core.ExprStr(x4TheCall(g, inserts[0], insertM).Args[0]), " ", "")),
					rule, name, "batch-map-key", g.Line(stores[0]), fmt.Sprintf("store and lookup of the per-batch map use the same key expression built from the inserted key (%s / %s)", a, b))
			}
		}
	}

	// ---- (3) publish order
	const rule3 = "flush-before-publish"
	flushM := call("tsdb.SeriesSegment.Flush")
	idxInsM := call("tsdb.SeriesIndex.Insert")
	isFlush := g.Calling(flushM)
	segNil := core.X4NilEdge(info, func(x ast.Expr) bool {
		pt, isPtr := info.TypeOf(x).(*types.Pointer)
		if !isPtr {
			return false
		}
		nt, isNamed := pt.Elem().(*types.Named)
		return isNamed && nt.Obj().Name() == "SeriesSegment"
	}, true)
	flushes := g.Select(isFlush)
	idxIns := x4Calls(g, idxInsM)
	if r.Check(len(flushes) >= 1, rule3, name, "Flush:absent", f.Pos(), "the active segment is flushed") &&
		r.Check(len(idxIns) >= 1, rule3, name, "index.Insert:absent", f.Pos(), "new series are added to the index") {
		reach := g.ReachFromEntry(isFlush, segNil)
		ok := true
		for _, n := range idxIns {
			if reach[n] {
				ok = false
			}
		}
		r.Check(ok, rule3, name, "Flush<index.Insert", g.Line(idxIns[0]), "index.Insert (which reads the key back through the mmap) is reachable only after segment.Flush (exempt: no active segment)")
		if okE {
			reach := g.Reach([]*core.Node{succ.To}, isFlush, segNil)
			var badX []*core.Node
			for _, x := range g.SuccessExits() {
				if reach[x] {
					badX = append(badX, x)
				}
			}
			r.Check(len(badX) == 0, rule3, name, "success-without-Flush", x4Lines(g, badX), "after a successful p.insert no success return is reachable without segment.Flush (fsync)")
		}
		core.RuleErrorsUsedInl(r, c13Inl(f), "create-errors", "insert/Flush", core.Or(insertM, flushM), false, 2)
		core.RuleNotAfterFailure(r, f, rule3, "SeriesSegment.Flush", flushM, "index.Insert", idxInsM)
		okS, tested := x4OnlyOnSuccess(g, flushes[0], idxIns, segNil)
		r.Check(okS && tested && len(flushes) == 1, rule3, name, "index.Insert-without-successful-Flush", g.Line(idxIns[0]), "index.Insert is reachable only through the err == nil outcome of segment.Flush")
	}
	// every created series is queued and the queue is what index.Insert ranges over
	if okE && len(idxIns) >= 1 {
		var q types.Object
		isAppend := func(n *core.Node) bool {
			as, ok := n.N.(*ast.AssignStmt)
			if !ok || len(as.Lhs) != 1 || len(as.Rhs) != 1 {
				return false
			}
			c, ok := ast.Unparen(as.Rhs[0]).(*ast.CallExpr)
			if !ok || !core.Builtin("append")(info, c) || len(c.Args) < 2 {
				return false
			}
			o := core.ObjOf(info, as.Lhs[0])
			if o == nil || core.ObjOf(info, c.Args[0]) != o || !core.X4Mentions(info, c.Args[1], idObj) {
				return false
			}
			q = o
			return true
		}
		apps := g.Select(isAppend)
		if r.Check(len(apps) >= 1, rule3, name, "queue-append:absent", g.Line(inserts[0]), "the new (id, offset) is appended to the list of entries to index") {
			reach := g.Reach([]*core.Node{succ.To}, isAppend, nil)
			leak := false
			for _, n := range inserts {
				if reach[n] {
					leak = true
				}
			}
			for _, x := range g.Exits {
				if reach[x] {
					leak = true
				}
			}
			r.Check(!leak, rule3, name, "queue-append-skipped", g.Line(apps[0]), "after a successful insert every path queues the entry for index.Insert")
			inRange := false
			ast.Inspect(f.Decl.Body, func(n ast.Node) bool {
				rs, ok := n.(*ast.RangeStmt)
				if ok && core.ObjOf(info, rs.X) == q && len(core.AllCalls(info, rs.Body, idxInsM)) > 0 {
					inRange = true
				}
				return true
			})
			r.Check(inRange, rule3, name, "index.Insert-over-queue", g.Line(idxIns[0]), "index.Insert is executed for every element of that list (range loop)")
		}
	}
}

// ---------------------------------------------------------------- (4) seq

func c13Seq(p *core.Prog, r *core.Report) {
	const rule = "seq-monotone"
	pk := p.Pkg(tsdbP)
	seq := core.LookupField(pk.Types, "SeriesPartition", "seq")
	stride, _ := pk.Types.Scope().Lookup("SeriesFilePartitionN").(*types.Const)
	if !r.Check(seq != nil && stride != nil, "anchor", "tsdb.SeriesPartition.seq/SeriesFilePartitionN", "unresolved", "-", "field and constant resolved") {
		return
	}
	isStride := func(info *types.Info, e ast.Expr) bool { return core.X4ConstObj(info, e) == stride }

	// writers
	writers := map[string]bool{}
	for _, f := range p.Funcs(tsdbP) {
		if f.Decl.Body == nil {
			continue
		}
		ast.Inspect(f.Decl.Body, func(n ast.Node) bool {
			switch s := n.(type) {
			case *ast.AssignStmt:
				for _, l := range s.Lhs {
					if core.FieldOf(f.Info(), l) == seq {
						writers[f.Name] = true
					}
				}
			case *ast.IncDecStmt:
				if core.FieldOf(f.Info(), s.X) == seq {
					writers[f.Name] = true
				}
			case *ast.UnaryExpr:
				if s.Op == token.AND && core.FieldOf(f.Info(), s.X) == seq {
					writers[f.Name+"(&seq)"] = true
				}
			}
			return true
		})
	}
	var ws []string
	for w := range writers {
		ws = append(ws, w)
	}
	sort.Strings(ws)
	r.Check(len(ws) == 2 && writers["SeriesPartition.insert"] && writers["SeriesPartition.openSegments"], rule, "tsdb.SeriesPartition.seq", "writers", "-",
		"the only functions assigning SeriesPartition.seq are insert and openSegments (found: "+core.Join(ws)+")")

	// openSegments is only called from Open
	callers := map[string]bool{}
	openSegM := call("tsdb.SeriesPartition.openSegments")
	for _, f := range p.Funcs(tsdbP) {
		if f.Decl.Body != nil && core.HasCall(f, openSegM) {
			callers[f.Name] = true
		}
	}
	r.Check(len(callers) == 1 && callers["SeriesPartition.Open"], rule, "tsdb.SeriesPartition.openSegments", "openSegments-callers", "-", "openSegments is called only by SeriesPartition.Open")

	// insert
	if f := r.Need(p, tsdbP, "SeriesPartition.insert"); f != nil {
		info := f.Info()
		g := f.Graph()
		name := f.String()
		wM := call("tsdb.SeriesPartition.writeLogEntry")
		appM := call("tsdb.AppendSeriesEntry")
		ws := x4Calls(g, wM)
		stores := g.Select(g.Assigning(seq))
		if r.Check(len(ws) == 1 && len(stores) == 1, rule, name, "shape", f.Pos(), "one writeLogEntry call and one store to p.seq") {
			as, _ := stores[0].N.(*ast.AssignStmt)
			okInc := false
			if as != nil && len(as.Lhs) == 1 && len(as.Rhs) == 1 {
				switch as.Tok {
				case token.ADD_ASSIGN:
					okInc = isStride(info, as.Rhs[0])
				case token.ASSIGN:
					if be, ok := ast.Unparen(as.Rhs[0]).(*ast.BinaryExpr); ok && be.Op == token.ADD {
						okInc = (core.FieldOf(info, be.X) == seq && isStride(info, be.Y)) || (core.FieldOf(info, be.Y) == seq && isStride(info, be.X))
					}
				}
			}
			r.Check(okInc, rule, name, "stride", g.Line(stores[0]), "p.seq advances by exactly SeriesFilePartitionN (ids of partition i stay ≡ i+1 mod N)")
			core.RuleMustPassN(r, f, g, rule, "seq-advance", g.Assigning(seq), nil)
			// id variable: single definition from p.seq, written to the log, returned
			var idObj types.Object
			ast.Inspect(f.Decl.Body, func(n ast.Node) bool {
				if as, ok := n.(*ast.AssignStmt); ok && len(as.Lhs) == 1 && len(as.Rhs) == 1 && core.FieldOf(info, as.Rhs[0]) == seq {
					idObj = core.ObjOf(info, as.Lhs[0])
				}
				return true
			})
			nDefs := 0
			var defNode *core.Node
			if idObj != nil {
				for _, n := range g.Nodes {
					if as, ok := n.N.(*ast.AssignStmt); ok {
						for _, l := range as.Lhs {
							if core.ObjOf(info, l) == idObj {
								nDefs++
								defNode = n
							}
						}
					}
				}
			}
			if r.Check(idObj != nil && nDefs == 1, rule, name, "id-from-seq", f.Pos(), "the new id is read once from p.seq and never reassigned") {
				reach := g.ReachFromEntry(func(n *core.Node) bool { return n == defNode }, nil)
				r.Check(!reach[ws[0]] && !reach[stores[0]], rule, name, "id-read<write<advance", g.Line(defNode), "the id is read from p.seq before the entry is written and before p.seq advances")
				r.Check(!g.Reach(core.After(stores[0], nil), nil, nil)[ws[0]], rule, name, "write<advance", g.Line(stores[0]), "the entry is written before p.seq advances")
				okArg := false
				for _, c := range core.AllCalls(info, f.Decl.Body, appM) {
					if len(c.Args) == 4 && core.ObjOf(info, c.Args[2]) == idObj && core.ObjOf(info, c.Args[3]) == x4Param(f, "key") && x4Param(f, "key") != nil {
						okArg = true
					}
				}
				r.Check(okArg, rule, name, "entry-id", g.Line(ws[0]), "the log entry carries that id and the caller's key")
				okRet := true
				ex := g.SuccessExits()
				for _, x := range ex {
					rs, _ := x.N.(*ast.ReturnStmt)
					if rs == nil || (len(rs.Results) != 0 && (len(rs.Results) != 3 || core.ObjOf(info, rs.Results[0]) != idObj)) {
						okRet = false
					}
					if rs != nil && len(rs.Results) == 0 && g.Sig.Results().At(0) != idObj {
						okRet = false
					}
				}
				r.Check(okRet && len(ex) >= 1, rule, name, "returned-id", f.Pos(), "every success return yields that id")
			}
		}
		core.RuleErrorsUsedInl(r, c13Inl(f), "create-errors", "writeLogEntry", wM, false, 1)
	}

	// openSegments
	if f := r.Need(p, tsdbP, "SeriesPartition.openSegments"); f != nil {
		info := f.Info()
		g := f.Graph()
		name := f.String()
		stores := g.Select(g.Assigning(seq))
		maxM := call("tsdb.SeriesSegment.MaxSeriesID")
		if r.Check(len(stores) == 1, rule, name, "shape", f.Pos(), "one store to p.seq") {
			as, _ := stores[0].N.(*ast.AssignStmt)
			var mx types.Object
			okRhs := false
			if as != nil && as.Tok == token.ASSIGN && len(as.Rhs) == 1 {
				if be, ok := ast.Unparen(as.Rhs[0]).(*ast.BinaryExpr); ok && be.Op == token.ADD {
					switch {
					case isStride(info, be.Y):
						mx = core.ObjOf(info, be.X)
					case isStride(info, be.X):
						mx = core.ObjOf(info, be.Y)
					}
					okRhs = mx != nil
				}
			}
			if r.Check(okRhs, rule, name, "next-after-max", g.Line(stores[0]), "p.seq is set to <max id> + SeriesFilePartitionN") {
				r.Check(assignedOnlyFrom(f, mx, maxM), rule, name, "max-source", g.Line(stores[0]), "<max id> is the result of SeriesSegment.MaxSeriesID")
				gate := core.X4CmpEdge(core.X4IsObj(info, mx), core.X4IsField(info, seq), token.GEQ, true)
				r.Check(!g.ReachFromEntry(nil, gate)[stores[0]], rule, name, "only-forward", g.Line(stores[0]), "p.seq is overwritten only on the branch <max id> >= p.seq (never moved backwards, and an id equal to seq counts as used)")
				// the guard must not exclude equality: some edge with max >= seq (non-strict) exists
				has := false
				for _, n := range g.Nodes {
					for _, e := range n.Succ {
						if gate(e) {
							has = true
						}
					}
				}
				r.Check(has, rule, name, "ge-guard:absent", g.Line(stores[0]), "a guard `<max id> >= p.seq` exists")
			}
			// MaxSeriesID is taken from the partition's segments, after they were opened
			segField := core.LookupField(f.Pkg.Types, "SeriesPartition", "segments")
			okRecv := false
			for _, c := range core.AllCalls(info, f.Decl.Body, maxM) {
				if se, ok := ast.Unparen(c.Fun).(*ast.SelectorExpr); ok && core.X4MentionsField(info, se.X, segField) {
					okRecv = true
				}
			}
			r.Check(okRecv, rule, name, "max-over-segments", f.Pos(), "MaxSeriesID is evaluated on p.segments")
			// … and on every segment that may hold the highest id, not just the last
			// one: a segment whose only entries are tombstones (or that was just
			// rolled) reports 0, so the scan has to continue to older segments.
			// Structurally: the MaxSeriesID call sits on a CFG cycle (a loop over the
			// segments) and its receiver is indexed by a non-constant expression.
			for _, n := range x4Calls(g, maxM) {
				onCycle := g.Reach(core.After(n, nil), nil, nil)[n]
				varIdx := false
				for _, c := range core.CallsIn(info, n.N, maxM, core.WalkOpts{}) {
					if se, ok := ast.Unparen(c.Fun).(*ast.SelectorExpr); ok {
						switch x := ast.Unparen(se.X).(type) {
						case *ast.IndexExpr:
							varIdx = core.ConstVal(info, x.Index) == nil && !isLenMinusConst(x.Index)
						case *ast.Ident:
							varIdx = true // range variable
						}
					}
				}
				r.Check(onCycle && varIdx, rule, name, "max-over-all-segments", g.Line(n), "the maximum id is searched across the segments in a loop (older segments are consulted when the newest holds no insert)")
			}
			// every existing segment is opened before the maximum is computed
			mxNodes := x4Calls(g, maxM)
			var st []*core.Node
			for _, n := range mxNodes {
				st = append(st, core.After(n, nil)...)
			}
			late := false
			after := g.Reach(st, nil, nil)
			opens := x4Calls(g, call("tsdb.SeriesSegment.Open"))
			for _, n := range opens {
				if after[n] {
					late = true
				}
			}
			r.Check(len(mxNodes) >= 1 && len(opens) >= 1 && !late, rule, name, "open-all<max", f.Pos(), "all existing segment files are opened before the maximum id is computed")
		}
		core.RuleErrorsUsedInl(r, c13Inl(f), "open-errors", "segment open/create", call("os.ReadDir", "tsdb.SeriesSegment.Open", "tsdb.CreateSeriesSegment"), false, 3)
	}

	// constructor seeds seq from the partition id
	if f := r.Need(p, tsdbP, "NewSeriesPartition"); f != nil {
		info := f.Info()
		idP := x4Param(f, "id")
		seeded, idSet := false, false
		idField := core.LookupField(f.Pkg.Types, "SeriesPartition", "id")
		ast.Inspect(f.Decl.Body, func(n ast.Node) bool {
			kv, ok := n.(*ast.KeyValueExpr)
			if !ok {
				return true
			}
			if k, ok := kv.Key.(*ast.Ident); ok {
				if info.Uses[k] == seq && core.X4Mentions(info, kv.Value, idP) {
					seeded = true
				}
				if info.Uses[k] == idField && core.ObjOf(info, kv.Value) == idP {
					idSet = true
				}
			}
			return true
		})
		r.Check(idP != nil && seeded && idSet, rule, f.String(), "seed", f.Pos(), "a new partition's seq is derived from its id parameter, which is also stored in p.id (disjoint id classes per partition)")
	}

	// routing uses the same constant
	usesMod := func(f *core.Func) bool {
		ok := false
		ast.Inspect(f.Decl.Body, func(n ast.Node) bool {
			if be, is := n.(*ast.BinaryExpr); is && be.Op == token.REM && isStride(f.Info(), be.Y) {
				ok = true
			}
			return true
		})
		return ok
	}
	for _, n := range []string{"SeriesFile.SeriesIDPartitionID", "SeriesFile.SeriesKeyPartitionID"} {
		if f := r.Need(p, tsdbP, n); f != nil {
			r.Check(usesMod(f), rule, f.String(), "modulus", f.Pos(), "routing reduces modulo SeriesFilePartitionN")
		}
	}
	if f := r.Need(p, tsdbP, "SeriesFile.Open"); f != nil {
		info := f.Info()
		okLoop := false
		ast.Inspect(f.Decl.Body, func(n ast.Node) bool {
			fs, ok := n.(*ast.ForStmt)
			if !ok || fs.Cond == nil {
				return true
			}
			be, ok := ast.Unparen(fs.Cond).(*ast.BinaryExpr)
			if !ok || be.Op != token.LSS || !isStride(info, be.Y) {
				return true
			}
			iv := core.ObjOf(info, be.X)
			for _, c := range core.AllCalls(info, fs.Body, call("tsdb.NewSeriesPartition")) {
				if len(c.Args) >= 1 && core.ObjOf(info, c.Args[0]) == iv && iv != nil {
					okLoop = true
				}
			}
			return true
		})
		r.Check(okLoop, rule, f.String(), "partition-count", f.Pos(), "partitions 0..SeriesFilePartitionN-1 are created with their loop index as id")
		core.RuleErrorsUsedInl(r, c13Inl(f), "open-errors", "SeriesPartition.Open", call("tsdb.SeriesPartition.Open"), false, 1)
	}
	if f := r.Need(p, tsdbP, "SeriesFile.CreateSeriesListIfNotExists"); f != nil {
		info := f.Info()
		okArgs := false
		for _, c := range core.AllCalls(info, f.Decl.Body, call("tsdb.SeriesPartition.CreateSeriesListIfNotExists")) {
			if len(c.Args) == 3 {
				ko, po := core.ObjOf(info, c.Args[0]), core.ObjOf(info, c.Args[1])
				if ko != nil && po != nil && assignedOnlyFrom(f, po, call("tsdb.SeriesFile.SeriesKeysPartitionIDs")) {
					// the partition ids are computed from the same keys
					for _, pc := range core.AllCalls(info, f.Decl.Body, call("tsdb.SeriesFile.SeriesKeysPartitionIDs")) {
						if len(pc.Args) == 1 && core.ObjOf(info, pc.Args[0]) == ko {
							okArgs = true
						}
					}
				}
			}
		}
		r.Check(okArgs, rule, f.String(), "routing-args", f.Pos(), "every partition receives the keys together with the partition ids computed from those keys")
		core.RuleErrorsUsedInl(r, c13Inl(f), "create-errors", "errgroup.Wait", call("golang.org/x/sync/errgroup.Group.Wait"), false, 1)
	}
}

// ---------------------------------------------------------------- (5) tombstones

func c13Tombstone(p *core.Prog, r *core.Report) {
	const rule = "delete-permanent"
	pk := p.Pkg(tsdbP)
	isDelM := call("tsdb.SeriesIndex.IsDeleted")
	tombFlag, _ := pk.Types.Scope().Lookup("SeriesEntryTombstoneFlag").(*types.Const)

	if f := r.Need(p, tsdbP, "SeriesPartition.DeleteSeriesID"); f != nil {
		info := f.Info()
		// path rules on the CFG with same-package helpers spliced in: the verdict does
		// not depend on whether a run of statements lives in DeleteSeriesID itself
		in := c13Inl(f)
		g := in.G
		wM := call("tsdb.SeriesPartition.writeLogEntry")
		dM := call("tsdb.SeriesIndex.Delete")
		core.RulePrecedeG(r, g, f, rule, "writeLogEntry", wM, "index.Delete", dM)
		c13NotAfterFailureG(r, g, f, rule, "writeLogEntry", wM, "index.Delete", dM)
		if ws := x4Calls(g, wM); len(ws) == 1 {
			okS, tested := x4OnlyOnSuccess(g, ws[0], x4Calls(g, dM), nil)
			r.Check(okS && tested, rule, f.String(), "index.Delete-without-logged-tombstone", g.Line(ws[0]), "index.Delete is reachable only through the err == nil outcome of the tombstone write")
		}
		core.RuleMustPassN(r, f, g, rule, "index.Delete", g.Calling(dM), core.X4CallCond(info, isDelM, true))
		core.RuleErrorsUsedInl(r, c13Inl(f), "delete-errors", "writeLogEntry/Flush", core.Or(wM, call("tsdb.SeriesSegment.Flush")), false, 2)
		idP := x4Param(f, "id")
		okEntry := false
		for _, c := range in.AllCalls(call("tsdb.AppendSeriesEntry")) {
			if len(c.Args) == 4 && core.X4ConstObj(info, c.Args[1]) == tombFlag && tombFlag != nil && core.ObjOf(info, in.ArgOf(c.Args[2])) == idP && idP != nil {
				okEntry = true
			}
		}
		r.Check(okEntry, rule, f.String(), "tombstone-entry", f.Pos(), "the entry written is a SeriesEntryTombstoneFlag entry for the caller's id")
		okDel := false
		for _, c := range in.AllCalls(dM) {
			if len(c.Args) == 1 && core.ObjOf(info, in.ArgOf(c.Args[0])) == idP && idP != nil {
				okDel = true
			}
		}
		r.Check(okDel, rule, f.String(), "index.Delete-arg", f.Pos(), "index.Delete marks the caller's id")
	}

	if f := r.Need(p, tsdbP, "SeriesIndex.FindIDBySeriesKey"); f != nil {
		info := f.Info()
		g := f.Graph()
		var rets []*core.Node
		for _, x := range g.Exits {
			rs, ok := x.N.(*ast.ReturnStmt)
			if !ok || len(rs.Results) != 1 {
				continue
			}
			if v := core.ConstVal(info, rs.Results[0]); v != nil && constant.Sign(v) == 0 {
				continue
			}
			rets = append(rets, x)
		}
		if r.Check(len(rets) >= 2, rule, f.String(), "id-returns:count", f.Pos(), fmt.Sprintf("%d returns of a (possibly) non-zero id, confirmed by reading: 2 (in-memory map, on-disk map)", len(rets))) {
			reach := g.ReachFromEntry(nil, core.X4CallCond(info, isDelM, false))
			var bad []*core.Node
			for _, x := range rets {
				if reach[x] {
					bad = append(bad, x)
				}
			}
			r.Check(len(bad) == 0, rule, f.String(), "deleted-id-returned", x4Lines(g, bad), "an id is returned only on the !IsDeleted(id) outcome (a deleted key looks absent, so re-creation allocates a fresh id)")
		}
	}
	if f := r.Need(p, tsdbP, "SeriesIndex.IsDeleted"); f != nil {
		tomb := core.LookupField(pk.Types, "SeriesIndex", "tombstones")
		r.Check(tomb != nil && core.X4MentionsField(f.Info(), f.Decl.Body, tomb) && core.HasCall(f, call("tsdb.SeriesIndex.FindOffsetByID")),
			rule, f.String(), "sources", f.Pos(), "IsDeleted consults the in-memory tombstones and the id→offset maps")
	}

	// index compaction drops tombstoned entries
	if f := r.Need(p, tsdbP, "SeriesPartitionCompactor.compactIndexTo"); f != nil {
		info := f.Info()
		insM := call("tsdb.SeriesPartitionCompactor.insertKeyIDMap", "tsdb.SeriesPartitionCompactor.insertIDOffsetMap")
		lit := core.X4LitWith(f, insM)
		if r.Check(lit != nil, rule, f.String(), "entry-callback:absent", f.Pos(), "per-entry callback found") {
			lg := f.LitGraph(lit)
			ins := x4Calls(lg, insM)
			reach := lg.ReachFromEntry(nil, core.X4CallCond(info, isDelM, false))
			ok := len(ins) >= 2
			for _, n := range ins {
				if reach[n] {
					ok = false
				}
			}
			r.Check(ok, rule, f.String(), "tombstoned-entry-reindexed", lg.Line(lg.Entry), "entries are put into the rebuilt key→id / id→offset maps only on the !IsDeleted(id) outcome (a deleted id never becomes visible again after compaction)")
			// the IsDeleted tested is the callback's id
			var idO types.Object
			if lit.Type.Params != nil && len(lit.Type.Params.List) >= 2 && len(lit.Type.Params.List[1].Names) == 1 {
				idO = info.Defs[lit.Type.Params.List[1].Names[0]]
			}
			okArg := false
			for _, c := range core.AllCalls(info, lit.Body, isDelM) {
				if len(c.Args) == 1 && core.ObjOf(info, c.Args[0]) == idO && idO != nil {
					okArg = true
				}
			}
			r.Check(okArg, rule, f.String(), "IsDeleted-arg", lg.Line(lg.Entry), "the tombstone test is applied to the entry's own id")
		}
	}

	// Recover replays entries beyond maxOffset into execEntry
	if f := r.Need(p, tsdbP, "SeriesIndex.Recover"); f != nil {
		info := f.Info()
		exM := call("tsdb.SeriesIndex.execEntry")
		maxOff := core.LookupField(pk.Types, "SeriesIndex", "maxOffset")
		lit := core.X4LitWith(f, exM)
		if r.Check(lit != nil && maxOff != nil, rule, f.String(), "replay-callback:absent", f.Pos(), "ForEachEntry callback applying execEntry found") {
			lg := f.LitGraph(lit)
			var offO types.Object
			if pl := lit.Type.Params; pl != nil && len(pl.List) >= 3 && len(pl.List[2].Names) == 1 {
				offO = info.Defs[pl.List[2].Names[0]]
			}
			gate := core.X4CmpEdge(core.X4IsObj(info, offO), core.X4IsField(info, maxOff), token.GTR, false)
			ex := x4Calls(lg, exM)
			ok := len(ex) >= 1 && offO != nil
			reach := lg.ReachFromEntry(nil, gate)
			for _, n := range ex {
				if reach[n] {
					ok = false
				}
			}
			r.Check(ok, rule, f.String(), "replay-beyond-maxOffset", lg.Line(lg.Entry), "execEntry is applied only to entries with offset > idx.maxOffset (entries already folded into — or deliberately dropped from — the on-disk index are not replayed)")
			// every such entry is applied: success exits of the callback on the > branch pass execEntry
			bad := false
			for _, n := range lg.Nodes {
				for _, e := range n.Succ {
					if gate(e) {
						rr := lg.Reach([]*core.Node{e.To}, lg.Calling(exM), nil)
						for _, x := range lg.Exits {
							if rr[x] {
								bad = true
							}
						}
					}
				}
			}
			r.Check(!bad, rule, f.String(), "replay-skips-entry", lg.Line(lg.Entry), "every entry beyond maxOffset reaches execEntry")
		}
		core.RuleErrorsUsedInl(r, c13Inl(f), "open-errors", "ForEachEntry", call("tsdb.SeriesSegment.ForEachEntry"), false, 1)
		segP := x4Param(f, "segments")
		okRange := false
		ast.Inspect(f.Decl.Body, func(n ast.Node) bool {
			if rs, ok := n.(*ast.RangeStmt); ok && core.ObjOf(info, rs.X) == segP && segP != nil && len(core.AllCalls(info, rs.Body, call("tsdb.SeriesSegment.ForEachEntry"))) > 0 {
				okRange = true
			}
			return true
		})
		r.Check(okRange, rule, f.String(), "replay-all-segments", f.Pos(), "Recover iterates the segments it was given")
	}
}

// ---------------------------------------------------------------- (6) flags

func c13Flags(p *core.Prog, r *core.Report) {
	const rule = "entry-flags"
	pk := p.Pkg(tsdbP)
	flags := map[*types.Const]bool{}
	var names []string
	for _, n := range pk.Types.Scope().Names() {
		if c, ok := pk.Types.Scope().Lookup(n).(*types.Const); ok && core.Glob("SeriesEntry*Flag", n) {
			flags[c] = true
			names = append(names, n)
		}
	}
	r.Check(len(flags) >= 2, rule, "tsdb.SeriesEntry*Flag", "flags:count", "-", "entry flag constants: "+core.Join(names))
	// distinct non-zero values (0 terminates a segment scan)
	seen := map[string]string{}
	for c := range flags {
		k := c.Val().ExactString()
		if prev, dup := seen[k]; dup {
			r.Bad(rule, "tsdb."+c.Name(), "duplicate-value", "-", "same value as "+prev)
		}
		seen[k] = c.Name()
		r.Check(constant.Sign(c.Val()) != 0, rule, "tsdb."+c.Name(), "zero-value", "-", "flag value is non-zero (a zero byte marks the end of the entries)")
	}
	exemptSwitch := map[string]string{
		"ReadSeriesEntry": "only insert entries carry a key; the flag was validated by IsValidSeriesEntryFlag just before",
	}
	found := map[string]int{}
	for _, f := range p.Funcs(tsdbP) {
		if f.Decl.Body == nil {
			continue
		}
		info := f.Info()
		ast.Inspect(f.Decl.Body, func(n ast.Node) bool {
			sw, ok := n.(*ast.SwitchStmt)
			if !ok || sw.Tag == nil {
				return true
			}
			have := map[*types.Const]bool{}
			for _, cl := range sw.Body.List {
				for _, e := range cl.(*ast.CaseClause).List {
					if c := core.X4ConstObj(info, e); c != nil && flags[c] {
						have[c] = true
					}
				}
			}
			if len(have) == 0 {
				return true
			}
			if _, ex := exemptSwitch[f.Name]; ex {
				return true
			}
			r.Saw(f)
			found[f.Name]++
			var missing []string
			for c := range flags {
				if !have[c] {
					missing = append(missing, c.Name())
				}
			}
			sort.Strings(missing)
			r.Check(len(missing) == 0, rule, f.String(), "switch-misses:"+strings.Join(missing, ","), p.Pos(sw.Pos()), "switch over the entry flag handles every SeriesEntry*Flag")
			return true
		})
	}
	for _, fn := range []string{"IsValidSeriesEntryFlag", "AppendSeriesEntry", "SeriesIndex.execEntry", "SeriesPartitionCompactor.compactIndexTo"} {
		r.Check(found[fn] >= 1, rule, "tsdb."+fn, "flag-switch:absent", "-", "dispatches on the entry flag with a switch")
	}
	// emitters pass declared flags
	exemptEmit := map[string]string{"SeriesSegment.CompactToPath": "copies the flag of an existing, already validated entry"}
	emit := 0
	for _, f := range p.Funcs(tsdbP) {
		if f.Decl.Body == nil {
			continue
		}
		if _, ex := exemptEmit[f.Name]; ex {
			continue
		}
		for _, c := range core.AllCalls(f.Info(), f.Decl.Body, call("tsdb.AppendSeriesEntry", "tsdb.SeriesIndex.execEntry")) {
			if len(c.Args) < 2 {
				continue
			}
			idx := 1
			if core.FName(core.Callee(f.Info(), c)) == "tsdb.SeriesIndex.execEntry" {
				idx = 0
				if core.ObjOf(f.Info(), c.Args[0]) != nil && core.X4ConstObj(f.Info(), c.Args[0]) == nil {
					continue // forwards the flag of a scanned entry (Recover)
				}
			}
			emit++
			r.Saw(f)
			cst := core.X4ConstObj(f.Info(), c.Args[idx])
			r.Check(cst != nil && flags[cst], rule, f.String(), "emits-undeclared-flag", p.Pos(c.Pos()), "the flag passed is a declared SeriesEntry*Flag constant")
		}
	}
	r.Check(emit >= 4, rule, "tsdb.AppendSeriesEntry/execEntry", "emitters:count", "-", fmt.Sprintf("%d emitting call sites (insert, DeleteSeriesID, SeriesIndex.Insert, SeriesIndex.Delete)", emit))
	pairs := map[string]string{"SeriesIndex.Insert": "SeriesEntryInsertFlag", "SeriesIndex.Delete": "SeriesEntryTombstoneFlag", "SeriesPartition.insert": "SeriesEntryInsertFlag"}
	for fn, want := range pairs {
		if f := r.Need(p, tsdbP, fn); f != nil {
			ok := false
			for _, c := range core.AllCalls(f.Info(), f.Decl.Body, call("tsdb.AppendSeriesEntry", "tsdb.SeriesIndex.execEntry")) {
				for _, a := range c.Args {
					if cst := core.X4ConstObj(f.Info(), a); cst != nil && cst.Name() == want {
						ok = true
					}
				}
			}
			r.Check(ok, rule, f.String(), "flag", f.Pos(), "emits "+want)
		}
	}
	// execEntry arms update the maps they own
	if f := r.Need(p, tsdbP, "SeriesIndex.execEntry"); f != nil {
		info := f.Info()
		st := core.StructOf(pk.Types, "SeriesIndex")
		want := map[string][]string{
			"SeriesEntryInsertFlag":    {"idOffsetMap", "maxOffset", "maxSeriesID"},
			"SeriesEntryTombstoneFlag": {"tombstones"},
		}
		ast.Inspect(f.Decl.Body, func(n ast.Node) bool {
			cc, ok := n.(*ast.CaseClause)
			if !ok {
				return true
			}
			for _, e := range cc.List {
				c := core.X4ConstObj(info, e)
				if c == nil || want[c.Name()] == nil || st == nil {
					continue
				}
				body := &ast.BlockStmt{List: cc.Body}
				_, writes := core.FieldsTouched(info, body, st)
				var miss []string
				for _, w := range want[c.Name()] {
					if !writes[w] {
						miss = append(miss, w)
					}
				}
				if c.Name() == "SeriesEntryInsertFlag" && len(core.AllCalls(info, body, call("pkg/rhh.HashMap.Put"))) == 0 {
					miss = append(miss, "keyIDMap.Put")
				}
				r.Check(len(miss) == 0, rule, f.String(), "arm-"+c.Name()+"-misses:"+strings.Join(miss, ","), p.Pos(cc.Pos()), "the "+c.Name()+" arm updates "+strings.Join(want[c.Name()], ", "))
			}
			return true
		})
	}
}

// ---------------------------------------------------------------- (7) index compaction

func c13Compact(p *core.Prog, r *core.Report) {
	const rule = "index-compaction"
	if f := r.Need(p, tsdbP, "SeriesPartitionCompactor.Compact"); f != nil {
		info := f.Info()
		g := f.Graph()
		name := f.String()
		ciM := call("tsdb.SeriesPartitionCompactor.compactIndexTo")
		closeM, renM, openM, recM := call("tsdb.SeriesIndex.Close"), call("os.Rename"), call("tsdb.SeriesIndex.Open"), call("tsdb.SeriesIndex.Recover")
		core.RuleErrorsUsedInl(r, c13Inl(f), "compaction-errors", "compactIndexTo/Close/Rename/Open/Recover", core.Or(ciM, closeM, renM, openM, recM), false, 5)
		lit := core.X4LitWith(f, renM)
		if r.Check(lit != nil, rule, name, "swap-section:absent", f.Pos(), "function literal performing the swap found") {
			lg := f.LitGraph(lit)
			core.X4OrderG(r, lg, f, rule, []string{"p.mu.Lock", "index.Close", "os.Rename", "index.Open", "index.Recover"},
				[]core.Matcher{call("sync.RWMutex.Lock"), closeM, renM, openM, recM})
			core.RuleMustPassN(r, f, lg, rule, "index.Recover", lg.Calling(recM), nil)
			r.Check(len(x4Calls(lg, call("sync.RWMutex.Unlock"))) == 0 && len(lg.Select(lg.Deferring(call("sync.RWMutex.Unlock")))) == 1, rule, name, "one-critical-section", lg.Line(lg.Entry),
				"the swap runs in one critical section (Unlock only deferred)")
			// compactIndexTo precedes the swap in the outer graph
			reach := g.ReachFromEntry(g.Calling(ciM), nil)
			okPre := len(x4Calls(g, ciM)) == 1
			for _, n := range x4Calls(g, renM) {
				if reach[n] {
					okPre = false
				}
			}
			r.Check(okPre, rule, name, "compactIndexTo<swap", f.Pos(), "the compacted index is completely written (and fsynced) before the swap section starts")
			core.RuleNotAfterFailure(r, f, rule, "compactIndexTo", ciM, "os.Rename", renM)
			// lock state at the rename and same file names
			held := core.X4LocksHeld(p, f, nil)
			pP := x4Param(f, "p")
			for _, c := range core.AllCalls(info, lit.Body, renM) {
				st, _ := held.At(c)
				r.Check(pP != nil && st[pP.Name()+".mu"] == 2, rule, name, "rename-under-lock", p.Pos(c.Pos()), "the rename happens with p.mu write-locked (no reader can map the old file meanwhile)")
				okNames := false
				pathF := core.LookupField(f.Pkg.Types, "SeriesIndex", "path")
				for _, cc := range core.AllCalls(info, f.Decl.Body, ciM) {
					if len(cc.Args) == 4 && len(c.Args) == 2 && core.ObjOf(info, cc.Args[3]) != nil && core.ObjOf(info, cc.Args[3]) == core.ObjOf(info, c.Args[0]) && core.FieldOf(info, c.Args[1]) == pathF && pathF != nil {
						okNames = true
					}
				}
				r.Check(okNames, rule, name, "rename-names", p.Pos(c.Pos()), "the file renamed is the one compactIndexTo wrote, the target is the index path")
			}
			// Recover replays p.segments (the live ones), not the snapshot
			segField := core.LookupField(f.Pkg.Types, "SeriesPartition", "segments")
			okSeg := false
			for _, c := range core.AllCalls(info, lit.Body, recM) {
				if len(c.Args) == 1 && core.FieldOf(info, c.Args[0]) == segField && segField != nil {
					okSeg = true
				}
			}
			r.Check(okSeg, rule, name, "recover-live-segments", lg.Line(lg.Entry), "after the swap Recover replays the live p.segments (entries appended during the compaction)")
		}
	}
	if f := r.Need(p, tsdbP, "SeriesPartitionCompactor.compactIndexTo"); f != nil {
		g := f.Graph()
		createM, hdrM, wrM, syncM := call("os.Create"), call("tsdb.SeriesIndexHeader.WriteTo"), call("os.File.Write"), call("os.File.Sync")
		core.X4OrderG(r, c13Inl(f).G, f, rule, []string{"os.Create", "header.WriteTo", "File.Write", "File.Sync"}, []core.Matcher{createM, hdrM, wrM, syncM})
		core.RuleMustPassN(r, f, g, rule, "File.Sync", g.Calling(syncM), nil)
		core.RuleErrorsUsedInl(r, c13Inl(f), "compaction-errors", "Create/WriteTo/Write/Sync/ForEachEntry", core.Or(createM, hdrM, wrM, syncM, call("tsdb.SeriesSegment.ForEachEntry")), false, 6)
		r.Check(len(x4Calls(g, wrM)) >= 2, rule, f.String(), "maps-written:count", f.Pos(), "both hash maps are written")
		// the deferred Close is error-capturing
		capt := false
		for _, n := range g.Nodes {
			if d, ok := n.N.(*ast.DeferStmt); ok {
				if len(core.AllCalls(f.Info(), d, call("pkg/errors.Capture"))) > 0 {
					capt = true
				}
			}
		}
		r.Check(capt, rule, f.String(), "close-error-captured", f.Pos(), "the deferred Close reports its error through errors2.Capture")
	}
}

// ---------------------------------------------------------------- (8) open / recovery

func c13Open(p *core.Prog, r *core.Report) {
	const rule = "open-order"
	if f := r.Need(p, tsdbP, "SeriesPartition.Open"); f != nil {
		osM, initM, ioM, recM := call("tsdb.SeriesPartition.openSegments"), call("tsdb.SeriesSegment.InitForWrite"), call("tsdb.SeriesIndex.Open"), call("tsdb.SeriesIndex.Recover")
		lit := core.X4LitWith(f, osM)
		if r.Check(lit != nil, rule, f.String(), "open-section:absent", f.Pos(), "function literal opening the components found") {
			lg := f.LitGraph(lit)
			core.X4OrderG(r, lg, f, rule, []string{"openSegments", "InitForWrite", "index.Open", "index.Recover"}, []core.Matcher{osM, initM, ioM, recM})
			core.RuleMustPassN(r, f, lg, rule, "index.Recover", lg.Calling(recM), nil)
			segField := core.LookupField(f.Pkg.Types, "SeriesPartition", "segments")
			okSeg := false
			for _, c := range core.AllCalls(f.Info(), lit.Body, recM) {
				if len(c.Args) == 1 && core.FieldOf(f.Info(), c.Args[0]) == segField && segField != nil {
					okSeg = true
				}
			}
			r.Check(okSeg, rule, f.String(), "recover-segments", lg.Line(lg.Entry), "Recover replays p.segments")
		}
		core.RuleErrorsUsedInl(r, c13Inl(f), "open-errors", "openSegments/InitForWrite/index.Open/Recover", core.Or(osM, initM, ioM, recM), false, 4)
	}
	if f := r.Need(p, tsdbP, "SeriesSegment.InitForWrite"); f != nil {
		info := f.Info()
		g := f.Graph()
		size := core.LookupField(f.Pkg.Types, "SeriesSegment", "size")
		seekM, ofM := call("os.File.Seek"), call("os.OpenFile")
		stores := g.Select(g.Assigning(size))
		seeks := x4Calls(g, seekM)
		if r.Check(size != nil && len(stores) >= 1 && len(seeks) == 1, rule, f.String(), "shape", f.Pos(), "stores s.size and seeks once") {
			reach := g.ReachFromEntry(g.Assigning(size), nil)
			r.Check(!reach[seeks[0]], rule, f.String(), "size<Seek", g.Line(seeks[0]), "the scanned valid size is stored before the write handle is positioned")
			okArg := false
			if c := x4TheCall(g, seeks[0], seekM); c != nil && len(c.Args) == 2 {
				v := core.ConstVal(info, c.Args[1])
				okArg = core.X4MentionsField(info, c.Args[0], size) && v != nil && v.ExactString() == "0"
			}
			r.Check(okArg, rule, f.String(), "Seek-arg", g.Line(seeks[0]), "the write handle is positioned at s.size from the start of the file (new entries overwrite a torn tail, never valid entries)")
			core.RuleMustPassN(r, f, g, rule, "File.Seek", g.Calling(seekM), nil)
		}
		// the scan stops at the first invalid flag
		validM := call("tsdb.IsValidSeriesEntryFlag")
		okStop, nInv := true, 0
		invalid := core.X4CallCond(info, validM, false)
		readM := call("tsdb.ReadSeriesEntry")
		for _, n := range g.Nodes {
			for _, e := range n.Succ {
				if invalid(e) {
					// invalid → the scan is over: no further entry is read, the size is stored
					nInv++
					rr := g.Reach([]*core.Node{e.To}, nil, nil)
					for _, x := range x4Calls(g, readM) {
						if rr[x] {
							okStop = false
						}
					}
					st := false
					for _, s := range stores {
						st = st || rr[s]
					}
					okStop = okStop && st
				}
			}
		}
		r.Check(okStop && nInv >= 1 && len(x4Calls(g, readM)) >= 1, rule, f.String(), "scan-stops-at-invalid", f.Pos(), "the size scan ends at the first entry whose flag is not valid")
		core.RuleErrorsUsedInl(r, c13Inl(f), "open-errors", "OpenFile/Seek", core.Or(ofM, seekM), false, 2)
	}
	if f := r.Need(p, tsdbP, "SeriesSegment.ForEachEntry"); f != nil {
		g := f.Graph()
		validM := call("tsdb.IsValidSeriesEntryFlag")
		ns := x4Calls(g, validM)
		ok := len(ns) >= 1
		// the callback is only invoked on the valid branch
		var cbNodes []*core.Node
		fnP := x4Param(f, "fn")
		for _, n := range g.Nodes {
			if n.N == nil {
				continue
			}
			hit := false
			core.Walk(n.N, core.WalkOpts{}, func(x ast.Node) bool {
				if c, is := x.(*ast.CallExpr); is && core.ObjOf(f.Info(), c.Fun) == fnP && fnP != nil {
					hit = true
				}
				return true
			})
			if hit {
				cbNodes = append(cbNodes, n)
			}
		}
		ok = ok && len(cbNodes) >= 1 && len(g.X4OnlyVia(cbNodes, nil, core.X4CallCond(f.Info(), validM, true))) == 0
		r.Check(ok, rule, f.String(), "callback-only-valid", f.Pos(), "fn is invoked only for entries whose flag is valid, in every iteration")
		// an invalid flag ends the iteration for good (nothing behind a torn entry is interpreted)
		stop, nInv := true, 0
		invalid := core.X4CallCond(f.Info(), validM, false)
		for _, n := range g.Nodes {
			for _, e := range n.Succ {
				if invalid(e) {
					nInv++
					rr := g.Reach([]*core.Node{e.To}, nil, nil)
					for _, c := range cbNodes {
						if rr[c] {
							stop = false
						}
					}
				}
			}
		}
		r.Check(stop && nInv >= 1, rule, f.String(), "stops-at-invalid", f.Pos(), "after the first invalid flag no further entry is passed to fn")
	}
}

// ---------------------------------------------------------------- segment writes

func c13Segment(p *core.Prog, r *core.Report) {
	const rule = "segment-write"
	if f := r.Need(p, tsdbP, "SeriesSegment.Flush"); f != nil {
		g := f.Graph()
		w := core.LookupField(f.Pkg.Types, "SeriesSegment", "w")
		noWriter := core.X4NilEdge(f.Info(), core.X4IsField(f.Info(), w), true)
		core.X4OrderG(r, c13Inl(f).G, f, rule, []string{"bufio.Flush", "File.Sync"}, []core.Matcher{call("bufio.Writer.Flush"), call("os.File.Sync")})
		core.RuleMustPassN(r, f, g, rule, "File.Sync", g.Calling(call("os.File.Sync")), noWriter)
		core.RuleErrorsUsedInl(r, c13Inl(f), "create-errors", "Flush/Sync", call("bufio.Writer.Flush", "os.File.Sync"), false, 2)
	}
	if f := r.Need(p, tsdbP, "SeriesSegment.WriteLogEntry"); f != nil {
		g := f.Graph()
		size := core.LookupField(f.Pkg.Types, "SeriesSegment", "size")
		wrM, joinM := call("bufio.Writer.Write"), call("tsdb.JoinSeriesOffset")
		ws, js, stores := x4Calls(g, wrM), x4Calls(g, joinM), g.Select(g.Assigning(size))
		if r.Check(size != nil && len(ws) == 1 && len(js) == 1 && len(stores) == 1, rule, f.String(), "shape", f.Pos(), "one offset computation, one write, one size update") {
			core.RuleMustPassN(r, f, g, rule, "size-advance", g.Assigning(size), nil)
			r.Check(!g.Reach(core.After(stores[0], nil), nil, nil)[js[0]] && !g.ReachFromEntry(g.Calling(joinM), nil)[stores[0]], rule, f.String(), "offset<size-advance", g.Line(js[0]),
				"the entry offset is derived from s.size before s.size is advanced (the offset points at the entry, not past it)")
			okArg := false
			if c := x4TheCall(g, js[0], joinM); c != nil && len(c.Args) == 2 {
				okArg = core.FieldOf(f.Info(), c.Args[1]) == size && core.FieldOf(f.Info(), c.Args[0]) == core.LookupField(f.Pkg.Types, "SeriesSegment", "id")
			}
			r.Check(okArg, rule, f.String(), "offset-args", g.Line(js[0]), "offset = JoinSeriesOffset(s.id, s.size)")
			// offset returned is that variable
			okRet := true
			var offO types.Object
			if as, ok := js[0].N.(*ast.AssignStmt); ok && len(as.Lhs) == 1 {
				offO = core.ObjOf(f.Info(), as.Lhs[0])
			}
			for _, x := range g.SuccessExits() {
				rs, _ := x.N.(*ast.ReturnStmt)
				if rs == nil || len(rs.Results) != 2 || core.ObjOf(f.Info(), rs.Results[0]) != offO || offO == nil {
					okRet = false
				}
			}
			r.Check(okRet, rule, f.String(), "offset-returned", f.Pos(), "the success return yields that offset")
		}
		core.RuleErrorsUsedInl(r, c13Inl(f), "create-errors", "bufio.Write", wrM, false, 1)
	}
	if f := r.Need(p, tsdbP, "SeriesPartition.writeLogEntry"); f != nil {
		core.RuleErrorsUsedInl(r, c13Inl(f), "create-errors", "createSegment/WriteLogEntry", call("tsdb.SeriesPartition.createSegment", "tsdb.SeriesSegment.WriteLogEntry"), false, 2)
		core.RuleMustPassG(r, f, c13Inl(f).G, "segment-write", "SeriesSegment.WriteLogEntry", call("tsdb.SeriesSegment.WriteLogEntry"), false)
	}
	if f := r.Need(p, tsdbP, "SeriesPartition.createSegment"); f != nil {
		core.RuleErrorsUsedInl(r, c13Inl(f), "create-errors", "CloseForWrite/Create/InitForWrite", call("tsdb.SeriesSegment.CloseForWrite", "tsdb.CreateSeriesSegment", "tsdb.SeriesSegment.InitForWrite"), false, 3)
		core.X4OrderG(r, c13Inl(f).G, f, "segment-write", []string{"CreateSeriesSegment", "InitForWrite"},
			[]core.Matcher{call("tsdb.CreateSeriesSegment"), call("tsdb.SeriesSegment.InitForWrite")})
	}
	if f := r.Need(p, tsdbP, "CreateSeriesSegment"); f != nil {
		core.X4OrderG(r, c13Inl(f).G, f, "segment-write", []string{"header.WriteTo", "Truncate", "Sync", "Close", "Rename", "Open"},
			[]core.Matcher{call("tsdb.SeriesSegmentHeader.WriteTo"), call("os.File.Truncate"), call("os.File.Sync"), call("os.File.Close"), call("os.Rename"), call("tsdb.SeriesSegment.Open")})
		core.RuleErrorsUsedInl(r, c13Inl(f), "create-errors", "segment file protocol", call("os.Create", "tsdb.SeriesSegmentHeader.WriteTo", "os.File.Truncate", "os.File.Sync", "os.Rename", "tsdb.SeriesSegment.Open"), false, 6)
	}
}
