package rules

import (
	"fmt"
	"go/ast"
	"go/constant"
	"go/token"
	"go/types"
	"sort"

	"verif/checker/core"
)

// C13 extension (m4): rules added after triaging the survivors of the generic
// fault enumeration.

func init() {
	extend("C13",
		"(9) literal-failure-propagates: failure-propagates also holds inside the function literals of the analysed functions (the open section of SeriesPartition.Open, the swap section of SeriesPartitionCompactor.Compact, ForEachEntry callbacks) and for error tests written in a negated form; "+
			"(10) every-key: the loops of SeriesPartition.CreateSeriesListIfNotExists (read-locked lookup, create under the write lock, index insert) are left before the last key only with a failure; in the read-locked fast path every key routed to this partition either gets the id found stored in ids[i] (on the id != 0 outcome) or sets the write-required flag (on the id == 0 outcome), and a success return before the write lock is taken is reachable only on the false edge of that flag (which is only ever set to true); "+
			"(11) hit-reachable: every return of a (possibly non-zero) id from SeriesIndex.FindIDBySeriesKey and of an offset from SeriesIndex.FindOffsetByID is reachable on a path that takes no edge establishing that a local it is computed from, or one computed from the same data, is zero / nil or differs from another variable, nor one establishing that a container is empty (a negated or inverted hit test makes existing series look absent, so the same key would be given a second id); "+
			"(12) lookup-unless-closed: SeriesPartition.SeriesKey, FindIDBySeriesKey and IsDeleted reach an exit without consulting the index only on the edge p.closed == true (or id == 0); "+
			"(13) segment-list: SeriesPartition.openSegments scans every directory entry (no early exit other than a failure), appends every segment it opened to p.segments and creates the initial segment only on the edge len(p.segments) == 0; SeriesPartition.createSegment derives the new segment's id from the last segment's ID() exactly on the edge len(p.segments) > 0; once CreateSeriesListIfNotExists holds the write lock a success return passes the create loop.",
		nil, runC13m4)
}

func runC13m4(p *core.Prog, r *core.Report, tier string) {
	// (9)
	var fns []*core.Func
	for f := range r.FuncObjs {
		if f.Decl != nil && f.Decl.Body != nil {
			fns = append(fns, f)
		}
	}
	sort.Slice(fns, func(i, j int) bool { return fns[i].String() < fns[j].String() })
	total := 0
	for _, f := range fns {
		total += m4LitFailures(p, r, f, "literal-failure-propagates", propagateExcept)
	}
	r.Check(total >= 8, "literal-failure-propagates", "series file", "count", "-", fmt.Sprintf("%d tested/forwarded error calls inside function literals (>= 8 confirmed by reading)", total))
	m4NegatedErrTests(p, r)

	c13m4Create(p, r)
	c13m4CreatePhase(p, r)
	c13m4Segments(p, r)
	c13m4Hits(p, r)
	c13m4Closed(p, r)
}

func m4AnyExpr(ast.Expr) bool { return true }

// m4FlagSets lists the nodes of loop l that assign the constant true to a boolean
// local; the variable is returned when it is the same for all of them.
func m4FlagSets(g *core.Graph, l *rw3Loop) (core.NodePred, types.Object) {
	var flag types.Object
	same := true
	pred := func(n *core.Node) bool {
		as, ok := n.N.(*ast.AssignStmt)
		if !ok || len(as.Lhs) != 1 || len(as.Rhs) != 1 || !l.In(n) {
			return false
		}
		o, isVar := core.ObjOf(g.Info, as.Lhs[0]).(*types.Var)
		return isVar && !o.IsField() && core.X1IsConstBool(g.Info, as.Rhs[0], true)
	}
	for _, n := range g.Select(pred) {
		o := core.ObjOf(g.Info, n.N.(*ast.AssignStmt).Lhs[0])
		if flag != nil && o != flag {
			same = false
		}
		flag = o
	}
	if !same {
		return pred, nil
	}
	return pred, flag
}

// m4OnlySetTrue: every definition of the boolean local o assigns the constant true
// (a declaration without value leaves it false).
func m4OnlySetTrue(info *types.Info, root ast.Node, o types.Object) bool {
	if o == nil {
		return false
	}
	for _, d := range rw3Defs(info, root, o) {
		if d.Rhs == nil || d.Idx != -1 {
			return false
		}
		if core.X1IsConstBool(info, d.Rhs, true) {
			continue
		}
		// `flag := false` as the defining statement
		if core.X1IsConstBool(info, d.Rhs, false) {
			if as, ok := d.Stmt.(*ast.AssignStmt); ok && as.Tok == token.DEFINE {
				continue
			}
			if _, ok := d.Stmt.(*ast.ValueSpec); ok {
				continue
			}
		}
		return false
	}
	return true
}

// ---------------------------------------------------------------- (10)

func c13m4Create(p *core.Prog, r *core.Report) {
	const rule = "every-key"
	f := p.Func(tsdbP, "SeriesPartition.CreateSeriesListIfNotExists")
	if f == nil || f.Decl.Body == nil {
		return
	}
	info, g, name := f.Info(), f.Graph(), f.String()
	body := f.Decl.Body
	insertM := call("tsdb.SeriesPartition.insert")
	findM := call("tsdb.SeriesIndex.FindIDBySeriesKey")
	idxInsM := call("tsdb.SeriesIndex.Insert")
	idField := core.LookupField(f.Pkg.Types, "SeriesPartition", "id")
	idsP := x4Param(f, "ids")
	if idField == nil || idsP == nil {
		r.Bad("anchor", name+" ids / SeriesPartition.id", "unresolved", f.Pos(), "parameter / field not found")
		return
	}
	foreign := core.X4CmpEdge(m4AnyExpr, core.X4IsField(info, idField), token.NEQ, false)

	var fast *rw3Loop
	nLoops := 0
	for _, s := range rw3TopLoops(body) {
		l := rw3FindLoop(g, s)
		if l == nil {
			continue
		}
		kind := ""
		switch {
		case len(core.AllCalls(info, l.Body, insertM)) > 0:
			kind = "create-loop"
		case len(core.AllCalls(info, l.Body, idxInsM)) > 0:
			kind = "index-loop"
		case len(core.AllCalls(info, l.Body, findM)) > 0:
			kind = "lookup-loop"
			fast = l
		default:
			continue
		}
		nLoops++
		lv := m4LoopLeaves(g, l, nil)
		where := p.Pos(s.Pos())
		if len(lv) > 0 {
			where = g.Line(lv[0])
		}
		r.Check(len(lv) == 0, rule, name, kind+"-left-early", where, "the "+kind+" over the batch is left before the last key only with a failure (a key behind the exit would neither be looked up nor created)")
	}
	r.Check(nLoops >= 2, rule, name, "loops:count", f.Pos(), fmt.Sprintf("%d loops over the batch found (create and index insert at least)", nLoops))
	if fast == nil {
		r.Ok(rule, name+":fast-path", f.Pos(), "no read-locked fast path: every call takes the write lock")
		return
	}
	// the read-locked fast path
	var look *core.Node
	for _, n := range g.Select(g.Calling(findM)) {
		if fast.In(n) {
			look = n
		}
	}
	hasFind := func(e ast.Expr) bool { return len(core.CallsIn(info, e, findM, core.WalkOpts{})) > 0 }
	nf, fd, ok := x4ZeroTest(g, look, hasFind)
	if !r.Check(ok, rule, name, "fast-path-lookup-test:absent", g.Line(look), "the result of the read-locked lookup is compared with 0 right after the lookup") {
		return
	}
	isSet, flag := m4FlagSets(g, fast)
	if !r.Check(flag != nil && m4OnlySetTrue(info, body, flag), rule, name, "write-required-flag:absent", p.Pos(fast.Stmt.Pos()), "one boolean local is set (only ever to true) in the lookup loop") {
		return
	}
	var found ast.Expr
	if as, isAs := look.N.(*ast.AssignStmt); isAs && len(as.Lhs) >= 1 {
		found = as.Lhs[0]
	}
	isStore := func(n *core.Node) bool {
		as, isAs := n.N.(*ast.AssignStmt)
		if !isAs || len(as.Lhs) != 1 || len(as.Rhs) != 1 || found == nil {
			return false
		}
		ix, isIx := ast.Unparen(as.Lhs[0]).(*ast.IndexExpr)
		if !isIx || core.ObjOf(info, ix.X) != idsP {
			return false
		}
		return core.ExprStr(ast.Unparen(as.Rhs[0])) == core.ExprStr(found)
	}
	if lhsIx, isIx := ast.Unparen(found).(*ast.IndexExpr); isIx && core.ObjOf(info, lhsIx.X) == idsP {
		// the lookup stores straight into ids[i]
		isStore = func(n *core.Node) bool { return n == look }
	}
	r.Check(len(fast.Escapes(g, isSet, m4Or(foreign, func(e *core.Edge) bool { return fd(e) }))) == 0, rule, name, "absent-key-not-marked", p.Pos(fast.Stmt.Pos()),
		"every key of this partition whose lookup returned 0 sets the write-required flag")
	r.Check(len(fast.Escapes(g, isStore, m4Or(foreign, func(e *core.Edge) bool { return nf(e) }))) == 0, rule, name, "found-id-not-stored", p.Pos(fast.Stmt.Pos()),
		"every key of this partition whose lookup returned an id gets that id stored in ids[i]")
	// success before the write lock only when nothing has to be written
	lock := g.Calling(call("sync.RWMutex.Lock"))
	reach := g.ReachFromEntry(lock, func(e *core.Edge) bool { return rw3BoolEdge(info, e, flag, false) })
	bad := ""
	for _, x := range g.SuccessExits() {
		if reach[x] {
			bad = g.Line(x)
		}
	}
	r.Check(bad == "" && len(g.Select(lock)) >= 1, rule, name, "success-without-create-phase", firstNonEmpty12(bad, f.Pos()), "a success return before the write lock is taken is reachable only on the edge on which the write-required flag is false")
}

// c13m4CreatePhase: once the write lock is taken, a success exit passes the create loop.
func c13m4CreatePhase(p *core.Prog, r *core.Report) {
	const rule = "every-key"
	f := p.Func(tsdbP, "SeriesPartition.CreateSeriesListIfNotExists")
	if f == nil || f.Decl.Body == nil {
		return
	}
	info, g, name := f.Info(), f.Graph(), f.String()
	var create *rw3Loop
	for _, s := range rw3TopLoops(f.Decl.Body) {
		if l := rw3FindLoop(g, s); l != nil && len(core.AllCalls(info, l.Body, call("tsdb.SeriesPartition.insert"))) > 0 {
			create = l
		}
	}
	locks := g.Select(g.Calling(call("sync.RWMutex.Lock")))
	if create == nil || len(locks) == 0 {
		return // reported elsewhere
	}
	reach := g.Reach(core.X1SuccsOf(locks), func(n *core.Node) bool { return n == create.Head }, nil)
	bad := ""
	for _, x := range g.SuccessExits() {
		if reach[x] {
			bad = g.Line(x)
		}
	}
	r.Check(bad == "", rule, name, "success-under-lock-without-create-loop", firstNonEmpty12(bad, f.Pos()), "once the write lock is taken no success return is reachable without entering the create loop (a closed partition fails)")
}

// ---------------------------------------------------------------- (13) segments

func c13m4Segments(p *core.Prog, r *core.Report) {
	const rule = "segment-list"
	pk := p.Pkg(tsdbP)
	if pk == nil {
		return
	}
	segF := core.LookupField(pk.Types, "SeriesPartition", "segments")
	if segF == nil {
		r.Bad("anchor", "tsdb.SeriesPartition.segments", "unresolved", "-", "field not found")
		return
	}
	createM := call("tsdb.CreateSeriesSegment")
	if f := p.Func(tsdbP, "SeriesPartition.openSegments"); f != nil && f.Decl.Body != nil {
		info, g, name := f.Info(), f.Graph(), f.String()
		isLenSeg := func(x ast.Expr) bool {
			c, ok := ast.Unparen(core.ResolveLocal(info, f.Decl.Body, x)).(*ast.CallExpr)
			return ok && core.Builtin("len")(info, c) && len(c.Args) == 1 && core.FieldOf(info, c.Args[0]) == segF
		}
		var loop *rw3Loop
		for _, n := range g.Select(g.Calling(call("tsdb.SeriesSegment.Open"))) {
			if n.N != nil {
				loop = m4LoopOf(g, f.Decl.Body, n.N.Pos())
			}
		}
		if r.Check(loop != nil, rule, name, "directory-scan:absent", f.Pos(), "existing segment files are opened in a loop over the directory entries") {
			lv := m4LoopLeaves(g, loop, nil)
			r.Check(len(lv) == 0, rule, name, "directory-scan-left-early", p.Pos(loop.Stmt.Pos()), "the scan of the partition directory is left before the last entry only with a failure (a segment behind the exit would not be opened, and the next id would be computed without it)")
			store := g.Assigning(segF)
			r.Check(len(g.Select(store)) >= 1 && len(loop.Escapes(g, store, g.FailEdge)) == 0, rule, name, "opened-segment-not-registered", p.Pos(loop.Stmt.Pos()), "every directory entry that parsed as a segment file and was opened is appended to p.segments")
		}
		un := g.ReachFromEntry(nil, func(e *core.Edge) bool { return rw3ZeroEdgeQ(info, e, isLenSeg) })
		for _, n := range g.Select(g.Calling(createM)) {
			r.Check(!un[n], rule, name, "initial-segment-over-existing", g.Line(n), "the initial segment 0000 is created only on the edge len(p.segments) == 0 (creating it renames a fresh file over an existing segment)")
		}
	}
	if f := p.Func(tsdbP, "SeriesPartition.createSegment"); f != nil && f.Decl.Body != nil {
		info, g, name := f.Info(), f.Graph(), f.String()
		isLenSeg := func(x ast.Expr) bool {
			c, ok := ast.Unparen(core.ResolveLocal(info, f.Decl.Body, x)).(*ast.CallExpr)
			return ok && core.Builtin("len")(info, c) && len(c.Args) == 1 && core.FieldOf(info, c.Args[0]) == segF
		}
		nonEmpty := func(e *core.Edge) bool { return rw3NonZeroEdgeQ(info, e, isLenSeg) }
		var idO types.Object
		for _, c := range core.AllCalls(info, f.Decl.Body, createM) {
			if len(c.Args) == 2 {
				idO = core.ObjOf(info, c.Args[0])
			}
		}
		isDef := func(n *core.Node) bool {
			as, ok := n.N.(*ast.AssignStmt)
			if !ok || idO == nil {
				return false
			}
			for i, l := range as.Lhs {
				if core.ObjOf(info, l) == idO && i < len(as.Rhs) && len(core.AllCalls(info, as.Rhs[i], call("tsdb.SeriesSegment.ID"))) > 0 {
					return true
				}
			}
			return false
		}
		defs := g.Select(isDef)
		if idO == nil || len(defs) == 0 {
			r.Ok(rule, name+":next-id", f.Pos(), "the id of the new segment is not derived from the last segment's ID(): not examined")
		} else {
			ok, nEdges := true, 0
			creates := g.Select(g.Calling(createM))
			for _, n := range g.Nodes {
				for _, e := range n.Succ {
					if !nonEmpty(e) {
						continue
					}
					nEdges++
					reach := g.Reach([]*core.Node{e.To}, isDef, nil)
					for _, c := range creates {
						if reach[c] {
							ok = false
						}
					}
				}
			}
			un := g.ReachFromEntry(nil, nonEmpty)
			for _, d := range defs {
				if un[d] {
					ok = false
				}
			}
			r.Check(ok && nEdges >= 1, rule, name, "next-segment-id", g.Line(defs[0]), "exactly on the edge len(p.segments) > 0 the id handed to CreateSeriesSegment is derived from the last segment's ID() (otherwise the new file would replace segment 0)")
		}
	}
}

// ---------------------------------------------------------------- (11)

func c13m4Hits(p *core.Prog, r *core.Report) {
	const rule = "hit-reachable"
	for _, fn := range []string{"SeriesIndex.FindIDBySeriesKey", "SeriesIndex.FindOffsetByID"} {
		f := p.Func(tsdbP, fn)
		if f == nil || f.Decl.Body == nil {
			r.Bad("anchor", tsdbP+"."+fn, "unresolved", "-", "function not found")
			continue
		}
		info, g := f.Info(), f.Graph()
		params := map[types.Object]bool{}
		if sig, ok := f.Obj.Type().(*types.Signature); ok {
			for i := 0; i < sig.Params().Len(); i++ {
				params[sig.Params().At(i)] = true
			}
			if sig.Recv() != nil {
				params[sig.Recv()] = true
			}
		}
		localOf := func(x ast.Expr) types.Object {
			v, ok := core.ObjOf(info, x).(*types.Var)
			if !ok || v.IsField() || v.Pkg() == nil || v.Parent() == v.Pkg().Scope() || params[v] {
				return nil
			}
			return v
		}
		// dataflow components of the locals (parameters excluded): two locals are
		// related when one is computed from the other
		parent := map[types.Object]types.Object{}
		var find func(o types.Object) types.Object
		find = func(o types.Object) types.Object {
			if parent[o] == nil || parent[o] == o {
				parent[o] = o
				return o
			}
			parent[o] = find(parent[o])
			return parent[o]
		}
		union := func(os []types.Object) {
			for i := 1; i < len(os); i++ {
				parent[find(os[i])] = find(os[0])
			}
		}
		localsIn := func(n ast.Node) []types.Object {
			var out []types.Object
			if n == nil {
				return nil
			}
			ast.Inspect(n, func(x ast.Node) bool {
				if id, ok := x.(*ast.Ident); ok {
					if o := localOf(id); o != nil {
						out = append(out, o)
					}
				}
				return true
			})
			return out
		}
		ast.Inspect(f.Decl.Body, func(x ast.Node) bool {
			switch st := x.(type) {
			case *ast.AssignStmt:
				var os []types.Object
				for _, e := range st.Lhs {
					os = append(os, localsIn(e)...)
				}
				for _, e := range st.Rhs {
					os = append(os, localsIn(e)...)
				}
				union(os)
			case *ast.ValueSpec:
				union(localsIn(st))
			case *ast.RangeStmt:
				union(append(append(localsIn(st.Key), localsIn(st.Value)...), localsIn(st.X)...))
			}
			return true
		})
		emptyOf := func(comp map[types.Object]bool) core.EdgePred {
			rel := func(x ast.Expr) bool {
				o := localOf(x)
				return o != nil && comp[find(o)]
			}
			return func(e *core.Edge) bool {
				if rw3qtyEdge(info, e, func(x ast.Expr) bool {
					if !rel(x) {
						return false
					}
					b, ok := info.TypeOf(x).Underlying().(*types.Basic)
					return ok && b.Info()&types.IsInteger != 0
				}, true) {
					return true
				}
				// a container is known to be empty
				if rw3qtyEdge(info, e, func(x ast.Expr) bool {
					c, ok := ast.Unparen(x).(*ast.CallExpr)
					return ok && core.Builtin("len")(info, c)
				}, true) {
					return true
				}
				return rw3EdgeImplies(e, func(c ast.Expr, v bool) bool {
					if x, nonNilOnTrue, ok := core.NilTest(info, c); ok {
						return rel(x) && v != nonNilOnTrue
					}
					// a related local is known to DIFFER from another variable
					be, ok := ast.Unparen(c).(*ast.BinaryExpr)
					if !ok || !((be.Op == token.NEQ && v) || (be.Op == token.EQL && !v)) {
						return false
					}
					isVar := func(x ast.Expr) bool { _, ok := core.ObjOf(info, x).(*types.Var); return ok }
					return (rel(be.X) && isVar(be.Y)) || (rel(be.Y) && isVar(be.X))
				})
			}
		}
		n := 0
		var bad []*core.Node
		for _, x := range g.Exits {
			rs, ok := x.N.(*ast.ReturnStmt)
			if !ok || len(rs.Results) != 1 {
				continue
			}
			if v := core.ConstVal(info, rs.Results[0]); v != nil && v.Kind() == constant.Int && constant.Sign(v) == 0 {
				continue
			}
			n++
			comp := map[types.Object]bool{}
			for _, o := range localsIn(rs.Results[0]) {
				comp[find(o)] = true
			}
			if !g.ReachFromEntry(nil, emptyOf(comp))[x] {
				bad = append(bad, x)
			}
		}
		if r.Check(n >= 2, rule, f.String(), "hit-returns:count", f.Pos(), fmt.Sprintf("%d returns of a found value (in-memory map, on-disk map)", n)) {
			r.Check(len(bad) == 0, rule, f.String(), "hit-behind-emptiness-test", firstNonEmpty12(x4Lines(g, bad), f.Pos()), "every return of a found value is reachable without taking an edge on which a local it is computed from (or a local computed from the same data) is known to be zero / nil or to differ from another variable")
		}
	}
}

// ---------------------------------------------------------------- (12)

func c13m4Closed(p *core.Prog, r *core.Report) {
	const rule = "lookup-unless-closed"
	pk := p.Pkg(tsdbP)
	if pk == nil {
		return
	}
	closedF := core.LookupField(pk.Types, "SeriesPartition", "closed")
	if closedF == nil {
		r.Bad("anchor", "tsdb.SeriesPartition.closed", "unresolved", "-", "field not found")
		return
	}
	for _, fn := range []string{"SeriesPartition.SeriesKey", "SeriesPartition.FindIDBySeriesKey", "SeriesPartition.IsDeleted"} {
		f := p.Func(tsdbP, fn)
		if f == nil || f.Decl.Body == nil {
			r.Bad("anchor", tsdbP+"."+fn, "unresolved", "-", "function not found")
			continue
		}
		info, g := f.Info(), f.Graph()
		var params []types.Object
		if sig, ok := f.Obj.Type().(*types.Signature); ok {
			for i := 0; i < sig.Params().Len(); i++ {
				params = append(params, sig.Params().At(i))
			}
		}
		exempt := func(e *core.Edge) bool {
			if core.X1BoolEdge(core.X1IsField(info, closedF), true)(e) {
				return true
			}
			for _, po := range params {
				if rw3ZeroEdge(info, e, po) {
					return true
				}
			}
			return false
		}
		core.RuleMustPassN(r, f, g, rule, "SeriesIndex lookup", g.Calling(call("tsdb.SeriesIndex.*")), exempt)
	}
}
