package rules

import (
	"fmt"
	"go/ast"
	"go/constant"
	"go/token"
	"go/types"

	"verif/checker/core"
)

// C33 extension (m8): survivor-driven rules.
//
//	lock-balance           no method of Check / StartupProgressLogger returns with
//	                       its mutex still held (a leaked read or write lock blocks
//	                       the next registration and, behind it, every request)
//	first-failure-message  firstFailureMessage answers with the Message() of the
//	                       first failing check whenever that message is not empty
//	pulse-idle             SchedulerPulseCheck applies the stall test to every
//	                       non-zero next-run time and never fails for a zero one
func init() {
	extend("C33", "lock-balance: from every Lock/RLock of Check.mu and StartupProgressLogger.shardLoadMu each path to an exit passes the matching Unlock/RUnlock or a defer of it (a defer placed after an early return does not count); "+
		"first-failure-message: in firstFailureMessage every path from the branch on which a check's Status() is fail ends in the return of that check's Message() value unless a branch established that the message is empty, and never moves on to a later check; "+
		"pulse-idle: SchedulerPulseCheck.Check reaches the now.After(deadline) stall test on every path except through When().IsZero(), and no fail response is reachable from the IsZero branch; "+
		"shard-health: StartupProgressLogger.checkHealth returns a passing response only behind a branch establishing that the copied shardLoadErrs list is empty and no failing response from that branch; "+
		"assert-guard: in the methods of Check the value of a comma-ok type assertion is used as receiver/argument of a call only where ok is established (otherwise a nil checker is registered and every evaluation panics).",
		nil, func(p *core.Prog, r *core.Report, tier string) {
			c33mLockBalance(p, r)
			c33mFirstFailure(p, r)
			c33mPulseIdle(p, r)
			c33mShardHealth(p, r)
			c33mAssertGuard(p, r)
		})
}

// c33mShardHealth: StartupProgressLogger.checkHealth passes exactly where the
// copied list of shard load errors is empty.
func c33mShardHealth(p *core.Prog, r *core.Report) {
	const rule = "shard-health"
	pk := p.Pkg(runPk8)
	if pk == nil {
		return
	}
	f := r.Need(p, runPk8, "StartupProgressLogger.checkHealth")
	fld := core.LookupField(pk.Types, "StartupProgressLogger", "shardLoadErrs")
	if f == nil || fld == nil {
		return
	}
	g := f.Graph()
	info := f.Info()
	isErrs := func(e ast.Expr) bool {
		e = ast.Unparen(e)
		if core.FieldOf(info, e) == fld {
			return true
		}
		o := core.ObjOf(info, e)
		if o == nil {
			return false
		}
		as := core.AssignsTo8(info, f.Decl.Body, o)
		return len(as) == 1 && as[0].Rhs != nil && core.X1MentionsField(info, as[0].Rhs, fld)
	}
	empty := g.EmptyEdge(isErrs)
	if !r.Check(g.HasEdge8(empty), rule, f.String(), "empty-test:absent", f.Pos(), "a branch tests whether the list of shard load errors is empty") {
		return
	}
	passN := g.Select(g.Calling(call("kit/check.Pass", "kit/check.Info", "kit/check.NamedPass")))
	failN := g.Calling(call("kit/check.Fail", "kit/check.NamedFail", "kit/check.Error"))
	if !r.Check(len(passN) >= 1 && len(g.Select(failN)) >= 1, rule, f.String(), "responses:absent", f.Pos(), "the check has a passing and a failing response") {
		return
	}
	r.Check(len(g.Bypassing8(passN, empty)) == 0, rule, f.String(), "pass-with-errors", g.Line(passN[0]), "a passing response is returned only behind a branch establishing that no shard load error was recorded")
	failsEmpty := false
	for _, nd := range g.Nodes {
		for _, e := range nd.Succ {
			if empty(e) {
				for x := range g.Reach([]*core.Node{e.To}, nil, nil) {
					if failN(x) {
						failsEmpty = true
					}
				}
			}
		}
	}
	r.Check(!failsEmpty, rule, f.String(), "fail-without-errors", f.Pos(), "no failing response is reachable from the branch on which the error list is empty")
}

// c33mAssertGuard: in the registration methods of Check the value of a
// comma-ok type assertion is handed on (as receiver or argument of a call)
// only where ok is true — otherwise a nil checker is registered and every later
// evaluation panics.
func c33mAssertGuard(p *core.Prog, r *core.Report) {
	const rule = "assert-guard"
	if p.Pkg(checkPk8) == nil {
		return
	}
	sites := 0
	for _, f := range p.Funcs(checkPk8) {
		if f.Decl.Body == nil || x2RecvTypeOf(f) != "Check" {
			continue
		}
		g := f.Graph()
		info := f.Info()
		ast.Inspect(f.Decl.Body, func(n ast.Node) bool {
			if _, isLit := n.(*ast.FuncLit); isLit {
				return false
			}
			as, ok := n.(*ast.AssignStmt)
			if !ok || len(as.Lhs) != 2 || len(as.Rhs) != 1 {
				return true
			}
			ta, isTA := ast.Unparen(as.Rhs[0]).(*ast.TypeAssertExpr)
			if !isTA || ta.Type == nil {
				return true
			}
			v, okV := core.ObjOf(info, as.Lhs[0]), core.ObjOf(info, as.Lhs[1])
			if v == nil || okV == nil {
				return true // `_, ok :=` or `v, _ :=`: nothing to tie
			}
			if len(core.AssignsTo8(info, f.Decl.Body, v)) != 1 || len(core.AssignsTo8(info, f.Decl.Body, okV)) != 1 {
				return true // re-assigned (e.g. a default on the !ok branch): not this idiom
			}
			sites++
			r.Saw(f)
			held := core.EdgeEstablishing(core.BoolVarFact(info, okV, true))
			uses := g.Select(func(x *core.Node) bool {
				if x.N == nil {
					return false
				}
				used := false
				ast.Inspect(x.N, func(y ast.Node) bool {
					c, isCall := y.(*ast.CallExpr)
					if !isCall {
						return true
					}
					if rc := core.Recv(c); rc != nil && core.ObjOf(info, rc) == v {
						used = true
					}
					for _, a := range c.Args {
						if core.ObjOf(info, a) == v {
							used = true
						}
					}
					return true
				})
				return used
			})
			bad := g.Bypassing8(uses, held)
			where := ""
			if len(bad) > 0 {
				where = g.Line(bad[0])
			}
			r.Check(len(bad) == 0, rule, f.String(), "asserted-value-used-without-ok", p.Pos(as.Pos()),
				"the value of the comma-ok type assertion is passed on only behind a branch establishing ok"+ifs8(where != "", " — used at "+where))
			return true
		})
	}
	// an idiom rule: it applies wherever the idiom occurs (today: AddHealthCheck); a registration
	// written without a comma-ok assertion (type switch) has nothing to guard
	r.Ok(rule, checkPk8+".Check", "-", fmt.Sprintf("%d comma-ok type assertion(s) in the methods of Check examined", sites))
}

func c33mLockBalance(p *core.Prog, r *core.Report) {
	const rule = "lock-balance"
	for _, t := range []struct {
		pkg, typ, mu string
		min          int
	}{
		{checkPk8, "Check", "mu", 2},
		{runPk8, "StartupProgressLogger", "shardLoadMu", 1},
	} {
		pk := p.Pkg(t.pkg)
		if pk == nil {
			continue
		}
		mu := core.LookupField(pk.Types, t.typ, t.mu)
		if !r.Check(mu != nil, "anchor", t.pkg+"."+t.typ+"."+t.mu, "unresolved", "-", "mutex field resolved") {
			continue
		}
		locking := 0
		for _, f := range p.Funcs(t.pkg) {
			if f.Decl.Body == nil {
				continue
			}
			for _, g := range f.Graphs() {
				info := g.Info
				// lock operations on the mutex evaluated by a node itself (not inside a nested literal / defer / go)
				opsIn := func(n ast.Node, deferred bool) (ops []string) {
					if n == nil {
						return nil
					}
					ast.Inspect(n, func(x ast.Node) bool {
						switch y := x.(type) {
						case *ast.FuncLit:
							return deferred // a deferred literal runs at exit; any other literal is a separate graph
						case *ast.CallExpr:
							if fld, op, ok := core.LockOpOn(info, y); ok && fld == mu {
								ops = append(ops, op)
							}
						}
						return true
					})
					return ops
				}
				has := func(ops []string, want string) bool {
					for _, o := range ops {
						if o == want {
							return true
						}
					}
					return false
				}
				for _, n := range g.Nodes {
					if n.N == nil {
						continue
					}
					if _, isDefer := n.N.(*ast.DeferStmt); isDefer {
						continue
					}
					if _, isGo := n.N.(*ast.GoStmt); isGo {
						continue
					}
					for _, acquire := range opsIn(n.N, false) {
						release := map[string]string{"Lock": "Unlock", "RLock": "RUnlock"}[acquire]
						if release == "" {
							continue
						}
						locking++
						r.Saw(f)
						releases := func(x *core.Node) bool {
							if x.N == nil || x == n {
								return false
							}
							if ds, isDefer := x.N.(*ast.DeferStmt); isDefer {
								return has(opsIn(ds.Call, true), release)
							}
							if _, isGo := x.N.(*ast.GoStmt); isGo {
								return false
							}
							return has(opsIn(x.N, false), release)
						}
						// a release deferred before the acquisition covers it as well
						deferredBefore := func(x *core.Node) bool {
							ds, isDefer := x.N.(*ast.DeferStmt)
							return isDefer && has(opsIn(ds.Call, true), release)
						}
						if !g.ReachFromEntry(deferredBefore, nil)[n] {
							r.Ok(rule, f.String(), g.Line(n), t.typ+"."+t.mu+"."+acquire+": the matching "+release+" is deferred on every path before the acquisition")
							continue
						}
						where := ""
						for _, x := range core.X1ExitsIn(g.Reach(core.After(n, nil), releases, nil)) {
							where = g.Line(x)
						}
						r.Check(where == "", rule, f.String(), "leak:"+t.mu, g.Line(n),
							"every path from "+t.typ+"."+t.mu+"."+acquire+" to an exit passes the matching "+release+" or a defer of it"+ifs8(where != "", " — exit "+where+" is reachable with the lock held"))
					}
				}
			}
		}
		r.Check(locking >= t.min, rule, t.pkg+"."+t.typ, "acquisitions:count", "-", fmt.Sprintf("%d acquisition(s) of %s examined (>= %d confirmed by reading)", locking, t.typ+"."+t.mu, t.min))
	}
}

func c33mFirstFailure(p *core.Prog, r *core.Report) {
	const rule = "first-failure-message"
	cpk := p.Pkg(checkPk8)
	if p.Pkg(httpPk8) == nil || cpk == nil {
		return
	}
	f := r.Need(p, httpPk8, "firstFailureMessage")
	if f == nil {
		return
	}
	failC, _ := cpk.Types.Scope().Lookup("StatusFail").(*types.Const)
	passC, _ := cpk.Types.Scope().Lookup("StatusPass").(*types.Const)
	if failC == nil || passC == nil {
		return
	}
	g := f.Graph()
	info := f.Info()
	statusCall := call("kit/check.Response.Status", "kit/check.BasicResponse.Status")
	messageCall := call("kit/check.Response.Message", "kit/check.BasicResponse.Message")
	// the checker whose status is tested on an edge
	recvOf := func(c *ast.CallExpr) types.Object {
		if se, ok := ast.Unparen(c.Fun).(*ast.SelectorExpr); ok {
			return core.ObjOf(info, se.X)
		}
		return nil
	}
	isStatusOf := func(e ast.Expr) (types.Object, bool) {
		e = core.ResolveLocal(info, f.Decl.Body, e)
		c, ok := ast.Unparen(e).(*ast.CallExpr)
		if !ok || !statusCall(info, c) {
			return nil, false
		}
		return recvOf(c), true
	}
	var failing types.Object
	failEdge := core.CmpFactEdge8(func(c core.Cmp8) bool {
		o, ok := isStatusOf(c.L)
		if !ok {
			return false
		}
		k := selObj8(info, c.R)
		if (c.Op == token.EQL && k == failC) || (c.Op == token.NEQ && k == passC) {
			failing = o
			return true
		}
		return false
	})
	// is e the Message() of checker `of` (directly or through a single-definition local)?
	isMessageOf := func(e ast.Expr, of types.Object) bool {
		e = core.ResolveLocal(info, f.Decl.Body, e)
		c, ok := ast.Unparen(e).(*ast.CallExpr)
		return ok && messageCall(info, c) && (of == nil || recvOf(c) == of)
	}
	n := 0
	for _, nd := range g.Nodes {
		for _, e := range nd.Succ {
			failing = nil
			if !failEdge(e) {
				continue
			}
			n++
			of := failing
			msgRet := func(x *core.Node) bool {
				rs, ok := x.N.(*ast.ReturnStmt)
				return ok && len(rs.Results) == 1 && isMessageOf(rs.Results[0], of)
			}
			isEmptyStr := func(x ast.Expr) bool {
				tv, ok := info.Types[x]
				return ok && tv.Value != nil && tv.Value.Kind() == constant.String && constant.StringVal(tv.Value) == ""
			}
			msgEmpty := core.AtomEdge(func(x ast.Expr, val bool) bool {
				if a, br, ok := core.EmptyOn(info, x); ok && isMessageOf(a, of) && br == val {
					return true
				}
				if be, ok := ast.Unparen(x).(*ast.BinaryExpr); ok && (be.Op == token.EQL || be.Op == token.NEQ) {
					if (isMessageOf(be.X, of) && isEmptyStr(be.Y)) || (isMessageOf(be.Y, of) && isEmptyStr(be.X)) {
						return (be.Op == token.EQL) == val
					}
				}
				return false
			})
			reach := g.Reach([]*core.Node{e.To}, msgRet, msgEmpty)
			bad := ""
			for _, x := range core.X1ExitsIn(reach) {
				bad = "exit at " + g.Line(x) + " without the message"
			}
			// "first": once a failing check was found the scan does not move on, whatever its message
			if loop := core.InnermostLoop12(f.Decl.Body, e.To); loop != nil {
				if head, _, _ := g.LoopNodes(loop); head != nil && g.Reach([]*core.Node{e.To}, nil, nil)[head] {
					bad = "the scan moves on to a later check"
				}
			}
			r.Check(bad == "", rule, f.String(), "message-dropped", g.Line(e.From),
				"from the branch on which the check's Status() is fail, every path returns that check's Message() unless the message was tested to be empty"+ifs8(bad != "", " — "+bad))
		}
	}
	r.Check(n >= 1, rule, f.String(), "fail-branch:absent", f.Pos(), fmt.Sprintf("%d branch(es) establishing Status()==StatusFail", n))
}

func c33mPulseIdle(p *core.Prog, r *core.Report) {
	const rule = "pulse-idle"
	if p.Pkg(runPk8) == nil {
		return
	}
	f := r.Need(p, runPk8, "SchedulerPulseCheck.Check")
	if f == nil {
		return
	}
	g := f.Graph()
	info := f.Info()
	when := call("cmd/influxd/run.NextRunScheduled.When")
	// is e the next-run time: When() itself or a local only assigned from it
	isWhen := func(e ast.Expr) bool {
		e = core.ResolveLocal(info, f.Decl.Body, e)
		c, ok := ast.Unparen(e).(*ast.CallExpr)
		return ok && when(info, c)
	}
	zeroEdge := func(val bool) core.EdgePred {
		return core.AtomEdge(func(x ast.Expr, v bool) bool {
			c, ok := ast.Unparen(x).(*ast.CallExpr)
			if !ok || v != val || !call("time.Time.IsZero")(info, c) {
				return false
			}
			rc := core.Recv(c)
			return rc != nil && isWhen(rc)
		})
	}
	isZero := zeroEdge(true)
	if !r.Check(g.HasEdge8(isZero), rule, f.String(), "zero-test:absent", f.Pos(), "a branch tests When().IsZero() (zero means nothing is scheduled)") {
		return
	}
	lateTest := g.Calling(call("time.Time.After"))
	if !r.Check(len(g.Select(lateTest)) >= 1, rule, f.String(), "stall-test:absent", f.Pos(), "the stall test now.After(deadline) exists") {
		return
	}
	reach := g.ReachFromEntry(lateTest, isZero)
	bad := ""
	for _, x := range core.X1ExitsIn(reach) {
		bad = g.Line(x)
	}
	r.Check(bad == "", rule, f.String(), "stall-test-skipped", f.Pos(), "every path on which the next-run time is not known to be zero reaches the stall test"+ifs8(bad != "", " — exit "+bad+" reachable without it"))
	failN := g.Calling(call("kit/check.Fail", "kit/check.NamedFail", "kit/check.Error"))
	idleFails := false
	for _, nd := range g.Nodes {
		for _, e := range nd.Succ {
			if isZero(e) {
				for x := range g.Reach([]*core.Node{e.To}, nil, nil) {
					if failN(x) {
						idleFails = true
					}
				}
			}
		}
	}
	r.Check(!idleFails, rule, f.String(), "idle-fails", f.Pos(), "no fail response is reachable from the branch on which the next-run time is zero")
}
