package rules

import (
	"fmt"
	"go/ast"
	"go/types"
	"sort"

	"verif/checker/core"
)

// C14 extension (m4): rules added after triaging the survivors of the generic
// fault enumeration.

func init() {
	extend("C14",
		"(9) literal-failure-propagates: failure-propagates also holds inside the function literals of the analysed functions (the swap sections of compactLogFile / compactToLevel, the write section of Manifest.Write, the locked sections of DropSeries / DropMeasurement) and for error tests written in a negated form; "+
			"(10) every-series in LogFile.AddSeriesList: both loops over the batch are left before the last element only with a failure; in the read-locked pre-pass every series that the series set does not contain (ContainsNoLock false) sets the write-required flag and is queued, a success return before f.mu is write-locked is reachable only on the false edge of that flag (only ever set to true), and under the lock every queued series that is still not contained passes SeriesIDSet.AddNoLock (the in-memory series set equals what a reopen rebuilds from the log); "+
			"(11) new-file-stays-open: in compactLogFile, compactToLevel and prependActiveLogFile the file installed by FileSet.MustReplace / PrependLogFile is closed only on an edge on which an error value is known to be non-nil (closing it on the success path would leave a closed file in the live file set); "+
			"(12) short-buffer: LogEntry.UnmarshalBinary returns io.ErrShortBuffer (the torn-tail signal at which replay stops and truncates) only on an edge on which len(buffer) < needed was established; "+
			"(13) drop-measurement-complete: Partition.DropMeasurement gives every tag key, tag value (unless Deleted()) and every series (until the iterator's zero id) its tombstone entry and leaves those loops early only with a failure; Partition.createSeriesListIfNotExists reports success without LogFile.AddSeriesList only for an empty batch.",
		nil, runC14m4)
}

func runC14m4(p *core.Prog, r *core.Report, tier string) {
	// the functions analysed by the other C14 extension (registered after this one)
	for _, fn := range []string{"IndexFiles.buildSeriesIDSets", "LogFile.execSeriesEntry", "Partition.buildSeriesSet"} {
		if f := p.Func(tsi1, fn); f != nil {
			r.Saw(f)
		}
	}
	var fns []*core.Func
	for f := range r.FuncObjs {
		if f.Decl != nil && f.Decl.Body != nil {
			fns = append(fns, f)
		}
	}
	sort.Slice(fns, func(i, j int) bool { return fns[i].String() < fns[j].String() })
	total := 0
	for _, f := range fns {
		total += m4LitFailures(p, r, f, "literal-failure-propagates", propagateExcept)
	}
	r.Check(total >= 6, "literal-failure-propagates", "tsi1", "count", "-", fmt.Sprintf("%d tested/forwarded error calls inside function literals (>= 6 confirmed by reading)", total))
	m4NegatedErrTests(p, r)

	c14m4AddSeriesList(p, r)
	c14m4NewFile(p, r)
	c14m4ShortBuffer(p, r)
	c14m4Drop(p, r)
}

// c14m4ShortBuffer: LogEntry.UnmarshalBinary reports a torn record (io.ErrShortBuffer,
// which LogFile.open takes as "end of the valid log") only behind a test that found
// the remaining buffer shorter than what is needed.
func c14m4ShortBuffer(p *core.Prog, r *core.Report) {
	const rule = "short-buffer"
	f := p.Func(tsi1, "LogEntry.UnmarshalBinary")
	if f == nil || f.Decl.Body == nil {
		return
	}
	info, g := f.Info(), f.Graph()
	isLen := func(x ast.Expr) bool {
		c, ok := ast.Unparen(x).(*ast.CallExpr)
		return ok && core.Builtin("len")(info, c)
	}
	short := core.X1CmpEdge(isLen, func(ast.Expr) bool { return true }, core.X1LT)
	reach := g.ReachFromEntry(nil, short)
	n := 0
	bad := ""
	for _, x := range g.Exits {
		rs, ok := x.N.(*ast.ReturnStmt)
		if !ok || len(rs.Results) != 1 {
			continue
		}
		se, ok := ast.Unparen(rs.Results[0]).(*ast.SelectorExpr)
		if !ok {
			continue
		}
		v, ok := info.Uses[se.Sel].(*types.Var)
		if !ok || v.Pkg() == nil || v.Pkg().Path() != "io" || v.Name() != "ErrShortBuffer" {
			continue
		}
		n++
		if reach[x] {
			bad = g.Line(x)
		}
	}
	if r.Check(n >= 1, rule, f.String(), "short-buffer-returns:count", f.Pos(), fmt.Sprintf("%d returns of io.ErrShortBuffer", n)) {
		r.Check(bad == "", rule, f.String(), "short-buffer-without-length-test", firstNonEmpty12(bad, f.Pos()), "io.ErrShortBuffer (which replay treats as the torn tail and stops at) is returned only on an edge on which len(buffer) < needed was established")
	}
}

// c14m4Drop: Partition.DropMeasurement tombstones every live tag key, tag value and
// series of the measurement; Partition.createSeriesListIfNotExists reports success
// without LogFile.AddSeriesList only for an empty batch.
func c14m4Drop(p *core.Prog, r *core.Report) {
	const rule = "drop-measurement-complete"
	if f := p.Func(tsi1, "Partition.DropMeasurement"); f != nil && f.Decl.Body != nil {
		info, g, name := f.Info(), f.Graph(), f.String()
		deleted := core.X4CallCond(info, call(tsi1+".TagKeyElem.Deleted", tsi1+".TagValueElem.Deleted", tsi1+".*.Deleted"), true)
		for _, it := range []struct {
			what string
			m    core.Matcher
		}{{"tag key", call(tsi1 + ".LogFile.DeleteTagKey")}, {"tag value", call(tsi1 + ".LogFile.DeleteTagValue")}, {"series", call(tsi1 + ".LogFile.DeleteSeriesID")}} {
			sink := g.Calling(it.m)
			var loop *rw3Loop
			for _, n := range g.Select(sink) {
				if n.N != nil {
					loop = m4LoopOf(g, f.Decl.Body, n.N.Pos())
				}
			}
			if !r.Check(loop != nil, rule, name, it.what+"-loop:absent", f.Pos(), "every "+it.what+" of the measurement is tombstoned in a loop") {
				continue
			}
			exempt := deleted
			if it.what == "series" {
				// the iterator signals its end with a zero series id
				exempt = func(e *core.Edge) bool {
					return rw3ZeroEdgeQ(info, e, func(x ast.Expr) bool {
						se, ok := ast.Unparen(x).(*ast.SelectorExpr)
						return ok && core.FieldOf(info, se) != nil && core.FieldOf(info, se).Name() == "SeriesID"
					})
				}
			}
			r.Check(len(loop.Escapes(g, sink, exempt)) == 0, rule, name, it.what+"-not-tombstoned", p.Pos(loop.Stmt.Pos()), "every "+it.what+" that is not already deleted gets its tombstone entry")
			r.Check(len(m4LoopLeaves(g, loop, exempt)) == 0, rule, name, it.what+"-loop-left-early", p.Pos(loop.Stmt.Pos()), "the "+it.what+" loop is left before the last element only with a failure")
		}
	}
	if f := p.Func(tsi1, "Partition.createSeriesListIfNotExists"); f != nil && f.Decl.Body != nil {
		info, g := f.Info(), f.Graph()
		var params []types.Object
		if sig, ok := f.Obj.Type().(*types.Signature); ok {
			for i := 0; i < sig.Params().Len(); i++ {
				params = append(params, sig.Params().At(i))
			}
		}
		emptyBatch := func(e *core.Edge) bool {
			for _, po := range params {
				if rw3ZeroEdge(info, e, po) {
					return true
				}
			}
			return false
		}
		core.RuleMustPassN(r, f, g, "every-series", "LogFile.AddSeriesList", g.Calling(call(tsi1+".LogFile.AddSeriesList")), emptyBatch)
	}
}

func c14m4AddSeriesList(p *core.Prog, r *core.Report) {
	const rule = "every-series"
	f := p.Func(tsi1, "LogFile.AddSeriesList")
	if f == nil || f.Decl.Body == nil {
		return
	}
	info, g, name := f.Info(), f.Graph(), f.String()
	body := f.Decl.Body
	appendM := call(tsi1 + ".LogFile.appendEntry")
	contains := core.X4CallCond(info, call("tsdb.SeriesIDSet.ContainsNoLock", "tsdb.SeriesIDSet.Contains"), true)
	addM := call("tsdb.SeriesIDSet.AddNoLock", "tsdb.SeriesIDSet.Add")
	var pre, main *rw3Loop
	for _, s := range rw3TopLoops(body) {
		l := rw3FindLoop(g, s)
		if l == nil {
			continue
		}
		kind := "pre-pass"
		if len(core.AllCalls(info, l.Body, appendM)) > 0 {
			kind = "append-loop"
			main = l
		} else if len(core.AllCalls(info, l.Body, call("tsdb.SeriesIDSet.ContainsNoLock", "tsdb.SeriesIDSet.Contains"))) > 0 {
			pre = l
		} else {
			continue
		}
		lv := m4LoopLeaves(g, l, nil)
		where := p.Pos(s.Pos())
		if len(lv) > 0 {
			where = g.Line(lv[0])
		}
		r.Check(len(lv) == 0, rule, name, kind+"-left-early", where, "the "+kind+" over the batch is left before the last element only with a failure")
	}
	if !r.Check(main != nil, rule, name, "append-loop:absent", f.Pos(), "appendEntry is called in a loop over the batch") {
		return
	}
	add := g.Calling(addM)
	r.Check(len(g.Select(add)) >= 1 && len(main.Escapes(g, add, contains)) == 0, rule, name, "series-set-not-updated", p.Pos(main.Stmt.Pos()),
		"every series that is appended to the log (not already contained) is added to the series set")
	if pre == nil {
		r.Ok(rule, name+":pre-pass", f.Pos(), "no read-locked pre-pass: every call takes the write lock")
		return
	}
	isSet, flag := m4FlagSets(g, pre)
	if !r.Check(flag != nil && m4OnlySetTrue(info, body, flag), rule, name, "write-required-flag:absent", p.Pos(pre.Stmt.Pos()), "one boolean local is set (only ever to true) in the pre-pass") {
		return
	}
	var queue types.Object
	if rs, ok := main.Stmt.(*ast.RangeStmt); ok {
		queue = core.ObjOf(info, rs.X)
	}
	isQueue := func(n *core.Node) bool {
		return n.N != nil && queue != nil && rw3AppendTo(info, n.N, func(e ast.Expr) bool { return core.ObjOf(info, e) == queue }) != nil
	}
	r.Check(len(pre.Escapes(g, isSet, contains)) == 0, rule, name, "new-series-not-marked", p.Pos(pre.Stmt.Pos()), "every series the set does not contain sets the write-required flag")
	r.Check(queue != nil && len(pre.Escapes(g, isQueue, contains)) == 0, rule, name, "new-series-not-queued", p.Pos(pre.Stmt.Pos()), "every series the set does not contain is queued for the append loop")
	lock := g.Calling(call("sync.RWMutex.Lock"))
	reach := g.ReachFromEntry(lock, func(e *core.Edge) bool { return rw3BoolEdge(info, e, flag, false) })
	bad := ""
	for _, x := range g.SuccessExits() {
		if reach[x] {
			bad = g.Line(x)
		}
	}
	r.Check(bad == "" && len(g.Select(lock)) >= 1, rule, name, "success-without-log-append", firstNonEmpty12(bad, f.Pos()), "a success return before the log file is write-locked is reachable only on the edge on which the write-required flag is false")
}

func c14m4NewFile(p *core.Prog, r *core.Report) {
	const rule = "new-file-stays-open"
	closeM := call(tsi1+".IndexFile.Close", tsi1+".File.Close", tsi1+".LogFile.Close")
	for _, fn := range []string{"Partition.compactLogFile", "Partition.compactToLevel", "Partition.prependActiveLogFile"} {
		f := p.Func(tsi1, fn)
		if f == nil || f.Decl.Body == nil {
			continue
		}
		info, name := f.Info(), f.String()
		var nf types.Object
		for _, c := range core.AllCalls(info, f.Decl.Body, call(tsi1+".FileSet.MustReplace")) {
			if len(c.Args) == 2 {
				nf = core.ObjOf(info, c.Args[1])
			}
		}
		for _, c := range core.AllCalls(info, f.Decl.Body, call(tsi1+".FileSet.PrependLogFile")) {
			if len(c.Args) == 1 {
				nf = core.ObjOf(info, c.Args[0])
			}
		}
		if !r.Check(nf != nil, rule, name, "MustReplace:absent", f.Pos(), "the new file is installed with FileSet.MustReplace(old, file) / FileSet.PrependLogFile(file)") {
			continue
		}
		graphs := []*core.Graph{f.Graph()}
		for _, fl := range m4Lits(f.Decl.Body) {
			graphs = append(graphs, f.LitGraph(fl))
		}
		n := 0
		ok := true
		where := f.Pos()
		for _, g := range graphs {
			g := g
			onFailure := g.ReachFromEntry(nil, g.FailEdge)
			for _, nd := range g.Nodes {
				if nd.N == nil {
					continue
				}
				var cs []*ast.CallExpr
				if d, isDefer := nd.N.(*ast.DeferStmt); isDefer {
					if closeM(info, d.Call) {
						cs = append(cs, d.Call)
					}
				} else {
					cs = core.CallsIn(info, nd.N, closeM, core.WalkOpts{})
				}
				for _, c := range cs {
					if rw3RecvObj(info, c) != nf {
						continue
					}
					n++
					if onFailure[nd] {
						ok = false
						where = g.Line(nd)
					}
				}
			}
		}
		r.Check(ok, rule, name, "new-file-closed-on-success", where, fmt.Sprintf("the index file handed to MustReplace is closed only behind an edge on which an error is non-nil (%d close site(s))", n))
	}
}
