package rules

import (
	"fmt"
	"go/ast"
	"go/constant"
	"go/token"
	"go/types"
	"strings"

	"verif/checker/core"
)

// ---------------------------------------------------------------- value placement guards

func (c *c41Ctx) valueGuard() {
	const rule = "value-guard"
	p, r := c.p, c.r
	n := 0
	for _, T := range c41Types {
		lt := strings.ToLower(T)
		typ := lt + "WindowTable"
		arrF := c.field(typ, "arr")
		idxF := c.field(typ, "idxInArr")
		tsF := c.extField("tsdb/cursors", T+"Array", "Timestamps")
		valF := c.extField("tsdb/cursors", T+"Array", "Values")
		if arrF == nil || idxF == nil || tsF == nil || valF == nil {
			continue
		}
		// ---- appendValues: one of appendValue / appendNull per interval, the value only on the ok edge
		if f := r.Need(p, c41Pk, typ+".appendValues"); f != nil {
			info, g, body := f.Info(), f.Graph(), f.Decl.Body
			nextAt := call(c41Pk + "." + typ + ".nextAt")
			var okV, vV types.Object
			ast.Inspect(body, func(x ast.Node) bool {
				if as, ok := x.(*ast.AssignStmt); ok && len(as.Lhs) == 2 && len(as.Rhs) == 1 {
					if cl, ok := ast.Unparen(as.Rhs[0]).(*ast.CallExpr); ok && nextAt(info, cl) {
						vV, okV = core.ObjOf(info, as.Lhs[0]), core.ObjOf(info, as.Lhs[1])
					}
				}
				return true
			})
			pVal, pNull := f.Param(1), f.Param(2)
			callOf := func(pv *types.Var) core.NodePred {
				return func(nd *core.Node) bool {
					if nd.N == nil || pv == nil {
						return false
					}
					hit := false
					core.Walk(nd.N, core.WalkOpts{}, func(x ast.Node) bool {
						if cl, ok := x.(*ast.CallExpr); ok && core.ObjOf(info, cl.Fun) == types.Object(pv) {
							hit = true
						}
						return true
					})
					return hit
				}
			}
			if r.Check(okV != nil && vV != nil && pVal != nil && pNull != nil, rule, f.String(), "nextAt:absent", f.Pos(), "each interval asks nextAt for its value") {
				isOk := core.X1IsObj(info, okV)
				vals, nulls := g.Select(callOf(pVal)), g.Select(callOf(pNull))
				noOk := g.ReachFromEntry(nil, core.X1BoolEdge(isOk, true))
				noNotOk := g.ReachFromEntry(nil, core.X1BoolEdge(isOk, false))
				good := len(vals) >= 1 && len(nulls) >= 1
				for _, nd := range vals {
					good = good && !noOk[nd]
					for _, cl := range core.CallsIn(info, nd.N, func(i *types.Info, cl *ast.CallExpr) bool { return core.ObjOf(i, cl.Fun) == types.Object(pVal) }, core.WalkOpts{}) {
						good = good && len(cl.Args) == 1 && core.ObjOf(info, cl.Args[0]) == vV
					}
				}
				for _, nd := range nulls {
					good = good && !noNotOk[nd]
				}
				r.Check(good, rule, f.String(), "value-only-when-ok", f.Pos(), "appendValue receives nextAt's value only on its ok edge, appendNull runs only on the not-ok edge")
				// exactly one per iteration
				var loop ast.Stmt
				ast.Inspect(body, func(x ast.Node) bool {
					switch s := x.(type) {
					case *ast.ForStmt:
						if loop == nil {
							loop = s
						}
					case *ast.RangeStmt:
						if loop == nil {
							loop = s
						}
					}
					return true
				})
				one := false
				if loop != nil {
					head, lbody, _ := g.LoopNodes(loop)
					either := core.AnyOf(callOf(pVal), callOf(pNull))
					if head != nil && lbody != nil {
						skip := g.Reach([]*core.Node{lbody}, either, nil)[head]
						twice := false
						for _, nd := range append(append([]*core.Node{}, vals...), nulls...) {
							after := g.Reach(core.After(nd, nil), func(m *core.Node) bool { return m == head }, nil)
							for _, m := range append(append([]*core.Node{}, vals...), nulls...) {
								if after[m] {
									twice = true
								}
							}
						}
						one = !skip && !twice
					}
				}
				r.Check(one, rule, f.String(), "one-cell-per-interval", f.Pos(), "every interval appends exactly one cell (value or null), so values stay aligned with the window bounds")
			}
		}
		// ---- nextAt
		if f := r.Need(p, c41Pk, typ+".nextAt"); f != nil {
			info, g, body := f.Info(), f.Graph(), f.Decl.Body
			recv := f.X1Recv()
			nb := call(c41Pk + "." + typ + ".nextBuffer")
			iw := call(c41Pk + "." + typ + ".isInWindow")
			isIdx := func(e ast.Expr) bool { return fieldOfRoot(info, recv, idxF)(c41Resolve(info, body, e)) }
			elemOf := func(fv *types.Var) func(ast.Expr) bool {
				return func(e ast.Expr) bool {
					ix, ok := c41Resolve(info, body, e).(*ast.IndexExpr)
					if !ok || !isIdx(ix.Index) {
						return false
					}
					se, ok := ast.Unparen(ix.X).(*ast.SelectorExpr)
					return ok && core.FieldOf(info, se) == fv && fieldOfRoot(info, recv, arrF)(c41Resolve(info, body, se.X))
				}
			}
			stopP := f.Param(0)
			bufOK := core.AtomEdge(func(x ast.Expr, val bool) bool {
				cl, ok := ast.Unparen(x).(*ast.CallExpr)
				return ok && val && nb(info, cl)
			})
			inWin := core.AtomEdge(func(x ast.Expr, val bool) bool {
				cl, ok := ast.Unparen(x).(*ast.CallExpr)
				return ok && val && iw(info, cl) && len(cl.Args) == 2 && stopP != nil && core.ObjOf(info, c41Resolve(info, body, cl.Args[0])) == types.Object(stopP) && elemOf(tsF)(cl.Args[1])
			})
			fail := core.AtomEdge(func(x ast.Expr, val bool) bool {
				cl, ok := ast.Unparen(x).(*ast.CallExpr)
				return ok && !val && (nb(info, cl) || iw(info, cl))
			})
			okRes := f.X1Result(1)
			// success nodes: ok := true / return _, true
			success := func(nd *core.Node) bool {
				switch s := nd.N.(type) {
				case *ast.AssignStmt:
					for i, l := range s.Lhs {
						if okRes != nil && core.ObjOf(info, l) == types.Object(okRes) && len(s.Rhs) == len(s.Lhs) && core.X1IsConstBool(info, s.Rhs[i], true) {
							return true
						}
					}
				case *ast.ReturnStmt:
					return len(s.Results) == 2 && core.X1IsConstBool(info, s.Results[1], true)
				}
				return false
			}
			succ := g.Select(success)
			noBuf, noWin := g.ReachFromEntry(nil, bufOK), g.ReachFromEntry(nil, inWin)
			good := len(succ) >= 1 && len(g.Edges(inWin)) >= 1
			for _, nd := range succ {
				good = good && !noBuf[nd] && !noWin[nd]
				// the value delivered is Values[idxInArr]
				switch s := nd.N.(type) {
				case *ast.AssignStmt:
					for i, l := range s.Lhs {
						if vr := f.X1Result(0); vr != nil && core.ObjOf(info, l) == types.Object(vr) {
							good = good && elemOf(valF)(s.Rhs[i])
						}
					}
				case *ast.ReturnStmt:
					good = good && elemOf(valF)(s.Results[0])
				}
			}
			r.Check(good, rule, f.String(), "ok-only-in-window", f.Pos(), "a value is reported only behind nextBuffer() and isInWindow(stop, arr.Timestamps[idxInArr]), and it is arr.Values[idxInArr] of the same index")
			incs := g.Select(func(nd *core.Node) bool {
				s, ok := nd.N.(*ast.IncDecStmt)
				return ok && s.Tok == token.INC && isIdx(s.X)
			})
			okInc := len(incs) == 1 && len(g.Select(g.Assigning(idxF))) == 1
			if okInc {
				okInc = !noWin[incs[0]]
				// every exit not taken through a failure edge passes the increment
				miss := g.ReachFromEntry(func(m *core.Node) bool { return m == incs[0] }, fail)
				for _, x := range g.Exits {
					if miss[x] {
						okInc = false
					}
				}
			}
			r.Check(okInc, rule, f.String(), "consume-exactly-when-reported", f.Pos(), "idxInArr advances by one exactly on the path that reports the value (a value is neither reported twice nor skipped)")
			n++
		}
		// ---- isInWindow: (start, stop] for aggregates (stamped with the window stop), [start, stop) for selectors
		if f := r.Need(p, c41Pk, typ+".isInWindow"); f != nil {
			c.inWindow(f, typ)
		}
		// ---- empty-window selector table loops
		etyp := lt + "EmptyWindowSelectorTable"
		for _, fn := range []string{"startStopTimes", "startTimes", "stopTimes"} {
			c.selectorLoop(etyp, fn, tsF, valF)
		}
	}
	r.Check(n == 5, rule, c41Pk, "instances:fewer-than-confirmed", "-", fmt.Sprintf("%d nextAt examined (5 confirmed by reading)", n))
	c.keyRoles()
}

// selectorLoop: per window exactly one value cell; the point's value (and time)
// only when its timestamp lies in [windowBounds.Start(), windowBounds.Stop());
// idx advances exactly there; windowBounds advances once per iteration by NextBounds.
func (c *c41Ctx) selectorLoop(typ, fn string, tsF, valF *types.Var) {
	const rule = "value-guard"
	p, r := c.p, c.r
	f := r.Need(p, c41Pk, typ+"."+fn)
	wbF, arrF, idxF := c.field(typ, "windowBounds"), c.field(typ, "arr"), c.field(typ, "idx")
	if f == nil || wbF == nil || arrF == nil || idxF == nil {
		return
	}
	info, g, body := f.Info(), f.Graph(), f.Decl.Body
	recv := f.X1Recv()
	isWB := func(e ast.Expr) bool { return fieldOfRoot(info, recv, wbF)(c41Resolve(info, body, e)) }
	ws := c41MethodOn(info, body, c41BStart, isWB)
	we := c41MethodOn(info, body, c41BStop, isWB)
	// in-window edge: ws <= v and v < we for one and the same v
	inWin := func(e *core.Edge) bool {
		var lows, highs []ast.Expr
		for _, ft := range core.X1EdgeFacts(e) {
			x, y, rel, ok := core.X1CmpAtom(ft.E)
			if !ok {
				continue
			}
			if !ft.True {
				rel = [...]core.X1Rel{core.X1GE, core.X1GT, core.X1NE, core.X1EQ, core.X1LT, core.X1LE}[rel]
			}
			flip := [...]core.X1Rel{core.X1GT, core.X1GE, core.X1EQ, core.X1NE, core.X1LE, core.X1LT}
			if ws(y) || we(y) {
				x, y, rel = y, x, flip[rel]
			}
			switch {
			case ws(x) && rel == core.X1LE:
				lows = append(lows, y)
			case we(x) && rel == core.X1GT:
				highs = append(highs, y)
			}
		}
		for _, a := range lows {
			for _, b := range highs {
				if core.SameExpr(info, core.StripConv(info, a), core.StripConv(info, b)) {
					return true
				}
			}
		}
		return false
	}
	// what is compared: arr.Timestamps[idx] when the array has points, a constant sentinel when it is empty
	var tested []ast.Expr
	for _, e := range g.Edges(inWin) {
		for _, ft := range core.X1EdgeFacts(e) {
			if x, y, _, ok := core.X1CmpAtom(ft.E); ok {
				switch {
				case ws(x) || we(x):
					tested = append(tested, y)
				case ws(y) || we(y):
					tested = append(tested, x)
				}
			}
		}
	}
	isArrE := func(fi *types.Info, fb ast.Node, rv *types.Var) func(ast.Expr) bool {
		return func(e ast.Expr) bool { return fieldOfRoot(fi, rv, arrF)(c41Resolve(fi, fb, e)) }
	}
	srcOK := len(tested) > 0
	var checkSrc func(fn *core.Func, at *core.Node, e ast.Expr, depth int) bool
	checkSrc = func(fn *core.Func, at *core.Node, e ast.Expr, depth int) bool {
		fi, fg, fb := fn.Info(), fn.Graph(), fn.Decl.Body
		rv := fn.X1Recv()
		onlyNotDry := fg.ReachFromEntry(nil, c41HoldsEdge(c41LenZero(fi, fb, isArrE(fi, fb, rv), false)))
		onlyDry := fg.ReachFromEntry(nil, c41HoldsEdge(c41LenZero(fi, fb, isArrE(fi, fb, rv), true)))
		rsv := c41Resolve(fi, fb, e)
		if ix, ok := rsv.(*ast.IndexExpr); ok {
			se, ok := ast.Unparen(ix.X).(*ast.SelectorExpr)
			return ok && core.FieldOf(fi, se) == tsF && fieldOfRoot(fi, rv, arrF)(c41Resolve(fi, fb, se.X)) &&
				fieldOfRoot(fi, rv, idxF)(c41Resolve(fi, fb, ix.Index)) && at != nil && !onlyNotDry[at]
		}
		if core.ConstVal(fi, rsv) != nil {
			return at != nil && !onlyDry[at]
		}
		if cl, ok := rsv.(*ast.CallExpr); ok && depth < 1 {
			if h := c.p.FuncOf(core.Callee(fi, cl)); h != nil && h.Decl.Body != nil && h.Pkg == fn.Pkg && len(cl.Args) == 0 {
				good, n := true, 0
				for _, x := range h.Graph().Exits {
					if rs, ok := x.N.(*ast.ReturnStmt); ok && len(rs.Results) == 1 {
						n++
						good = good && checkSrc(h, x, rs.Results[0], depth+1)
					}
				}
				return good && n > 0
			}
		}
		if o, ok := core.ObjOf(fi, core.StripConv(fi, e)).(*types.Var); ok && !o.IsField() {
			ds := core.DefsOf(fi, fb, o)
			good := len(ds) > 0
			for _, d := range ds {
				if d.Rhs == nil || d.Index != -1 {
					return false
				}
				good = good && checkSrc(fn, fg.NodeOf(d.Stmt), d.Rhs, depth)
			}
			return good
		}
		return false
	}
	for _, te := range tested {
		at := (*core.Node)(nil)
		for _, e := range g.Edges(inWin) {
			at = e.From
		}
		srcOK = srcOK && checkSrc(f, at, te, 0)
	}
	r.Check(srcOK, rule, f.String(), "tested-timestamp", f.Pos(), "the timestamp tested against the window is arr.Timestamps[idx] when the array has points and a constant sentinel only when it is empty")
	gates := g.Edges(inWin)
	if !r.Check(len(gates) >= 1, rule, f.String(), "in-window-test:absent", f.Pos(), "the point's timestamp is tested against [windowBounds.Start(), windowBounds.Stop())") {
		return
	}
	gateFrom := map[*core.Node]bool{}
	for _, e := range gates {
		gateFrom[e.From] = true
	}
	notIn := func(e *core.Edge) bool { return gateFrom[e.From] && !inWin(e) }
	noIn, noOut := g.ReachFromEntry(nil, inWin), g.ReachFromEntry(nil, notIn)
	isIdx := func(e ast.Expr) bool { return fieldOfRoot(info, recv, idxF)(c41Resolve(info, body, e)) }
	// value cells: statements that read arr.Values; null cells: AppendNull of the value builder (a parameter)
	usesValue := func(nd *core.Node) bool { return nd.N != nil && core.X1MentionsField(info, nd.N, valF) }
	bp := f.Param(0)
	nullCell := func(nd *core.Node) bool {
		if nd.N == nil || bp == nil {
			return false
		}
		hit := false
		core.Walk(nd.N, core.WalkOpts{}, func(x ast.Node) bool {
			if cl, ok := x.(*ast.CallExpr); ok && core.Callee(info, cl) != nil && core.Callee(info, cl).Name() == "AppendNull" && core.ObjOf(info, core.Recv(cl)) == types.Object(bp) {
				hit = true
			}
			return true
		})
		return hit
	}
	vals, nulls := g.Select(usesValue), g.Select(nullCell)
	good := len(vals) >= 1 && len(nulls) >= 1
	for _, nd := range vals {
		good = good && !noIn[nd]
		// the value read is arr.Values[idx]
		core.Walk(nd.N, core.WalkOpts{}, func(x ast.Node) bool {
			if ix, ok := x.(*ast.IndexExpr); ok {
				if se, ok := ast.Unparen(ix.X).(*ast.SelectorExpr); ok && core.FieldOf(info, se) == valF {
					good = good && isIdx(ix.Index)
				}
			}
			return true
		})
	}
	for _, nd := range nulls {
		good = good && !noOut[nd]
	}
	r.Check(good, rule, f.String(), "value-only-in-window", f.Pos(), "arr.Values[idx] is appended only behind windowBounds.Start() <= ts < windowBounds.Stop(), a null only on the other edge")
	// idx++ exactly with the value
	incs := g.Select(func(nd *core.Node) bool {
		s, ok := nd.N.(*ast.IncDecStmt)
		return ok && s.Tok == token.INC && isIdx(s.X)
	})
	okInc := len(incs) == 1 && len(g.Select(func(nd *core.Node) bool {
		// stores to idx other than the increment: only the reset to 0 of the refill
		as, ok := nd.N.(*ast.AssignStmt)
		return ok && len(as.Lhs) == 1 && isIdx(as.Lhs[0]) && !(len(as.Rhs) == 1 && core.X1IsConstInt(info, as.Rhs[0], 0))
	})) == 0
	adv := g.Select(func(nd *core.Node) bool {
		as, ok := nd.N.(*ast.AssignStmt)
		if !ok || len(as.Lhs) != 1 || len(as.Rhs) != 1 || core.FieldOf(info, as.Lhs[0]) != wbF || !isWB(as.Lhs[0]) {
			return false
		}
		cl, ok := ast.Unparen(as.Rhs[0]).(*ast.CallExpr)
		return ok && call(c41Next)(info, cl) && len(cl.Args) == 1 && isWB(cl.Args[0])
	})
	okAdv := len(adv) == 1 && len(g.Select(g.Assigning(wbF))) == 1
	var loop *ast.ForStmt
	if okAdv {
		ast.Inspect(body, func(x ast.Node) bool {
			if fs, ok := x.(*ast.ForStmt); ok && fs.Pos() <= adv[0].N.Pos() && adv[0].N.End() <= fs.End() {
				loop = fs
			}
			return true
		})
	}
	okCell := false
	if okAdv && loop != nil {
		isAdv := func(m *core.Node) bool { return m == adv[0] }
		_, lbody, _ := g.LoopNodes(loop)
		top := c41LoopTop(g, loop)
		cell := core.AnyOf(usesValue, nullCell)
		if top != nil && lbody != nil {
			// no iteration continues without advancing the window
			okAdv = !g.Reach(core.After(top, nil), isAdv, nil)[top]
			// a cell before the advance, and only one
			okCell = !g.Reach([]*core.Node{lbody}, cell, nil)[adv[0]]
			for _, nd := range append(append([]*core.Node{}, vals...), nulls...) {
				after := g.Reach(core.After(nd, nil), isAdv, nil)
				for _, m := range append(append([]*core.Node{}, vals...), nulls...) {
					if after[m] {
						okCell = false
					}
				}
			}
			if okInc {
				okInc = !noIn[incs[0]]
				for _, v := range vals {
					// the value is read with the current idx, then idx advances, then the window
					if g.Reach(core.After(v, nil), func(m *core.Node) bool { return m == incs[0] }, nil)[adv[0]] {
						okInc = false
					}
				}
			}
		} else {
			okAdv = false
		}
	}
	r.Check(okInc, rule, f.String(), "consume-exactly-when-appended", f.Pos(), "idx advances by one exactly on the in-window path, between the value cell and the next window")
	r.Check(okAdv && loop != nil, rule, f.String(), "one-window-per-iteration", f.Pos(), "windowBounds = NextBounds(windowBounds) is the only store to windowBounds and no iteration continues without it")
	r.Check(okCell, rule, f.String(), "one-cell-per-window", f.Pos(), "every iteration appends exactly one value cell (the point's value or null) before it advances the window")
	// refill: the next array is fetched only when idx reached the end of a non-empty array, and idx restarts at 0
	refills := g.Select(func(nd *core.Node) bool {
		as, ok := nd.N.(*ast.AssignStmt)
		return ok && len(as.Lhs) == 1 && fieldOfRoot(info, recv, arrF)(ast.Unparen(as.Lhs[0]))
	})
	isLen := func(e ast.Expr) bool {
		cl, ok := c41Resolve(info, body, e).(*ast.CallExpr)
		return ok && core.Callee(info, cl) != nil && core.Callee(info, cl).Name() == "Len" && core.Recv(cl) != nil && fieldOfRoot(info, recv, arrF)(c41Resolve(info, body, core.Recv(cl)))
	}
	atEnd := core.X1CmpEdge(isIdx, isLen, core.X1GE)
	okRef := len(refills) == 1
	if okRef {
		okRef = !g.ReachFromEntry(nil, atEnd)[refills[0]]
		zero := func(m *core.Node) bool {
			as, ok := m.N.(*ast.AssignStmt)
			return ok && len(as.Lhs) == 1 && len(as.Rhs) == 1 && isIdx(as.Lhs[0]) && core.X1IsConstInt(info, as.Rhs[0], 0)
		}
		// after the refill idx is reset before anything indexes the array again
		after := g.Reach(core.After(refills[0], nil), zero, nil)
		for m := range after {
			if m.N != nil && !zero(m) && (core.X1MentionsField(info, m.N, tsF) || core.X1MentionsField(info, m.N, valF)) {
				okRef = false
			}
		}
	}
	r.Check(okRef, rule, f.String(), "refill-at-end-of-array", f.Pos(), "the next cursor array is fetched only when idx reached arr.Len(), and idx restarts at 0 before the array is indexed again")
}

// keyRoles: groupKeyForWindow puts its start parameter under the _start label and stop under _stop;
// the splitter passes the row's own start/stop values of the _start/_stop columns.
func (c *c41Ctx) keyRoles() {
	const rule = "key-roles"
	p, r := c.p, c.r
	f := r.Need(p, c41Pk, "groupKeyForWindow")
	if f == nil {
		return
	}
	info, g, body := f.Info(), f.Graph(), f.Decl.Body
	startP, stopP := f.Param(1), f.Param(2)
	labelF := c.extField("github.com/influxdata/flux", "ColMeta", "Label")
	labelIs := func(want string) core.EdgePred {
		return func(e *core.Edge) bool {
			chk := func(x, y ast.Expr, eq bool) bool {
				if cv := core.ConstVal(info, y); cv != nil && cv.Kind() == constant.String && constant.StringVal(cv) == want && eq {
					return core.FieldOf(info, c41Resolve(info, body, x)) == labelF
				}
				return false
			}
			if e.Tag != nil && e.Cond != nil {
				return e.Branch && chk(e.Tag, e.Cond, true)
			}
			for _, ft := range core.X1EdgeFacts(e) {
				be, ok := ft.E.(*ast.BinaryExpr)
				if !ok || (be.Op != token.EQL && be.Op != token.NEQ) {
					continue
				}
				eq := (be.Op == token.EQL) == ft.True
				if chk(be.X, be.Y, eq) || chk(be.Y, be.X, eq) {
					return true
				}
			}
			return false
		}
	}
	uses := func(pv *types.Var) core.NodePred {
		return func(nd *core.Node) bool { return nd.N != nil && pv != nil && core.X1MentionsObj(info, nd.N, pv) }
	}
	noStart, noStop := g.ReachFromEntry(nil, labelIs("_start")), g.ReachFromEntry(nil, labelIs("_stop"))
	good := labelF != nil && len(g.Select(uses(startP))) >= 1 && len(g.Select(uses(stopP))) >= 1
	for _, nd := range g.Select(uses(startP)) {
		good = good && !noStart[nd]
	}
	for _, nd := range g.Select(uses(stopP)) {
		good = good && !noStop[nd]
	}
	r.Check(good, rule, f.String(), "start/stop-under-their-labels", f.Pos(), "the start parameter is used only under Label == _start, the stop parameter only under Label == _stop")
	// the splitter
	d := r.Need(p, c41Pk, "windowTableSplitter.Do")
	if d == nil {
		return
	}
	di := d.Info()
	gk := call(c41Pk + ".groupKeyForWindow")
	gti := call(c41Pk + ".windowTableSplitter.getTimeColumnIndex")
	nCalls := 0
	colOf := func(scope ast.Node, e ast.Expr) (label string, idx types.Object) {
		// e = X.Value(i) with X := cr.Times(j), j := getTimeColumnIndex(label)
		cl, ok := c41Resolve(di, d.Decl.Body, e).(*ast.CallExpr)
		if !ok || core.Callee(di, cl) == nil || core.Callee(di, cl).Name() != "Value" || len(cl.Args) != 1 {
			return "", nil
		}
		idx = core.ObjOf(di, cl.Args[0])
		tc, ok := c41Resolve(di, d.Decl.Body, core.Recv(cl)).(*ast.CallExpr)
		if !ok || core.Callee(di, tc) == nil || core.Callee(di, tc).Name() != "Times" || len(tc.Args) != 1 {
			return "", idx
		}
		jo := core.ObjOf(di, tc.Args[0])
		for _, df := range core.DefsOf(di, d.Decl.Body, jo) {
			if jc, ok := df.Rhs.(*ast.CallExpr); ok && df.Index == 0 && gti(di, jc) && len(jc.Args) == 1 {
				if cv := core.ConstVal(di, jc.Args[0]); cv != nil && cv.Kind() == constant.String {
					label = constant.StringVal(cv)
				}
			}
		}
		return label, idx
	}
	for _, cl := range core.AllCalls(di, d.Decl.Body, gk) {
		if len(cl.Args) != 3 {
			continue
		}
		nCalls++
		l1, i1 := colOf(d.Decl.Body, cl.Args[1])
		l2, i2 := colOf(d.Decl.Body, cl.Args[2])
		r.Check(l1 == "_start" && l2 == "_stop" && i1 != nil && i1 == i2, rule, d.String(), "row-bounds-into-key", p.Pos(cl.Pos()),
			fmt.Sprintf("the key of row i is built from Times(_start).Value(i) and Times(_stop).Value(i) of the same row (found %q, %q)", l1, l2))
	}
	r.Check(nCalls >= 1, rule, d.String(), "groupKeyForWindow:absent", d.Pos(), "each row's table is keyed by groupKeyForWindow")
}

// inWindow checks the two interval shapes of isInWindow.
func (c *c41Ctx) inWindow(f *core.Func, typ string) {
	const rule = "value-guard"
	r := c.r
	info, g, body := f.Info(), f.Graph(), f.Decl.Body
	recv := f.X1Recv()
	isAggF := c.field(typ, "isAggregate")
	stopP, tsP := f.Param(0), f.Param(1)
	if isAggF == nil || stopP == nil || tsP == nil {
		return
	}
	isAgg := func(e ast.Expr) bool { return fieldOfRoot(info, recv, isAggF)(c41Resolve(info, body, e)) }
	// the window looked up: GetLatestBounds(stop - 1)
	isWin := func(e ast.Expr) bool {
		cl, ok := c41Resolve(info, body, e).(*ast.CallExpr)
		if !ok || !call(c41GetLatest)(info, cl) || len(cl.Args) != 1 {
			return false
		}
		be, ok := c41Resolve(info, body, cl.Args[0]).(*ast.BinaryExpr)
		return ok && be.Op == token.SUB && core.ObjOf(info, be.X) == types.Object(stopP) && core.X1IsConstInt(info, be.Y, 1)
	}
	lo := c41MethodOn(info, body, c41BStart, isWin)
	hi := c41MethodOn(info, body, c41BStop, isWin)
	isTs := func(e ast.Expr) bool { return core.ObjOf(info, core.StripConv(info, e)) == types.Object(tsP) }
	exact := func(isL, isR func(ast.Expr) bool, want core.X1Rel) core.X1FactPred {
		return func(ft core.X1Fact) bool {
			x, y, rel, ok := core.X1CmpAtom(ft.E)
			if !ok {
				return false
			}
			if !ft.True {
				rel = [...]core.X1Rel{core.X1GE, core.X1GT, core.X1NE, core.X1EQ, core.X1LT, core.X1LE}[rel]
			}
			if isL(y) && isR(x) {
				x, y = y, x
				rel = [...]core.X1Rel{core.X1GT, core.X1GE, core.X1EQ, core.X1NE, core.X1LE, core.X1LT}[rel]
			}
			return isL(x) && isR(y) && rel == want
		}
	}
	for _, mode := range []struct {
		agg      bool
		low, up  core.X1Rel
		what, in string
	}{
		{true, core.X1LT, core.X1LE, "aggregate", "start < ts <= stop (the timestamp is the stop of the window)"},
		{false, core.X1LE, core.X1LT, "selector", "start <= ts < stop (the timestamp is the point's own time)"},
	} {
		reach := g.ReachUnder10([]*core.Node{g.Entry}, nil, func(e ast.Expr) (bool, bool) {
			if isAgg(e) {
				return mode.agg, true
			}
			return false, false
		})
		lowP, upP := exact(lo, isTs, mode.low), exact(isTs, hi, mode.up)
		noLow, noUp := g.ReachFromEntry(nil, core.X1FactEdge(lowP)), g.ReachFromEntry(nil, core.X1FactEdge(upP))
		good, nRet := true, 0
		for _, x := range g.Exits {
			rs, ok := x.N.(*ast.ReturnStmt)
			if !ok || !reach[x] || len(rs.Results) != 1 || core.X1IsConstBool(info, rs.Results[0], false) {
				continue
			}
			nRet++
			hasLow, hasUp := !noLow[x], !noUp[x]
			for _, ft := range core.X1EdgeFacts(&core.Edge{Cond: rs.Results[0], Branch: true}) {
				hasLow = hasLow || lowP(ft)
				hasUp = hasUp || upP(ft)
			}
			good = good && hasLow && hasUp
		}
		r.Check(good && nRet >= 1, rule, f.String(), "interval:"+mode.what, f.Pos(), "isInWindow is true only for "+mode.in+" of GetLatestBounds(stop-1)")
	}
}
