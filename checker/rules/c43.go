package rules

import (
	"fmt"
	"go/ast"
	"go/token"
	"go/types"

	"verif/checker/core"
)

const dbrpP = "dbrp"

func init() {
	register(&Prop{
		ID:       "C43",
		Patterns: []string{"./dbrp"},
		Level:    "other",
		Explanation: "Necessary-condition rules for the DBRP mapping service (dbrp.Service), decided on the CFGs of the methods and of the transaction closures they pass to kv.Store.Update/View, with type-resolved callees, fields and key provenance: " +
			"(unique-before-put) Create and Update reach store.Update only after isDBRPUnique(*dbrp) succeeded, Update only after the immutable fields were overwritten from the stored mapping; the closure Puts the mapping under its encoded ID on every success path; " +
			"(unique-check) isDBRPUnique walks byOrgAndDatabase with the (org, database) key of its argument and fails exactly on an entry with equal RetentionPolicy that is not the mapping itself; " +
			"(index-pairing) both kv indexes of Service are inserted in Create and deleted in Delete with keys of the same kind ((org,db) key / org key, primary key = encoded mapping ID), the mapping bucket is written and deleted under the same key kind, on every success path, every error propagated; " +
			"(default-bookkeeping) Create marks the first mapping of a database as default (store under !isDefaultSet, tested again before setAsDefault, which every success path with Default passes); Delete of a default passes setAsDefault(first) under len(first) > 0 or unsetDefault otherwise, first = getFirstBut(key, deleted id); Update with Default passes setAsDefault(id), Update that unsets the default passes getFirstBut and promotes under len(first) > 0; " +
			"(default-store) isDefaultSet/getDefault/setAsDefault/unsetDefault all address the defaults bucket with their key parameter; getFirstBut never returns the skipped id; " +
			"(find-default) FindByID and FindMany recompute Default from the defaults bucket before returning/collecting a mapping, FindByID hides mappings of another organisation; " +
			"(virtual-dedupe) a virtual mapping is appended by FindMany only after it was compared with every mapping already collected.",
		NotCovered:  "histories (sequences of operations), atomicity of the uniqueness check with the write (they run in two transactions), which mapping getFirstBut picks, filter-dependent visibility of physical mappings when virtual ones are derived, bucket-name parsing.",
		Assumptions: []string{"kv.Index.Walk visits every entry of the foreign key", "conditions are decomposed through &&, || and ! only"},
		Run:         runC43,
	})
}

type c43ctx struct {
	p  *core.Prog
	r  *core.Report
	pk *types.Package

	fDefault, fID, fOrg, fDB, fRP, fBucketID *types.Var // influxdb.DBRPMapping fields
	fByOrgDB, fByOrg, fStore                 *types.Var // dbrp.Service fields
	vBucket, vDefaultBucket                  types.Object
}

func runC43(p *core.Prog, r *core.Report, tier string) {
	pk := p.Pkg(dbrpP)
	root := p.Pkg("")
	if pk == nil || root == nil {
		r.Bad("anchor", dbrpP, "unresolved", "-", "package not loaded")
		return
	}
	c := &c43ctx{p: p, r: r, pk: pk.Types}
	c.fDefault = core.LookupField(root.Types, "DBRPMapping", "Default")
	c.fID = core.LookupField(root.Types, "DBRPMapping", "ID")
	c.fOrg = core.LookupField(root.Types, "DBRPMapping", "OrganizationID")
	c.fDB = core.LookupField(root.Types, "DBRPMapping", "Database")
	c.fRP = core.LookupField(root.Types, "DBRPMapping", "RetentionPolicy")
	c.fBucketID = core.LookupField(root.Types, "DBRPMapping", "BucketID")
	c.fByOrgDB = core.LookupField(pk.Types, "Service", "byOrgAndDatabase")
	c.fByOrg = core.LookupField(pk.Types, "Service", "byOrg")
	c.fStore = core.LookupField(pk.Types, "Service", "store")
	c.vBucket = pk.Types.Scope().Lookup("bucket")
	c.vDefaultBucket = pk.Types.Scope().Lookup("defaultBucket")
	if !r.Check(c.fDefault != nil && c.fID != nil && c.fOrg != nil && c.fDB != nil && c.fRP != nil && c.fBucketID != nil && c.fByOrgDB != nil && c.fByOrg != nil && c.fStore != nil && c.vBucket != nil && c.vDefaultBucket != nil,
		"anchor", "influxdb.DBRPMapping / dbrp.Service fields, dbrp.bucket, dbrp.defaultBucket", "unresolved", "-", "fields and bucket variables resolved") {
		return
	}
	// the Service has exactly the two indexes the rules know about
	n := 0
	if st := core.StructOf(pk.Types, "Service"); st != nil {
		for i := 0; i < st.NumFields(); i++ {
			if pt, ok := st.Field(i).Type().(*types.Pointer); ok {
				if nt, ok := pt.Elem().(*types.Named); ok && nt.Obj().Name() == "Index" && nt.Obj().Pkg() != nil && core.Short(nt.Obj().Pkg().Path()) == "kv" {
					n++
				}
			}
		}
	}
	r.Check(n == 2, "index-pairing", dbrpP+".Service", "index-fields", "-", fmt.Sprintf("Service has %d kv.Index fields (2 covered by the rules)", n))

	c.create()
	c.update()
	c.delete()
	c.unique()
	c.defaultStore()
	c.find()
	c.virtual()
}

// ---- key kinds

// keyKind classifies a key expression by provenance: "id" (encoded mapping ID),
// "org" (encoded organisation ID), "orgdb" (composite org+database key),
// "first" (result of getFirstBut), "" unknown. f is the enclosing method.
func (c *c43ctx) keyKind(f *core.Func, e ast.Expr) string {
	info, body := f.Info(), f.Decl.Body
	e = ast.Unparen(e)
	var rhs ast.Expr = e
	for i := 0; i < 4; i++ {
		o, ok := core.ObjOf(info, rhs).(*types.Var)
		if !ok || o.IsField() {
			break
		}
		ds := core.DefsOf(info, body, o)
		if len(ds) != 1 || ds[0].Rhs == nil || (ds[0].Index != -1 && ds[0].Index != 0) || ds[0].Range != nil {
			return ""
		}
		rhs = ast.Unparen(ds[0].Rhs)
	}
	call1, ok := ast.Unparen(rhs).(*ast.CallExpr)
	if !ok {
		return ""
	}
	sig, _ := f.Obj.Type().(*types.Signature)
	switch core.FName(core.Callee(info, call1)) {
	case "kit/platform.ID.Encode":
		rc := core.Recv(call1)
		switch core.FieldOf(info, rc) {
		case c.fID:
			return "id"
		case c.fOrg:
			return "org"
		}
		// Delete(ctx, orgID, id) / FindByID(ctx, orgID, id): parameters by position
		switch core.ParamIndex(sig, core.ObjOf(info, rc)) {
		case 1:
			return "org"
		case 2:
			return "id"
		}
	case dbrpP + ".indexForeignKey":
		return "orgdb"
	case dbrpP + ".composeForeignKey":
		if len(call1.Args) == 2 && core.FieldOf(info, call1.Args[0]) == c.fOrg && core.FieldOf(info, call1.Args[1]) == c.fDB {
			return "orgdb"
		}
	case dbrpP + ".Service.getFirstBut":
		return "first"
	}
	return ""
}

// updateLit returns the closure passed to s.store.Update / View in f and the call.
func (c *c43ctx) txLit(f *core.Func, method string) (*ast.FuncLit, *ast.CallExpr) {
	for _, cl := range core.AllCalls(f.Info(), f.Decl.Body, call("kv.Store."+method)) {
		if core.FieldOf(f.Info(), core.Recv(cl)) != c.fStore || len(cl.Args) != 2 {
			continue
		}
		if fl, ok := ast.Unparen(cl.Args[1]).(*ast.FuncLit); ok {
			return fl, cl
		}
	}
	return nil, nil
}

func (c *c43ctx) indexCall(info *types.Info, field *types.Var, method string) core.Matcher {
	m := call("kv.Index." + method)
	return func(i *types.Info, cl *ast.CallExpr) bool {
		return m(i, cl) && core.FieldOf(i, core.Recv(cl)) == field
	}
}

// bucketOf: the local variable holding tx.Bucket(v) for package variable v.
func (c *c43ctx) bucketCall(f *core.Func, v types.Object, method string) core.Matcher {
	m := call("kv.Bucket." + method)
	return func(i *types.Info, cl *ast.CallExpr) bool {
		if !m(i, cl) {
			return false
		}
		o := core.ObjOf(i, core.Recv(cl))
		for _, d := range core.DefsOf(i, f.Decl.Body, o) {
			if d.Rhs == nil {
				return false
			}
			bc := core.AsCall(i, d.Rhs, call("kv.Tx.Bucket"))
			if bc == nil || len(bc.Args) != 1 || core.ObjOf(i, bc.Args[0]) != v {
				return false
			}
		}
		return o != nil && len(core.DefsOf(i, f.Decl.Body, o)) >= 1
	}
}

func (c *c43ctx) defaultFact(info *types.Info, base types.Object, val bool) core.CondFact {
	return func(a ast.Expr, v bool) bool {
		se, ok := ast.Unparen(a).(*ast.SelectorExpr)
		return ok && v == val && core.FieldOf(info, se) == c.fDefault && base != nil && core.BaseObj(info, se.X) == base
	}
}

func edgeTargetsRW5(g *core.Graph, ep core.EdgePred) []*core.Node {
	var out []*core.Node
	for _, n := range g.Nodes {
		for _, e := range n.Succ {
			if ep(e) {
				out = append(out, e.To)
			}
		}
	}
	return out
}

func noSuccessExitRW5(g *core.Graph, reach map[*core.Node]bool) bool {
	for _, x := range g.RealSuccessExits() {
		if reach[x] {
			return false
		}
	}
	return true
}

// callWithRW5 selects nodes containing a call matched by m whose arguments satisfy ok.
func callWithRW5(g *core.Graph, m core.Matcher, ok func(*ast.CallExpr) bool) core.NodePred {
	return func(n *core.Node) bool {
		if n.N == nil {
			return false
		}
		for _, cl := range core.CallsIn(g.Info, n.N, m, core.WalkOpts{}) {
			if ok == nil || ok(cl) {
				return true
			}
		}
		return false
	}
}

// uniqueGate: store.Update in f is dominated by a successful isDBRPUnique(*dbrp).
func (c *c43ctx) uniqueGate(f *core.Func, dbrpParam types.Object) {
	const rule = "unique-before-put"
	r, info := c.r, f.Info()
	uniq := call(dbrpP + ".Service.isDBRPUnique")
	upd := func(i *types.Info, cl *ast.CallExpr) bool {
		return call("kv.Store.Update")(i, cl) && core.FieldOf(i, core.Recv(cl)) == c.fStore
	}
	core.RulePrecede(r, f, rule, "isDBRPUnique", uniq, "store.Update", upd)
	core.RuleNotAfterFailure(r, f, rule, "isDBRPUnique", uniq, "store.Update", upd)
	core.RuleErrorsUsed(r, f, rule, "isDBRPUnique/store.Update", core.Or(uniq, upd), false, 2)
	for _, cl := range core.AllCalls(info, f.Decl.Body, uniq) {
		ok := false
		if len(cl.Args) == 2 {
			if st, isStar := ast.Unparen(cl.Args[1]).(*ast.StarExpr); isStar && core.ObjOf(info, st.X) == dbrpParam {
				ok = true
			}
		}
		r.Check(ok, rule, f.String(), "isDBRPUnique-argument", c.p.Pos(cl.Pos()), "the mapping checked for uniqueness is the one being written")
	}
}

// putInLit: every success exit of the closure passes bucket.Put(idkey, json.Marshal(dbrp)).
func (c *c43ctx) putInLit(f *core.Func, lg *core.Graph, dbrpParam types.Object) {
	const rule = "unique-before-put"
	info := f.Info()
	put := c.bucketCall(f, c.vBucket, "Put")
	good := func(cl *ast.CallExpr) bool {
		if len(cl.Args) != 2 || c.keyKind(f, cl.Args[0]) != "id" {
			return false
		}
		v := core.ObjOf(info, cl.Args[1])
		d, ok := core.SingleDef(info, f.Decl.Body, v)
		if !ok || d.Rhs == nil || d.Index != 0 {
			return false
		}
		mc := core.AsCall(info, d.Rhs, call("encoding/json.Marshal"))
		return mc != nil && len(mc.Args) == 1 && core.ObjOf(info, mc.Args[0]) == dbrpParam
	}
	core.RuleMustPassN(c.r, f, lg, rule, "bucket.Put(encodedID, json.Marshal(dbrp))", callWithRW5(lg, put, good), nil)
}

// ---------------------------------------------------------------- Create

func (c *c43ctx) create() {
	f := c.r.Need(c.p, dbrpP, "Service.Create")
	if f == nil {
		return
	}
	r, info := c.r, f.Info()
	sig, _ := f.Obj.Type().(*types.Signature)
	dbrp := sig.Params().At(1)
	c.uniqueGate(f, dbrp)
	lit, _ := c.txLit(f, "Update")
	if !r.Check(lit != nil, "unique-before-put", f.String(), "Update-closure:absent", f.Pos(), "the write happens in a closure passed to store.Update") {
		return
	}
	lg := f.LitGraph(lit)
	c.putInLit(f, lg, dbrp)

	// ---- index-pairing (insert side)
	{
		const rule = "index-pairing"
		for _, ix := range []struct {
			f    *types.Var
			kind string
		}{{c.fByOrgDB, "orgdb"}, {c.fByOrg, "org"}} {
			m := c.indexCall(info, ix.f, "Insert")
			good := func(cl *ast.CallExpr) bool {
				return len(cl.Args) == 3 && c.keyKind(f, cl.Args[1]) == ix.kind && c.keyKind(f, cl.Args[2]) == "id"
			}
			for _, cl := range core.AllCalls(info, lit.Body, m) {
				r.Check(good(cl), rule, f.String(), ix.f.Name()+".Insert-keys", c.p.Pos(cl.Pos()), fmt.Sprintf("%s.Insert(tx, <%s key>, <encoded mapping ID>)", ix.f.Name(), ix.kind))
			}
			core.RuleMustPassN(r, f, lg, rule, ix.f.Name()+".Insert", callWithRW5(lg, m, good), nil)
		}
		core.RuleErrorsUsed(r, f, rule, "Insert/Put/Bucket/Marshal", call("kv.Index.Insert", "kv.Bucket.Put", "kv.Tx.Bucket", "encoding/json.Marshal"), false, 5)
	}

	// ---- default-bookkeeping: first mapping becomes the default
	{
		const rule = "default-bookkeeping"
		isSet := call(dbrpP + ".Service.isDefaultSet")
		setDef := call(dbrpP + ".Service.setAsDefault")
		// defSet := isDefaultSet(tx, <orgdb key>)
		var defSet types.Object
		for _, cl := range core.AllCalls(info, lit.Body, isSet) {
			if len(cl.Args) == 2 && c.keyKind(f, cl.Args[1]) == "orgdb" {
				for _, n := range lg.Nodes {
					if as, ok := n.N.(*ast.AssignStmt); ok && len(as.Rhs) == 1 && ast.Unparen(as.Rhs[0]) == ast.Expr(cl) && len(as.Lhs) == 2 {
						defSet = core.ObjOf(info, as.Lhs[0])
					}
				}
			}
		}
		if !r.Check(defSet != nil, rule, f.String(), "isDefaultSet:absent", f.Pos(), "Create asks whether the database already has a default (isDefaultSet on the (org,db) key)") {
			return
		}
		_, single := core.SingleDef(info, f.Decl.Body, defSet)
		stores := lg.Select(func(n *core.Node) bool {
			as, ok := n.N.(*ast.AssignStmt)
			if !ok || len(as.Lhs) != 1 || len(as.Rhs) != 1 {
				return false
			}
			se, ok := ast.Unparen(as.Lhs[0]).(*ast.SelectorExpr)
			if !ok || core.FieldOf(info, se) != c.fDefault || core.BaseObj(info, se.X) != dbrp {
				return false
			}
			v, isC := core.ConstBool(info, as.Rhs[0])
			return isC && v
		})
		if r.Check(len(stores) == 1 && single, rule, f.String(), "first-becomes-default:absent", f.Pos(), "dbrp.Default = true exists once") {
			noDef := core.EdgeEstablishing(core.BoolVarFact(info, defSet, false))
			bad := lg.NotReachableUnless(func(n *core.Node) bool { return n == stores[0] }, nil, noDef)
			r.Check(len(bad) == 0, rule, f.String(), "first-becomes-default:guard", lg.Line(stores[0]), "Default is forced only when no default is set for the database")
			// and it is forced whenever none is set: the !defSet edge leads to the store before anything else
			tg := edgeTargetsRW5(lg, noDef)
			okForce := len(tg) >= 1
			for _, t := range tg {
				if t != stores[0] {
					okForce = false
				}
			}
			r.Check(okForce, rule, f.String(), "first-becomes-default:always", lg.Line(stores[0]), "when no default is set the mapping is marked default")
			// between the store and the test of dbrp.Default nothing resets it and no success exit is taken
			isTest := func(n *core.Node) bool {
				e, ok := n.N.(ast.Expr)
				if !ok || len(n.Succ) != 2 {
					return false
				}
				for _, a := range core.Atoms(e) {
					if c.defaultFact(info, dbrp, true)(a, true) {
						return true
					}
				}
				return false
			}
			rr := lg.Reach(core.After(stores[0], nil), isTest, nil)
			other := false
			for _, n := range lg.Select(lg.Assigning(c.fDefault)) {
				if rr[n] && n != stores[0] {
					other = true
				}
			}
			r.Check(len(lg.Select(isTest)) >= 1 && noSuccessExitRW5(lg, rr) && !other, rule, f.String(), "default-flag-reaches-test", lg.Line(stores[0]), "after marking the mapping default every success path tests dbrp.Default again, with no reset in between")
		}
		// every success exit either passed setAsDefault(tx, orgdb, id) or a branch on which dbrp.Default is false
		goodSet := func(cl *ast.CallExpr) bool {
			return len(cl.Args) == 3 && c.keyKind(f, cl.Args[1]) == "orgdb" && c.keyKind(f, cl.Args[2]) == "id"
		}
		setN := callWithRW5(lg, setDef, goodSet)
		rr := lg.ReachFromEntry(setN, core.EdgeEstablishing(c.defaultFact(info, dbrp, false)))
		r.Check(len(lg.Select(setN)) >= 1 && noSuccessExitRW5(lg, rr), rule, f.String(), "default=>setAsDefault", f.Pos(), "a mapping with Default set is recorded as the database's default (setAsDefault(tx, (org,db) key, encoded ID)) on every success path")
		// the Put precedes nothing relevant; setAsDefault error propagated
		core.RuleErrorsUsed(r, f, rule, "isDefaultSet/setAsDefault", core.Or(isSet, setDef), false, 2)
	}
}

// ---------------------------------------------------------------- Update

func (c *c43ctx) update() {
	f := c.r.Need(c.p, dbrpP, "Service.Update")
	if f == nil {
		return
	}
	r, info, g := c.r, f.Info(), f.Graph()
	sig, _ := f.Obj.Type().(*types.Signature)
	dbrp := sig.Params().At(1)
	c.uniqueGate(f, dbrp)
	// oldDBRP: result of FindByID
	var old types.Object
	for _, n := range g.Nodes {
		if as, ok := n.N.(*ast.AssignStmt); ok && len(as.Rhs) == 1 && len(as.Lhs) == 2 && core.AsCall(info, as.Rhs[0], call(dbrpP+".Service.FindByID")) != nil {
			old = core.ObjOf(info, as.Lhs[0])
		}
	}
	if !r.Check(old != nil, "unique-before-put", f.String(), "FindByID:absent", f.Pos(), "the stored mapping is loaded first") {
		return
	}
	// immutable fields overwritten from the stored mapping before the uniqueness check and before marshalling
	{
		const rule = "unique-before-put"
		uniq := g.Calling(call(dbrpP + ".Service.isDBRPUnique"))
		marshal := g.Calling(call("encoding/json.Marshal"))
		for _, fld := range []*types.Var{c.fID, c.fOrg, c.fBucketID, c.fDB} {
			isStore := func(n *core.Node) bool {
				as, ok := n.N.(*ast.AssignStmt)
				if !ok || len(as.Lhs) != 1 || len(as.Rhs) != 1 {
					return false
				}
				l, ok1 := ast.Unparen(as.Lhs[0]).(*ast.SelectorExpr)
				rh, ok2 := ast.Unparen(as.Rhs[0]).(*ast.SelectorExpr)
				return ok1 && ok2 && core.FieldOf(info, l) == fld && core.FieldOf(info, rh) == fld && core.BaseObj(info, l.X) == dbrp && core.BaseObj(info, rh.X) == old
			}
			st := g.Select(isStore)
			if !r.Check(len(st) >= 1, rule, f.String(), "immutable-"+fld.Name()+":absent", f.Pos(), "dbrp."+fld.Name()+" is overwritten from the stored mapping") {
				continue
			}
			bad := g.NotReachableUnless(core.AnyOf(uniq, marshal), isStore, nil)
			r.Check(len(bad) == 0, rule, f.String(), "immutable-"+fld.Name()+"<unique/marshal", g.Line(st[0]), "the overwrite of dbrp."+fld.Name()+" precedes the uniqueness check and the serialisation")
		}
	}
	lit, _ := c.txLit(f, "Update")
	if !r.Check(lit != nil, "unique-before-put", f.String(), "Update-closure:absent", f.Pos(), "the write happens in a closure passed to store.Update") {
		return
	}
	lg := f.LitGraph(lit)
	c.putInLit(f, lg, dbrp)

	const rule = "default-bookkeeping"
	setDef := call(dbrpP + ".Service.setAsDefault")
	firstBut := call(dbrpP + ".Service.getFirstBut")
	// Default requested: setAsDefault(tx, orgdb, id)
	setSelf := callWithRW5(lg, setDef, func(cl *ast.CallExpr) bool {
		return len(cl.Args) == 3 && c.keyKind(f, cl.Args[1]) == "orgdb" && c.keyKind(f, cl.Args[2]) == "id"
	})
	tg := edgeTargetsRW5(lg, core.EdgeEstablishing(c.defaultFact(info, dbrp, true)))
	rr := lg.Reach(tg, setSelf, nil)
	r.Check(len(tg) >= 1 && len(lg.Select(setSelf)) >= 1 && noSuccessExitRW5(lg, rr), rule, f.String(), "default=>setAsDefault", f.Pos(), "an update with Default set records the mapping as the database's default on every success path")
	// Default unset on a mapping that was the default: look for a replacement
	fb := callWithRW5(lg, firstBut, func(cl *ast.CallExpr) bool {
		return len(cl.Args) == 3 && c.keyKind(f, cl.Args[1]) == "orgdb" && c.keyKind(f, cl.Args[2]) == "id"
	})
	tg = edgeTargetsRW5(lg, core.EdgeEstablishing(c.defaultFact(info, old, true)))
	rr = lg.Reach(tg, fb, nil)
	r.Check(len(tg) >= 1 && len(lg.Select(fb)) >= 1 && noSuccessExitRW5(lg, rr), rule, f.String(), "unset-default=>getFirstBut", f.Pos(), "un-setting the default looks for another mapping of the database (getFirstBut(tx, (org,db) key, own id))")
	// that branch is taken only when the update does not ask for Default
	bad := lg.NotReachableUnless(fb, nil, core.EdgeEstablishing(c.defaultFact(info, dbrp, false)))
	r.Check(len(bad) == 0, rule, f.String(), "getFirstBut-only-when-unset", f.Pos(), "a replacement default is looked for only when the update does not set Default")
	c.promote(f, lg, rule, false)
	core.RuleErrorsUsed(r, f, rule, "setAsDefault/getFirstBut", core.Or(setDef, firstBut), false, 3)
}

// promote: setAsDefault(…, first) only under len(first) != 0 with first from
// getFirstBut; with needUnset also unsetDefault only under len(first) == 0.
func (c *c43ctx) promote(f *core.Func, lg *core.Graph, rule string, needUnset bool) {
	r, info := c.r, f.Info()
	setDef := call(dbrpP + ".Service.setAsDefault")
	unset := call(dbrpP + ".Service.unsetDefault")
	setFirst := callWithRW5(lg, setDef, func(cl *ast.CallExpr) bool {
		return len(cl.Args) == 3 && c.keyKind(f, cl.Args[1]) == "orgdb" && c.keyKind(f, cl.Args[2]) == "first"
	})
	ns := lg.Select(setFirst)
	if !r.Check(len(ns) >= 1, rule, f.String(), "setAsDefault(first):absent", f.Pos(), "the mapping found by getFirstBut is promoted") {
		return
	}
	// the variable
	var first types.Object
	for _, cl := range core.CallsIn(info, ns[0].N, setDef, core.WalkOpts{}) {
		if len(cl.Args) == 3 {
			first = core.ObjOf(info, cl.Args[2])
		}
	}
	isLen := func(e ast.Expr) bool {
		lc, ok := ast.Unparen(e).(*ast.CallExpr)
		return ok && core.Builtin("len")(info, lc) && len(lc.Args) == 1 && first != nil && core.ObjOf(info, lc.Args[0]) == first
	}
	_, firstSingle := core.SingleDef(info, f.Decl.Body, first)
	r.Check(firstSingle, rule, f.String(), "first-single-definition", lg.Line(ns[0]), "the getFirstBut result is not reassigned between the length test and its use")
	nonEmpty := core.EdgeEstablishing(core.NonZeroFact(info, isLen, true, true))
	empty := core.EdgeEstablishing(core.NonZeroFact(info, isLen, false, true))
	bad := lg.NotReachableUnless(setFirst, nil, nonEmpty)
	r.Check(len(bad) == 0, rule, f.String(), "promote-only-if-found", lg.Line(ns[0]), "setAsDefault(first) only when getFirstBut found a mapping (len(first) > 0)")
	// when one was found it is promoted: the non-empty edge reaches no success exit without setAsDefault(first)
	rr := lg.Reach(edgeTargetsRW5(lg, nonEmpty), setFirst, nil)
	r.Check(noSuccessExitRW5(lg, rr), rule, f.String(), "found=>promoted", lg.Line(ns[0]), "when another mapping exists it becomes the default on every success path")
	if needUnset {
		un := lg.Calling(unset)
		us := lg.Select(un)
		if r.Check(len(us) >= 1, rule, f.String(), "unsetDefault:absent", f.Pos(), "the default entry is removed when no mapping is left") {
			bad := lg.NotReachableUnless(un, nil, empty)
			r.Check(len(bad) == 0, rule, f.String(), "unset-only-if-none", lg.Line(us[0]), "unsetDefault only when getFirstBut found nothing")
			rr := lg.Reach(edgeTargetsRW5(lg, empty), un, nil)
			r.Check(noSuccessExitRW5(lg, rr), rule, f.String(), "none=>unset", lg.Line(us[0]), "when no other mapping exists the default entry is removed on every success path")
			for _, cl := range core.AllCalls(info, f.Decl.Body, unset) {
				r.Check(len(cl.Args) == 2 && c.keyKind(f, cl.Args[1]) == "orgdb", rule, f.String(), "unsetDefault-key", c.p.Pos(cl.Pos()), "unsetDefault addresses the (org,db) key of the deleted mapping")
			}
		}
	}
}

// ---------------------------------------------------------------- Delete

func (c *c43ctx) delete() {
	f := c.r.Need(c.p, dbrpP, "Service.Delete")
	if f == nil {
		return
	}
	r, info, g := c.r, f.Info(), f.Graph()
	var found types.Object
	for _, n := range g.Nodes {
		if as, ok := n.N.(*ast.AssignStmt); ok && len(as.Rhs) == 1 && len(as.Lhs) == 2 {
			if fc := core.AsCall(info, as.Rhs[0], call(dbrpP+".Service.FindByID")); fc != nil {
				sig, _ := f.Obj.Type().(*types.Signature)
				if len(fc.Args) == 3 && core.ParamIndex(sig, core.ObjOf(info, fc.Args[1])) == 1 && core.ParamIndex(sig, core.ObjOf(info, fc.Args[2])) == 2 {
					found = core.ObjOf(info, as.Lhs[0])
				}
			}
		}
	}
	if !r.Check(found != nil, "index-pairing", f.String(), "FindByID(orgID,id):absent", f.Pos(), "the mapping to delete is loaded with the caller's (orgID, id)") {
		return
	}
	lit, _ := c.txLit(f, "Update")
	if !r.Check(lit != nil, "index-pairing", f.String(), "Update-closure:absent", f.Pos(), "the delete happens in a closure passed to store.Update") {
		return
	}
	lg := f.LitGraph(lit)
	{
		const rule = "index-pairing"
		for _, ix := range []struct {
			f    *types.Var
			kind string
		}{{c.fByOrgDB, "orgdb"}, {c.fByOrg, "org"}} {
			m := c.indexCall(info, ix.f, "Delete")
			good := func(cl *ast.CallExpr) bool {
				return len(cl.Args) == 3 && c.keyKind(f, cl.Args[1]) == ix.kind && c.keyKind(f, cl.Args[2]) == "id"
			}
			for _, cl := range core.AllCalls(info, lit.Body, m) {
				r.Check(good(cl), rule, f.String(), ix.f.Name()+".Delete-keys", c.p.Pos(cl.Pos()), fmt.Sprintf("%s.Delete(tx, <%s key>, <encoded mapping ID>) mirrors the Insert of Create", ix.f.Name(), ix.kind))
			}
			core.RuleMustPassN(r, f, lg, rule, ix.f.Name()+".Delete", callWithRW5(lg, m, good), nil)
		}
		del := c.bucketCall(f, c.vBucket, "Delete")
		core.RuleMustPassN(r, f, lg, rule, "bucket.Delete(encodedID)", callWithRW5(lg, del, func(cl *ast.CallExpr) bool {
			return len(cl.Args) == 1 && c.keyKind(f, cl.Args[0]) == "id"
		}), nil)
		core.RuleErrorsUsed(r, f, rule, "Index.Delete/Bucket.Delete/Bucket", call("kv.Index.Delete", "kv.Bucket.Delete", "kv.Tx.Bucket"), false, 4)
		// the (org,db) key is that of the loaded mapping
		for _, cl := range core.AllCalls(info, lit.Body, call(dbrpP+".indexForeignKey")) {
			ok := false
			if len(cl.Args) == 1 {
				ok = core.BaseObj(info, cl.Args[0]) == found
			}
			r.Check(ok, rule, f.String(), "key-of-loaded-mapping", c.p.Pos(cl.Pos()), "the (org,db) key is computed from the mapping that FindByID returned")
		}
	}
	{
		const rule = "default-bookkeeping"
		setDef := call(dbrpP + ".Service.setAsDefault")
		unset := call(dbrpP + ".Service.unsetDefault")
		firstBut := call(dbrpP + ".Service.getFirstBut")
		wasDefault := core.EdgeEstablishing(c.defaultFact(info, found, true))
		tg := edgeTargetsRW5(lg, wasDefault)
		resolved := core.AnyOf(lg.Calling(setDef), lg.Calling(unset))
		rr := lg.Reach(tg, resolved, nil)
		r.Check(len(tg) >= 1 && noSuccessExitRW5(lg, rr), rule, f.String(), "delete-default=>reassign", f.Pos(), "deleting the default mapping passes setAsDefault or unsetDefault on every success path")
		fb := callWithRW5(lg, firstBut, func(cl *ast.CallExpr) bool {
			return len(cl.Args) == 3 && c.keyKind(f, cl.Args[1]) == "orgdb" && c.keyKind(f, cl.Args[2]) == "id"
		})
		rr = lg.Reach(tg, fb, nil)
		r.Check(len(lg.Select(fb)) >= 1 && noSuccessExitRW5(lg, rr), rule, f.String(), "delete-default=>getFirstBut", f.Pos(), "the replacement is looked up with getFirstBut(tx, (org,db) key, deleted id)")
		// only when it was the default
		bad := lg.NotReachableUnless(core.AnyOf(lg.Calling(setDef), lg.Calling(unset)), nil, wasDefault)
		r.Check(len(bad) == 0, rule, f.String(), "reassign-only-if-default", f.Pos(), "the default entry is touched only when the deleted mapping was the default")
		c.promote(f, lg, rule, true)
		core.RuleErrorsUsed(r, f, rule, "setAsDefault/unsetDefault/getFirstBut", core.Or(setDef, unset, firstBut), false, 3)
	}
}

// ---------------------------------------------------------------- isDBRPUnique

func (c *c43ctx) unique() {
	const rule = "unique-check"
	f := c.r.Need(c.p, dbrpP, "Service.isDBRPUnique")
	if f == nil {
		return
	}
	r, info := c.r, f.Info()
	sig, _ := f.Obj.Type().(*types.Signature)
	m := sig.Params().At(1)
	walks := core.AllCalls(info, f.Decl.Body, c.indexCall(info, c.fByOrgDB, "Walk"))
	if !r.Check(len(walks) == 1 && len(walks[0].Args) == 4, rule, f.String(), "Walk(byOrgAndDatabase):absent", f.Pos(), "the (org,db) index is walked") {
		return
	}
	w := walks[0]
	// key = composeForeignKey(m.OrganizationID, m.Database) or indexForeignKey(m)
	okKey := false
	if kc, ok := ast.Unparen(w.Args[2]).(*ast.CallExpr); ok {
		switch core.FName(core.Callee(info, kc)) {
		case dbrpP + ".composeForeignKey":
			okKey = len(kc.Args) == 2 && core.FieldOf(info, kc.Args[0]) == c.fOrg && core.FieldOf(info, kc.Args[1]) == c.fDB &&
				core.BaseObj(info, kc.Args[0]) == m && core.BaseObj(info, kc.Args[1]) == m
		case dbrpP + ".indexForeignKey":
			okKey = len(kc.Args) == 1 && core.BaseObj(info, kc.Args[0]) == m
		}
	}
	r.Check(okKey, rule, f.String(), "walk-key", c.p.Pos(w.Pos()), "the walk covers the (OrganizationID, Database) of the mapping being checked")
	lit, ok := ast.Unparen(w.Args[3]).(*ast.FuncLit)
	if !r.Check(ok && lit.Type.Params.NumFields() == 2, rule, f.String(), "visitor:absent", c.p.Pos(w.Pos()), "visitor closure found") {
		return
	}
	lg := f.LitGraph(lit)
	// the entry decoded from the visited value
	var names []*ast.Ident
	for _, fl := range lit.Type.Params.List {
		names = append(names, fl.Names...)
	}
	vParam := info.Defs[names[1]]
	var entry types.Object
	for _, cl := range core.AllCalls(info, lit.Body, call("encoding/json.Unmarshal")) {
		if len(cl.Args) == 2 && core.ObjOf(info, cl.Args[0]) == vParam {
			entry = core.BaseObj(info, core.StripAddrDeref(cl.Args[1]))
		}
	}
	if !r.Check(entry != nil, rule, f.String(), "decode:absent", f.Pos(), "the visited value is decoded into a mapping") {
		return
	}
	eqOn := func(fld *types.Var, val bool) core.CondFact {
		return func(a ast.Expr, v bool) bool {
			be, ok := ast.Unparen(a).(*ast.BinaryExpr)
			if !ok || !(be.Op == token.EQL && v == val || be.Op == token.NEQ && v != val) {
				return false
			}
			one := func(x, y ast.Expr) bool {
				return core.FieldOf(info, x) == fld && core.FieldOf(info, y) == fld && core.BaseObj(info, x) == entry && core.BaseObj(info, y) == m
			}
			return one(be.X, be.Y) || one(be.Y, be.X)
		}
	}
	// the duplicate verdict
	isDupRet := func(n *core.Node) bool {
		rs, ok := n.N.(*ast.ReturnStmt)
		if !ok || len(rs.Results) != 2 {
			return false
		}
		return core.AsCall(info, rs.Results[1], call(dbrpP+".ErrDBRPAlreadyExists")) != nil
	}
	dups := lg.Select(isDupRet)
	if r.Check(len(dups) >= 1, rule, f.String(), "ErrDBRPAlreadyExists:absent", f.Pos(), "a duplicate is reported") {
		bad := lg.NotReachableUnless(isDupRet, nil, core.EdgeEstablishing(eqOn(c.fRP, true)))
		r.Check(len(bad) == 0, rule, f.String(), "duplicate-only-on-equal-rp", lg.Line(dups[0]), "ErrDBRPAlreadyExists only for an entry with the same RetentionPolicy")
		bad = lg.NotReachableUnless(isDupRet, nil, core.EdgeEstablishing(eqOn(c.fID, false)))
		r.Check(len(bad) == 0, rule, f.String(), "duplicate-not-self", lg.Line(dups[0]), "the mapping itself is not a duplicate (ID differs)")
		// an entry with equal rp (and other ID) always fails: from the rp-equal edge no success exit
		rr := lg.Reach(edgeTargetsRW5(lg, core.EdgeEstablishing(eqOn(c.fRP, true))), nil, nil)
		r.Check(noSuccessExitRW5(lg, rr), rule, f.String(), "equal-rp=>error", lg.Line(dups[0]), "an entry with equal RetentionPolicy always ends the walk with an error")
		// the only way around the rp test is the self test or a decode error
		skip := core.EdgeEstablishing(eqOn(c.fID, true))
		rpTest := func(n *core.Node) bool {
			e, ok := n.N.(ast.Expr)
			if !ok {
				return false
			}
			for _, a := range core.Atoms(e) {
				if eqOn(c.fRP, true)(a, true) {
					return true
				}
			}
			return false
		}
		rr = lg.ReachFromEntry(rpTest, skip)
		r.Check(noSuccessExitRW5(lg, rr), rule, f.String(), "every-other-entry-compared", f.Pos(), "every visited entry other than the mapping itself has its RetentionPolicy compared")
		// the comparisons read the entry only after it was decoded
		dec := callWithRW5(lg, call("encoding/json.Unmarshal"), func(cl *ast.CallExpr) bool {
			return len(cl.Args) == 2 && core.ObjOf(info, cl.Args[0]) == vParam && core.BaseObj(info, core.StripAddrDeref(cl.Args[1])) == entry
		})
		idTest := func(n *core.Node) bool {
			e, ok := n.N.(ast.Expr)
			if !ok {
				return false
			}
			for _, a := range core.Atoms(e) {
				if eqOn(c.fID, true)(a, true) {
					return true
				}
			}
			return false
		}
		bad = lg.NotReachableUnless(core.AnyOf(rpTest, idTest), dec, nil)
		r.Check(len(bad) == 0, rule, f.String(), "decode<compare", f.Pos(), "the entry is decoded before its ID and RetentionPolicy are compared")
	}
	// the walk is not cut short: success exits return true (continue)
	okCont := true
	for _, x := range lg.RealSuccessExits() {
		rs, _ := x.N.(*ast.ReturnStmt)
		if rs == nil || len(rs.Results) != 2 {
			okCont = false
			continue
		}
		if v, isC := core.ConstBool(info, rs.Results[0]); !isC || !v {
			okCont = false
		}
	}
	r.Check(okCont, rule, f.String(), "walk-continues", f.Pos(), "a non-duplicate entry continues the walk (visitor returns true)")
	core.RuleErrorsUsed(r, f, rule, "View/Walk/Unmarshal", call("kv.Store.View", "kv.Index.Walk", "encoding/json.Unmarshal"), false, 3)
}

// ---------------------------------------------------------------- defaults bucket helpers

func (c *c43ctx) defaultStore() {
	const rule = "default-store"
	r := c.r
	type spec struct {
		name, method string
		keyParam     int // index of the composite key parameter
		valParam     int // index of the value parameter (Put), -1 otherwise
	}
	for _, s := range []spec{{"Service.setAsDefault", "Put", 1, 2}, {"Service.unsetDefault", "Delete", 1, -1}, {"Service.isDefaultSet", "Get", 1, -1}, {"Service.getDefault", "Get", 1, -1}} {
		f := r.Need(c.p, dbrpP, s.name)
		if f == nil {
			continue
		}
		info, g := f.Info(), f.Graph()
		sig, _ := f.Obj.Type().(*types.Signature)
		m := c.bucketCall(f, c.vDefaultBucket, s.method)
		good := func(cl *ast.CallExpr) bool {
			if len(cl.Args) < 1 || core.ParamIndex(sig, core.ObjOf(info, cl.Args[0])) != s.keyParam {
				return false
			}
			if s.valParam >= 0 {
				return len(cl.Args) == 2 && core.ParamIndex(sig, core.ObjOf(info, cl.Args[1])) == s.valParam
			}
			return true
		}
		core.RuleMustPassN(r, f, g, rule, "defaultBucket."+s.method+"(compKey)", callWithRW5(g, m, good), nil)
		core.RuleErrorsUsed(r, f, rule, "Bucket/"+s.method, call("kv.Tx.Bucket", "kv.Bucket."+s.method), false, 2)
	}
	if f := r.Need(c.p, dbrpP, "Service.isDefaultSet"); f != nil {
		info, g := f.Info(), f.Graph()
		// err of Get
		var errObj types.Object
		for _, n := range g.Select(g.Calling(call("kv.Bucket.Get"))) {
			if as, ok := n.N.(*ast.AssignStmt); ok && len(as.Lhs) == 2 {
				errObj = core.ObjOf(info, as.Lhs[1])
			}
		}
		nT, nF, ok := 0, 0, errObj != nil
		errNil := core.EdgeEstablishing(func(a ast.Expr, v bool) bool {
			x, nonNilOnTrue, isN := core.NilTest(info, a)
			return isN && core.ObjOf(info, x) == errObj && v != nonNilOnTrue
		})
		notFound := core.EdgeEstablishing(core.CallFact(info, call("kv.IsNotFound"), true, func(cl *ast.CallExpr) bool {
			return len(cl.Args) == 1 && core.ObjOf(info, cl.Args[0]) == errObj
		}))
		getN := g.Calling(call("kv.Bucket.Get"))
		for _, x := range g.RealSuccessExits() {
			rs, _ := x.N.(*ast.ReturnStmt)
			if rs == nil || len(rs.Results) != 2 {
				ok = false
				continue
			}
			v, isC := core.ConstBool(info, rs.Results[0])
			if !isC {
				ok = false
				continue
			}
			only := func(ep core.EdgePred) bool {
				// facts about err count only once it holds the result of Get
				pre := g.ReachFromEntry(getN, nil)
				if pre[x] {
					return false
				}
				for _, gn := range g.Select(getN) {
					if g.Reach(core.After(gn, nil), nil, ep)[x] {
						return false
					}
				}
				return true
			}
			if v {
				nT++
				if !only(errNil) {
					ok = false
				}
			} else {
				nF++
				if !only(notFound) {
					ok = false
				}
			}
		}
		r.Check(ok && nT >= 1 && nF >= 1, rule, f.String(), "verdict", f.Pos(), "isDefaultSet answers true only when Get succeeded and false only when the key is not found")
	}
	if f := r.Need(c.p, dbrpP, "Service.getFirstBut"); f != nil {
		info := f.Info()
		sig, _ := f.Obj.Type().(*types.Signature)
		walks := core.AllCalls(info, f.Decl.Body, c.indexCall(info, c.fByOrgDB, "Walk"))
		if r.Check(len(walks) == 1 && len(walks[0].Args) == 4, rule, f.String(), "Walk(byOrgAndDatabase):absent", f.Pos(), "the (org,db) index is walked") {
			w := walks[0]
			r.Check(core.ParamIndex(sig, core.ObjOf(info, w.Args[2])) == 1, rule, f.String(), "walk-key", c.p.Pos(w.Pos()), "the walk covers the composite key parameter")
			lit, ok := ast.Unparen(w.Args[3]).(*ast.FuncLit)
			if r.Check(ok && lit.Type.Params.NumFields() == 2 && sig.Results().Len() == 2, rule, f.String(), "visitor:absent", c.p.Pos(w.Pos()), "visitor closure found") {
				lg := f.LitGraph(lit)
				var names []*ast.Ident
				for _, fl := range lit.Type.Params.List {
					names = append(names, fl.Names...)
				}
				kParam := info.Defs[names[0]]
				next := sig.Results().At(0)
				skipParam := sig.Params().At(2)
				st := lg.Select(lg.AssigningObj(next))
				if r.Check(len(st) >= 1, rule, f.String(), "result-store:absent", f.Pos(), "the found id is stored in the result") {
					notSkipped := core.EdgeEstablishing(core.CallFact(info, call("bytes.Equal"), false, func(cl *ast.CallExpr) bool {
						if len(cl.Args) != 2 {
							return false
						}
						a, b := core.ObjOf(info, cl.Args[0]), core.ObjOf(info, cl.Args[1])
						return a == skipParam && b == kParam || a == kParam && b == skipParam
					}))
					bad := lg.NotReachableUnless(lg.AssigningObj(next), nil, notSkipped)
					r.Check(len(bad) == 0, rule, f.String(), "never-the-skipped-id", lg.Line(st[0]), "an id is returned only after it compared different from skipID")
					for _, n := range st {
						as, _ := n.N.(*ast.AssignStmt)
						r.Check(as != nil && len(as.Rhs) == 1 && core.ObjOf(info, as.Rhs[0]) == kParam, rule, f.String(), "result-is-visited-key", lg.Line(n), "the result is the visited primary key")
					}
				}
			}
		}
		core.RuleErrorsUsed(c.r, f, rule, "Walk", call("kv.Index.Walk"), false, 1)
	}
	if f := r.Need(c.p, dbrpP, "Service.isDefault"); f != nil {
		info := f.Info()
		sig, _ := f.Obj.Type().(*types.Signature)
		ok := false
		for _, cl := range core.AllCalls(info, f.Decl.Body, call("bytes.Equal")) {
			if len(cl.Args) != 2 {
				continue
			}
			var idSeen, defSeen bool
			for _, a := range cl.Args {
				o := core.ObjOf(info, a)
				if core.ParamIndex(sig, o) == 2 {
					idSeen = true
				}
				if d, single := core.SingleDef(info, f.Decl.Body, o); single && d.Rhs != nil && d.Index == 0 {
					if gc := core.AsCall(info, d.Rhs, call(dbrpP+".Service.getDefault")); gc != nil && len(gc.Args) == 2 && core.ParamIndex(sig, core.ObjOf(info, gc.Args[1])) == 1 {
						defSeen = true
					}
				}
			}
			if idSeen && defSeen {
				ok = true
			}
		}
		r.Check(ok, rule, f.String(), "compares-with-stored-default", f.Pos(), "isDefault compares the id with getDefault(tx, compKey)")
	}
}

// ---------------------------------------------------------------- FindByID / FindMany

func (c *c43ctx) find() {
	const rule = "find-default"
	r := c.r
	if f := r.Need(c.p, dbrpP, "Service.FindByID"); f != nil {
		info := f.Info()
		sig, _ := f.Obj.Type().(*types.Signature)
		lit, _ := c.txLit(f, "View")
		if r.Check(lit != nil, rule, f.String(), "View-closure:absent", f.Pos(), "the lookup happens in a closure passed to store.View") {
			lg := f.LitGraph(lit)
			isDef := call(dbrpP + ".Service.isDefault")
			// m.Default, err = s.isDefault(tx, indexForeignKey(*m), encodedID)
			var mObj types.Object
			store := func(n *core.Node) bool {
				as, ok := n.N.(*ast.AssignStmt)
				if !ok || len(as.Rhs) != 1 || len(as.Lhs) != 2 {
					return false
				}
				se, ok := ast.Unparen(as.Lhs[0]).(*ast.SelectorExpr)
				if !ok || core.FieldOf(info, se) != c.fDefault {
					return false
				}
				dc := core.AsCall(info, as.Rhs[0], isDef)
				if dc == nil || len(dc.Args) != 3 || c.keyKind(f, dc.Args[1]) != "orgdb" || c.keyKind(f, dc.Args[2]) != "id" {
					return false
				}
				kc := ast.Unparen(dc.Args[1]).(*ast.CallExpr)
				if len(kc.Args) != 1 || core.BaseObj(info, kc.Args[0]) != core.BaseObj(info, se.X) {
					return false
				}
				mObj = core.BaseObj(info, se.X)
				return true
			}
			core.RuleMustPassN(r, f, lg, rule, "m.Default = isDefault(tx, key(m), id)", store, nil)
			if mObj != nil {
				// other organisation -> not found
				orgParam := sig.Params().At(1)
				sameOrg := core.EdgeEstablishing(func(a ast.Expr, v bool) bool {
					be, ok := ast.Unparen(a).(*ast.BinaryExpr)
					if !ok || !(be.Op == token.EQL && v || be.Op == token.NEQ && !v) {
						return false
					}
					one := func(x, y ast.Expr) bool {
						return core.FieldOf(info, x) == c.fOrg && core.BaseObj(info, x) == mObj && core.ObjOf(info, y) == orgParam
					}
					return one(be.X, be.Y) || one(be.Y, be.X)
				})
				rr := lg.ReachFromEntry(nil, sameOrg)
				r.Check(noSuccessExitRW5(lg, rr), rule, f.String(), "org-scope", f.Pos(), "a mapping is returned only if its OrganizationID equals the caller's orgID")
				// the organisation is compared after the mapping was decoded
				dec := callWithRW5(lg, call("encoding/json.Unmarshal"), func(cl *ast.CallExpr) bool {
					return len(cl.Args) == 2 && core.BaseObj(info, core.StripAddrDeref(cl.Args[1])) == mObj
				})
				orgTest := func(n *core.Node) bool {
					if _, ok := n.N.(ast.Expr); !ok || len(n.Succ) != 2 {
						return false
					}
					return sameOrg(n.Succ[0]) || sameOrg(n.Succ[1])
				}
				bad := lg.NotReachableUnless(orgTest, dec, nil)
				r.Check(len(lg.Select(dec)) >= 1 && len(bad) == 0, rule, f.String(), "decode<org-scope", f.Pos(), "the organisation is compared after the stored mapping was decoded")
				// the mapping returned on success is the decoded one
				g := f.Graph()
				okRet := false
				for _, x := range g.RealSuccessExits() {
					if rs, _ := x.N.(*ast.ReturnStmt); rs != nil && len(rs.Results) == 2 && core.ObjOf(info, rs.Results[0]) == mObj {
						okRet = true
					}
				}
				r.Check(okRet, rule, f.String(), "returns-decoded", f.Pos(), "the decoded mapping (with recomputed Default) is what is returned")
			}
			core.RuleErrorsUsed(r, f, rule, "isDefault/Get/Unmarshal", call(dbrpP+".Service.isDefault", "kv.Bucket.Get", "encoding/json.Unmarshal", "kv.Store.View"), false, 4)
		}
	}
	if f := r.Need(c.p, dbrpP, "Service.FindMany"); f != nil {
		info, body := f.Info(), f.Decl.Body
		// ms: the result slice (first result of every success return)
		g := f.Graph()
		var ms types.Object
		for _, x := range g.RealSuccessExits() {
			if rs, _ := x.N.(*ast.ReturnStmt); rs != nil && len(rs.Results) == 3 {
				ms = core.ObjOf(info, rs.Results[0])
			}
		}
		if !r.Check(ms != nil, rule, f.String(), "result-slice:absent", f.Pos(), "result slice identified") {
			return
		}
		// the closure that appends physical mappings
		n := 0
		ast.Inspect(body, func(x ast.Node) bool {
			fl, ok := x.(*ast.FuncLit)
			if !ok {
				return true
			}
			lg := f.LitGraph(fl)
			for _, s := range appendSitesRW5(lg) {
				if s.dst != ms {
					continue
				}
				mObj := core.BaseObj(info, core.StripAddrDeref(s.elem))
				if mObj == nil {
					continue
				}
				// only literals that decode the mapping themselves
				dec := false
				for _, cl := range core.CallsIn(info, fl.Body, call("encoding/json.Unmarshal"), core.WalkOpts{}) {
					if len(cl.Args) == 2 && core.BaseObj(info, core.StripAddrDeref(cl.Args[1])) == mObj {
						dec = true
					}
				}
				if !dec {
					continue
				}
				n++
				// m.Default = m.ID == *defID, defID from get(tx, m.OrganizationID, m.Database)
				recompute := func(nd *core.Node) bool {
					as, ok := nd.N.(*ast.AssignStmt)
					if !ok || len(as.Lhs) != 1 || len(as.Rhs) != 1 {
						return false
					}
					se, ok := ast.Unparen(as.Lhs[0]).(*ast.SelectorExpr)
					if !ok || core.FieldOf(info, se) != c.fDefault || core.BaseObj(info, se.X) != mObj {
						return false
					}
					be, ok := ast.Unparen(as.Rhs[0]).(*ast.BinaryExpr)
					if !ok || be.Op != token.EQL {
						return false
					}
					side := func(x, y ast.Expr) bool {
						if core.FieldOf(info, x) != c.fID || core.BaseObj(info, x) != mObj {
							return false
						}
						d, ok := core.SingleDef(info, body, core.BaseObj(info, core.StripAddrDeref(y)))
						if !ok || d.Rhs == nil || d.Index != 0 {
							return false
						}
						gc, ok := ast.Unparen(d.Rhs).(*ast.CallExpr)
						if !ok || len(gc.Args) != 3 {
							return false
						}
						// get(tx, m.OrganizationID, m.Database) -> getDefaultID(tx, composeForeignKey(orgID, db))
						if core.FieldOf(info, gc.Args[1]) != c.fOrg || core.FieldOf(info, gc.Args[2]) != c.fDB || core.BaseObj(info, gc.Args[1]) != mObj || core.BaseObj(info, gc.Args[2]) != mObj {
							return false
						}
						gd, ok := core.SingleDef(info, body, core.ObjOf(info, gc.Fun))
						if !ok || gd.Rhs == nil {
							return false
						}
						gl, ok := ast.Unparen(gd.Rhs).(*ast.FuncLit)
						if !ok || gl.Type.Params.NumFields() != 3 {
							return false
						}
						var ps []types.Object
						for _, fld := range gl.Type.Params.List {
							for _, nm := range fld.Names {
								ps = append(ps, info.Defs[nm])
							}
						}
						for _, dc := range core.AllCalls(info, gl.Body, call(dbrpP+".Service.getDefaultID")) {
							if len(dc.Args) == 2 {
								if kc := core.AsCall(info, dc.Args[1], call(dbrpP+".composeForeignKey")); kc != nil && len(kc.Args) == 2 && core.ObjOf(info, kc.Args[0]) == ps[1] && core.ObjOf(info, kc.Args[1]) == ps[2] {
									return true
								}
							}
						}
						return false
					}
					return side(be.X, be.Y) || side(be.Y, be.X)
				}
				bad := lg.NotReachableUnless(func(nd *core.Node) bool { return nd == s.node }, recompute, nil)
				c.r.Check(len(lg.Select(recompute)) >= 1 && len(bad) == 0, rule, f.String(), "Default-recomputed-before-collect", lg.Line(s.node), "a stored mapping is collected only after m.Default was recomputed as m.ID == default id of (m.OrganizationID, m.Database)")
			}
			return true
		})
		r.Check(n >= 1, rule, f.String(), "collector:absent", f.Pos(), "the closure that decodes and collects stored mappings was found")
	}
}

// ---------------------------------------------------------------- FindMany: virtual mappings

func (c *c43ctx) virtual() {
	const rule = "virtual-dedupe"
	f := c.r.Need(c.p, dbrpP, "Service.FindMany")
	if f == nil {
		return
	}
	r, info, g, body := c.r, f.Info(), f.Graph(), f.Decl.Body
	var ms types.Object
	for _, x := range g.RealSuccessExits() {
		if rs, _ := x.N.(*ast.ReturnStmt); rs != nil && len(rs.Results) == 3 {
			ms = core.ObjOf(info, rs.Results[0])
		}
	}
	// outer loop: ranges over the FindBuckets result and appends bucketToMapping(bucket) to ms
	var outer, inner *ast.RangeStmt
	var virt types.Object
	var appendNode *core.Node
	for _, s := range appendSitesRW5(g) {
		if s.dst != ms || ms == nil {
			continue
		}
		o := core.ObjOf(info, s.elem)
		d, ok := core.SingleDef(info, body, o)
		if !ok || d.Rhs == nil || core.AsCall(info, d.Rhs, call(dbrpP+".bucketToMapping")) == nil {
			continue
		}
		virt, appendNode = o, s.node
	}
	if !r.Check(virt != nil, rule, f.String(), "virtual-append:absent", f.Pos(), "ms = append(ms, bucketToMapping(bucket)) found") {
		return
	}
	ast.Inspect(body, func(n ast.Node) bool {
		rs, ok := n.(*ast.RangeStmt)
		if !ok || !(rs.Pos() <= appendNode.N.Pos() && appendNode.N.End() <= rs.End()) {
			return true
		}
		if d, ok := core.SingleDef(info, body, core.ObjOf(info, rs.X)); ok && d.Rhs != nil && core.AsCall(info, d.Rhs, call("..BucketService.FindBuckets")) != nil {
			outer = rs
		}
		return true
	})
	if !r.Check(outer != nil, rule, f.String(), "bucket-loop:absent", f.Pos(), "the loop over the FindBuckets result was found") {
		return
	}
	for _, rs := range core.RangeOver(outer.Body, func(e ast.Expr) bool { return core.ObjOf(info, e) == ms }) {
		inner = rs
	}
	if !r.Check(inner != nil && inner.Value != nil, rule, f.String(), "compare-loop:absent", f.Pos(), "the loop comparing the virtual mapping with the collected ones was found") {
		return
	}
	mv := core.ObjOf(info, inner.Value)
	oHead, _, _ := g.LoopNodes(outer)
	iHead, iBody, _ := g.LoopNodes(inner)
	if !r.Check(oHead != nil && iHead != nil && iBody != nil, rule, f.String(), "loops:cfg", posOfRW5(c.p, inner), "loops resolved in the CFG") {
		return
	}
	// (a) a collected mapping with the same database and retention policy suppresses the virtual one
	same := func(fld *types.Var) core.CondFact {
		return func(a ast.Expr, v bool) bool {
			be, ok := ast.Unparen(a).(*ast.BinaryExpr)
			if !ok || !(be.Op == token.EQL && v || be.Op == token.NEQ && !v) {
				return false
			}
			one := func(x, y ast.Expr) bool {
				return core.FieldOf(info, x) == fld && core.FieldOf(info, y) == fld && core.BaseObj(info, x) == mv && core.BaseObj(info, y) == virt
			}
			return one(be.X, be.Y) || one(be.Y, be.X)
		}
	}
	tg := edgeTargetsRW5(g, core.EdgeEstablishing(same(c.fRP)))
	rr := g.Reach(tg, func(n *core.Node) bool { return n == oHead }, nil)
	r.Check(len(tg) >= 1 && !rr[appendNode], rule, f.String(), "same-db-rp-suppresses", posOfRW5(c.p, inner), "a collected mapping with the same RetentionPolicy (under the same Database) prevents the virtual mapping from being appended")
	bad := g.NotReachableUnless(func(n *core.Node) bool {
		for _, t := range tg {
			if t == n {
				return true
			}
		}
		return false
	}, nil, core.EdgeEstablishing(same(c.fDB)))
	r.Check(len(bad) == 0, rule, f.String(), "same-db-guard", posOfRW5(c.p, inner), "the RetentionPolicy comparison is made under Database equality")
	// (b) the comparison loop is not cut short: the append is not reachable from inside an iteration
	// without returning to the loop head (i.e. without having compared the remaining mappings)
	rr = g.Reach([]*core.Node{iBody}, func(n *core.Node) bool { return n == iHead || n == oHead }, nil)
	if rr[appendNode] {
		r.Bad(rule, f.String(), "scan-cut-short", g.Line(appendNode),
			"the loop that compares a virtual mapping with the already collected ones can be left early (break) and still reach ms = append(ms, newMapping): mappings after the break are never compared, so a later physical mapping with the same database and retention policy does not suppress the virtual one and FindMany lists the (database, retention policy) pair twice, pointing at two buckets")
	} else {
		r.Ok(rule, f.String(), g.Line(appendNode), "the virtual mapping is appended only after the comparison loop ran to completion")
	}
}
