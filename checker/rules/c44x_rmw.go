package rules

import (
	"fmt"
	"go/ast"
	"go/token"
	"go/types"

	"verif/checker/core"
)

// rmw-one-transaction ("a request is authenticated only with a token that exists
// and is active"). The credential records live in the kv store; every service
// operation runs in store.View (read-only) or store.Update (read-write)
// transactions, and transactions are the only isolation there is. An operation
// that READS a record in one transaction and WRITES that copy back in another is
// a lost-update window: whatever another operation committed in between — the
// deletion of the token, its deactivation — is overwritten by the stale copy,
// and a token that does not exist / is inactive authenticates again.
//
// Structural necessary condition, for every function of the credential packages:
// a variable that is assigned inside a function literal handed to a View
// transaction (or to an earlier, different Update transaction) is not handed to a
// store call inside a later Update transaction of the same function. Reading
// and writing inside ONE transaction literal is the accepted form (all tenant
// services and every other authorization operation already do that).
func init() {
	extend("C44", "rmw-one-transaction: in the authorization, tenant and session packages no function hands a record that it read inside one kv transaction literal (View, or an earlier Update) to a store call inside a later Update transaction — read-modify-write of credential records happens inside one transaction, so a concurrent delete or deactivation cannot be overwritten by a stale copy.",
		[]string{"./authorization", "./tenant", "./session"}, func(p *core.Prog, r *core.Report, tier string) {
			const rule = "rmw-one-transaction"
			nFuncs, nTx := 0, 0
			for _, pkg := range []string{"authorization", "tenant", "session"} {
				for _, f := range p.Funcs(pkg) {
					if f.Decl == nil || f.Decl.Body == nil {
						continue
					}
					info := f.Info()
					// transaction literals of this function, in source order
					type txLit struct {
						lit    *ast.FuncLit
						update bool
						call   *ast.CallExpr
					}
					var txs []txLit
					ast.Inspect(f.Decl.Body, func(n ast.Node) bool {
						c, ok := n.(*ast.CallExpr)
						if !ok {
							return true
						}
						sel, ok := ast.Unparen(c.Fun).(*ast.SelectorExpr)
						if !ok || (sel.Sel.Name != "View" && sel.Sel.Name != "Update") {
							return true
						}
						for _, a := range c.Args {
							lit, ok := ast.Unparen(a).(*ast.FuncLit)
							if !ok {
								continue
							}
							sig, _ := info.TypeOf(lit).(*types.Signature)
							if sig == nil || sig.Params().Len() != 1 || sig.Results().Len() != 1 {
								continue
							}
							if nt, ok := sig.Params().At(0).Type().(*types.Named); !ok || nt.Obj().Name() != "Tx" || nt.Obj().Pkg() == nil || nt.Obj().Pkg().Name() != "kv" {
								continue
							}
							txs = append(txs, txLit{lit, sel.Sel.Name == "Update", c})
						}
						return true
					})
					if len(txs) == 0 {
						continue
					}
					nTx += len(txs)
					if len(txs) < 2 {
						continue
					}
					nFuncs++
					r.Saw(f)
					inside := func(l *ast.FuncLit, n ast.Node) bool { return l.Pos() <= n.Pos() && n.End() <= l.End() }
					// variables of the enclosing function assigned inside each literal
					assignedIn := make([]map[types.Object]bool, len(txs))
					for i, t := range txs {
						assignedIn[i] = map[types.Object]bool{}
						ast.Inspect(t.lit.Body, func(n ast.Node) bool {
							as, ok := n.(*ast.AssignStmt)
							if !ok {
								return true
							}
							for _, l := range as.Lhs {
								id, ok := l.(*ast.Ident)
								if !ok {
									continue
								}
								o := core.ObjOf(info, id)
								if o == nil || inside(t.lit, identDecl(info, o)) {
									continue // declared inside the literal: not carried out of it
								}
								if _, isErr := o.Type().Underlying().(*types.Interface); isErr && core.IsErrorType(o.Type()) {
									continue
								}
								assignedIn[i][o] = true
							}
							return true
						})
					}
					bad := false
					for j, w := range txs {
						if !w.update {
							continue
						}
						// store calls inside the writing literal: calls that are handed the literal's tx parameter
						var txParam types.Object
						if ps := w.lit.Type.Params.List; len(ps) == 1 && len(ps[0].Names) == 1 {
							txParam = core.ObjOf(info, ps[0].Names[0])
						}
						ast.Inspect(w.lit.Body, func(n ast.Node) bool {
							c, ok := n.(*ast.CallExpr)
							if !ok || txParam == nil {
								return true
							}
							usesTx := false
							for _, a := range c.Args {
								if core.ObjOf(info, ast.Unparen(a)) == txParam {
									usesTx = true
								}
							}
							if !usesTx {
								return true
							}
							for _, a := range c.Args {
								ast.Inspect(a, func(y ast.Node) bool {
									id, ok := y.(*ast.Ident)
									if !ok {
										return true
									}
									o := core.ObjOf(info, id)
									for i := 0; i < j; i++ {
										if assignedIn[i][o] && !assignedBefore(info, w.lit, o, c.Pos()) {
											bad = true
											kind := "View"
											if txs[i].update {
												kind = "an earlier Update"
											}
											r.Bad(rule, f.String(), "stale-copy-written-back:"+o.Name(), p.Pos(c.Pos()),
												fmt.Sprintf("%s was read in %s transaction (%s) and is handed to %s inside a later Update transaction: whatever was committed in between is overwritten", o.Name(), kind, p.Pos(txs[i].call.Pos()), core.Trim(core.ExprStr(c.Fun), 50)))
										}
									}
									return true
								})
							}
							return true
						})
					}
					if !bad {
						r.Ok(rule, f.String(), f.Pos(), fmt.Sprintf("%d transactions: no record read in one is written back in a later one", len(txs)))
					}
				}
			}
			r.Check(nTx >= 20, rule, "authorization|tenant|session", "transactions:count", "-", fmt.Sprintf("%d transaction literals examined, %d functions with more than one (>= 20 literals confirmed by reading)", nTx, nFuncs))
		})
}

// assignedBefore: inside lit, o is assigned at a position before pos (the copy
// handed on was refreshed inside this transaction).
func assignedBefore(info *types.Info, lit *ast.FuncLit, o types.Object, pos token.Pos) bool {
	found := false
	ast.Inspect(lit.Body, func(n ast.Node) bool {
		as, ok := n.(*ast.AssignStmt)
		if !ok || as.End() > pos {
			return true
		}
		for _, l := range as.Lhs {
			if id, ok := l.(*ast.Ident); ok && core.ObjOf(info, id) == o {
				found = true
			}
		}
		return true
	})
	return found
}

// identDecl returns a node positioned at the declaration of o (used only for a
// position-containment test).
func identDecl(info *types.Info, o types.Object) ast.Node {
	return &ast.Ident{NamePos: o.Pos(), Name: o.Name()}
}
