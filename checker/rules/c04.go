package rules

import (
	"fmt"
	"go/ast"
	"go/token"
	"go/types"
	"sort"
	"strings"

	"verif/checker/core"
)

func init() {
	register(&Prop{
		ID:       "C04",
		Patterns: []string{"./tsdb/engine/tsm1"},
		Level:    "other",
		Explanation: "Necessary-condition rules for content-preserving compaction, decided on CFG paths, resolved callees, objects and fields of tsm1: " +
			"(1) write-loop (Compactor.write): WriteBlock receives exactly the (key, min, max, block) tuple of the preceding KeyIterator.Read, is reached only after min<=max was established, no block that was read reaches the next Read or a completed exit without WriteBlock; every completed exit (roll or nil error) passes WriteIndex, the nil-error exit passes KeyIterator.Err; errors of Read/Err/WriteBlock/WriteIndex are used; the deferred handler always closes the writer and removes the file unless the named error is nil or the run is in-progress/rolling; " +
			"(2) output-accounting (writeNewFiles): every written file is appended to the result or removed before the next write/return, every error return goes through removeTmpFilesOnErr(files…), the result is the accumulated list; " +
			"(3) compact-inputs: Compactor.compact opens a reader for every input (error return or append, nothing skipped) and passes all of them, the input names, the fast flag and the requested points-per-block to NewTSMBatchKeyIterator, whose literal stores each parameter in its field and creates one BlockIterator per reader; CompactFull/CompactFast re-read compactionsEnabled after compact and only then report success; compactGroup replaces exactly the compacted group by the produced files and only when the compaction returned no error; " +
			"(4) merge-iterator: tsmBatchKeyIterator.Next picks the smallest pending key (bytes.Compare < 0), moves every buffered block of that key to k.blocks while emptying the buffer, and stores the file's TombstoneRange with every block it reads; merge<T> keeps file order with sort.Stable and forces the decode path when a block has tombstones; combine<T> applies every tombstone (Exclude(ts.Min, ts.Max)) to each decoded block before merging it; chunk<T> cuts Timestamps and Values with identical bounds at k.size and labels the block with first/last timestamp of what it encoded; both iterators' Read return key/min/max/data of one block; " +
			"(5) snapshot-chunking (cacheKeyIterator.encode): blocks are values[:end] with end<=c.size, min/max from values[0]/values[end-1], continuation values[end:]; " +
			"(6) block-type-table: the five tags packed by the encoders are distinct and are all accepted by BlockType, DecodeBlock and tsmBatchKeyIterator.merge; each merge case dispatches to the merge<T> whose decoder checks and whose encoder packs that tag; each DecodeBlock case calls the decoder of its tag; each value-type arm of cacheKeyIterator.encode uses the encoder that asserts that type and whose tag DecodeBlock maps back to it; " +
			"(7) snapshot-dedupe: the snapshot is deduplicated (sorted) before it is written; " +
			"(8) sibling-uniformity of merge/combine/chunk over the five value types.",
		NotCovered:  "equality of the merged content with a model merge of the inputs, the window arithmetic in combine<T> (which overlapping blocks are decoded together), the points-per-block bound for blocks copied unchanged on the fast path, TSM index/footer encoding, consistent edits of template and all instantiations.",
		Assumptions: []string{"a passing rule means the mechanism is in place on every CFG path, not that the output content equals the input content"},
		Run:         x1RunC04,
	})
}

func x1RunC04(p *core.Prog, r *core.Report, tier string) {
	x1C04WriteLoop(p, r)
	x1C04NewFiles(p, r)
	x1C04Inputs(p, r)
	x1C04Iterator(p, r)
	x1CompactionTombstones(p, r, "merge-iterator")
	x1C04Chunk(p, r)
	x1C04SnapshotChunking(p, r)
	x1C04BlockTypes(p, r)
	x1SnapshotDedupe(p, r, "snapshot-dedupe")
	for _, m := range []string{"merge", "combine", "chunk"} {
		x1SiblingGroup(p, r, "sibling-uniformity", "tsm1.tsmBatchKeyIterator."+m+"<T>", func(t string) string { return "tsmBatchKeyIterator." + m + t }, nil)
	}
	for _, m := range []string{"Encode<T>ArrayBlock", "Decode<T>ArrayBlock"} {
		x1SiblingGroup(p, r, "sibling-uniformity", "tsm1."+m, func(t string) string { return strings.Replace(m, "<T>", t, 1) }, nil)
	}
}

// x1ErrOperand returns the error operand of a return node (nil when the function
// has no error result / bare return).
func x1ErrOperand(g *core.Graph, x *core.Node) ast.Expr {
	rs, ok := x.N.(*ast.ReturnStmt)
	if !ok || g.Sig == nil || len(rs.Results) != g.Sig.Results().Len() || len(rs.Results) == 0 {
		return nil
	}
	last := g.Sig.Results().Len() - 1
	if !core.IsErrorType(g.Sig.Results().At(last).Type()) {
		return nil
	}
	return rs.Results[last]
}

// x1NilErrExit: the exit returns a literal nil error (or falls off the end).
func x1NilErrExit(g *core.Graph, x *core.Node) bool {
	if x.Kind == core.KFallOff {
		return true
	}
	e := x1ErrOperand(g, x)
	return e != nil && core.IsNilIdent(g.Info, e)
}

// ---------------------------------------------------------------- (1) Compactor.write

func x1C04WriteLoop(p *core.Prog, r *core.Report) {
	const rule = "write-loop"
	f := r.Need(p, tsm1, "Compactor.write")
	if f == nil {
		return
	}
	info, g := f.Info(), f.Graph()
	readC := call("tsdb/engine/tsm1.KeyIterator.Read")
	wbC := call("tsdb/engine/tsm1.TSMWriter.WriteBlock")
	wiC := call("tsdb/engine/tsm1.TSMWriter.WriteIndex")
	errC := call("tsdb/engine/tsm1.KeyIterator.Err")
	reads, wbs := g.Select(g.Calling(readC)), g.Select(g.Calling(wbC))
	if !r.Check(len(reads) == 1 && len(wbs) == 1, rule, f.String(), "Read/WriteBlock:absent", f.Pos(), "one KeyIterator.Read and one TSMWriter.WriteBlock in the loop") {
		return
	}
	R, W := reads[0], wbs[0]
	var tuple [4]types.Object
	if as, ok := R.N.(*ast.AssignStmt); ok && len(as.Lhs) == 5 {
		for i := 0; i < 4; i++ {
			tuple[i] = core.ObjOf(info, as.Lhs[i])
		}
	}
	wb := core.CallsIn(info, W.N, wbC, core.WalkOpts{})[0]
	okArgs := len(wb.Args) == 4
	for i := 0; okArgs && i < 4; i++ {
		if tuple[i] == nil || x1ArgObj(info, wb, i) != tuple[i] {
			okArgs = false
		}
	}
	r.Check(okArgs, rule, f.String(), "block-args", g.Line(W), "WriteBlock(key, min, max, block) receives the four results of the preceding Read in order")
	if tuple[1] != nil && tuple[2] != nil {
		ordered := core.X1CmpEdge(core.X1IsObj(info, tuple[1]), core.X1IsObj(info, tuple[2]), core.X1LE)
		r.Check(!g.Reach(core.X1Succs(R), nil, ordered)[W], rule, f.String(), "min<=max-guard", g.Line(W), "WriteBlock is reachable from Read only through a branch that established minTime <= maxTime")
	}
	// completed exits: roll (first result constant true) or nil error
	completed := func(x *core.Node) bool {
		if x1NilErrExit(g, x) {
			return true
		}
		rs, ok := x.N.(*ast.ReturnStmt)
		return ok && len(rs.Results) == 2 && core.X1IsConstBool(info, rs.Results[0], true)
	}
	dropped := g.Reach(core.X1Succs(R), g.Calling(wbC), nil)
	bad := dropped[R]
	for _, x := range core.X1ExitsIn(dropped) {
		if completed(x) {
			bad = true
		}
	}
	r.Check(!bad, rule, f.String(), "no-block-dropped", g.Line(R), "a block that was read reaches neither the next Read nor a completed exit without passing WriteBlock")
	noIndex := g.ReachFromEntry(g.Calling(wiC), nil)
	noErrChk := g.ReachFromEntry(g.Calling(errC), nil)
	nCompleted, okIdx, okErr, nNil := 0, true, true, 0
	for _, x := range g.Exits {
		if !completed(x) {
			continue
		}
		nCompleted++
		if noIndex[x] {
			okIdx = false
		}
		if x1NilErrExit(g, x) {
			nNil++
			if noErrChk[x] {
				okErr = false
			}
		}
	}
	r.Check(nCompleted >= 3 && okIdx, rule, f.String(), "WriteIndex-before-completion", f.Pos(), fmt.Sprintf("all %d completed exits (roll or nil error) pass TSMWriter.WriteIndex", nCompleted))
	r.Check(nNil >= 1 && okErr, rule, f.String(), "iterator-Err-checked", f.Pos(), "the nil-error exit passes KeyIterator.Err (a decode error during iteration cannot end in a silently truncated file)")
	core.RuleErrorsUsed(r, f, rule, "Read/Err/WriteBlock/WriteIndex", core.Or(readC, wbC, wiC, errC), false, 6)

	// deferred handler
	var lit *ast.FuncLit
	closeC, removeC := call("tsdb/engine/tsm1.TSMWriter.Close"), call("tsdb/engine/tsm1.TSMWriter.Remove")
	ast.Inspect(f.Decl.Body, func(n ast.Node) bool {
		if d, ok := n.(*ast.DeferStmt); ok {
			if fl, ok := ast.Unparen(d.Call.Fun).(*ast.FuncLit); ok && len(core.AllCalls(info, fl.Body, closeC)) > 0 {
				lit = fl
			}
		}
		return true
	})
	if r.Check(lit != nil, rule, f.String(), "deferred-close:absent", f.Pos(), "a deferred function closes the TSM writer") {
		lg := f.LitGraph(lit)
		// the defer is registered before the first block is written
		r.Check(!g.ReachFromEntry(func(n *core.Node) bool {
			d, ok := n.N.(*ast.DeferStmt)
			return ok && ast.Unparen(d.Call.Fun) == ast.Expr(lit)
		}, nil)[R],
			rule, f.String(), "defer-before-loop", g.Line(R), "the handler is registered before the first Read")
		r.Check(len(core.X1ExitsIn(lg.ReachFromEntry(lg.Calling(closeC), nil))) == 0, rule, f.String(), "always-Close", p.Pos(lit.Pos()), "every exit of the deferred handler passes TSMWriter.Close (flush+fsync of the data)")
		errRes := types.Object(f.X1Result(1))
		roll := types.Object(f.X1Result(0))
		var inProg types.Object
		ast.Inspect(lit.Body, func(n ast.Node) bool {
			if as, ok := n.(*ast.AssignStmt); ok && len(as.Lhs) == 1 && len(as.Rhs) == 1 {
				if len(core.AllCalls(info, as.Rhs[0], call("errors.As"))) > 0 {
					inProg = core.ObjOf(info, as.Lhs[0])
				}
			}
			return true
		})
		keep := core.X1FactEdge(core.X1AnyFact(
			core.X1NilFact(info, core.X1IsObj(info, errRes), true),
			core.X1BoolFact(core.X1IsObj(info, roll), true),
			core.X1BoolFact(core.X1IsObj(info, inProg), true)))
		rem := lg.Select(lg.Calling(removeC))
		left := core.X1ExitsIn(lg.ReachFromEntry(lg.Calling(removeC), keep))
		r.Check(len(rem) >= 1 && len(left) == 0 && errRes != nil && inProg != nil, rule, f.String(), "Remove-on-error", p.Pos(lit.Pos()),
			"the handler reaches its end without TSMWriter.Remove only when the named error is nil or the run is in-progress/rolling")
		for _, n := range rem {
			r.Check(!lg.ReachFromEntry(lg.Calling(closeC), nil)[n], rule, f.String(), "Close<Remove", lg.Line(n), "the writer is closed before its file is removed")
		}
	}
}

// ---------------------------------------------------------------- (2) writeNewFiles

func x1C04NewFiles(p *core.Prog, r *core.Report) {
	const rule = "output-accounting"
	f := r.Need(p, tsm1, "Compactor.writeNewFiles")
	if f == nil {
		return
	}
	info, g := f.Info(), f.Graph()
	wC := call("tsdb/engine/tsm1.Compactor.write")
	ws := g.Select(g.Calling(wC))
	if !r.Check(len(ws) == 1, rule, f.String(), "write:absent", f.Pos(), "one Compactor.write call in the loop") {
		return
	}
	W := ws[0]
	name := x1ArgObj(info, core.CallsIn(info, W.N, wC, core.WalkOpts{})[0], 0)
	// result list = first operand of the nil-error returns
	var files types.Object
	okRes, nOK := true, 0
	for _, x := range g.Exits {
		if rs, ok := x.N.(*ast.ReturnStmt); ok && x1NilErrExit(g, x) {
			nOK++
			o := core.ObjOf(info, rs.Results[0])
			if o == nil || (files != nil && files != o) {
				okRes = false
			}
			files = o
		}
	}
	if !r.Check(okRes && nOK >= 1 && name != nil && files != nil, rule, f.String(), "result-list:absent", f.Pos(), "the nil-error return yields the accumulated file list") {
		return
	}
	recorded := g.X1CallingWith(core.Builtin("append"), func(c *ast.CallExpr) bool {
		return len(c.Args) == 2 && core.ObjOf(info, c.Args[0]) == files && core.ObjOf(info, c.Args[1]) == name
	})
	removed := g.X1CallingWith(call("os.RemoveAll", "os.Remove"), func(c *ast.CallExpr) bool { return x1ArgObj(info, c, 0) == name })
	cleanup := g.Calling(call("tsdb/engine/tsm1.removeTmpFilesOnErr"))
	lost := g.Reach(core.X1Succs(W), core.AnyOf(recorded, removed, cleanup), nil)
	bad := lost[W]
	for _, x := range core.X1ExitsIn(lost) {
		_ = x
		bad = true
	}
	r.Check(!bad && len(g.Select(recorded)) >= 2, rule, f.String(), "written-file-recorded-or-removed", g.Line(W),
		"after Compactor.write every path appends the file to the result, removes it, or aborts through removeTmpFilesOnErr before the next write or return")
	// only the written name is ever appended, nothing else assigned
	okApp := true
	for _, a := range core.X1AssignmentsTo(info, f.Decl.Body, files) {
		c, isCall := a.Rhs.(*ast.CallExpr)
		if a.Rhs == nil || !isCall || !core.Builtin("append")(info, c) || len(c.Args) != 2 || core.ObjOf(info, c.Args[0]) != files || core.ObjOf(info, c.Args[1]) != name {
			okApp = false
		}
	}
	r.Check(okApp, rule, f.String(), "result-only-written-names", f.Pos(), "the result list only ever grows by the name just written")
	// error returns clean up the files written so far
	nErr, okErr := 0, true
	for _, x := range g.Exits {
		if x.Kind != core.KReturn || x1NilErrExit(g, x) {
			continue
		}
		nErr++
		cs := core.CallsIn(info, x.N, call("tsdb/engine/tsm1.removeTmpFilesOnErr"), core.WalkOpts{})
		if len(cs) != 1 || x1ArgObj(info, cs[0], 0) != files {
			okErr = false
		}
	}
	r.Check(nErr >= 3 && okErr, rule, f.String(), "abort-removes-tmp-files", f.Pos(), fmt.Sprintf("all %d error returns go through removeTmpFilesOnErr(files, …)", nErr))
	if h := r.Need(p, tsm1, "removeTmpFilesOnErr"); h != nil {
		core.RuleMustPass(r, h, rule, "removeTmpFiles", call("tsdb/engine/tsm1.removeTmpFiles"), false)
	}
	if h := r.Need(p, tsm1, "removeTmpFiles"); h != nil {
		core.RuleErrorsUsed(r, h, rule, "os.Remove", call("os.Remove"), false, 1)
	}
}

// ---------------------------------------------------------------- (3) inputs

func x1C04Inputs(p *core.Prog, r *core.Report) {
	const rule = "compact-inputs"
	if f := r.Need(p, tsm1, "Compactor.compact"); f != nil {
		info, g := f.Info(), f.Graph()
		trC := call("tsdb/engine/tsm1.fileStore.TSMReader")
		newIt := x1FirstCall(f, call("tsdb/engine/tsm1.NewTSMBatchKeyIterator"))
		wn := x1FirstCall(f, call("tsdb/engine/tsm1.Compactor.writeNewFiles"))
		trNodes := g.Select(g.Calling(trC))
		if r.Check(newIt != nil && wn != nil && len(trNodes) == 1 && len(newIt.Args) == 6 && newIt.Ellipsis.IsValid(), rule, f.String(), "anchors:absent", f.Pos(),
			"one fileStore.TSMReader call, NewTSMBatchKeyIterator(size, fast, …, tsmFiles, trs...) and writeNewFiles") {
			T := trNodes[0]
			trs := x1ArgObj(info, newIt, 5)
			var tr types.Object
			if as, ok := T.N.(*ast.AssignStmt); ok && len(as.Lhs) == 2 {
				tr = core.ObjOf(info, as.Lhs[0])
			}
			// the reader loop ranges over all inputs and opens the range value
			inputs := types.Object(f.X1Param(1))
			okLoop := false
			ast.Inspect(f.Decl.Body, func(n ast.Node) bool {
				if rs, ok := n.(*ast.RangeStmt); ok && core.ObjOf(info, rs.X) == inputs && rs.Value != nil {
					for _, c := range core.AllCalls(info, rs.Body, trC) {
						if x1ArgObj(info, c, 0) == core.ObjOf(info, rs.Value) {
							okLoop = true
						}
					}
				}
				return true
			})
			r.Check(okLoop, rule, f.String(), "reader-per-input", g.Line(T), "the reader loop ranges over the whole input list and opens the file of each iteration")
			app := g.X1CallingWith(core.Builtin("append"), func(c *ast.CallExpr) bool {
				return len(c.Args) == 2 && core.ObjOf(info, c.Args[0]) == trs && core.ObjOf(info, c.Args[1]) == tr
			})
			skipped := g.Reach(core.X1Succs(T), app, nil)
			bad := skipped[T] || trs == nil || tr == nil
			for _, x := range core.X1ExitsIn(skipped) {
				if g.X1IsSuccessExit(x) {
					bad = true
				}
			}
			r.Check(!bad, rule, f.String(), "no-input-skipped", g.Line(T), "after opening an input every path appends its reader to the merged set or returns an error (no silent skip)")
			okOnly := true
			for _, a := range core.X1AssignmentsTo(info, f.Decl.Body, trs) {
				c, isCall := a.Rhs.(*ast.CallExpr)
				if a.Rhs == nil || !isCall || !core.Builtin("append")(info, c) {
					okOnly = false
				}
			}
			size := x1ArgObj(info, newIt, 0)
			okSize := size == types.Object(f.X1Param(3))
			if !okSize && size != nil {
				as := core.X1AssignmentsTo(info, f.Decl.Body, size)
				okSize = len(as) == 1 && as[0].Rhs != nil && core.ObjOf(info, as[0].Rhs) == types.Object(f.X1Param(3))
			}
			r.Check(okOnly && okSize && x1ArgObj(info, newIt, 1) == types.Object(f.X1Param(0)) && x1ArgObj(info, newIt, 4) == inputs,
				rule, f.String(), "iterator-arguments", p.Pos(newIt.Pos()), "the merge iterator gets the requested points-per-block, the fast flag, the input names and the append-only reader list")
			it := x1ArgObj(info, wn, 3)
			_, fromNew := core.X1OnlyFromCall(info, f.Decl.Body, it, call("tsdb/engine/tsm1.NewTSMBatchKeyIterator"), 0)
			r.Check(fromNew && x1ArgObj(info, wn, 2) == inputs, rule, f.String(), "writes-merge-iterator", p.Pos(wn.Pos()), "writeNewFiles consumes the iterator built over all inputs")
		}
		core.RuleErrorsUsed(r, f, rule, "TSMReader/NewTSMBatchKeyIterator", core.Or(trC, call("tsdb/engine/tsm1.NewTSMBatchKeyIterator")), false, 2)
	}
	if f := r.Need(p, tsm1, "NewTSMBatchKeyIterator"); f != nil {
		info := f.Info()
		// one BlockIterator per reader
		readers := types.Object(f.X1Param(5))
		var iterV types.Object
		okLoop := false
		ast.Inspect(f.Decl.Body, func(n ast.Node) bool {
			rs, ok := n.(*ast.RangeStmt)
			if !ok || core.ObjOf(info, rs.X) != readers || rs.Value == nil || len(rs.Body.List) != 1 {
				return true
			}
			as, ok := rs.Body.List[0].(*ast.AssignStmt)
			if !ok || len(as.Rhs) != 1 {
				return true
			}
			c, ok := as.Rhs[0].(*ast.CallExpr)
			if !ok || !core.Builtin("append")(info, c) || len(c.Args) != 2 {
				return true
			}
			bi, ok := c.Args[1].(*ast.CallExpr)
			if ok && call("tsdb/engine/tsm1.TSMReader.BlockIterator")(info, bi) && core.X1RootObj(info, x1RecvExpr(bi)) == core.ObjOf(info, rs.Value) &&
				core.ObjOf(info, c.Args[0]) == core.ObjOf(info, as.Lhs[0]) {
				iterV, okLoop = core.ObjOf(info, as.Lhs[0]), true
			}
			return true
		})
		r.Check(okLoop, rule, f.String(), "iterator-per-reader", f.Pos(), "every reader contributes r.BlockIterator() to the iterator list (unconditional loop body)")
		want := map[string]types.Object{"readers": readers, "size": f.X1Param(0), "fast": f.X1Param(1), "maxErrors": f.X1Param(2), "interrupt": f.X1Param(3), "tsmFiles": f.X1Param(4), "iterators": iterV}
		got := map[string]bool{}
		ast.Inspect(f.Decl.Body, func(n ast.Node) bool {
			cl, ok := n.(*ast.CompositeLit)
			if !ok {
				return true
			}
			if nt, isNamed := info.TypeOf(cl).(*types.Named); !isNamed || nt.Obj().Name() != "tsmBatchKeyIterator" {
				return true
			}
			for _, el := range cl.Elts {
				kv, ok := el.(*ast.KeyValueExpr)
				if !ok {
					continue
				}
				k, _ := kv.Key.(*ast.Ident)
				if k != nil && want[k.Name] != nil && core.ObjOf(info, kv.Value) == want[k.Name] {
					got[k.Name] = true
				}
			}
			return true
		})
		var missing []string
		for k := range want {
			if !got[k] {
				missing = append(missing, k)
			}
		}
		sort.Strings(missing)
		r.Check(len(missing) == 0, rule, f.String(), "literal-fields", f.Pos(), "the iterator literal stores readers, size, fast, maxErrors, interrupt, tsmFiles, iterators from the matching parameter (missing: "+strings.Join(missing, ",")+")")
	}
	x1AbortRecheck(p, r, rule)
	x1CompactGroupRule(p, r, rule)
}

// x1AbortRecheck (shared with C03): CompactFull/CompactFast report files only if
// compactions are still enabled after compact returned.
func x1AbortRecheck(p *core.Prog, r *core.Report, rule string) {
	// post-compaction abort check
	enabledF := core.LookupField(p.Pkg(tsm1).Types, "Compactor", "compactionsEnabled")
	for _, n := range []string{"Compactor.CompactFull", "Compactor.CompactFast"} {
		f := r.Need(p, tsm1, n)
		if f == nil {
			continue
		}
		info, g := f.Info(), f.Graph()
		cn := g.Select(g.Calling(call("tsdb/engine/tsm1.Compactor.compact")))
		if !r.Check(len(cn) == 1 && enabledF != nil, rule, f.String(), "compact:absent", f.Pos(), "one Compactor.compact call") {
			continue
		}
		// the re-read of compactionsEnabled after compact
		var flag types.Object
		reread := func(m *core.Node) bool {
			as, ok := m.N.(*ast.AssignStmt)
			if !ok || len(as.Lhs) != 1 || len(as.Rhs) != 1 || core.FieldOf(info, as.Rhs[0]) != enabledF {
				return false
			}
			return true
		}
		after := g.Reach(core.X1Succs(cn[0]), nil, nil)
		var rr []*core.Node
		for _, m := range g.Select(reread) {
			if after[m] {
				rr = append(rr, m)
				flag = core.ObjOf(info, m.N.(*ast.AssignStmt).Lhs[0])
			}
		}
		ok := len(rr) == 1 && flag != nil
		if ok {
			// every success exit after compact passes the re-read and then the `enabled` branch
			for _, x := range core.X1ExitsIn(g.Reach(core.X1Succs(cn[0]), reread, nil)) {
				if g.X1IsSuccessExit(x) {
					ok = false
				}
			}
			for _, x := range core.X1ExitsIn(g.Reach(core.X1Succs(rr[0]), nil, core.X1BoolEdge(core.X1IsObj(info, flag), true))) {
				if g.X1IsSuccessExit(x) {
					ok = false
				}
			}
			// no other write to the flag between re-read and test
			for _, a := range core.X1AssignmentsTo(info, f.Decl.Body, flag) {
				if a.Rhs == nil || core.FieldOf(info, a.Rhs) != enabledF {
					ok = false
				}
			}
		}
		r.Check(ok, rule, f.String(), "abort-recheck", g.Line(cn[0]), "after compact returns, compactionsEnabled is read again and files are only reported when it is still true (a compaction aborted by a delete never installs its output)")
		// the success return hands out compact's own results
		okRet := false
		if as, isAs := cn[0].N.(*ast.AssignStmt); isAs && len(as.Lhs) == 2 {
			fo, eo := core.ObjOf(info, as.Lhs[0]), core.ObjOf(info, as.Lhs[1])
			okRet = fo != nil && eo != nil
			nS := 0
			for _, x := range g.Exits {
				if !g.X1IsSuccessExit(x) {
					continue
				}
				nS++
				rs, isRet := x.N.(*ast.ReturnStmt)
				if !isRet || len(rs.Results) != 2 || core.ObjOf(info, rs.Results[0]) != fo || core.ObjOf(info, rs.Results[1]) != eo {
					okRet = false
				}
			}
			okRet = okRet && nS == 1
		}
		r.Check(okRet, rule, f.String(), "returns-compact-result", f.Pos(), "the only non-failing return yields the files and the error of compact unchanged")
		core.RuleErrorsUsed(r, f, rule, "removeTmpFiles", call("tsdb/engine/tsm1.removeTmpFiles"), false, 1)
	}
}

// x1CompactGroupRule: Replace only after a successful compaction, of exactly that group.
func x1CompactGroupRule(p *core.Prog, r *core.Report, rule string) {
	f := r.Need(p, tsm1, "compactionStrategy.compactGroup")
	if f == nil {
		return
	}
	info, g := f.Info(), f.Graph()
	cC := call("tsdb/engine/tsm1.Compactor.CompactFast", "tsdb/engine/tsm1.Compactor.CompactFull")
	repC := call("tsdb/engine/tsm1.FileStore.Replace", "tsdb/engine/tsm1.FileStore.ReplaceWithCallback")
	cs := g.Select(g.Calling(cC))
	rs := g.Select(g.Calling(repC))
	if !r.Check(len(cs) == 2 && len(rs) == 1, rule, f.String(), "Compact*/Replace:absent", f.Pos(), "CompactFast, CompactFull and one FileStore.Replace") {
		return
	}
	var files, errV, group types.Object
	ok := true
	for _, n := range cs {
		as, isAs := n.N.(*ast.AssignStmt)
		if !isAs || len(as.Lhs) != 2 {
			ok = false
			continue
		}
		fo, eo := core.ObjOf(info, as.Lhs[0]), core.ObjOf(info, as.Lhs[1])
		c := core.CallsIn(info, n.N, cC, core.WalkOpts{})[0]
		gr := x1ArgObj(info, c, 0)
		if (files != nil && files != fo) || (errV != nil && errV != eo) || (group != nil && group != gr) {
			ok = false
		}
		files, errV, group = fo, eo, gr
	}
	rep := core.CallsIn(info, rs[0].N, repC, core.WalkOpts{})[0]
	r.Check(ok && files != nil && x1ArgObj(info, rep, 0) == group && x1ArgObj(info, rep, 1) == files, rule, f.String(), "replace-arguments", g.Line(rs[0]),
		"FileStore.Replace(old, new) gets the compacted group as old and the files the compactor returned as new")
	if errV != nil {
		gate := core.X1NilEdge(info, core.X1IsObj(info, errV), true)
		r.Check(!g.Reach(core.X1SuccsOf(cs), nil, gate)[rs[0]], rule, f.String(), "replace-only-on-success", g.Line(rs[0]),
			"FileStore.Replace is reachable from the compaction only through the err == nil branch (an aborted or failed compaction installs nothing)")
	}
}

// ---------------------------------------------------------------- (4) iterator

func x1C04Iterator(p *core.Prog, r *core.Report) {
	const rule = "merge-iterator"
	pk := p.Pkg(tsm1).Types
	if f := r.Need(p, tsm1, "tsmBatchKeyIterator.Next"); f != nil {
		info, g := f.Info(), f.Graph()
		keyF := core.LookupField(pk, "tsmBatchKeyIterator", "key")
		blocksF := core.LookupField(pk, "tsmBatchKeyIterator", "blocks")
		bufF := core.LookupField(pk, "tsmBatchKeyIterator", "buf")
		blkKey := core.LookupField(pk, "block", "key")
		// k.key = minKey
		var minKey types.Object
		for _, n := range g.Select(g.Assigning(keyF)) {
			if as, ok := n.N.(*ast.AssignStmt); ok && len(as.Rhs) == 1 {
				minKey = core.ObjOf(info, as.Rhs[0])
			}
		}
		if r.Check(minKey != nil && keyF != nil && blkKey != nil, rule, f.String(), "min-key:absent", f.Pos(), "k.key is assigned from a local minimum variable") {
			isMin := core.X1IsObj(info, minKey)
			// bytes.Compare(candidate.key, minKey) < 0   (or flipped > 0)
			smaller := core.X1FactPred(func(ft core.X1Fact) bool {
				x, y, rel, ok := core.X1CmpAtom(ft.E)
				if !ok || !core.X1IsConstInt(info, y, 0) {
					return false
				}
				c, isCall := x.(*ast.CallExpr)
				if !isCall || !call("bytes.Compare")(info, c) || len(c.Args) != 2 {
					return false
				}
				if !ft.True {
					rel = [...]core.X1Rel{core.X1GE, core.X1GT, core.X1NE, core.X1EQ, core.X1LT, core.X1LE}[rel]
				}
				a0key := core.FieldOf(info, c.Args[0]) == blkKey
				a1key := core.FieldOf(info, c.Args[1]) == blkKey
				switch {
				case a0key && isMin(ast.Unparen(c.Args[1])):
					return rel == core.X1LT
				case a1key && isMin(ast.Unparen(c.Args[0])):
					return rel == core.X1GT
				}
				return false
			})
			first := core.X1LenZeroFact(info, isMin, true)
			unguarded := g.ReachFromEntry(nil, core.X1FactEdge(core.X1AnyFact(smaller, first)))
			stores := g.Select(g.X1StoresToObj(minKey))
			ok := len(stores) >= 1
			for _, s := range stores {
				as, isAs := s.N.(*ast.AssignStmt)
				if unguarded[s] || !isAs || len(as.Rhs) != 1 || core.FieldOf(info, as.Rhs[0]) != blkKey {
					ok = false
				}
			}
			r.Check(ok, rule, f.String(), "smallest-key-next", f.Pos(), "the next key is replaced only by a buffered block key that compares smaller (bytes.Compare < 0) or when none was chosen yet — output keys ascend")
		}
		// gather: k.blocks = append(k.blocks, b...) together with emptying k.buf[i]
		gather := g.Select(func(n *core.Node) bool {
			as, ok := n.N.(*ast.AssignStmt)
			if !ok || len(as.Lhs) != 1 || len(as.Rhs) != 1 || core.FieldOf(info, as.Lhs[0]) != blocksF {
				return false
			}
			c, ok := as.Rhs[0].(*ast.CallExpr)
			return ok && core.Builtin("append")(info, c) && c.Ellipsis.IsValid()
		})
		emptied := func(n *core.Node) bool {
			as, ok := n.N.(*ast.AssignStmt)
			if !ok || len(as.Lhs) != 1 || len(as.Rhs) != 1 {
				return false
			}
			ix, ok := ast.Unparen(as.Lhs[0]).(*ast.IndexExpr)
			if !ok || core.FieldOf(info, ix.X) != bufF {
				return false
			}
			se, ok := ast.Unparen(as.Rhs[0]).(*ast.SliceExpr)
			return ok && se.Low == nil && se.High != nil && core.X1IsConstInt(info, se.High, 0)
		}
		okG := len(gather) == 1
		if okG {
			// reached only when the buffered key equals k.key
			eq := core.X1FactEdge(func(ft core.X1Fact) bool {
				c, isCall := ft.E.(*ast.CallExpr)
				if !ft.True || !isCall || !call("bytes.Equal")(info, c) || len(c.Args) != 2 {
					return false
				}
				a, b := core.FieldOf(info, c.Args[0]), core.FieldOf(info, c.Args[1])
				return (a == blkKey && b == keyF) || (a == keyF && b == blkKey)
			})
			if g.ReachFromEntry(nil, eq)[gather[0]] {
				okG = false
			}
			esc := g.Reach(core.X1Succs(gather[0]), emptied, nil)
			if esc[gather[0]] || len(core.X1ExitsIn(esc)) > 0 {
				okG = false
			}
		}
		r.Check(okG, rule, f.String(), "gather-and-consume", f.Pos(), "blocks are moved to k.blocks only for buffers whose key equals k.key, and the buffer is emptied before the next buffer or return (no block merged twice)")
		// tombstones stored with every block read
		tombF, bF := core.LookupField(pk, "block", "tombstones"), core.LookupField(pk, "block", "b")
		readN := g.Select(g.Calling(call("tsdb/engine/tsm1.BlockIterator.Read")))
		stT := g.Assigning(tombF)
		okT := len(readN) >= 2 && len(g.Select(stT)) == len(g.Select(g.Assigning(bF)))
		for _, n := range readN {
			esc := g.Reach(core.X1Succs(n), stT, nil)
			for _, m := range readN {
				if esc[m] {
					okT = false
				}
			}
			if len(core.X1ExitsIn(esc)) > 0 {
				okT = false
			}
			// the stored value is TombstoneRange(key) of the same read
			var keyObj types.Object
			if as, ok := n.N.(*ast.AssignStmt); ok && len(as.Lhs) == 7 {
				keyObj = core.ObjOf(info, as.Lhs[0])
			}
			found := false
			for _, s := range g.Select(stT) {
				if !g.Reach(core.X1Succs(n), stT, nil)[s] && !x1FirstStop(g, n, stT, s) {
					continue
				}
				as, ok := s.N.(*ast.AssignStmt)
				if !ok || len(as.Rhs) != 1 {
					continue
				}
				tv := core.ObjOf(info, as.Rhs[0])
				cs, from := core.X1OnlyFromCall(info, f.Decl.Body, tv, call("tsdb/engine/tsm1.TSMReader.TombstoneRange"), 0)
				if from && len(cs) == 1 && x1ArgObj(info, cs[0], 0) == keyObj && keyObj != nil {
					found = true
				}
			}
			if !found {
				okT = false
			}
		}
		r.Check(okT, rule, f.String(), "tombstones-travel-with-block", f.Pos(), fmt.Sprintf("each of the %d BlockIterator.Read sites stores TombstoneRange(key) of the same file into block.tombstones before the next read", len(readN)))
	}
	for _, t := range x1TsmT {
		if f := r.Need(p, tsm1, "tsmBatchKeyIterator.merge"+t); f != nil {
			info := f.Info()
			blocksF := core.LookupField(pk, "tsmBatchKeyIterator", "blocks")
			st := core.AllCalls(info, f.Decl.Body, call("sort.Stable"))
			un := core.AllCalls(info, f.Decl.Body, call("sort.Sort", "sort.Slice", "slices.Sort*"))
			r.Check(len(st) == 1 && len(un) == 0 && core.FieldOf(info, st[0].Args[0]) == blocksF, rule, f.String(), "stable-block-order", f.Pos(),
				"k.blocks is ordered with sort.Stable only (blocks with equal time range keep file order, so the later file's values win the merge)")
		}
	}
	// Read tuples
	for _, it := range []struct {
		fn, typ string
		fields  [4]string
	}{
		{"tsmBatchKeyIterator.Read", "block", [4]string{"key", "minTime", "maxTime", "b"}},
		{"cacheKeyIterator.Read", "cacheBlock", [4]string{"k", "minTime", "maxTime", "b"}},
	} {
		f := r.Need(p, tsm1, it.fn)
		if f == nil {
			continue
		}
		info, g := f.Info(), f.Graph()
		n, ok := 0, true
		for _, x := range g.Exits {
			rs, isRet := x.N.(*ast.ReturnStmt)
			if !isRet || len(rs.Results) != 5 || core.IsNilIdent(info, rs.Results[0]) {
				continue
			}
			n++
			var root types.Object
			for i := 0; i < 4; i++ {
				fld := core.FieldOf(info, rs.Results[i])
				if fld == nil || fld != core.LookupField(pk, it.typ, it.fields[i]) {
					ok = false
				}
				ro := core.X1RootObj(info, rs.Results[i])
				if i > 0 && ro != root {
					ok = false
				}
				root = ro
			}
		}
		r.Check(n == 1 && ok, rule, f.String(), "read-tuple", f.Pos(), "Read returns key, minTime, maxTime and data of one and the same block, in that order")
	}
}

// x1FirstStop reports whether s is a stop node directly bounding the region reached from n.
func x1FirstStop(g *core.Graph, n *core.Node, stop core.NodePred, s *core.Node) bool {
	reach := g.Reach(core.X1Succs(n), stop, nil)
	for _, e := range s.Pred {
		if reach[e.From] || e.From == n {
			return true
		}
	}
	return false
}

// x1CompactionTombstones (shared by C03 and C04): compaction removes tombstoned ranges.
func x1CompactionTombstones(p *core.Prog, r *core.Report, rule string) {
	pk := p.Pkg(tsm1).Types
	tombF := core.LookupField(pk, "block", "tombstones")
	trMin, trMax := core.LookupField(pk, "TimeRange", "Min"), core.LookupField(pk, "TimeRange", "Max")
	if !r.Check(tombF != nil && trMin != nil && trMax != nil, "anchor", "tsm1.block.tombstones/TimeRange", "unresolved", "-", "fields resolved") {
		return
	}
	sites := 0
	for _, t := range x1TsmT {
		if f := r.Need(p, tsm1, "tsmBatchKeyIterator.combine"+t); f != nil {
			info, g := f.Info(), f.Graph()
			dec := call("tsdb/engine/tsm1.Decode" + t + "ArrayBlock")
			mrg := call("tsdb/cursors." + t + "Array.Merge")
			exc := call("tsdb/cursors." + t + "Array.Exclude")
			decN, mrgN := g.Select(g.Calling(dec)), g.Select(g.Calling(mrg))
			// the loop `for _, ts := range <block>.tombstones { v.Exclude(ts.Min, ts.Max) }` on variable v
			applies := func(v types.Object) core.NodePred {
				return g.X1Ranging(func(rs *ast.RangeStmt) bool {
					if core.FieldOf(info, rs.X) != tombF || rs.Value == nil {
						return false
					}
					ts := core.ObjOf(info, rs.Value)
					for _, c := range core.AllCalls(info, rs.Body, exc) {
						if core.X1RootObj(info, x1RecvExpr(c)) == v && len(c.Args) == 2 &&
							core.FieldOf(info, c.Args[0]) == trMin && core.X1RootObj(info, c.Args[0]) == ts &&
							core.FieldOf(info, c.Args[1]) == trMax && core.X1RootObj(info, c.Args[1]) == ts {
							return true
						}
					}
					return false
				})
			}
			ok := len(decN) == 2 && len(mrgN) == 2
			for _, d := range decN {
				dc := core.CallsIn(info, d.N, dec, core.WalkOpts{})[0]
				v := core.X1RootObj(info, dc.Args[1])
				blk := core.ExprStr(ast.Unparen(dc.Args[0]))
				unfiltered := g.Reach(core.X1Succs(d), core.AnyOf(applies(v), g.Calling(dec)), nil)
				hit := false
				for _, m := range mrgN {
					mc := core.CallsIn(info, m.N, mrg, core.WalkOpts{})[0]
					if core.X1RootObj(info, mc.Args[0]) != v {
						continue
					}
					hit = true
					if unfiltered[m] {
						ok = false
					}
				}
				// the tombstones applied are those of the decoded block (same k.blocks[i])
				same := false
				for _, rn := range g.Select(applies(v)) {
					if e, isE := rn.N.(ast.Expr); isE {
						if se, isSel := ast.Unparen(e).(*ast.SelectorExpr); isSel && strings.HasPrefix(blk, core.ExprStr(se.X)+".") {
							same = true
						}
					}
				}
				if !hit || !same || v == nil {
					ok = false
				}
				if ok {
					sites++
				}
			}
			r.Check(ok, rule, f.String(), "tombstones-applied-before-merge", f.Pos(),
				"each of the 2 decoded blocks passes `for ts := range block.tombstones { v.Exclude(ts.Min, ts.Max) }` of its own block before it is merged into the output values")
		}
		if f := r.Need(p, tsm1, "tsmBatchKeyIterator.merge"+t); f != nil {
			info := f.Info()
			cc := x1FirstCall(f, call("tsdb/engine/tsm1.tsmBatchKeyIterator.combine"+t))
			dedup := x1ArgObj(info, cc, 0)
			n := 0
			for _, a := range core.X1AssignmentsTo(info, f.Decl.Body, dedup) {
				if a.Rhs == nil {
					continue
				}
				// len(<block>.tombstones) > 0 as a disjunct
				found := false
				ast.Inspect(a.Rhs, func(x ast.Node) bool {
					if be, ok := x.(*ast.BinaryExpr); ok && core.X1AtomHolds(be, core.X1IsLenOf(info, core.X1IsField(info, tombF)), core.X1IsIntConst(info, 0), core.X1GT) {
						found = true
					}
					return true
				})
				// must be a top-level disjunct (a || b || c), not under && or !
				if found && x1DisjunctHas(a.Rhs, func(e ast.Expr) bool {
					return core.X1AtomHolds(e, core.X1IsLenOf(info, core.X1IsField(info, tombF)), core.X1IsIntConst(info, 0), core.X1GT)
				}) {
					n++
				}
			}
			r.Check(dedup != nil && n >= 2, rule, f.String(), "tombstones-force-decode", f.Pos(),
				fmt.Sprintf("the flag passed to combine%s is set when the first or any later block has tombstones (%d assignments), so tombstoned blocks are never copied through unchanged", t, n))
		}
	}
	r.Check(sites >= 10, rule, "tsm1.tsmBatchKeyIterator.combine<T>", "count", "-", fmt.Sprintf("%d decode→tombstone→merge sites verified (10 confirmed by reading)", sites))
}

// x1DisjunctHas: e is a chain a || b || … and one operand satisfies p.
func x1DisjunctHas(e ast.Expr, p func(ast.Expr) bool) bool {
	e = ast.Unparen(e)
	if be, ok := e.(*ast.BinaryExpr); ok && be.Op == token.LOR {
		return x1DisjunctHas(be.X, p) || x1DisjunctHas(be.Y, p)
	}
	return p(e)
}

// ---------------------------------------------------------------- chunk<T>

func x1C04Chunk(p *core.Prog, r *core.Report) {
	const rule = "merge-iterator"
	pk := p.Pkg(tsm1).Types
	sizeF := core.LookupField(pk, "tsmBatchKeyIterator", "size")
	for _, t := range x1TsmT {
		f := r.Need(p, tsm1, "tsmBatchKeyIterator.chunk"+t)
		if f == nil {
			continue
		}
		info := f.Info()
		// lockstep: every slicing assignment on X.Timestamps has a twin on X.Values
		type cut struct{ lhs, base, lo, hi string }
		var ts, vs []cut
		ast.Inspect(f.Decl.Body, func(n ast.Node) bool {
			as, ok := n.(*ast.AssignStmt)
			if !ok || len(as.Lhs) != 1 || len(as.Rhs) != 1 {
				return true
			}
			l, ok := ast.Unparen(as.Lhs[0]).(*ast.SelectorExpr)
			se, ok2 := ast.Unparen(as.Rhs[0]).(*ast.SliceExpr)
			if !ok || !ok2 {
				return true
			}
			rsel, ok := ast.Unparen(se.X).(*ast.SelectorExpr)
			lf, rf := core.FieldOf(info, l), (*types.Var)(nil)
			if ok {
				rf = core.FieldOf(info, rsel)
			}
			if lf == nil || rf == nil || lf.Name() != rf.Name() {
				return true
			}
			str := func(e ast.Expr) string {
				if e == nil {
					return ""
				}
				return core.ExprStr(e)
			}
			c := cut{core.ExprStr(l.X), core.ExprStr(rsel.X), str(se.Low), str(se.High)}
			switch lf.Name() {
			case "Timestamps":
				ts = append(ts, c)
			case "Values":
				vs = append(vs, c)
			}
			return true
		})
		ok := len(ts) >= 3 && len(ts) == len(vs)
		for i := range ts {
			if i >= len(vs) || ts[i] != vs[i] {
				ok = false
			}
		}
		r.Check(ok, rule, f.String(), "lockstep-cuts", f.Pos(), fmt.Sprintf("%d slicings of Timestamps each have a twin on Values with the same operand and bounds", len(ts)))
		// the cut point is k.size
		nSize := 0
		ast.Inspect(f.Decl.Body, func(n ast.Node) bool {
			if se, ok := n.(*ast.SliceExpr); ok {
				for _, b := range []ast.Expr{se.Low, se.High} {
					if b != nil && core.FieldOf(info, b) == sizeF {
						nSize++
					}
				}
			}
			return true
		})
		g := f.Graph()
		over := core.X1FactEdge(func(ft core.X1Fact) bool {
			x, y, rel, ok := core.X1CmpAtom(ft.E)
			if !ok || !ft.True {
				return false
			}
			c, isCall := x.(*ast.CallExpr)
			return isCall && call("tsdb/cursors."+t+"Array.Len")(info, c) && core.FieldOf(info, y) == sizeF && sizeF != nil && rel == core.X1GT
		})
		hasOver := false
		for _, n := range g.Nodes {
			for _, e := range n.Succ {
				if over(e) {
					hasOver = true
				}
			}
		}
		r.Check(nSize == 4 && hasOver, rule, f.String(), "cut-at-size", f.Pos(), "when more than k.size values are pending exactly [:k.size] is encoded and [k.size:] kept (both arrays)")
		// block literal: min/max are first/last timestamp of the encoded array, b its encoding
		nLit, okLit := 0, true
		ast.Inspect(f.Decl.Body, func(n ast.Node) bool {
			cl, ok := n.(*ast.CompositeLit)
			if !ok {
				return true
			}
			if nt, isNamed := info.TypeOf(cl).(*types.Named); !isNamed || nt.Obj().Name() != "block" {
				return true
			}
			nLit++
			vals := map[string]ast.Expr{}
			for _, el := range cl.Elts {
				if kv, ok := el.(*ast.KeyValueExpr); ok {
					if k, ok := kv.Key.(*ast.Ident); ok {
						vals[k.Name] = kv.Value
					}
				}
			}
			mn, mx, bb := core.ObjOf(info, vals["minTime"]), core.ObjOf(info, vals["maxTime"]), core.ObjOf(info, vals["b"])
			if mn == nil || mx == nil || bb == nil || vals["key"] == nil || core.FieldOf(info, vals["key"]) != core.LookupField(pk, "tsmBatchKeyIterator", "key") {
				okLit = false
				return true
			}
			am, ax := core.X1AssignmentsTo(info, f.Decl.Body, mn), core.X1AssignmentsTo(info, f.Decl.Body, mx)
			if len(am) != 1 || len(ax) != 1 || am[0].Stmt != ax[0].Stmt || am[0].Rhs == nil || ax[0].Rhs == nil {
				okLit = false
				return true
			}
			i0, ok0 := ast.Unparen(am[0].Rhs).(*ast.IndexExpr)
			i1, ok1 := ast.Unparen(ax[0].Rhs).(*ast.IndexExpr)
			if !ok0 || !ok1 || !core.X1IsConstInt(info, i0.Index, 0) || core.ExprStr(i0.X) != core.ExprStr(i1.X) ||
				core.ExprStr(i1.Index) != "len("+core.ExprStr(i1.X)+") - 1" {
				okLit = false
				return true
			}
			fld := core.FieldOf(info, i0.X)
			if fld == nil || fld.Name() != "Timestamps" {
				okLit = false
				return true
			}
			arr := core.ExprStr(ast.Unparen(i0.X).(*ast.SelectorExpr).X)
			cs, from := core.X1OnlyFromCall(info, f.Decl.Body, bb, call("tsdb/engine/tsm1.Encode"+t+"ArrayBlock"), 0)
			enc := false
			for _, c := range cs {
				// the encoded array is the one whose timestamps label the block, and the encode lies between label and literal
				a0 := core.ExprStr(ast.Unparen(c.Args[0]))
				if (a0 == arr || a0 == "&"+arr) && am[0].Stmt.Pos() < c.Pos() && c.Pos() < cl.Pos() && am[0].Stmt.Pos() > x1EnclosingIfPos(f, cl) {
					enc = true
				}
			}
			if !from || !enc {
				okLit = false
			}
			return true
		})
		r.Check(nLit == 2 && okLit, rule, f.String(), "block-label", f.Pos(), "both emitted blocks carry k.key, first/last timestamp of the array that was encoded, and that encoding")
		core.RuleErrorsUsed(r, f, rule, "Encode"+t+"ArrayBlock", call("tsdb/engine/tsm1.Encode"+t+"ArrayBlock"), false, 2)
	}
}

// x1EnclosingIfPos returns the position of the innermost if statement containing n.
func x1EnclosingIfPos(f *core.Func, n ast.Node) token.Pos {
	var pos token.Pos
	ast.Inspect(f.Decl.Body, func(x ast.Node) bool {
		if is, ok := x.(*ast.IfStmt); ok && is.Pos() <= n.Pos() && n.End() <= is.End() && is.Pos() > pos {
			pos = is.Pos()
		}
		return true
	})
	return pos
}

// ---------------------------------------------------------------- (5) snapshot chunking

func x1C04SnapshotChunking(p *core.Prog, r *core.Report) {
	const rule = "snapshot-chunking"
	f := r.Need(p, tsm1, "cacheKeyIterator.encode")
	if f == nil {
		return
	}
	info := f.Info()
	pk := f.Pkg.Types
	sizeF := core.LookupField(pk, "cacheKeyIterator", "size")
	// the worker literal containing the encoders
	var lit *ast.FuncLit
	enc := call("tsdb/engine/tsm1.encode*BlockUsing", "tsdb/engine/tsm1.Values.Encode")
	ast.Inspect(f.Decl.Body, func(n ast.Node) bool {
		if fl, ok := n.(*ast.FuncLit); ok && len(core.AllCalls(info, fl.Body, enc)) > 0 {
			lit = fl
		}
		return true
	})
	if !r.Check(lit != nil && sizeF != nil, rule, f.String(), "worker:absent", f.Pos(), "encoding worker literal found") {
		return
	}
	lg := f.LitGraph(lit)
	// values := c.cache.values(key)
	var vals types.Object
	ast.Inspect(lit.Body, func(n ast.Node) bool {
		if as, ok := n.(*ast.AssignStmt); ok && len(as.Rhs) == 1 && len(as.Lhs) == 1 {
			if c, ok := as.Rhs[0].(*ast.CallExpr); ok && call("tsdb/engine/tsm1.Cache.values")(info, c) {
				vals = core.ObjOf(info, as.Lhs[0])
			}
		}
		return true
	})
	if !r.Check(vals != nil, rule, f.String(), "values:absent", f.Pos(), "values of the key are read through Cache.values") {
		return
	}
	// end: the High bound of every encoded slice
	var end types.Object
	okEnc, nEnc := true, 0
	for _, c := range core.AllCalls(info, lit.Body, enc) {
		var arg ast.Expr
		if call("tsdb/engine/tsm1.Values.Encode")(info, c) {
			arg = x1RecvExpr(c)
			if cv, ok := ast.Unparen(arg).(*ast.CallExpr); ok && len(cv.Args) == 1 { // Values(values[:end])
				arg = cv.Args[0]
			}
		} else if len(c.Args) >= 2 {
			arg = c.Args[1]
		}
		se, ok := ast.Unparen(arg).(*ast.SliceExpr)
		if !ok || core.ObjOf(info, se.X) != vals || se.Low != nil || se.High == nil {
			okEnc = false
			continue
		}
		nEnc++
		e := core.ObjOf(info, se.High)
		if e == nil || (end != nil && end != e) {
			okEnc = false
		}
		end = e
	}
	r.Check(okEnc && nEnc >= 6 && end != nil, rule, f.String(), "encodes-prefix", f.Pos(), fmt.Sprintf("all %d encoders receive values[:end] with one and the same end", nEnc))
	if end == nil {
		return
	}
	// end := len(values); end = c.size only under end > c.size
	okEnd, nCap := true, 0
	for _, a := range core.X1AssignmentsTo(info, lit.Body, end) {
		switch {
		case a.Rhs != nil && core.X1IsLenOf(info, core.X1IsObj(info, vals))(a.Rhs):
		case a.Rhs != nil && core.FieldOf(info, a.Rhs) == sizeF:
			nCap++
			nd := lg.NodeOf(a.Stmt)
			guard := core.X1CmpEdge(core.X1IsObj(info, end), core.X1IsField(info, sizeF), core.X1GT)
			if nd == nil || lg.ReachFromEntry(nil, guard)[nd] {
				okEnd = false
			}
		default:
			okEnd = false
		}
	}
	// every encoder is reached only after the cap test was evaluated (either branch)
	capTest := func(n *core.Node) bool {
		e, ok := n.N.(ast.Expr)
		return ok && (core.X1AtomHolds(e, core.X1IsObj(info, end), core.X1IsField(info, sizeF), core.X1GT) || core.X1AtomHolds(e, core.X1IsObj(info, end), core.X1IsField(info, sizeF), core.X1LE))
	}
	for _, n := range lg.Select(lg.Calling(enc)) {
		if lg.ReachFromEntry(capTest, nil)[n] {
			okEnd = false
		}
	}
	r.Check(okEnd && nCap == 1, rule, f.String(), "end<=size", f.Pos(), "end is len(values), lowered to c.size under end > c.size before any encoder runs (no snapshot block exceeds the points-per-block)")
	// min/max label and continuation
	okLab := false
	ast.Inspect(lit.Body, func(n ast.Node) bool {
		as, ok := n.(*ast.AssignStmt)
		if !ok || len(as.Lhs) != 2 || len(as.Rhs) != 2 {
			return true
		}
		c0, ok0 := as.Rhs[0].(*ast.CallExpr)
		c1, ok1 := as.Rhs[1].(*ast.CallExpr)
		if !ok0 || !ok1 || !call("tsdb/engine/tsm1.Value.UnixNano")(info, c0) || !call("tsdb/engine/tsm1.Value.UnixNano")(info, c1) {
			return true
		}
		i0, ok0 := ast.Unparen(x1RecvExpr(c0)).(*ast.IndexExpr)
		i1, ok1 := ast.Unparen(x1RecvExpr(c1)).(*ast.IndexExpr)
		if !ok0 || !ok1 || core.ObjOf(info, i0.X) != vals || core.ObjOf(info, i1.X) != vals || !core.X1IsConstInt(info, i0.Index, 0) {
			return true
		}
		be, ok := ast.Unparen(i1.Index).(*ast.BinaryExpr)
		if ok && be.Op == token.SUB && core.ObjOf(info, be.X) == end && core.X1IsConstInt(info, be.Y, 1) {
			mn, mx := core.ObjOf(info, as.Lhs[0]), core.ObjOf(info, as.Lhs[1])
			// stored in the cacheBlock literal
			ast.Inspect(lit.Body, func(m ast.Node) bool {
				cl, ok := m.(*ast.CompositeLit)
				if !ok {
					return true
				}
				if nt, isNamed := info.TypeOf(cl).(*types.Named); !isNamed || nt.Obj().Name() != "cacheBlock" {
					return true
				}
				got := map[string]types.Object{}
				for _, el := range cl.Elts {
					if kv, ok := el.(*ast.KeyValueExpr); ok {
						if k, ok := kv.Key.(*ast.Ident); ok {
							got[k.Name] = core.ObjOf(info, kv.Value)
						}
					}
				}
				if got["minTime"] == mn && got["maxTime"] == mx && mn != nil && mx != nil && got["b"] != nil && got["err"] != nil && got["k"] != nil {
					okLab = true
				}
				return true
			})
		}
		return true
	})
	r.Check(okLab, rule, f.String(), "block-label", f.Pos(), "the block is labelled values[0] / values[end-1] and stored with its key, data and encode error")
	okCont, nCont := true, 0
	for _, a := range core.X1AssignmentsTo(info, lit.Body, vals) {
		if c, ok := a.Rhs.(*ast.CallExpr); ok && call("tsdb/engine/tsm1.Cache.values")(info, c) {
			continue
		}
		se, ok := ast.Unparen(a.Rhs).(*ast.SliceExpr)
		if a.Rhs == nil || !ok || core.ObjOf(info, se.X) != vals || se.High != nil || se.Low == nil || core.ObjOf(info, se.Low) != end {
			okCont = false
			continue
		}
		nCont++
	}
	r.Check(okCont && nCont == 1, rule, f.String(), "continues-at-end", f.Pos(), "the remaining values are values[end:] — chunks neither overlap nor skip a value")
}

// ---------------------------------------------------------------- (6) block types

// x1TransFuncs returns f and the functions of the same package it calls
// statically, up to the given depth.
func x1TransFuncs(p *core.Prog, f *core.Func, depth int) []*core.Func {
	seen := map[*core.Func]bool{f: true}
	out := []*core.Func{f}
	frontier := []*core.Func{f}
	for d := 0; d < depth; d++ {
		var next []*core.Func
		for _, x := range frontier {
			if x.Decl.Body == nil {
				continue
			}
			for _, c := range core.AllCalls(x.Info(), x.Decl.Body, func(*types.Info, *ast.CallExpr) bool { return true }) {
				if g := p.FuncOf(core.Callee(x.Info(), c)); g != nil && g.Pkg == f.Pkg && !seen[g] {
					seen[g] = true
					out = append(out, g)
					next = append(next, g)
				}
			}
		}
		frontier = next
	}
	return out
}

func x1C04BlockTypes(p *core.Prog, r *core.Report) {
	const rule = "block-type-table"
	pkg := p.Pkg(tsm1)
	pack := call("tsdb/engine/tsm1.packBlock")
	// tags emitted: constant second argument of every packBlock call
	emitted := map[*types.Const]bool{}
	packedBy := map[*core.Func]map[*types.Const]bool{}
	okConst := true
	for _, f := range p.Funcs(tsm1) {
		if f.Decl.Body == nil {
			continue
		}
		for _, c := range core.AllCalls(f.Info(), f.Decl.Body, pack) {
			k, isConst := core.ObjOf(f.Info(), c.Args[1]).(*types.Const)
			if !isConst {
				okConst = false
				r.Bad(rule, f.String(), "non-constant-tag", p.Pos(c.Pos()), "packBlock is called with a tag that is not a named constant")
				continue
			}
			emitted[k] = true
			if packedBy[f] == nil {
				packedBy[f] = map[*types.Const]bool{}
			}
			packedBy[f][k] = true
		}
	}
	var names []string
	vals := map[string]string{}
	for k := range emitted {
		names = append(names, k.Name())
		if prev, dup := vals[k.Val().ExactString()]; dup {
			r.Bad(rule, "tsm1."+k.Name(), "duplicate-tag", "-", "same value as "+prev)
			okConst = false
		}
		vals[k.Val().ExactString()] = k.Name()
	}
	sort.Strings(names)
	if !r.Check(okConst && len(emitted) == 5, rule, "tsm1.packBlock", "emitted-tags", "-", fmt.Sprintf("encoders pack %d distinct constant tags %v (5 confirmed by reading)", len(emitted), names)) {
		return
	}
	tagsIn := func(f *core.Func) map[*types.Const]bool {
		out := map[*types.Const]bool{}
		ast.Inspect(f.Decl.Body, func(n ast.Node) bool {
			if id, ok := n.(*ast.Ident); ok {
				if k, ok := f.Info().Uses[id].(*types.Const); ok && emitted[k] {
					out[k] = true
				}
			}
			return true
		})
		return out
	}
	only := func(m map[*types.Const]bool, k *types.Const) bool { return len(m) == 1 && m[k] }
	emits := func(f *core.Func, depth int) map[*types.Const]bool {
		out := map[*types.Const]bool{}
		for _, g := range x1TransFuncs(p, f, depth) {
			for k := range packedBy[g] {
				out[k] = true
			}
		}
		return out
	}
	// switch coverage
	caseOf := func(f *core.Func) map[*types.Const]*ast.CaseClause {
		out := map[*types.Const]*ast.CaseClause{}
		ast.Inspect(f.Decl.Body, func(n ast.Node) bool {
			sw, ok := n.(*ast.SwitchStmt)
			if !ok || sw.Tag == nil {
				return true
			}
			for _, cl := range sw.Body.List {
				cc := cl.(*ast.CaseClause)
				for _, e := range cc.List {
					if k, ok := core.ObjOf(f.Info(), e).(*types.Const); ok && emitted[k] {
						out[k] = cc
					}
				}
			}
			return true
		})
		return out
	}
	covers := func(fn string) (*core.Func, map[*types.Const]*ast.CaseClause) {
		f := r.Need(p, tsm1, fn)
		if f == nil {
			return nil, nil
		}
		cs := caseOf(f)
		var miss []string
		for k := range emitted {
			if cs[k] == nil {
				miss = append(miss, k.Name())
			}
		}
		sort.Strings(miss)
		r.Check(len(miss) == 0, rule, f.String(), "case-missing:"+strings.Join(miss, ","), f.Pos(), "the switch has a case for every packed tag")
		return f, cs
	}
	covers("BlockType")
	// DecodeBlock: case C calls a decoder that checks exactly C
	decoderOf := map[*types.Const]*core.Func{}
	if f, cs := covers("DecodeBlock"); f != nil {
		for k, cc := range cs {
			var dec *core.Func
			n := 0
			for _, c := range core.AllCalls(f.Info(), cc, call("tsdb/engine/tsm1.Decode*Block")) {
				dec = p.FuncOf(core.Callee(f.Info(), c))
				n++
			}
			ok := n == 1 && dec != nil && only(tagsIn(dec), k)
			if ok {
				decoderOf[k] = dec
			}
			r.Check(ok, rule, f.String(), "decoder-of:"+k.Name(), p.Pos(cc.Pos()), "case "+k.Name()+" calls the one decoder that checks for exactly this tag")
		}
	}
	// merge dispatch
	if f, cs := covers("tsmBatchKeyIterator.merge"); f != nil {
		for k, cc := range cs {
			var mf *core.Func
			n := 0
			for _, c := range core.AllCalls(f.Info(), cc, call("tsdb/engine/tsm1.tsmBatchKeyIterator.merge*")) {
				mf = p.FuncOf(core.Callee(f.Info(), c))
				n++
			}
			ok := n == 1 && mf != nil
			if ok {
				ok = only(emits(mf, 3), k)
				nDec := 0
				for _, g := range x1TransFuncs(p, mf, 3) {
					if strings.HasPrefix(g.Name, "Decode") && strings.HasSuffix(g.Name, "ArrayBlock") {
						nDec++
						if !only(tagsIn(g), k) {
							ok = false
						}
					}
				}
				if nDec != 1 {
					ok = false
				}
			}
			r.Check(ok, rule, f.String(), "merge-of:"+k.Name(), p.Pos(cc.Pos()), "case "+k.Name()+" dispatches to the merge<T> whose decoder checks and whose encoder packs exactly this tag")
		}
	}
	// snapshot encoder table
	if f := r.Need(p, tsm1, "cacheKeyIterator.encode"); f != nil {
		info := f.Info()
		valueIface, _ := pkg.Types.Scope().Lookup("Value").Type().Underlying().(*types.Interface)
		arms := 0
		ast.Inspect(f.Decl.Body, func(n ast.Node) bool {
			ts, ok := n.(*ast.TypeSwitchStmt)
			if !ok {
				return true
			}
			for _, cl := range ts.Body.List {
				cc := cl.(*ast.CaseClause)
				for _, e := range cc.List {
					vt, isNamed := info.TypeOf(e).(*types.Named)
					if !isNamed {
						continue
					}
					arms++
					var encF *core.Func
					n := 0
					for _, c := range core.AllCalls(info, cc, call("tsdb/engine/tsm1.encode*BlockUsing")) {
						encF = p.FuncOf(core.Callee(info, c))
						n++
					}
					ok := n == 1 && encF != nil && len(packedBy[encF]) == 1
					if ok {
						// the encoder asserts this value type
						asserts := false
						ast.Inspect(encF.Decl.Body, func(m ast.Node) bool {
							if ta, isTA := m.(*ast.TypeAssertExpr); isTA && ta.Type != nil && types.Identical(encF.Info().TypeOf(ta.Type), vt) {
								asserts = true
							}
							return true
						})
						var tag *types.Const
						for k := range packedBy[encF] {
							tag = k
						}
						// DecodeBlock maps the tag back to this type: decoder's 2nd parameter is *[]vt
						back := false
						if d := decoderOf[tag]; d != nil && d.X1Param(1) != nil {
							if pt, isPtr := d.X1Param(1).Type().(*types.Pointer); isPtr {
								if sl, isSl := pt.Elem().(*types.Slice); isSl && types.Identical(sl.Elem(), vt) {
									back = true
								}
							}
						}
						ok = asserts && back
					}
					r.Check(ok, rule, f.String(), "encoder-of:"+vt.Obj().Name(), p.Pos(cc.Pos()), "arm "+vt.Obj().Name()+" uses the encoder that asserts this type and packs the tag DecodeBlock decodes back to it")
				}
			}
			return true
		})
		impl := 0
		if valueIface != nil {
			for _, nt := range core.Implementers(pkg.Types, valueIface) {
				// exception: EmptyValue (field-less placeholder returned by NewValue for unsupported types) is never stored
				if st, isStruct := nt.Underlying().(*types.Struct); isStruct && st.NumFields() > 0 {
					impl++
				}
			}
		}
		r.Check(arms == 5 && impl == 5, rule, f.String(), "arms", f.Pos(), fmt.Sprintf("%d value-type arms for %d data-carrying Value struct types", arms, impl))
	}
}
