package rules

import (
	"fmt"
	"strconv"

	"verif/checker/core"
)

// Comparator decision tables (E9 over orderings).
//
// Newest-wins across files rests on STABLE sorts whose comparators treat
// overlapping blocks as equal, so that file order (older first) is preserved and
// the later-merged block overrides. The comparators touch their inputs only
// through <, ==, bytes.Compare and a time-range overlap test, so their result is
// a function of the relative order of four timestamps (and of the key/path
// comparison): a finite set of orderings that is enumerated completely.
func init() {
	const note = "comparator decision tables: blocks.Less (compaction merge order) is evaluated on every ordering of the two blocks' [min,max] ranges and key comparison — it may order block i before block j of the same key only if i's range ends before j's begins (overlapping blocks stay in file order for the stable sort); ascLocations/descLocations.Less order overlapping entries by file path only and disjoint ones by time in the cursor's direction."
	// C04 (compaction keeps the newest value of every timestamp) rests on the same comparator
	extend("C04", note, nil, comparatorTables)
	extend("C01", note, nil, comparatorTables)
}

func comparatorTables(p *core.Prog, r *core.Report, tier string) {
	{
		func() {
			const rule = "comparator-table"
			// ---- blocks.Less
			if f := r.Need(p, tsm1, "blocks.Less"); f != nil {
				doms := []core.DDomain{{Path: "cmp", Values: []string{"-1", "0", "1"}}}
				for _, k := range []string{"0", "1"} {
					doms = append(doms,
						core.DDomain{Path: "B[" + k + "]", Values: []string{"ptr"}},
						core.DDomain{Path: "*B[" + k + "].minTime", Values: []string{"0", "1", "2", "3"}},
						core.DDomain{Path: "*B[" + k + "].maxTime", Values: []string{"0", "1", "2", "3"}})
				}
				rows, bad, und := 0, 0, ""
				first := ""
				trues := 0
				core.EnumModels(doms, func(m core.DModel) {
					mi, _ := strconv.Atoi(m["*B[0].minTime"])
					xi, _ := strconv.Atoi(m["*B[0].maxTime"])
					mj, _ := strconv.Atoi(m["*B[1].minTime"])
					xj, _ := strconv.Atoi(m["*B[1].maxTime"])
					if mi > xi || mj > xj {
						return // not a block: min <= max is an invariant of index entries
					}
					rows++
					res, u := core.EvalOnX(p, f, m, []core.DVal{core.Path("B"), core.Sym("0"), core.Sym("1")}, nil, nil,
						map[string]string{"bytes.Compare": "cmp"})
					if u != "" {
						und = u
						return
					}
					var want string
					switch m["cmp"] {
					case "-1":
						want = "true"
					case "1":
						want = "false"
					default:
						// same key: i before j only if i lies entirely before j
						if res.Value == "true" && !(xi < mj) {
							bad++
							if first == "" {
								first = fmt.Sprintf("same key, i=[%d,%d] j=[%d,%d]: Less(i,j) although the ranges overlap or i is later", mi, xi, mj, xj)
							}
						}
						// and disjoint, ordered blocks must be ordered (the sort must be able to separate them)
						if xi < mj && res.Value != "true" {
							bad++
							if first == "" {
								first = fmt.Sprintf("same key, i=[%d,%d] entirely before j=[%d,%d] but not Less(i,j)", mi, xi, mj, xj)
							}
						}
					}
					if want != "" && res.Value != want {
						bad++
						if first == "" {
							first = "key order not respected for cmp=" + m["cmp"]
						}
					}
					if res.Value == "true" {
						trues++
					}
				})
				switch {
				case und != "":
					r.Bad(rule, f.String(), "undecided", f.Pos(), "comparator left the decidable fragment: "+und)
				case bad > 0:
					r.Bad(rule, f.String(), "order-table", f.Pos(), fmt.Sprintf("%d of %d orderings violate the required order; first: %s", bad, rows, first))
				default:
					r.Check(rows == 300 && trues > 0, rule, f.String(), "rows:count", f.Pos(), fmt.Sprintf("%d orderings enumerated, %d of them Less", rows, trues))
				}
			}
			// ---- location comparators
			for _, spec := range []struct {
				name  string
				field string // time field that orders disjoint entries
			}{{"ascLocations.Less", "MinTime"}, {"descLocations.Less", "MaxTime"}} {
				f := r.Need(p, tsm1, spec.name)
				if f == nil {
					continue
				}
				doms := []core.DDomain{{Path: "overlap", Values: []string{"true", "false"}}}
				for _, k := range []string{"0", "1"} {
					doms = append(doms,
						core.DDomain{Path: "*L[" + k + "].entry.MinTime", Values: []string{"0", "1", "2", "3"}},
						core.DDomain{Path: "*L[" + k + "].entry.MaxTime", Values: []string{"0", "1", "2", "3"}},
						core.DDomain{Path: "L[" + k + "]", Values: []string{"ptr"}},
						// file path of the entry's reader, as an abstract ordinal
						core.DDomain{Path: "Path(*L[" + k + "].r)", Values: []string{"0", "1"}})
				}
				rows, bad, und, first := 0, 0, "", ""
				core.EnumModels(doms, func(m core.DModel) {
					mi, _ := strconv.Atoi(m["*L[0].entry.MinTime"])
					xi, _ := strconv.Atoi(m["*L[0].entry.MaxTime"])
					mj, _ := strconv.Atoi(m["*L[1].entry.MinTime"])
					xj, _ := strconv.Atoi(m["*L[1].entry.MaxTime"])
					if mi > xi || mj > xj {
						return
					}
					// the opaque overlap result must agree with the ranges
					ov := mi <= xj && xi >= mj
					if (m["overlap"] == "true") != ov {
						return
					}
					rows++
					res, u := core.EvalOnX(p, f, m, []core.DVal{core.Path("L"), core.Sym("0"), core.Sym("1")}, nil, nil,
						map[string]string{"tsdb/engine/tsm1.IndexEntry.OverlapsTimeRange": "overlap", "tsdb/engine/tsm1.TSMFile.Path": "Path()"})
					if u != "" {
						und = u
						return
					}
					var want bool
					if ov {
						want = m["Path(*L[0].r)"] < m["Path(*L[1].r)"]
					} else if spec.field == "MinTime" {
						want = mi < mj
					} else {
						want = xi < xj
					}
					if (res.Value == "true") != want {
						bad++
						if first == "" {
							first = fmt.Sprintf("i=[%d,%d] j=[%d,%d] overlap=%v paths %s,%s: got %s", mi, xi, mj, xj, ov, m["Path(*L[0].r)"], m["Path(*L[1].r)"], res.Value)
						}
					}
				})
				switch {
				case und != "":
					r.Bad(rule, f.String(), "undecided", f.Pos(), "comparator left the decidable fragment: "+und)
				case bad > 0:
					r.Bad(rule, f.String(), "order-table", f.Pos(), fmt.Sprintf("%d of %d orderings wrong; first: %s", bad, rows, first))
				default:
					r.Check(rows >= 100, rule, f.String(), "rows:count", f.Pos(), fmt.Sprintf("%d orderings enumerated: overlapping entries ordered by file path, disjoint ones by %s", rows, spec.field))
				}
			}
		}()
	}
}
