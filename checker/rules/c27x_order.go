package rules

import "verif/checker/core"

// C27 promises delivery "in enqueue order". The replication queue is the durable
// queue of C26; after a restart its segment list is rebuilt from a directory
// listing (ordered by file NAME: "10" < "9"), so enqueue order across a restart
// rests on the same numeric sort that C26's segment-order rule decides. The rule
// is registered for both properties.
func init() {
	extend("C27", "segment-order (shared with C26): after a restart Queue.loadSegments returns the segment list sorted ascending by numeric id, Queue.Open takes head from index 0 and tail from the last index, new segments are appended at the end — the order in which batches are posted after a restart is the order in which they were enqueued.",
		[]string{"./pkg/durablequeue"}, func(p *core.Prog, r *core.Report, tier string) { rw13SegmentOrder(p, r) })
}
