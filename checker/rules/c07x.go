package rules

import (
	"go/ast"
	"go/token"

	"verif/checker/core"
)

// Timestamp delta encoding divides every delta by a common power-of-ten divisor.
// The divisor is only common if EVERY delta was tested against it: a delta that
// skips the refinement can be truncated by the integer division and the decoder
// returns a different timestamp without any error.
func init() {
	extend("C07", "common-divisor: in the scalar timestamp encoder's reduce() every iteration that computes a delta also passes the divisor refinement test (v % divisor) before the next delta or the return — no delta escapes the divisibility check, so the scaled deltas decode exactly.",
		nil, func(p *core.Prog, r *core.Report, tier string) {
			const rule = "common-divisor"
			f := r.Need(p, tsm1, "encoder.reduce")
			if f == nil {
				return
			}
			g := f.Graph()
			// delta computation: x[i] = x[i] - x[i-1]
			isDelta := func(n *core.Node) bool {
				as, ok := n.N.(*ast.AssignStmt)
				if !ok || len(as.Lhs) != 1 || len(as.Rhs) != 1 {
					return false
				}
				if _, ok := as.Lhs[0].(*ast.IndexExpr); !ok {
					return false
				}
				be, ok := ast.Unparen(as.Rhs[0]).(*ast.BinaryExpr)
				return ok && be.Op == token.SUB
			}
			// refinement test: a condition containing `… % …`
			isRem := func(n *core.Node) bool {
				e, ok := n.N.(ast.Expr)
				if !ok || len(n.Succ) != 2 {
					return false
				}
				found := false
				ast.Inspect(e, func(x ast.Node) bool {
					if be, ok := x.(*ast.BinaryExpr); ok && be.Op == token.REM {
						found = true
					}
					return true
				})
				return found
			}
			deltas := g.Select(isDelta)
			rems := g.Select(isRem)
			if !r.Check(len(deltas) == 1 && len(rems) >= 1, rule, f.String(), "shape", f.Pos(), "one delta computation and a divisibility test found") {
				return
			}
			reach := g.Reach(core.After(deltas[0], nil), isRem, nil)
			bad := ""
			if reach[deltas[0]] {
				bad = "the next delta"
			}
			for _, x := range g.Exits {
				if reach[x] {
					bad = "the return"
				}
			}
			r.Check(bad == "", rule, f.String(), "delta-skips-divisor-test", g.Line(deltas[0]), "every computed delta is tested against the common divisor before "+firstNonEmpty(bad, "the next delta or the return")+" is reached")
		})
}

func firstNonEmpty(a, b string) string {
	if a != "" {
		return a
	}
	return b
}
