package rules

import (
	"fmt"
	"go/ast"
	"go/types"

	"verif/checker/core"
)

// group-key-sorted (GROUP BY tags). tsdb.MakeTagsKey merges its `keys` argument
// against the (sorted) tags of a series in one pass and documents the
// precondition "keys is sorted". The planner hands the GROUP BY tags over in
// STATEMENT order (IteratorOptions.Dimensions), so with unsorted keys every tag
// that sorts before its predecessor is silently skipped and series of different
// groups collapse into one tag set — LIMIT/OFFSET, SLIMIT/SOFFSET and
// first()/last() then operate on the wrong groups.
//
// Structural necessary condition, per call site of MakeTagsKey: the keys argument
// is a local slice such that (a) from every assignment of that local, every path
// to the call passes a sort of the same local, and (b) a path on which the local
// was never assigned (nil slice) reaches the call only through an edge that
// established the slice non-empty — i.e. not at all.
func init() {
	extend("C22", "group-key-sorted: at every call of tsdb.MakeTagsKey (documented precondition: keys sorted) the keys argument is a local that passes sort.Strings / slices.Sort / sort.Sort on every path from each of its assignments to the call, and the call is guarded by a non-empty test of that local — the GROUP BY tags, which arrive in statement order, are sorted before tag sets are keyed.",
		[]string{"./tsdb"}, func(p *core.Prog, r *core.Report, tier string) {
			const rule = "group-key-sorted"
			mk := call("tsdb.MakeTagsKey")
			sorts := call("sort.Strings", "slices.Sort", "sort.Sort", "sort.Stable", "sort.Slice", "sort.SliceStable")
			n := 0
			for _, f := range p.Funcs(tsdbP) {
				if f.Decl == nil || f.Decl.Body == nil {
					continue
				}
				info := f.Info()
				calls := core.AllCalls(info, f.Decl.Body, mk)
				if len(calls) == 0 {
					continue
				}
				r.Saw(f)
				g := f.Graph()
				for _, c := range calls {
					n++
					if !r.Check(len(c.Args) == 2, rule, f.String(), "call-shape", p.Pos(c.Pos()), "MakeTagsKey(keys, tags)") {
						continue
					}
					v, _ := core.ObjOf(info, ast.Unparen(c.Args[0])).(*types.Var)
					if !r.Check(v != nil && !v.IsField() && v.Parent() != nil && v.Pkg() != nil && v.Parent() != v.Pkg().Scope(), rule, f.String(), "keys-not-a-local", p.Pos(c.Pos()), "the keys argument is a local variable of the calling function") {
						continue
					}
					cn := g.NodeOf(c)
					if !r.Check(cn != nil, rule, f.String(), "call-not-in-cfg", p.Pos(c.Pos()), "call site found in the CFG") {
						continue
					}
					// nodes that sort v: a sort call with an argument mentioning v
					sortsV := func(nd *core.Node) bool {
						if nd.N == nil {
							return false
						}
						for _, sc := range core.CallsIn(info, nd.N, sorts, core.WalkOpts{}) {
							for _, a := range sc.Args {
								found := false
								ast.Inspect(a, func(y ast.Node) bool {
									if id, ok := y.(*ast.Ident); ok && core.ObjOf(info, id) == types.Object(v) {
										found = true
									}
									return !found
								})
								if found {
									return true
								}
							}
						}
						return false
					}
					assigns := g.Select(g.AssigningObj(v))
					// a parameter is "assigned" at entry
					isParam := false
					if sig := f.Obj.Type().(*types.Signature); sig != nil {
						for i := 0; i < sig.Params().Len(); i++ {
							if sig.Params().At(i) == v {
								isParam = true
							}
						}
					}
					r.Check(len(assigns) >= 1 || isParam, rule, f.String(), "keys-never-assigned", p.Pos(c.Pos()), "the keys local is assigned somewhere")
					unsorted := false
					var starts []*core.Node
					for _, a := range assigns {
						starts = append(starts, core.After(a, nil)...)
					}
					if isParam {
						starts = append(starts, g.Entry)
					}
					if len(starts) > 0 && g.Reach(starts, sortsV, nil)[cn] {
						unsorted = true
					}
					r.Check(!unsorted, rule, f.String(), "keys-may-be-unsorted", p.Pos(c.Pos()), "every path from an assignment of the keys local to MakeTagsKey sorts it")
					// never-assigned (nil) path: the call must sit behind a non-empty test of v
					if !isParam {
						nonEmpty := core.AtomEdge(func(x ast.Expr, val bool) bool {
							a, emptyOn, ok := core.EmptyOn(info, x)
							return ok && emptyOn != val && core.ObjOf(info, ast.Unparen(a)) == types.Object(v)
						})
						r.Check(g.OnlyVia(cn, nonEmpty), rule, f.String(), "call-unguarded", p.Pos(c.Pos()), "MakeTagsKey is reached only when the keys local is known to be non-empty (the never-assigned nil slice does not reach it)")
					}
				}
			}
			r.Check(n >= 1, rule, tsdbP, "MakeTagsKey:count", "-", fmt.Sprintf("%d call site(s) of MakeTagsKey (>= 1 confirmed by reading: IndexSet.TagSets)", n))
		})
}
