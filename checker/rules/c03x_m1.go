package rules

import (
	"fmt"
	"go/ast"
	"go/token"
	"go/types"

	"verif/checker/core"
)

// Rules added by the m1 survivor triage for C03 (deleted points never reappear).

func init() {
	extend("C03", "delete-covers-every-series: DeleteSeriesRangeWithPredicate reports success only after the series iterator returned nil (drained), fetches the next element only after the current one was batched or refused by the predicate, and after the last append reaches success only through deleteSeriesRange or an empty batch; "+
		"delete-skips-justified: deleteSeriesRange returns early only after probing Cache.Count and sets the overlap flag whenever the cache is non-empty; its tombstone callback skips a file only on a branch that refuted an overlap, tombstones a file key / collects a cache key only on a branch that established equality with a requested series key; "+
		"apply-every-file: FileStore.Apply runs the callback on every element of f.files and a non-nil callback result received from the result channel reaches the returned error; "+
		"raw-copy-only-without-tombstones: in the five combine<T> functions a block is passed through undecoded only on a branch that established dedup == false (merge<T> forces dedup for tombstoned blocks); "+
		"index-full-delete-only-if-covered: indirectIndex.DeleteRange drops a whole key only on a branch that established lo <= first MinTime && hi >= last MaxTime of that key, and skips on time only when strictly disjoint; "+
		"compact-only-if-enabled: CompactFull/CompactFast reach Compactor.compact only on a branch that established compactionsEnabled == true; "+
		"lit-failure-propagates inside the error-returning literals of the analysed functions, failure-propagates also for errors tested by negated or compound conditions.",
		nil, m1RunC03)
}

var m1LitExceptC03 = map[string]string{
	"tsdb/engine/tsm1.CacheLoader.Load|tsdb/engine/tsm1.WALSegmentReader.Read": "a corrupt entry ends the replay of that segment: the tail is truncated (C02 wal-torn-tail) and loading continues",
}

func m1RunC03(p *core.Prog, r *core.Report, tier string) {
	m1DeleteCovers(p, r)
	m1DeleteSkips(p, r)
	m1ApplyEveryFile(p, r)
	m1RawCopy(p, r)
	m1CompactOnlyIfEnabled(p, r)
	m1IndexDeleteRange(p, r)
	m1LitPropagate(p, r, m1LitExceptC03, 2) // 8 today; a lower bound only guards against vacuity
}

// ---------------------------------------------------------------- delete-covers-every-series

func m1DeleteCovers(p *core.Prog, r *core.Report) {
	const rule = "delete-covers-every-series"
	f := r.Need(p, tsm1, "Engine.DeleteSeriesRangeWithPredicate")
	if f == nil {
		return
	}
	info, g := f.Info(), f.Graph()
	nextC := call("tsdb.SeriesIterator.Next")
	delC := call("tsdb/engine/tsm1.Engine.deleteSeriesRange")
	nx := g.Select(g.Calling(nextC))
	elems := map[types.Object]bool{}
	for _, n := range nx {
		if as, ok := n.N.(*ast.AssignStmt); ok && len(as.Lhs) == 2 {
			if o := core.ObjOf(info, as.Lhs[0]); o != nil {
				elems[o] = true
			}
		}
	}
	if !r.Check(len(nx) >= 1 && len(elems) >= 1, rule, f.String(), "SeriesIterator.Next:absent", f.Pos(), "`elem, err := itr.Next()` site(s)") {
		return
	}
	isElem := func(e ast.Expr) bool { o := core.ObjOf(info, e); return o != nil && elems[o] }
	// (a) success only after the iterator was drained
	early := g.ReachFromEntry(nil, core.X1NilEdge(info, isElem, true))
	bad := ""
	for _, x := range core.X1ExitsIn(early) {
		if g.X1IsSuccessExit(x) {
			bad = g.Line(x)
		}
	}
	r.Check(bad == "", rule, f.String(), "success-only-after-iterator-drained", f.Pos(), "every success return lies behind the branch on which itr.Next() returned a nil element (an early nil-error return would acknowledge a delete that skipped series) "+bad)
	// the batch handed to deleteSeriesRange and its appends
	dels := core.AllCalls(info, f.Decl.Body, delC)
	if len(dels) == 0 {
		return // reported by compactions-disabled
	}
	batch := x1ArgObj(info, dels[0], 1)
	appends := g.Select(func(n *core.Node) bool {
		as, ok := n.N.(*ast.AssignStmt)
		if !ok || len(as.Lhs) != 1 || len(as.Rhs) != 1 || batch == nil || core.ObjOf(info, as.Lhs[0]) != batch {
			return false
		}
		c, ok := ast.Unparen(as.Rhs[0]).(*ast.CallExpr)
		return ok && core.Builtin("append")(info, c) && len(c.Args) >= 2 && core.ObjOf(info, c.Args[0]) == batch
	})
	if !r.Check(len(appends) >= 1, rule, f.String(), "batch-append:absent", f.Pos(), "keys are appended to the batch") {
		return
	}
	// (b) the next element is fetched only after the current one was batched, or refused by the predicate
	var refused core.EdgePred
	predP := types.Object(f.X1Param(2))
	ast.Inspect(f.Decl.Body, func(n ast.Node) bool {
		as, ok := n.(*ast.AssignStmt)
		if !ok || len(as.Rhs) != 1 || len(as.Lhs) != 3 {
			return true
		}
		if c, ok := ast.Unparen(as.Rhs[0]).(*ast.CallExpr); ok && predP != nil && core.ObjOf(info, c.Fun) == predP {
			if sd := core.ObjOf(info, as.Lhs[2]); sd != nil {
				refused = core.X1BoolEdge(core.X1IsObj(info, sd), false)
			}
		}
		return true
	})
	isAppend := func(n *core.Node) bool {
		for _, a := range appends {
			if a == n {
				return true
			}
		}
		return false
	}
	if r.Check(refused != nil, rule, f.String(), "predicate-verdict:absent", f.Pos(), "the predicate's third result decides whether a series is deleted") {
		again := g.Reach(core.X1SuccsOf(nx), isAppend, refused)
		looped := false
		for _, n := range nx {
			if again[n] {
				looped = true
			}
		}
		r.Check(!looped, rule, f.String(), "every-accepted-series-batched", g.Line(nx[0]), "from itr.Next() the next itr.Next() is reached only through the batch append or the branch on which the predicate refused the series")
	}
	// (c) what was appended last is deleted: success only through deleteSeriesRange or an empty batch
	left := g.Reach(core.X1SuccsOf(appends), g.Calling(delC), core.X1LenZeroEdge(info, core.X1IsObj(info, batch), true))
	bad = ""
	for _, x := range core.X1ExitsIn(left) {
		if g.X1IsSuccessExit(x) {
			bad = g.Line(x)
		}
	}
	r.Check(bad == "", rule, f.String(), "final-batch-deleted", f.Pos(), "after a key was appended, success is reached only through deleteSeriesRange or a branch that established len(batch) == 0 "+bad)
}

// ---------------------------------------------------------------- delete-skips-justified

// m1KeyEqEdge: edges on which a key was found equal to an element of the slice keys
// (bytes.Equal(…) true, bytes.Compare(…) == 0).
func m1KeyEqEdge(info *types.Info, keys types.Object) core.EdgePred {
	fromKeys := func(c *ast.CallExpr) bool {
		if len(c.Args) != 2 || keys == nil {
			return false
		}
		return core.X1RootObj(info, c.Args[0]) == keys || core.X1RootObj(info, c.Args[1]) == keys
	}
	return core.X1FactEdge(func(ft core.X1Fact) bool {
		if c, ok := ft.E.(*ast.CallExpr); ok {
			return ft.True && call("bytes.Equal")(info, c) && fromKeys(c)
		}
		x, y, rel, ok := core.X1CmpAtom(ft.E)
		if !ok {
			return false
		}
		c, isCall := x.(*ast.CallExpr)
		if !isCall || !call("bytes.Compare")(info, c) || !core.X1IsConstInt(info, y, 0) || !fromKeys(c) {
			return false
		}
		return (rel == core.X1EQ && ft.True) || (rel == core.X1NE && !ft.True)
	})
}

func m1DeleteSkips(p *core.Prog, r *core.Report) {
	const rule = "delete-skips-justified"
	f := r.Need(p, tsm1, "Engine.deleteSeriesRange")
	if f == nil {
		return
	}
	info, g := f.Info(), f.Graph()
	applyC := call("tsdb/engine/tsm1.FileStore.Apply")
	bdC := call("tsdb/engine/tsm1.TSMFile.BatchDelete")
	bdrC := call("tsdb/engine/tsm1.BatchDeleter.DeleteRange")
	keysP := types.Object(f.X1Param(1))
	var tlit *ast.FuncLit
	tomb := g.X1CallingWith(applyC, func(c *ast.CallExpr) bool {
		if fl := x1LitArgWith(info, c, bdC); fl != nil {
			tlit = fl
			return true
		}
		return false
	})
	if !r.Check(len(g.Select(tomb)) == 1 && tlit != nil, rule, f.String(), "tombstone-batch:absent", f.Pos(), "one FileStore.Apply whose callback opens a BatchDelete") {
		return
	}
	// the overlap flag: a bool declared outside, set to true inside another Apply callback
	var flag types.Object
	for _, c := range core.AllCalls(info, f.Decl.Body, applyC) {
		for _, a := range c.Args {
			fl, ok := ast.Unparen(a).(*ast.FuncLit)
			if !ok || fl == tlit {
				continue
			}
			ast.Inspect(fl.Body, func(x ast.Node) bool {
				if as, ok := x.(*ast.AssignStmt); ok && len(as.Lhs) == 1 && len(as.Rhs) == 1 && core.X1IsConstBool(info, as.Rhs[0], true) {
					if o := core.ObjOf(info, as.Lhs[0]); o != nil && o.Pos() < fl.Pos() && flag == nil {
						flag = o
					}
				}
				return true
			})
		}
	}
	if r.Check(flag != nil, rule, f.String(), "overlap-flag:absent", f.Pos(), "the file probe records an overlap in a flag") {
		countC := call("tsdb/engine/tsm1.Cache.Count", "tsdb/engine/tsm1.Cache.Size")
		isCount := func(e ast.Expr) bool {
			return core.AsCall(info, core.ResolveLocal(info, f.Decl.Body, e), countC) != nil
		}
		zero := core.X1IsIntConst(info, 0)
		nonEmpty := core.X1FactEdge(core.X1AnyFact(core.X1CmpFact(isCount, zero, core.X1GT), core.X1CmpFact(isCount, zero, core.X1NE)))
		setTrue := func(n *core.Node) bool {
			as, ok := n.N.(*ast.AssignStmt)
			return ok && len(as.Lhs) == 1 && len(as.Rhs) == 1 && core.ObjOf(info, as.Lhs[0]) == flag && core.X1IsConstBool(info, as.Rhs[0], true)
		}
		ne := m1EdgeTargets(g, nonEmpty)
		ok := len(ne) >= 1
		for n := range g.Reach(ne, setTrue, nil) {
			if len(n.Succ) == 0 {
				ok = false
			}
			if n.N != nil && len(n.Succ) == 2 && core.X1MentionsObj(info, n.N, flag) {
				ok = false
			}
		}
		r.Check(ok, rule, f.String(), "non-empty-cache-forces-delete", f.Pos(), "on the branch that established Cache.Count() > 0 the overlap flag is set before it is tested or the function returns (points that exist only in the cache are deleted too)")
		// the early return is taken only after the cache was probed
		probes := func(n *core.Node) bool {
			if n.N == nil || len(n.Succ) != 2 {
				return false
			}
			if len(core.CallsIn(info, n.N, countC, core.WalkOpts{})) > 0 {
				return true
			}
			hit := false
			ast.Inspect(n.N, func(y ast.Node) bool {
				if id, ok := y.(*ast.Ident); ok && isCount(id) {
					hit = true
				}
				return !hit
			})
			return hit
		}
		// (a branch that knows the flag to be set does not lead to the early return)
		unprobed := g.ReachFromEntry(core.AnyOf(tomb, probes), core.X1OrEdges(core.X1LenZeroEdge(info, core.X1IsObj(info, keysP), true), core.X1BoolEdge(core.X1IsObj(info, flag), true)))
		bad := ""
		for _, x := range core.X1ExitsIn(unprobed) {
			if g.X1IsSuccessExit(x) {
				bad = g.Line(x)
			}
		}
		r.Check(bad == "", rule, f.String(), "early-return-probes-cache", f.Pos(), "a success return before the tombstone batch (other than for an empty key list) lies behind a test of Cache.Count() "+bad)
	}
	// the tombstone callback
	tg := f.LitGraph(tlit)
	noOverlap := core.X1FactEdge(func(ft core.X1Fact) bool {
		// an ordering test between key bounds (bytes.Compare(a, b) <op> 0), either
		// way round (which bound is compared with which is value-level)
		if x, y, rel, ok := core.X1CmpAtom(ft.E); ok && rel != core.X1EQ && rel != core.X1NE && core.X1IsConstInt(info, y, 0) {
			if c, isCall := x.(*ast.CallExpr); isCall && call("bytes.Compare")(info, c) {
				return true
			}
		}
		if ft.True {
			return false
		}
		if c, ok := ft.E.(*ast.CallExpr); ok {
			return call("tsdb/engine/tsm1.TSMFile.OverlapsTimeRange", "tsdb/engine/tsm1.TSMFile.OverlapsKeyRange")(info, c)
		}
		// a local bool defined once from key-range comparisons
		v, ok := core.ObjOf(info, ft.E).(*types.Var)
		if !ok || v.IsField() {
			return false
		}
		d, ok := core.SingleDef(info, tlit.Body, v)
		return ok && d.Rhs != nil && len(core.AllCalls(info, d.Rhs, call("bytes.Compare"))) > 0
	})
	skipped := tg.ReachFromEntry(tg.Calling(bdC), noOverlap)
	bad := ""
	for _, x := range core.X1ExitsIn(skipped) {
		if tg.X1IsSuccessExit(x) {
			bad = tg.Line(x)
		}
	}
	r.Check(bad == "", rule, f.String(), "file-skipped-only-if-disjoint", p.Pos(tlit.Pos()), "the tombstone callback reports success without opening a batch only on a branch that refuted the key-range or time-range overlap "+bad)
	eq := m1KeyEqEdge(info, keysP)
	unmatched := tg.ReachFromEntry(nil, eq)
	okEq := len(tg.Select(tg.Calling(bdrC))) >= 1
	for _, n := range tg.Select(tg.Calling(bdrC)) {
		if unmatched[n] {
			okEq = false
		}
	}
	r.Check(okEq, rule, f.String(), "tombstone-only-matching-keys", p.Pos(tlit.Pos()), "BatchDeleter.DeleteRange is reached only through a branch that found the file key equal to a requested series key")
	// the cache enumeration
	for _, c := range core.AllCalls(info, f.Decl.Body, call("tsdb/engine/tsm1.Cache.ApplyEntryFn")) {
		if len(c.Args) != 1 {
			continue
		}
		el, ok := ast.Unparen(c.Args[0]).(*ast.FuncLit)
		if !ok {
			continue
		}
		eg := f.LitGraph(el)
		un := eg.ReachFromEntry(nil, eq)
		n, okC := 0, true
		for _, nd := range eg.Nodes {
			as, isAs := nd.N.(*ast.AssignStmt)
			if !isAs || len(as.Rhs) != 1 {
				continue
			}
			if ac, isCall := ast.Unparen(as.Rhs[0]).(*ast.CallExpr); isCall && core.Builtin("append")(info, ac) {
				n++
				if un[nd] {
					okC = false
				}
			}
		}
		r.Check(n >= 1 && okC, rule, f.String(), "cache-keys-only-matching", p.Pos(el.Pos()), "a cache key is collected for deletion only on a branch that found its series key equal to a requested one")
	}
}

// ---------------------------------------------------------------- apply-every-file

func m1ApplyEveryFile(p *core.Prog, r *core.Report) {
	const rule = "apply-every-file"
	f := r.Need(p, tsm1, "FileStore.Apply")
	if f == nil {
		return
	}
	info, g := f.Info(), f.Graph()
	fnP := types.Object(f.X1Param(1))
	filesF := core.LookupField(f.Pkg.Types, "FileStore", "files")
	rs := core.RangeOver(f.Decl.Body, core.X1IsField(info, filesF))
	if !r.Check(len(rs) == 1 && rs[0].Value != nil && fnP != nil, rule, f.String(), "range-files:absent", f.Pos(), "one loop over f.files") {
		return
	}
	fv := core.ObjOf(info, rs[0].Value)
	// the callback is invoked on the loop element (directly, or in a literal that receives it as argument), unconditionally
	var ch types.Object
	invoked := false
	for _, st := range rs[0].Body.List {
		var c *ast.CallExpr
		switch s := st.(type) {
		case *ast.GoStmt:
			c = s.Call
		case *ast.ExprStmt:
			c, _ = s.X.(*ast.CallExpr)
		case *ast.SendStmt:
			if vc, ok := ast.Unparen(s.Value).(*ast.CallExpr); ok && core.ObjOf(info, vc.Fun) == fnP && len(vc.Args) == 1 && core.ObjOf(info, vc.Args[0]) == fv {
				invoked, ch = true, core.ObjOf(info, s.Chan)
			}
		}
		if c == nil {
			continue
		}
		fl, ok := ast.Unparen(c.Fun).(*ast.FuncLit)
		if !ok {
			continue
		}
		// which literal parameter receives the loop element
		var pv types.Object
		i := 0
		for _, fd := range fl.Type.Params.List {
			for _, nm := range fd.Names {
				if i < len(c.Args) && core.ObjOf(info, c.Args[i]) == fv {
					pv = info.Defs[nm]
				}
				i++
			}
		}
		lg := f.LitGraph(fl)
		calls := func(n *core.Node) bool {
			hit := false
			core.Walk(n.N, core.WalkOpts{}, func(y ast.Node) bool {
				if vc, ok := y.(*ast.CallExpr); ok && core.ObjOf(info, vc.Fun) == fnP && len(vc.Args) == 1 {
					if o := core.ObjOf(info, vc.Args[0]); o != nil && (o == pv || o == fv) {
						hit = true
					}
				}
				return true
			})
			return hit
		}
		for _, n := range lg.Nodes {
			if n.N == nil || !calls(n) {
				continue
			}
			invoked = true
			if s, ok := n.N.(*ast.SendStmt); ok {
				ch = core.ObjOf(info, s.Chan)
			}
		}
	}
	r.Check(invoked, rule, f.String(), "fn-on-every-file", f.Pos(), "the loop over f.files invokes the callback on the loop element")
	if !r.Check(ch != nil, rule, f.String(), "result-channel:absent", f.Pos(), "the callback's result is sent on a channel") {
		return
	}
	// collection: v := <-ch ; a non-nil v reaches the returned variable
	var recv []*core.Node
	var v types.Object
	for _, n := range g.Nodes {
		as, ok := n.N.(*ast.AssignStmt)
		if !ok || len(as.Lhs) != 1 || len(as.Rhs) != 1 {
			continue
		}
		if u, ok := ast.Unparen(as.Rhs[0]).(*ast.UnaryExpr); ok && u.Op == token.ARROW && core.ObjOf(info, u.X) == ch {
			recv = append(recv, n)
			v = core.ObjOf(info, as.Lhs[0])
		}
	}
	var ret types.Object
	nRet := 0
	for _, x := range g.Exits {
		if rs, ok := x.N.(*ast.ReturnStmt); ok && len(rs.Results) == 1 && g.X1IsSuccessExit(x) {
			nRet++
			ret = core.ObjOf(info, rs.Results[0])
		}
	}
	if !r.Check(len(recv) == 1 && v != nil && nRet == 1 && ret != nil, rule, f.String(), "collect:absent", f.Pos(), "one receive from the result channel and one non-failing return of an error variable") {
		return
	}
	keep := func(n *core.Node) bool {
		as, ok := n.N.(*ast.AssignStmt)
		if !ok || len(as.Lhs) != 1 || len(as.Rhs) != 1 || core.ObjOf(info, as.Lhs[0]) != ret {
			return false
		}
		return core.X1MentionsObj(info, as.Rhs[0], v)
	}
	fails := m1EdgeTargets(g, core.X1NilEdge(info, core.X1IsObj(info, v), false))
	lost := g.Reach(fails, keep, nil)
	ok := len(fails) >= 1 && !lost[recv[0]] && len(core.X1ExitsIn(lost)) == 0
	r.Check(ok, rule, f.String(), "callback-failure-returned", g.Line(recv[0]), "on the branch on which a received result is non-nil it is stored into the returned error before the next receive or return (a file whose tombstone batch failed fails the delete)")
	// every result is received: the receive loop is bounded by the channel's capacity, which is len(f.files)
	okCap := false
	for _, a := range core.X1AssignmentsTo(info, f.Decl.Body, ch) {
		if c, isCall := a.Rhs.(*ast.CallExpr); a.Rhs != nil && isCall && core.Builtin("make")(info, c) && len(c.Args) == 2 && core.X1IsLenOf(info, core.X1IsField(info, filesF))(c.Args[1]) {
			okCap = true
		}
	}
	r.Check(okCap, rule, f.String(), "channel-holds-every-result", f.Pos(), "the result channel is made with capacity len(f.files)")
}

// m1CompactOnlyIfEnabled: CompactFull/CompactFast start Compactor.compact only on a
// branch that established the flag read from c.compactionsEnabled to be true (no
// compaction is started while a delete holds compactions disabled).
func m1CompactOnlyIfEnabled(p *core.Prog, r *core.Report) {
	const rule = "abort-mechanism"
	enabledF := core.LookupField(p.Pkg(tsm1).Types, "Compactor", "compactionsEnabled")
	for _, n := range []string{"Compactor.CompactFull", "Compactor.CompactFast"} {
		f := r.Need(p, tsm1, n)
		if f == nil || enabledF == nil {
			continue
		}
		info, g := f.Info(), f.Graph()
		isFlag := func(e ast.Expr) bool {
			if core.FieldOf(info, e) == enabledF {
				return true
			}
			o := core.ObjOf(info, e)
			if o == nil {
				return false
			}
			as := core.X1AssignmentsTo(info, f.Decl.Body, o)
			if len(as) == 0 {
				return false
			}
			for _, a := range as {
				if a.Rhs == nil {
					return false
				}
				if core.FieldOf(info, a.Rhs) == enabledF {
					continue
				}
				// a same-package getter all of whose returns yield the field
				c, isCall := ast.Unparen(a.Rhs).(*ast.CallExpr)
				if !isCall {
					return false
				}
				getter := p.FuncOf(core.Callee(info, c))
				if getter == nil || getter.Decl == nil || getter.Decl.Body == nil {
					return false
				}
				nRet, okRet := 0, true
				ast.Inspect(getter.Decl.Body, func(y ast.Node) bool {
					if _, isLit := y.(*ast.FuncLit); isLit {
						return false
					}
					if rs, isRet := y.(*ast.ReturnStmt); isRet {
						nRet++
						if len(rs.Results) != 1 || core.FieldOf(getter.Info(), core.ResolveLocal(getter.Info(), getter.Decl.Body, rs.Results[0])) != enabledF {
							okRet = false
						}
					}
					return true
				})
				if nRet == 0 || !okRet {
					return false
				}
			}
			return true
		}
		un := g.ReachFromEntry(nil, core.X1BoolEdge(isFlag, true))
		cs := g.Select(g.Calling(call("tsdb/engine/tsm1.Compactor.compact")))
		ok := len(cs) >= 1
		for _, c := range cs {
			if un[c] {
				ok = false
			}
		}
		r.Check(ok, rule, f.String(), "compact-only-if-enabled", f.Pos(), "Compactor.compact is reached only through a branch that established compactionsEnabled == true")
	}
}

// ---------------------------------------------------------------- raw-copy-only-without-tombstones

func m1RawCopy(p *core.Prog, r *core.Report) {
	const rule = "raw-copy-only-without-tombstones"
	pk := p.Pkg(tsm1).Types
	mergedF := core.LookupField(pk, "tsmBatchKeyIterator", "merged")
	blocksF := core.LookupField(pk, "tsmBatchKeyIterator", "blocks")
	if !r.Check(mergedF != nil && blocksF != nil, "anchor", "tsm1.tsmBatchKeyIterator.merged/blocks", "unresolved", "-", "fields resolved") {
		return
	}
	sites := 0
	for _, t := range x1TsmT {
		f := r.Need(p, tsm1, "tsmBatchKeyIterator.combine"+t)
		if f == nil {
			continue
		}
		info, g := f.Info(), f.Graph()
		dedup := types.Object(f.X1Param(0))
		raw := g.Select(func(n *core.Node) bool {
			as, ok := n.N.(*ast.AssignStmt)
			if !ok || len(as.Lhs) != 1 || len(as.Rhs) != 1 || core.FieldOf(info, as.Lhs[0]) != mergedF {
				return false
			}
			c, ok := ast.Unparen(as.Rhs[0]).(*ast.CallExpr)
			if !ok || !core.Builtin("append")(info, c) {
				return false
			}
			for _, a := range c.Args[1:] {
				a = core.ResolveLocal(info, f.Decl.Body, a)
				if ix, isIx := ast.Unparen(a).(*ast.IndexExpr); isIx && core.FieldOf(info, ix.X) == blocksF {
					return true
				}
			}
			return false
		})
		un := g.ReachFromEntry(nil, core.X1BoolEdge(core.X1IsObj(info, dedup), false))
		ok := len(raw) >= 1 && dedup != nil
		for _, n := range raw {
			if un[n] {
				ok = false
			}
		}
		if ok {
			sites += len(raw)
		}
		r.Check(ok, rule, f.String(), "raw-block-only-if-not-dedup", f.Pos(), fmt.Sprintf("the %d sites that hand a block of k.blocks to k.merged undecoded are reachable only through a branch that established dedup == false", len(raw)))
	}
	r.Check(sites >= 10, rule, "tsm1.tsmBatchKeyIterator.combine<T>", "count", "-", fmt.Sprintf("%d pass-through sites verified (15 confirmed by reading)", sites))
}

// ---------------------------------------------------------------- index-full-delete-only-if-covered

func m1IndexDeleteRange(p *core.Prog, r *core.Report) {
	const rule = "index-full-delete-only-if-covered"
	f := r.Need(p, tsm1, "indirectIndex.DeleteRange")
	if f == nil {
		return
	}
	info, g := f.Info(), f.Graph()
	pk := f.Pkg.Types
	ieMin, ieMax := core.LookupField(pk, "IndexEntry", "MinTime"), core.LookupField(pk, "IndexEntry", "MaxTime")
	minP, maxP := types.Object(f.X1Param(1)), types.Object(f.X1Param(2))
	// min / max of the key: locals defined once from entries[…].MinTime / .MaxTime
	isKey := func(fld *types.Var) func(ast.Expr) bool {
		return func(e ast.Expr) bool {
			v, ok := core.ObjOf(info, e).(*types.Var)
			if !ok || v.IsField() {
				return false
			}
			d, ok := core.SingleDef(info, f.Decl.Body, v)
			if !ok {
				return false
			}
			var rhs ast.Expr
			switch {
			case d.Rhs != nil && d.Index == -1:
				rhs = d.Rhs
			default:
				// tuple definition `min, max := a, b`
				if as, isAs := d.Stmt.(*ast.AssignStmt); isAs && len(as.Lhs) == len(as.Rhs) {
					for i, l := range as.Lhs {
						if core.ObjOf(info, l) == v {
							rhs = as.Rhs[i]
						}
					}
				}
			}
			return rhs != nil && core.FieldOf(info, rhs) == fld
		}
	}
	any := func(ast.Expr) bool { return true }
	lo, hi := core.X1CmpFact(any, isKey(ieMin), core.X1LE), core.X1CmpFact(any, isKey(ieMax), core.X1GE)
	covered := func(e *core.Edge) bool {
		a, b := false, false
		for _, ft := range core.X1EdgeFacts(e) {
			if lo(ft) {
				a = true
			}
			if hi(ft) {
				b = true
			}
		}
		return a && b
	}
	// full removal: append to the slice handed to d.Delete
	var full types.Object
	for _, c := range core.AllCalls(info, f.Decl.Body, call("tsdb/engine/tsm1.indirectIndex.Delete")) {
		if o := x1ArgObj(info, c, 0); o != nil && o != types.Object(f.X1Param(0)) {
			full = o
		}
	}
	drops := g.Select(func(n *core.Node) bool {
		as, ok := n.N.(*ast.AssignStmt)
		if !ok || len(as.Lhs) != 1 || len(as.Rhs) != 1 || full == nil || core.ObjOf(info, as.Lhs[0]) != full {
			return false
		}
		c, ok := ast.Unparen(as.Rhs[0]).(*ast.CallExpr)
		return ok && core.Builtin("append")(info, c)
	})
	if r.Check(len(drops) >= 1, rule, f.String(), "full-key-drop:absent", f.Pos(), "keys whose every value is deleted are collected for d.Delete") {
		un := g.ReachFromEntry(nil, covered)
		ok := true
		for _, n := range drops {
			if un[n] {
				ok = false
			}
		}
		r.Check(ok, rule, f.String(), "drop-only-if-covered", g.Line(drops[0]), "a key is dropped from the index as a whole only on a branch that established lo <= MinTime of its first entry && hi >= MaxTime of its last entry (points outside the deleted range stay)")
	}
	// time-based skips are strict: a range that touches the boundary point is not skipped
	isP := func(o types.Object) func(ast.Expr) bool { return core.X1IsObj(info, o) }
	disjoint := core.X1FactEdge(core.X1AnyFact(core.X1CmpFact(isP(minP), any, core.X1GT), core.X1CmpFact(isP(maxP), any, core.X1LT)))
	mentions := func(n *core.Node) bool {
		return n.N != nil && len(n.Succ) == 2 && (core.X1MentionsObj(info, n.N, minP) || core.X1MentionsObj(info, n.N, maxP))
	}
	// per-key records: the key is collected for full removal, or a range is stored
	// in the local map of pending tombstones
	records := core.AnyOf(func(n *core.Node) bool {
		for _, d := range drops {
			if d == n {
				return true
			}
		}
		return false
	}, func(n *core.Node) bool {
		as, ok := n.N.(*ast.AssignStmt)
		if !ok || len(as.Lhs) != 1 {
			return false
		}
		ix, ok := ast.Unparen(as.Lhs[0]).(*ast.IndexExpr)
		if !ok {
			return false
		}
		v, isVar := core.ObjOf(info, ix.X).(*types.Var)
		if !isVar || v.IsField() {
			return false
		}
		_, isMap := v.Type().Underlying().(*types.Map)
		return isMap
	})
	fetch := g.Calling(call("tsdb/engine/tsm1.indirectIndex.readEntriesAt"))
	nTests, okStrict := 0, true
	for _, n := range g.Select(mentions) {
		// only ordering tests of the range bounds (not the == MinInt64 / MaxInt64 full-range test)
		ordering := false
		for _, e := range n.Succ {
			for _, ft := range core.X1EdgeFacts(e) {
				m1WalkAtoms(ft.E, func(a ast.Expr) {
					if _, _, rel, ok := core.X1CmpAtom(a); ok && rel != core.X1EQ && rel != core.X1NE && (core.X1MentionsObj(info, a, minP) || core.X1MentionsObj(info, a, maxP)) {
						ordering = true
					}
				})
			}
		}
		if !ordering {
			continue
		}
		nTests++
		// a branch PROCEEDS when it can reach a per-key record or a further bounds test
		// before the next key is fetched (for a test outside the key loop: the first
		// fetch counts as proceeding); otherwise it SKIPS the key / the file
		inLoop := g.Reach(core.X1SuccsOf(g.Select(fetch)), nil, nil)[n]
		goal := func(m *core.Node) bool {
			return records(m) || (m != n && mentions(m)) || (!inLoop && fetch(m))
		}
		stop := core.AnyOf(goal, fetch)
		proceeds := func(e *core.Edge) bool {
			if goal(e.To) {
				return true
			}
			for m := range g.Reach([]*core.Node{e.To}, stop, nil) {
				for _, s := range m.Succ {
					if goal(s.To) {
						return true
					}
				}
			}
			return false
		}
		for i, e := range n.Succ {
			if !proceeds(e) && proceeds(n.Succ[1-i]) && !disjoint(e) {
				okStrict = false
				r.Bad(rule, f.String(), "skip-not-strictly-disjoint", g.Line(n), "this branch leaves the key/file without recording a tombstone, but the condition does not establish lo > max or hi < min (strictly)")
			}
		}
	}
	if r.Check(nTests >= 2, rule, f.String(), "range-tests:count", f.Pos(), fmt.Sprintf("%d ordering tests of the delete bounds (file range, key range, cover test confirmed by reading)", nTests)) && okStrict {
		r.Ok(rule, f.String(), f.Pos(), "every branch of a bounds test that skips the key/file without recording establishes strict disjointness")
	}
}

// m1WalkAtoms visits the comparison atoms of a boolean expression.
func m1WalkAtoms(e ast.Expr, f func(ast.Expr)) {
	e = ast.Unparen(e)
	switch t := e.(type) {
	case *ast.UnaryExpr:
		if t.Op == token.NOT {
			m1WalkAtoms(t.X, f)
			return
		}
	case *ast.BinaryExpr:
		if t.Op == token.LAND || t.Op == token.LOR {
			m1WalkAtoms(t.X, f)
			m1WalkAtoms(t.Y, f)
			return
		}
	}
	f(e)
}
