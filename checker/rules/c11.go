package rules

import (
	"fmt"
	"go/ast"
	"go/constant"
	"go/token"
	"go/types"
	"sort"
	"strings"

	"verif/checker/core"
)

const (
	pkgModels9 = "models"
	pkgEscape9 = "pkg/escape"
)

func init() {
	register(&Prop{
		ID:       "C11",
		Patterns: []string{"./models", "./pkg/escape"},
		Level:    "other",
		Explanation: "Inverse pairing of the escaping used by line protocol and series keys, decided on resolved callees, package-level table variables and constant evaluation of the table literals: " +
			"(1) escape-tables: measurementEscapeCodes and tagEscapeCodes hold distinct one-byte keys, each escaped as the escape byte followed by the key; EscapeMeasurement/unescapeMeasurement range over the same table variable and replace key→escape resp. escape→key (all occurrences, precheck on the key byte), likewise escapeTag/unescapeTag/Tags.needsEscape for the tag table. " +
			"(2) key-builders: AppendMakeKey appends EscapeMeasurement(paired-unescape(name)) and Tags.AppendHashKey(dst,true); MakeKey returns AppendMakeKey; AppendHashKey assigns every Key/Value of the escaped copy from escapeTag of the same field, uses the raw tags only where the `escapeTags && needsEscape()` test failed, needsEscape looks at both Key and Value, and the separator bytes AppendHashKey writes are keys of the tag table; NewPoint takes its key from pointKey→MakeKey and its fields from Fields.MarshalBinary; appendField escapes the field key with escape.String and string values with EscapeStringField; point.String/AppendString render the stored key and fields unchanged. " +
			"(3) key-parsers: every function that cuts the measurement out of a key (callers of scanMeasurement / point.name other than scanKey) returns it through the unescape function that is paired with EscapeMeasurement (same table variable); walkTags — the only caller of scanTagValue — hands fn(unescapeTag(key), unescapeTag(value)) and the raw pair only where the key contains no escape byte; point.Next unescapes the field key with escape.AppendUnescaped under escape.IsEscaped; point.StringValue returns unescapeStringField. " +
			"(4) delimiters: every byte constant that scanMeasurement resp. scanTagsKey/scanTagsValue compare the input with is a key of the measurement resp. tag table or the escape byte; the stop bytes passed to scanTo/scanToSpaceOr/scanTagValue by the key and field walkers are keys of the table that escapes that component. " +
			"(5) pkg/escape: Codes, escapeChars, the escaper and unescaper replacers and the Unescape switch list the same bytes, each escaped as backslash+byte; the string-field replacer, unescapeStringField and scanFieldValue agree on the escaped bytes (quote and backslash).",
		NotCovered:  "the round trip itself (value formatting of numbers, precision arithmetic, sort order of tags); names that contain the escape byte itself next to a delimiter (a trailing backslash is not escaped by any table); the index arithmetic inside the scanners.",
		Assumptions: []string{"bytes.Replace/strings.Replacer behave as documented", "the function tables in rules/c11.go name the builders and parsers; new callers of the low-level scanners are reported as unclassified"},
		Run:         runC11,
	})
}

// c11Table is an escape table {k [1]byte; esc [2]byte}.
type c11Table struct {
	v    *types.Var
	keys map[int64]bool
	esc  int64 // the escape byte (esc[0] of every entry)
}

func c11ByteSet(m map[int64]bool) string {
	var ks []int64
	for k := range m {
		ks = append(ks, k)
	}
	sort.Slice(ks, func(i, j int) bool { return ks[i] < ks[j] })
	var s []string
	for _, k := range ks {
		s = append(s, fmt.Sprintf("%q", rune(k)))
	}
	return "{" + strings.Join(s, ",") + "}"
}

func c11LoadTable(p *core.Prog, r *core.Report, name string, min int) *c11Table {
	const rule = "escape-tables"
	pk := p.Pkg(pkgModels9)
	v, init := core.PkgVarInit9(pk, name)
	if !r.Check(v != nil && init != nil, "anchor", "models."+name, "unresolved", "-", "escape table resolved") {
		return nil
	}
	info := pk.TypesInfo
	elems, ok := core.LitElems9(info, init)
	r.Check(len(elems) >= min, rule, "models."+name, "entries<min", p.Pos(init.Pos()), fmt.Sprintf("%d entries (%d confirmed by reading)", len(elems), min))
	if !r.Check(ok && len(elems) > 0, rule, "models."+name, "not-a-literal", p.Pos(init.Pos()), "table is a composite literal") {
		return nil
	}
	t := &c11Table{v: v, keys: map[int64]bool{}, esc: -1}
	for i, el := range elems {
		cons := fmt.Sprintf("models.%s[%d]", name, i)
		fl := core.StructLitFields9(info, el)
		ks, ok1 := core.LitElems9(info, fl["k"])
		es, ok2 := core.LitElems9(info, fl["esc"])
		if !r.Check(ok1 && ok2 && len(ks) == 1 && len(es) == 2, rule, cons, "shape", p.Pos(el.Pos()), "entry is {k:[1]byte{c}, esc:[2]byte{e,c}}") {
			return nil
		}
		k, okk := core.Int9(info, ks[0])
		e0, ok0 := core.Int9(info, es[0])
		e1, ok1b := core.Int9(info, es[1])
		if !r.Check(okk && ok0 && ok1b, rule, cons, "not-constant", p.Pos(el.Pos()), "entry bytes are constants") {
			return nil
		}
		r.Check(e1 == k, rule, cons, "esc[1]!=k", p.Pos(el.Pos()), fmt.Sprintf("the escaped form of %q is the escape byte followed by %q (found %q)", rune(k), rune(k), rune(e1)))
		r.Check(t.esc < 0 || t.esc == e0, rule, cons, "escape-byte-differs", p.Pos(el.Pos()), "all entries use the same escape byte")
		r.Check(e0 != k, rule, cons, "key-is-escape-byte", p.Pos(el.Pos()), "the key is not the escape byte itself")
		t.esc = e0
		r.Check(!t.keys[k], rule, cons, "duplicate-key", p.Pos(el.Pos()), "keys are distinct")
		t.keys[k] = true
	}
	return t
}

// c11Direction inspects a function that ranges over an escape table and
// rewrites its input with bytes.Replace(in, c.X[:], c.Y[:], -1). It returns the
// table variable and the replaced/replacement field names.
type c11Repl struct {
	table    *types.Var
	from, to string
	all      bool   // n argument is -1
	pre      string // field whose [0] byte the IndexByte precheck looks for ("" if none)
	nReplace int
}

func c11ElemField(info *types.Info, body ast.Node, e ast.Expr, table *types.Var) string {
	// e is c.f[:] or c.f[0] — returns f when c is an element of table
	var sel *ast.SelectorExpr
	switch x := ast.Unparen(e).(type) {
	case *ast.SliceExpr:
		sel, _ = ast.Unparen(x.X).(*ast.SelectorExpr)
	case *ast.IndexExpr:
		sel, _ = ast.Unparen(x.X).(*ast.SelectorExpr)
	}
	if sel == nil {
		return ""
	}
	fv := core.FieldOf(info, sel)
	if fv == nil {
		return ""
	}
	base := core.ObjOf(info, sel.X)
	if base == nil {
		return ""
	}
	// base is the range value over table, or &table[i]
	okBase := false
	for _, d := range core.DefsOf(info, body, base) {
		if d.Range != nil && d.Index == 1 && core.PkgVar(info, d.Rhs) == table {
			okBase = true
		}
		if d.Rhs != nil && d.Range == nil {
			x := core.StripAddrDeref(d.Rhs)
			if ix, ok := ast.Unparen(x).(*ast.IndexExpr); ok && core.PkgVar(info, ix.X) == table {
				okBase = true
			}
		}
	}
	if !okBase {
		return ""
	}
	return fv.Name()
}

func c11Replacer(f *core.Func) *c11Repl {
	info := f.Info()
	out := &c11Repl{all: true}
	ast.Inspect(f.Decl.Body, func(n ast.Node) bool {
		if rs, ok := n.(*ast.RangeStmt); ok {
			if v := core.PkgVar(info, rs.X); v != nil {
				out.table = v
			}
		}
		return true
	})
	if out.table == nil {
		return out
	}
	for _, c := range core.AllCalls(info, f.Decl.Body, call("bytes.Replace")) {
		if len(c.Args) != 4 {
			continue
		}
		from := c11ElemField(info, f.Decl.Body, c.Args[1], out.table)
		to := c11ElemField(info, f.Decl.Body, c.Args[2], out.table)
		if out.nReplace > 0 && (from != out.from || to != out.to) {
			out.from, out.to = "?", "?"
		} else {
			out.from, out.to = from, to
		}
		if n, ok := core.Int9(info, c.Args[3]); !ok || n >= 0 {
			out.all = false
		}
		out.nReplace++
	}
	for _, c := range core.AllCalls(info, f.Decl.Body, call("bytes.IndexByte")) {
		if len(c.Args) == 2 {
			if fl := c11ElemField(info, f.Decl.Body, c.Args[1], out.table); fl != "" {
				out.pre = fl
			}
		}
	}
	return out
}

// c11ByteConsts collects the byte constants that f compares elements of its
// []byte/string parameter with (== / != and tag-switch cases).
func c11ByteConsts(f *core.Func) map[int64]bool {
	out := map[int64]bool{}
	c11ByteConstsInto(f, out, 0)
	return out
}

// c11ByteConstsInto: the comparison may be written on a single-definition
// temporary holding the element (`c := buf[i]`) or sit in a same-package helper
// that is handed the byte sequence (followed one level deep).
func c11ByteConstsInto(f *core.Func, out map[int64]bool, depth int) {
	info := f.Info()
	if depth == 0 {
		for _, c := range core.AllCalls(info, f.Decl.Body, func(*types.Info, *ast.CallExpr) bool { return true }) {
			fn := core.Callee(info, c)
			if fn == nil || fn.Pkg() == nil || f.Obj == nil || fn.Pkg() != f.Obj.Pkg() {
				continue
			}
			passes := false
			for _, a := range c.Args {
				if t := info.TypeOf(a); t != nil && core.IsByteSeq9(t) {
					passes = true
				}
			}
			sig, _ := fn.Type().(*types.Signature)
			// only predicates / index helpers: a helper returning a bool or an int
			if h := f.Prog.FuncOf(fn); passes && h != nil && h != f && h.Decl.Body != nil && sig != nil && sig.Results().Len() == 1 {
				if b, ok := sig.Results().At(0).Type().Underlying().(*types.Basic); ok && b.Info()&types.IsBoolean != 0 {
					c11ByteConstsInto(h, out, depth+1)
				}
			}
		}
	}
	isElem := func(e ast.Expr) bool {
		e = core.ResolveLocal(info, f.Decl.Body, e)
		ix, ok := ast.Unparen(e).(*ast.IndexExpr)
		if !ok {
			return false
		}
		t := info.TypeOf(ix.X)
		if t == nil {
			return false
		}
		if core.IsByteSeq9(t) {
			return true
		}
		b, ok := t.Underlying().(*types.Basic)
		return ok && b.Info()&types.IsString != 0
	}
	ast.Inspect(f.Decl.Body, func(n ast.Node) bool {
		switch x := n.(type) {
		case *ast.BinaryExpr:
			if x.Op != token.EQL && x.Op != token.NEQ {
				return true
			}
			if isElem(x.X) {
				if v, ok := core.Int9(info, x.Y); ok {
					out[v] = true
				}
			} else if isElem(x.Y) {
				if v, ok := core.Int9(info, x.X); ok {
					out[v] = true
				}
			}
		case *ast.SwitchStmt:
			if x.Tag != nil && isElem(x.Tag) {
				for _, cl := range x.Body.List {
					for _, ce := range cl.(*ast.CaseClause).List {
						if v, ok := core.Int9(info, ce); ok {
							out[v] = true
						}
					}
				}
			}
		}
		return true
	})
}

// c11ReplacerPairs evaluates strings.NewReplacer("a","b",…) initialising a package variable.
func c11ReplacerPairs(info *types.Info, init ast.Expr) (pairs [][2]string, ok bool) {
	c, isCall := ast.Unparen(init).(*ast.CallExpr)
	if !isCall || core.FName(core.Callee(info, c)) != "strings.NewReplacer" || len(c.Args)%2 != 0 {
		return nil, false
	}
	for i := 0; i < len(c.Args); i += 2 {
		a, ok1 := core.Eval9(info, c.Args[i], nil)
		b, ok2 := core.Eval9(info, c.Args[i+1], nil)
		if !ok1 || !ok2 || a.Kind() != constant.String || b.Kind() != constant.String {
			return nil, false
		}
		pairs = append(pairs, [2]string{constant.StringVal(a), constant.StringVal(b)})
	}
	return pairs, true
}

func runC11(p *core.Prog, r *core.Report, tier string) {
	mt := c11LoadTable(p, r, "measurementEscapeCodes", 2)
	tt := c11LoadTable(p, r, "tagEscapeCodes", 3)
	if mt == nil || tt == nil {
		return
	}
	r.Check(mt.esc == tt.esc, "escape-tables", "models.escape-byte", "differs", "-", "measurement and tag tables use the same escape byte")
	esc := mt.esc
	c11Pairs(p, r, mt, tt)
	c11Builders(p, r, mt, tt)
	c11Parsers(p, r, mt, tt)
	escChars := c11EscapePkg(p, r, esc)
	c11Delimiters(p, r, mt, tt, escChars, esc)
	c11StringField(p, r, esc)
}

// ---------------------------------------------------------------- (1) pairs

var c11unescapeOf = map[*types.Var]*types.Func{} // table -> its unescape function
var c11escapeOf = map[*types.Var]*types.Func{}

func c11Pairs(p *core.Prog, r *core.Report, mt, tt *c11Table) {
	const rule = "escape-pairs"
	type row struct {
		fn    string
		table *c11Table
		dir   string // "escape" | "unescape" | "probe"
	}
	rows := []row{
		{"EscapeMeasurement", mt, "escape"}, {"unescapeMeasurement", mt, "unescape"},
		{"escapeTag", tt, "escape"}, {"unescapeTag", tt, "unescape"}, {"Tags.needsEscape", tt, "probe"},
	}
	for _, rw := range rows {
		f := r.Need(p, pkgModels9, rw.fn)
		if f == nil {
			continue
		}
		cons := "models." + rw.fn
		rp := c11Replacer(f)
		r.Check(rp.table == rw.table.v, rule, cons, "table", f.Pos(), "ranges over "+rw.table.v.Name()+" (the table its inverse ranges over)")
		switch rw.dir {
		case "escape":
			r.Check(rp.nReplace >= 1 && rp.from == "k" && rp.to == "esc", rule, cons, "direction", f.Pos(), "replaces the key byte by its escaped form ("+rp.from+"→"+rp.to+")")
			c11escapeOf[rw.table.v] = f.Obj
		case "unescape":
			r.Check(rp.nReplace >= 1 && rp.from == "esc" && rp.to == "k", rule, cons, "direction", f.Pos(), "replaces the escaped form by the key byte ("+rp.from+"→"+rp.to+")")
			c11unescapeOf[rw.table.v] = f.Obj
		}
		if rw.dir != "probe" {
			r.Check(rp.all, rule, cons, "not-all-occurrences", f.Pos(), "every occurrence is replaced (n = -1)")
			// the result of Replace is what the function returns
			g := f.Graph()
			ok := true
			for _, x := range g.Exits {
				rs, isRet := x.N.(*ast.ReturnStmt)
				if !isRet || len(rs.Results) != 1 || core.ObjOf(f.Info(), rs.Results[0]) != types.Object(f.X1Param(0)) {
					ok = false
				}
			}
			asg := false
			for _, c := range core.AllCalls(f.Info(), f.Decl.Body, call("bytes.Replace")) {
				ast.Inspect(f.Decl.Body, func(n ast.Node) bool {
					if as, isAs := n.(*ast.AssignStmt); isAs && len(as.Rhs) == 1 && ast.Unparen(as.Rhs[0]) == ast.Expr(c) && len(as.Lhs) == 1 &&
						core.ObjOf(f.Info(), as.Lhs[0]) == types.Object(f.X1Param(0)) && core.ObjOf(f.Info(), c.Args[0]) == types.Object(f.X1Param(0)) {
						asg = true
					}
					return true
				})
			}
			r.Check(ok && asg, rule, cons, "result-dropped", f.Pos(), "the replaced slice is stored back into the input variable and that variable is returned")
		}
		r.Check(rp.pre == "k" || (rp.pre == "" && rw.dir != "probe"), rule, cons, "precheck-field", f.Pos(), "the IndexByte pre-check looks for the key byte (k[0])")
	}
	// needsEscape probes Key and Value
	if f := p.Func(pkgModels9, "Tags.needsEscape"); f != nil {
		seen := map[string]bool{}
		for _, c := range core.AllCalls(f.Info(), f.Decl.Body, call("bytes.IndexByte")) {
			if len(c.Args) == 2 {
				if fv := core.FieldOf(f.Info(), c.Args[0]); fv != nil {
					seen[fv.Name()] = true
				}
			}
		}
		r.Check(seen["Key"] && seen["Value"], rule, "models.Tags.needsEscape", "key-or-value-not-probed", f.Pos(), "both Tag.Key and Tag.Value are probed for every table key")
		// it answers true exactly when a probe hits: the `true` return is inside the probe's branch
		g := f.Graph()
		var trueRet, falseRet int
		for _, x := range g.Exits {
			if rs, ok := x.N.(*ast.ReturnStmt); ok && len(rs.Results) == 1 {
				if b, ok := core.ConstBool(f.Info(), rs.Results[0]); ok {
					if b {
						trueRet++
					} else {
						falseRet++
					}
				}
			}
		}
		r.Check(trueRet == 1 && falseRet == 1, rule, "models.Tags.needsEscape", "returns", f.Pos(), "returns true from the probe branch and false after the loops")
	}
}

// ---------------------------------------------------------------- (2) builders

func c11CallOf(info *types.Info, e ast.Expr, fn *types.Func) *ast.CallExpr {
	c, ok := ast.Unparen(e).(*ast.CallExpr)
	if !ok || fn == nil || core.Callee(info, c) != fn {
		return nil
	}
	return c
}

func c11Builders(p *core.Prog, r *core.Report, mt, tt *c11Table) {
	const rule = "key-builders"
	escM, unescM := c11escapeOf[mt.v], c11unescapeOf[mt.v]
	escT := c11escapeOf[tt.v]
	if f := r.Need(p, pkgModels9, "AppendMakeKey"); f != nil && escM != nil {
		info := f.Info()
		cons := "models.AppendMakeKey"
		// append(dst, EscapeMeasurement(unescapeMeasurement(name))...)
		okEsc, okInner := false, false
		for _, c := range core.AllCalls(info, f.Decl.Body, core.Builtin("append")) {
			if len(c.Args) != 2 || !c.Ellipsis.IsValid() {
				continue
			}
			if ec := c11CallOf(info, c.Args[1], escM); ec != nil && len(ec.Args) == 1 {
				okEsc = true
				arg := ec.Args[0]
				if uc := c11CallOf(info, arg, unescM); uc != nil && len(uc.Args) == 1 && core.ObjOf(info, uc.Args[0]) == types.Object(f.X1Param(1)) {
					okInner = true
				}
				if core.ObjOf(info, arg) == types.Object(f.X1Param(1)) {
					okInner = true // plain name: also fine (no double-escape protection needed for raw names)
				}
			}
		}
		r.Check(okEsc, rule, cons, "measurement-not-escaped", f.Pos(), "the measurement appended to the key is the result of EscapeMeasurement")
		r.Check(okInner, rule, cons, "escape-argument", f.Pos(), "EscapeMeasurement is applied to the name parameter, normalised by the paired unescapeMeasurement (no other transformation)")
		// tags through AppendHashKey(dst, true)
		okTags := false
		hk := call("models.Tags.AppendHashKey")
		for _, c := range core.AllCalls(info, f.Decl.Body, hk) {
			if len(c.Args) == 2 {
				if b, ok := core.ConstBool(info, c.Args[1]); ok && b {
					if rc := core.Recv(c); rc != nil && core.ObjOf(info, rc) == types.Object(f.X1Param(2)) {
						okTags = true
					}
				}
			}
		}
		r.Check(okTags, rule, cons, "tags-not-escaped", f.Pos(), "the tags parameter is appended with AppendHashKey(dst, true) (escaping on)")
		core.RuleMustPass(r, f, rule, "EscapeMeasurement", call("models.EscapeMeasurement"), false)
		core.RuleMustPass(r, f, rule, "Tags.AppendHashKey", hk, false)
		core.RuleOrder(r, f, rule, []string{"EscapeMeasurement", "Tags.AppendHashKey"}, []core.Matcher{call("models.EscapeMeasurement"), hk})
	}
	if f := r.Need(p, pkgModels9, "MakeKey"); f != nil {
		ok := false
		for _, x := range f.Graph().Exits {
			if rs, isRet := x.N.(*ast.ReturnStmt); isRet && len(rs.Results) == 1 {
				if c, isCall := ast.Unparen(rs.Results[0]).(*ast.CallExpr); isCall && core.FName(core.Callee(f.Info(), c)) == "models.AppendMakeKey" && len(c.Args) == 3 &&
					core.ObjOf(f.Info(), c.Args[1]) == types.Object(f.X1Param(0)) && core.ObjOf(f.Info(), c.Args[2]) == types.Object(f.X1Param(1)) {
					ok = true
				} else {
					ok = false
					break
				}
			}
		}
		r.Check(ok, rule, "models.MakeKey", "not-AppendMakeKey", f.Pos(), "MakeKey returns AppendMakeKey(_, name, tags)")
	}
	if f := r.Need(p, pkgModels9, "Tags.HashKey"); f != nil {
		ok := false
		for _, c := range core.AllCalls(f.Info(), f.Decl.Body, call("models.Tags.AppendHashKey")) {
			if len(c.Args) == 2 && core.ObjOf(f.Info(), c.Args[1]) == types.Object(f.X1Param(0)) {
				ok = true
			}
		}
		r.Check(ok, rule, "models.Tags.HashKey", "escape-flag-not-forwarded", f.Pos(), "HashKey forwards its escapeTags flag to AppendHashKey")
	}
	if f := r.Need(p, pkgModels9, "Tags.AppendHashKey"); f != nil && escT != nil {
		info := f.Info()
		cons := "models.Tags.AppendHashKey"
		g := f.Graph()
		// stores to Tag.Key / Tag.Value
		nStore := 0
		ast.Inspect(f.Decl.Body, func(n ast.Node) bool {
			as, ok := n.(*ast.AssignStmt)
			if !ok || len(as.Lhs) != len(as.Rhs) {
				return true
			}
			for i, l := range as.Lhs {
				fv := core.FieldOf(info, l)
				if fv == nil || (fv.Name() != "Key" && fv.Name() != "Value") || core.NamedOf(info.TypeOf(ast.Unparen(l).(*ast.SelectorExpr).X)) == nil {
					continue
				}
				nStore++
				c := c11CallOf(info, as.Rhs[i], escT)
				good := c != nil && len(c.Args) == 1
				if good {
					src := core.FieldOf(info, c.Args[0])
					good = src != nil && src.Name() == fv.Name()
				}
				r.Check(good, rule, cons, "tag-"+fv.Name()+"-not-escaped", p.Pos(as.Pos()), "Tag."+fv.Name()+" of the escaped copy is escapeTag(Tag."+fv.Name()+")")
			}
			return true
		})
		r.Check(nStore >= 2, rule, cons, "escape-stores<min", f.Pos(), fmt.Sprintf("%d stores to Key/Value of the escaped copy (2 confirmed)", nStore))
		// the raw alias `escaped = a` only where the escape test failed
		recv := f.X1Recv()
		flag := f.X1Param(1)
		var testNode *core.Node
		for _, n := range g.Nodes {
			if ex, ok := n.N.(ast.Expr); ok && len(n.Succ) == 2 && flag != nil && core.MentionsObj(info, ex, flag) &&
				core.MentionsCall(info, ex, call("models.Tags.needsEscape")) {
				testNode = n
			}
		}
		if r.Check(testNode != nil, rule, cons, "escape-test:absent", f.Pos(), "the branch on `escapeTags && needsEscape()` found") {
			atoms, conj := core.X1Conjuncts(testNode.N.(ast.Expr))
			r.Check(conj && len(atoms) == 2, rule, cons, "escape-test-shape", g.Line(testNode), "the test is the conjunction of the flag and needsEscape() and nothing else")
			var trueTo []*core.Node
			for _, e := range testNode.Succ {
				if e.Branch {
					trueTo = append(trueTo, e.To)
				}
			}
			reach := g.Reach(trueTo, nil, nil)
			nAlias := 0
			for _, n := range g.Nodes {
				as, ok := n.N.(*ast.AssignStmt)
				if !ok || len(as.Lhs) != 1 || len(as.Rhs) != 1 || recv == nil {
					continue
				}
				if core.ObjOf(info, as.Rhs[0]) == types.Object(recv) {
					nAlias++
					r.Check(!reach[n], rule, cons, "raw-tags-on-escape-path", g.Line(n), "the unescaped receiver is used as the rendered tag set only when escaping is off or not needed")
				}
			}
			r.Check(nAlias >= 1, rule, cons, "raw-alias:absent", f.Pos(), "the no-escape branch aliases the receiver")
		}
		// separator bytes written are keys of the tag table
		seps := map[int64]bool{}
		ast.Inspect(f.Decl.Body, func(n ast.Node) bool {
			as, ok := n.(*ast.AssignStmt)
			if !ok || as.Tok != token.ASSIGN || len(as.Lhs) != 1 || len(as.Rhs) != 1 {
				return true
			}
			if ix, ok := as.Lhs[0].(*ast.IndexExpr); ok && core.IsByteSeq9(info.TypeOf(ix.X)) {
				if v, ok := core.Int9(info, as.Rhs[0]); ok {
					seps[v] = true
				}
			}
			return true
		})
		r.Check(len(seps) >= 2, rule, cons, "separators<min", f.Pos(), "separator bytes found: "+c11ByteSet(seps))
		for s := range seps {
			r.Check(tt.keys[s], rule, cons, fmt.Sprintf("separator-%q-not-escaped", rune(s)), f.Pos(), fmt.Sprintf("separator %q written between tags is a key of tagEscapeCodes %s", rune(s), c11ByteSet(tt.keys)))
		}
	}
	// NewPoint: key from pointKey (→ MakeKey), fields from MarshalBinary
	if f := r.Need(p, pkgModels9, "NewPoint"); f != nil {
		info := f.Info()
		okKey, okFields := false, false
		ast.Inspect(f.Decl.Body, func(n ast.Node) bool {
			kv, ok := n.(*ast.KeyValueExpr)
			if !ok {
				return true
			}
			id, _ := kv.Key.(*ast.Ident)
			if id == nil {
				return true
			}
			switch id.Name {
			case "key":
				if o := core.ObjOf(info, kv.Value); o != nil {
					if _, only := core.X1OnlyFromCall(info, f.Decl.Body, o, call("models.pointKey"), 0); only {
						okKey = true
					}
				}
			case "fields":
				if c, ok := ast.Unparen(kv.Value).(*ast.CallExpr); ok && core.FName(core.Callee(info, c)) == "models.Fields.MarshalBinary" {
					if rc := core.Recv(c); rc != nil && core.ObjOf(info, rc) == types.Object(f.X1Param(2)) {
						okFields = true
					}
				}
			}
			return true
		})
		r.Check(okKey, rule, "models.NewPoint", "key-not-from-pointKey", f.Pos(), "the point key is the result of pointKey")
		r.Check(okFields, rule, "models.NewPoint", "fields-not-marshalled", f.Pos(), "the point fields are fields.MarshalBinary()")
	}
	if f := r.Need(p, pkgModels9, "pointKey"); f != nil {
		info := f.Info()
		g := f.Graph()
		ok := true
		n := 0
		for _, x := range g.SuccessExits() {
			rs, isRet := x.N.(*ast.ReturnStmt)
			if !isRet || len(rs.Results) != 2 {
				ok = false
				continue
			}
			n++
			o := core.ObjOf(info, rs.Results[0])
			calls, only := core.X1OnlyFromCall(info, f.Decl.Body, o, call("models.MakeKey"), 0)
			if o == nil || !only {
				ok = false
				continue
			}
			for _, c := range calls {
				if len(c.Args) != 2 || core.ObjOf(info, c.Args[1]) != types.Object(f.X1Param(1)) {
					ok = false
				}
				if !core.MentionsObj(info, c.Args[0], f.X1Param(0)) {
					ok = false
				}
			}
		}
		r.Check(ok && n >= 1, rule, "models.pointKey", "key-not-MakeKey", f.Pos(), "the key returned on success is MakeKey(measurement, tags)")
	}
	if f := r.Need(p, pkgModels9, "Fields.MarshalBinary"); f != nil {
		core.RuleHasCall(r, f, rule, "appendField", call("models.appendField"))
		// the separator between fields is a key of the field-key escape set: checked in c11Delimiters
	}
	if f := r.Need(p, pkgModels9, "appendField"); f != nil {
		info := f.Info()
		cons := "models.appendField"
		// key: append(b, []byte(escape.String(k))...)
		okKey := false
		for _, c := range core.AllCalls(info, f.Decl.Body, call("pkg/escape.String")) {
			if len(c.Args) == 1 && core.ObjOf(info, c.Args[0]) == types.Object(f.X1Param(1)) {
				okKey = true
			}
		}
		r.Check(okKey, rule, cons, "field-key-not-escaped", f.Pos(), "the field key is written as escape.String(k)")
		// the raw key is never appended
		raw := false
		for _, c := range core.AllCalls(info, f.Decl.Body, core.Builtin("append")) {
			for _, a := range c.Args[1:] {
				if core.ObjOf(info, a) == types.Object(f.X1Param(1)) {
					raw = true
				}
			}
		}
		r.Check(!raw, rule, cons, "raw-field-key-appended", f.Pos(), "the unescaped field key is not appended")
		// every arm of the type switch that produces a quoted string goes through EscapeStringField
		var ts *ast.TypeSwitchStmt
		ast.Inspect(f.Decl.Body, func(n ast.Node) bool {
			if x, ok := n.(*ast.TypeSwitchStmt); ok {
				ts = x
			}
			return true
		})
		if r.Check(ts != nil, rule, cons, "type-switch:absent", f.Pos(), "type switch over the field value found") {
			nQuoted := 0
			for _, cl := range ts.Body.List {
				cc := cl.(*ast.CaseClause)
				quotes := 0
				for _, c := range core.AllCalls(info, cc, core.Builtin("append")) {
					if len(c.Args) == 2 {
						if v, ok := core.Int9(info, c.Args[1]); ok && v == '"' {
							quotes++
						}
					}
				}
				if quotes == 0 {
					continue
				}
				nQuoted++
				esc := len(core.AllCalls(info, cc, call("models.EscapeStringField"))) == 1
				// nothing else of string/[]byte type is appended between the quotes
				other := false
				for _, c := range core.AllCalls(info, cc, core.Builtin("append")) {
					if len(c.Args) == 2 && c.Ellipsis.IsValid() && !core.MentionsCall(info, c.Args[1], call("models.EscapeStringField")) {
						other = true
					}
				}
				what := "default"
				if len(cc.List) > 0 {
					what = core.ExprStr(cc.List[0])
				}
				r.Check(quotes == 2 && esc && !other, rule, cons, "string-arm-"+what+"-not-escaped", p.Pos(cc.Pos()), "the quoted value of the `"+what+"` arm is EscapeStringField(…) between two quote bytes")
			}
			r.Check(nQuoted >= 2, rule, cons, "quoted-arms<min", f.Pos(), fmt.Sprintf("%d quoted arms (2 confirmed: string, default)", nQuoted))
		}
	}
	// rendering uses the stored key and fields unchanged
	keyF := core.LookupField(p.Pkg(pkgModels9).Types, "point", "key")
	fieldsF := core.LookupField(p.Pkg(pkgModels9).Types, "point", "fields")
	r.Check(keyF != nil && fieldsF != nil, "anchor", "models.point.key/fields", "unresolved", "-", "fields resolved")
	for _, fn := range []string{"point.String", "point.AppendString", "point.PrecisionString", "point.RoundedString"} {
		f := r.Need(p, pkgModels9, fn)
		if f == nil || keyF == nil || fieldsF == nil {
			continue
		}
		info := f.Info()
		usesKey := core.MentionsField(info, f.Decl.Body, keyF) || core.HasCall(f, call("models.point.Key"))
		usesFields := core.MentionsField(info, f.Decl.Body, fieldsF)
		transforms := core.HasCall(f, call("models.point.Name", "models.point.name", "models.point.Tags", "models.unescape*", "models.escape*", "models.Escape*", "pkg/escape.*", "models.point.Fields", "models.MakeKey"))
		r.Check(usesKey && usesFields && !transforms, rule, "models."+fn, "renders-transformed-key", f.Pos(), "renders the stored (escaped) key and field bytes as they are")
	}
}

// ---------------------------------------------------------------- (3) parsers

func c11Parsers(p *core.Prog, r *core.Report, mt, tt *c11Table) {
	const rule = "key-parsers"
	unescM := c11unescapeOf[mt.v]
	unescT := c11unescapeOf[tt.v]
	// measurement cutters: callers of scanMeasurement / point.name (scanKey keeps the raw key)
	cutters := map[string]bool{}
	cut := call("models.scanMeasurement", "models.point.name")
	for _, f := range p.Funcs(pkgModels9) {
		if f.Decl.Body == nil || f.Name == "scanKey" {
			continue
		}
		if len(core.AllCalls(f.Info(), f.Decl.Body, cut)) > 0 {
			cutters[f.Name] = true
		}
	}
	want := []string{"ParseKeyBytesWithTags", "ParseName", "point.Name"}
	for _, w := range want {
		r.Check(cutters[w], rule, "models."+w, "not-a-measurement-parser", "-", "function cuts the measurement out of a key (calls scanMeasurement / point.name)")
	}
	var names []string
	for n := range cutters {
		names = append(names, n)
	}
	sort.Strings(names)
	for _, n := range names {
		f := p.Func(pkgModels9, n)
		r.Saw(f)
		info := f.Info()
		res := f.Obj.Type().(*types.Signature).Results()
		if res.Len() == 0 || !core.IsByteSeq9(res.At(0).Type()) {
			r.Bad(rule, "models."+n, "unclassified-measurement-parser", f.Pos(), "function cuts a measurement out of a key but does not return it as []byte in first position; classify it in rules/c11.go")
			continue
		}
		ok := true
		got := ""
		nret := 0
		for _, x := range f.Graph().Exits {
			rs, isRet := x.N.(*ast.ReturnStmt)
			if !isRet || len(rs.Results) == 0 {
				ok = false
				continue
			}
			nret++
			c, isCall := ast.Unparen(rs.Results[0]).(*ast.CallExpr)
			if !isCall {
				ok, got = false, core.ExprStr(rs.Results[0])
				continue
			}
			if core.Callee(info, c) != unescM {
				ok, got = false, core.FName(core.Callee(info, c))
			}
		}
		detail := "the measurement is returned through unescapeMeasurement, the inverse of EscapeMeasurement (same table " + mt.v.Name() + " " + c11ByteSet(mt.keys) + ")"
		if got != "" {
			detail += "; found " + got
			if got == "pkg/escape.Unescape" {
				detail += " which unescapes a different byte set, so a name containing the escape byte followed by one of the extra bytes does not survive MakeKey → Name"
			}
		}
		r.Check(ok && nret >= 1, "inverse-pairing", "models."+n, "measurement-unescape", f.Pos(), detail)
	}
	// tags: walkTags is the only caller of scanTagValue
	var tagCutters []string
	for _, f := range p.Funcs(pkgModels9) {
		if f.Decl.Body != nil && len(core.AllCalls(f.Info(), f.Decl.Body, call("models.scanTagValue"))) > 0 {
			tagCutters = append(tagCutters, f.Name)
		}
	}
	r.Check(len(tagCutters) == 1 && tagCutters[0] == "walkTags", rule, "models.scanTagValue", "unclassified-tag-parser", "-", "walkTags is the only function that cuts tag values out of a key (callers: "+strings.Join(tagCutters, ",")+")")
	if f := r.Need(p, pkgModels9, "walkTags"); f != nil && unescT != nil {
		info := f.Info()
		cons := "models.walkTags"
		fn := f.X1Param(1)
		// hasEscape := bytes.IndexByte(buf, esc) != -1
		var flag types.Object
		ast.Inspect(f.Decl.Body, func(n ast.Node) bool {
			as, ok := n.(*ast.AssignStmt)
			if !ok || len(as.Lhs) != 1 || len(as.Rhs) != 1 {
				return true
			}
			be, ok := ast.Unparen(as.Rhs[0]).(*ast.BinaryExpr)
			if !ok || be.Op != token.NEQ {
				return true
			}
			c, ok := ast.Unparen(be.X).(*ast.CallExpr)
			if !ok || core.FName(core.Callee(info, c)) != "bytes.IndexByte" || len(c.Args) != 2 {
				return true
			}
			b, ok1 := core.Int9(info, c.Args[1])
			m1, ok2 := core.Int9(info, be.Y)
			if ok1 && ok2 && m1 == -1 && b == mt.esc && core.ObjOf(info, c.Args[0]) == types.Object(f.X1Param(0)) {
				flag = core.ObjOf(info, as.Lhs[0])
			}
			return true
		})
		if r.Check(flag != nil, rule, cons, "escape-probe:absent", f.Pos(), fmt.Sprintf("a flag records whether the key contains the escape byte %q", rune(mt.esc))) {
			isFn := func(_ *types.Info, c *ast.CallExpr) bool {
				return fn != nil && core.ObjOf(info, c.Fun) == types.Object(fn)
			}
			nRaw, nUn := 0, 0
			// the hand-over may sit in a local closure: every graph of the function is
			// searched, the guard is looked for in the graph that holds the call
			type site struct {
				g *core.Graph
				n *core.Node
			}
			var sites []site
			for _, gg := range f.Graphs() {
				for _, n := range gg.Select(gg.Calling(isFn)) {
					sites = append(sites, site{gg, n})
				}
			}
			counted := map[*ast.CallExpr]bool{}
			for _, st := range sites {
				g, n := st.g, st.n
				for _, c := range core.CallsIn(info, n.N, isFn, core.WalkOpts{}) {
					if len(c.Args) != 2 || counted[c] {
						continue
					}
					counted[c] = true
					u0, u1 := c11CallOf(info, c.Args[0], unescT), c11CallOf(info, c.Args[1], unescT)
					if u0 != nil && u1 != nil {
						nUn++
						continue
					}
					nRaw++
					// raw hand-over only where the flag is false
					bad := g.X4OnlyVia([]*core.Node{n}, nil, core.X1BoolEdge(core.X1IsObj(info, flag), false))
					r.Check(len(bad) == 0 && u0 == nil && u1 == nil, rule, cons, "raw-tag-on-escaped-key", g.Line(n), "key and value are handed to fn without unescapeTag only when the key holds no escape byte")
				}
			}
			r.Check(nUn >= 1, "inverse-pairing", cons, "tag-unescape", f.Pos(), "tag key and value are handed to fn through unescapeTag, the inverse of escapeTag (same table "+tt.v.Name()+")")
			r.Check(nRaw <= 1, rule, cons, "raw-calls", f.Pos(), fmt.Sprintf("%d raw hand-over(s)", nRaw))
		}
	}
	for _, fn := range []string{"parseTags", "point.ForEachTag", "point.HasTag"} {
		if f := r.Need(p, pkgModels9, fn); f != nil {
			core.RuleHasCall(r, f, rule, "walkTags", call("models.walkTags"))
		}
	}
	if f := r.Need(p, pkgModels9, "point.Tags"); f != nil {
		core.RuleHasCall(r, f, rule, "parseTags", call("models.parseTags"))
	}
	// field keys and string values
	if f := r.Need(p, pkgModels9, "point.Next"); f != nil {
		info := f.Info()
		g := f.Graph()
		cons := "models.point.Next"
		un := g.Select(g.Calling(call("pkg/escape.AppendUnescaped")))
		if r.Check(len(un) == 1, "inverse-pairing", cons, "field-key-unescape", f.Pos(), "the field key is unescaped with escape.AppendUnescaped (inverse of escape.String used by appendField)") {
			gate := core.X4CallCond(info, call("pkg/escape.IsEscaped"), true)
			bad := g.X4OnlyVia(un, nil, gate)
			r.Check(len(bad) == 0, rule, cons, "unescape-not-under-IsEscaped", g.Line(un[0]), "AppendUnescaped runs where escape.IsEscaped(key) holds")
		}
	}
	if f := r.Need(p, pkgModels9, "point.StringValue"); f != nil {
		ok := false
		for _, x := range f.Graph().Exits {
			if rs, isRet := x.N.(*ast.ReturnStmt); isRet && len(rs.Results) == 1 {
				c, isCall := ast.Unparen(rs.Results[0]).(*ast.CallExpr)
				ok = isCall && core.FName(core.Callee(f.Info(), c)) == "models.unescapeStringField"
			}
		}
		r.Check(ok, "inverse-pairing", "models.point.StringValue", "string-unescape", f.Pos(), "the string value is returned through unescapeStringField (inverse of EscapeStringField used by appendField)")
	}
	for _, fn := range []string{"point.unmarshalBinary", "NewPointFromBytes"} {
		if f := r.Need(p, pkgModels9, fn); f != nil {
			_ = f
		}
	}
}

// ---------------------------------------------------------------- (5) pkg/escape

func c11EscapePkg(p *core.Prog, r *core.Report, esc int64) map[int64]bool {
	const rule = "escape-pkg"
	pk := p.Pkg(pkgEscape9)
	if !r.Check(pk != nil, "anchor", pkgEscape9, "package-not-loaded", "-", "pkg/escape loaded") {
		return nil
	}
	info := pk.TypesInfo
	want := func(set map[int64]bool, ref map[int64]bool, cons string, pos string) {
		same := len(set) == len(ref)
		for k := range ref {
			if !set[k] {
				same = false
			}
		}
		r.Check(same, rule, cons, "byte-set-differs", pos, "lists the bytes "+c11ByteSet(set)+"; escapeChars lists "+c11ByteSet(ref))
	}
	// escapeChars
	ref := map[int64]bool{}
	if c, ok := pk.Types.Scope().Lookup("escapeChars").(*types.Const); r.Check(ok, "anchor", "escape.escapeChars", "unresolved", "-", "escapeChars resolved") {
		for _, b := range []byte(constant.StringVal(c.Val())) {
			ref[int64(b)] = true
		}
	}
	if len(ref) == 0 {
		return nil
	}
	escOK := func(b int64, s string) bool { return len(s) == 2 && int64(s[0]) == esc && int64(s[1]) == b }
	// Codes
	if _, init := core.PkgVarInit9(pk, "Codes"); r.Check(init != nil, "anchor", "escape.Codes", "unresolved", "-", "Codes resolved") {
		set := map[int64]bool{}
		good := true
		if lit, ok := ast.Unparen(init).(*ast.CompositeLit); ok {
			for _, el := range lit.Elts {
				kv, ok := el.(*ast.KeyValueExpr)
				if !ok {
					good = false
					continue
				}
				k, ok1 := core.Int9(info, kv.Key)
				val := ast.Unparen(kv.Value)
				if c, isC := val.(*ast.CallExpr); isC && len(c.Args) == 1 {
					val = c.Args[0]
				}
				sv, ok2 := core.Eval9(info, val, nil)
				if !ok1 || !ok2 || sv.Kind() != constant.String || !escOK(k, constant.StringVal(sv)) {
					good = false
					continue
				}
				set[k] = true
			}
		}
		r.Check(good, rule, "escape.Codes", "entry", p.Pos(init.Pos()), "every entry maps byte c to escape-byte+c")
		want(set, ref, "escape.Codes", p.Pos(init.Pos()))
	}
	for _, nm := range []string{"escaper", "unescaper"} {
		_, init := core.PkgVarInit9(pk, nm)
		if !r.Check(init != nil, "anchor", "escape."+nm, "unresolved", "-", nm+" resolved") {
			continue
		}
		pairs, ok := c11ReplacerPairs(info, init)
		if !r.Check(ok, rule, "escape."+nm, "not-constant", p.Pos(init.Pos()), "strings.NewReplacer with constant arguments") {
			continue
		}
		set := map[int64]bool{}
		good := true
		for _, pr := range pairs {
			plain, escd := pr[0], pr[1]
			if nm == "unescaper" {
				plain, escd = pr[1], pr[0]
			}
			if len(plain) != 1 || !escOK(int64(plain[0]), escd) {
				good = false
				continue
			}
			set[int64(plain[0])] = true
		}
		r.Check(good, rule, "escape."+nm, "pair", p.Pos(init.Pos()), "every pair relates byte c and escape-byte+c in the right direction")
		want(set, ref, "escape."+nm, p.Pos(init.Pos()))
	}
	if f := r.Need(p, pkgEscape9, "String"); f != nil {
		ev := pk.Types.Scope().Lookup("escaper")
		r.Check(core.MentionsObj(f.Info(), f.Decl.Body, ev), rule, "escape.String", "replacer", f.Pos(), "String uses the escaper replacer")
	}
	if f := r.Need(p, pkgEscape9, "UnescapeString"); f != nil {
		ev := pk.Types.Scope().Lookup("unescaper")
		r.Check(core.MentionsObj(f.Info(), f.Decl.Body, ev), rule, "escape.UnescapeString", "replacer", f.Pos(), "UnescapeString uses the unescaper replacer")
	}
	// Unescape: switch in[i+1] { case c: out = append(out, c) }
	if f := r.Need(p, pkgEscape9, "Unescape"); f != nil {
		fi := f.Info()
		set := map[int64]bool{}
		good := true
		ast.Inspect(f.Decl.Body, func(n ast.Node) bool {
			sw, ok := n.(*ast.SwitchStmt)
			if !ok || sw.Tag == nil {
				return true
			}
			for _, cl := range sw.Body.List {
				cc := cl.(*ast.CaseClause)
				for _, ce := range cc.List {
					v, ok := core.Int9(fi, ce)
					if !ok {
						good = false
						continue
					}
					set[v] = true
					// the arm appends the same byte and skips two input bytes
					okArm := false
					for _, c := range core.AllCalls(fi, cc, core.Builtin("append")) {
						if len(c.Args) == 2 {
							if a, ok := core.Int9(fi, c.Args[1]); ok && a == v {
								okArm = true
							}
						}
					}
					if !okArm || len(cc.List) != 1 {
						good = false
					}
				}
			}
			return true
		})
		r.Check(good, rule, "escape.Unescape", "arm", f.Pos(), "every case c appends c")
		want(set, ref, "escape.Unescape", f.Pos())
		cs := c11ByteConsts(f)
		r.Check(cs[esc], rule, "escape.Unescape", "escape-byte", f.Pos(), "the switch is entered on the escape byte")
	}
	for _, fn := range []string{"IsEscaped", "AppendUnescaped"} {
		if f := r.Need(p, pkgEscape9, fn); f != nil {
			ec := pk.Types.Scope().Lookup("escapeChars")
			uses := false
			for _, c := range core.AllCalls(f.Info(), f.Decl.Body, call("strings.IndexByte")) {
				if len(c.Args) == 2 && core.ObjOf(f.Info(), c.Args[0]) == ec {
					uses = true
				}
			}
			r.Check(uses, rule, "escape."+fn, "escapeChars", f.Pos(), "membership is tested against escapeChars")
			found := false
			for _, c := range core.AllCalls(f.Info(), f.Decl.Body, call("bytes.IndexByte")) {
				if len(c.Args) == 2 {
					if v, ok := core.Int9(f.Info(), c.Args[1]); ok && v == esc {
						found = true
					}
				}
			}
			r.Check(found, rule, "escape."+fn, "escape-byte", f.Pos(), "escape sequences are located by the escape byte")
		}
	}
	if f := r.Need(p, pkgEscape9, "Bytes"); f != nil {
		cv := pk.Types.Scope().Lookup("Codes")
		r.Check(core.MentionsObj(f.Info(), f.Decl.Body, cv), rule, "escape.Bytes", "table", f.Pos(), "Bytes ranges over Codes")
	}
	return ref
}

// ---------------------------------------------------------------- (4) delimiters

func c11Delimiters(p *core.Prog, r *core.Report, mt, tt *c11Table, escChars map[int64]bool, esc int64) {
	const rule = "delimiters"
	within := func(fn string, table map[int64]bool, tname string, min int) {
		f := r.Need(p, pkgModels9, fn)
		if f == nil {
			return
		}
		cs := c11ByteConsts(f)
		n := 0
		var ks []int64
		for b := range cs {
			ks = append(ks, b)
		}
		sort.Slice(ks, func(i, j int) bool { return ks[i] < ks[j] })
		for _, b := range ks {
			if b == esc {
				continue
			}
			n++
			r.Check(table[b], rule, "models."+fn, fmt.Sprintf("delimiter-%q-not-in-%s", rune(b), tname), f.Pos(),
				fmt.Sprintf("byte %q that the scanner treats as a delimiter is a key of %s %s", rune(b), tname, c11ByteSet(table)))
		}
		r.Check(n >= min && cs[esc], rule, "models."+fn, "delimiters<min", f.Pos(), fmt.Sprintf("%d delimiter bytes and the escape byte are compared (%d confirmed)", n, min))
	}
	within("scanMeasurement", mt.keys, mt.v.Name(), 2)
	within("scanTagsKey", tt.keys, tt.v.Name(), 3)
	within("scanTagsValue", tt.keys, tt.v.Name(), 3)
	// stop bytes handed to the generic scanners
	stops := []struct {
		fn    string
		table map[int64]bool
		name  string
		min   int
	}{
		{"point.name", mt.keys, mt.v.Name(), 1},
		{"walkTags", tt.keys, tt.v.Name(), 2},
		{"scanKey", tt.keys, tt.v.Name(), 6},
		{"less", tt.keys, tt.v.Name(), 2},
		{"walkFields", escChars, "escape.escapeChars", 1},
		{"point.Next", escChars, "escape.escapeChars", 1},
	}
	scanners := call("models.scanTo", "models.scanToSpaceOr")
	classified := map[string]bool{}
	for _, s := range stops {
		classified[s.fn] = true
		f := r.Need(p, pkgModels9, s.fn)
		if f == nil || s.table == nil {
			continue
		}
		n := 0
		for _, c := range core.AllCalls(f.Info(), f.Decl.Body, scanners) {
			if len(c.Args) != 3 {
				continue
			}
			b, ok := core.Int9(f.Info(), c.Args[2])
			if !r.Check(ok, rule, "models."+s.fn, "stop-byte-not-constant", p.Pos(c.Pos()), "the stop byte is a constant") {
				continue
			}
			n++
			r.Check(s.table[b], rule, "models."+s.fn, fmt.Sprintf("stop-%q-not-in-%s", rune(b), s.name), p.Pos(c.Pos()),
				fmt.Sprintf("stop byte %q is a key of %s %s, so it cannot occur unescaped inside the component", rune(b), s.name, c11ByteSet(s.table)))
		}
		r.Check(n >= s.min, rule, "models."+s.fn, "stops<min", f.Pos(), fmt.Sprintf("%d scanner calls (%d confirmed)", n, s.min))
	}
	for _, f := range p.Funcs(pkgModels9) {
		if f.Decl.Body == nil || classified[f.Name] {
			continue
		}
		if len(core.AllCalls(f.Info(), f.Decl.Body, scanners)) > 0 {
			// point.Split scans the rendered fields for '='
			if f.Name == "point.Split" {
				for _, c := range core.AllCalls(f.Info(), f.Decl.Body, scanners) {
					b, ok := core.Int9(f.Info(), c.Args[2])
					r.Check(ok && escChars[b], rule, "models."+f.Name, "stop-byte", p.Pos(c.Pos()), "stop byte is a key of escape.escapeChars")
				}
				continue
			}
			r.Bad(rule, "models."+f.Name, "unclassified-scanner-caller", f.Pos(), "function calls scanTo/scanToSpaceOr but is not classified in rules/c11.go")
		}
	}
	// scanTagValue stops at a tag-table key
	within("scanTagValue", tt.keys, tt.v.Name(), 1)
	// the separators Fields.MarshalBinary / appendField write around a field key are escaped inside it
	for _, fn := range []string{"Fields.MarshalBinary", "appendField"} {
		f := p.Func(pkgModels9, fn)
		if f == nil {
			continue
		}
		info := f.Info()
		seps := map[int64]bool{}
		ast.Inspect(f.Decl.Body, func(n ast.Node) bool {
			if _, isTS := n.(*ast.TypeSwitchStmt); isTS {
				return false // value suffixes ('i', 'u', quotes) are not key separators
			}
			c, ok := n.(*ast.CallExpr)
			if !ok || !core.Builtin("append")(info, c) || len(c.Args) != 2 || c.Ellipsis.IsValid() {
				return true
			}
			if v, ok := core.Int9(info, c.Args[1]); ok {
				seps[v] = true
			}
			return true
		})
		for s := range seps {
			r.Check(escChars[s], rule, "models."+fn, fmt.Sprintf("separator-%q-not-escaped", rune(s)), f.Pos(), fmt.Sprintf("separator %q written next to a field key is escaped inside keys by escape.String %s", rune(s), c11ByteSet(escChars)))
		}
		r.Check(len(seps) >= 1, rule, "models."+fn, "separators<min", f.Pos(), "separator bytes: "+c11ByteSet(seps))
	}
}

// ---------------------------------------------------------------- string fields

func c11StringField(p *core.Prog, r *core.Report, esc int64) {
	const rule = "string-field"
	pk := p.Pkg(pkgModels9)
	info := pk.TypesInfo
	_, init := core.PkgVarInit9(pk, "escapeStringFieldReplacer")
	if !r.Check(init != nil, "anchor", "models.escapeStringFieldReplacer", "unresolved", "-", "replacer resolved") {
		return
	}
	pairs, ok := c11ReplacerPairs(info, init)
	if !r.Check(ok, rule, "models.escapeStringFieldReplacer", "not-constant", p.Pos(init.Pos()), "strings.NewReplacer with constant arguments") {
		return
	}
	r.Check(len(pairs) >= 2, rule, "models.escapeStringFieldReplacer", "pairs<min", p.Pos(init.Pos()), fmt.Sprintf("%d pairs (2 confirmed)", len(pairs)))
	keys := map[int64]bool{}
	good := true
	for _, pr := range pairs {
		if len(pr[0]) != 1 || len(pr[1]) != 2 || int64(pr[1][0]) != esc || pr[1][1] != pr[0][0] {
			good = false
			continue
		}
		keys[int64(pr[0][0])] = true
	}
	r.Check(good, rule, "models.escapeStringFieldReplacer", "pair", p.Pos(init.Pos()), "every pair maps byte c to escape-byte+c")
	r.Check(keys['"'] && keys[esc], rule, "models.escapeStringFieldReplacer", "quote-or-escape-byte-missing", p.Pos(init.Pos()), "the quote byte (value delimiter) and the escape byte itself are escaped: "+c11ByteSet(keys))
	if f := r.Need(p, pkgModels9, "EscapeStringField"); f != nil {
		ev := pk.Types.Scope().Lookup("escapeStringFieldReplacer")
		r.Check(core.MentionsObj(f.Info(), f.Decl.Body, ev), rule, "models.EscapeStringField", "replacer", f.Pos(), "EscapeStringField applies the replacer")
	}
	// unescapeStringField: `in[i] == esc && … && in[i+1] == c` → append(out, c); i += 2
	if f := r.Need(p, pkgModels9, "unescapeStringField"); f != nil {
		fi := f.Info()
		got := map[int64]bool{}
		okArms := true
		ast.Inspect(f.Decl.Body, func(n ast.Node) bool {
			is, ok := n.(*ast.IfStmt)
			if !ok {
				return true
			}
			atoms, conj := core.X1Conjuncts(is.Cond)
			if !conj {
				return true
			}
			var first, second int64 = -1, -1
			for _, a := range atoms {
				be, ok := a.(*ast.BinaryExpr)
				if !ok || be.Op != token.EQL {
					continue
				}
				ix, ok := ast.Unparen(be.X).(*ast.IndexExpr)
				if !ok {
					continue
				}
				v, ok := core.Int9(fi, be.Y)
				if !ok {
					continue
				}
				if _, plain := ast.Unparen(ix.Index).(*ast.Ident); plain {
					first = v
				} else {
					second = v
				}
			}
			if first != esc || second < 0 {
				return true
			}
			got[second] = true
			app, adv := false, false
			for _, st := range is.Body.List {
				switch x := st.(type) {
				case *ast.AssignStmt:
					if x.Tok == token.ADD_ASSIGN {
						if v, ok := core.Int9(fi, x.Rhs[0]); ok && v == 2 {
							adv = true
						}
					}
					if c, ok := ast.Unparen(x.Rhs[0]).(*ast.CallExpr); ok && core.Builtin("append")(fi, c) && len(c.Args) == 2 {
						if v, ok := core.Int9(fi, c.Args[1]); ok && v == second {
							app = true
						}
					}
				}
			}
			if !app || !adv {
				okArms = false
			}
			return true
		})
		r.Check(okArms, rule, "models.unescapeStringField", "arm", f.Pos(), "an escape sequence escape-byte+c appends c and skips two bytes")
		same := len(got) == len(keys)
		for k := range keys {
			if !got[k] {
				same = false
			}
		}
		r.Check(same, "inverse-pairing", "models.unescapeStringField", "string-escape-set", f.Pos(), "unescapes exactly the bytes EscapeStringField escapes: "+c11ByteSet(got)+" vs "+c11ByteSet(keys))
	}
	// scanFieldValue: the escape test accepts exactly the escaped bytes and the quote toggles
	if f := r.Need(p, pkgModels9, "scanFieldValue"); f != nil {
		cs := c11ByteConsts(f)
		for k := range keys {
			r.Check(cs[k], rule, "models.scanFieldValue", fmt.Sprintf("byte-%q-not-handled", rune(k)), f.Pos(), fmt.Sprintf("the value scanner knows the escaped byte %q", rune(k)))
		}
		for b := range cs {
			r.Check(keys[b] || b == ',', rule, "models.scanFieldValue", fmt.Sprintf("byte-%q-unexpected", rune(b)), f.Pos(), fmt.Sprintf("byte %q compared by the value scanner is an escaped byte or the field separator", rune(b)))
		}
	}
}
