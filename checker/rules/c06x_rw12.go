package rules

import (
	"fmt"
	"go/ast"
	"go/token"
	"go/types"

	"verif/checker/core"
)

// C06 extension (rw12): candidate completeness of the key cursor.
//
// KeyCursor.Read*Block (file_store.gen.go / file_store_array.gen.go) decides by
// itself which blocks take part in a merge: it grows a time window over
// c.current[1:] and consults `OverlapsTimeRange(window) && !read()` for every
// candidate. It can only consult blocks that ARE in c.current, and a block that
// is left out is neither merged nor marked as read. The mechanism the read path
// relies on is therefore: after seek / Next, c.current holds EVERY location of
// c.seeks in cursor direction that is not provably irrelevant, where the only
// facts that make a location irrelevant are
//   next*:  location.read() == true                       (already returned)
//   seek*:  !entry.Contains(t) && block lies before t      (before the seek time)
// Any other filter (time-window overlap with the next block, a cap on the
// number of candidates, a break, a shorter scan range) drops blocks that are
// only transitively connected to the first block; they are then returned later,
// a second time / out of order.

func init() {
	extend("C06",
		"(8) candidates-complete: KeyCursor.nextAscending/nextDescending append to c.current every element of c.seeks from c.pos to the end of the slice in cursor direction unless location.read() is true for that very element (no other filter, no break/return inside the scan, loop bounds reach the end), the position-advance loop steps over an element only when its read() is true; seekAscending/seekDescending scan all of c.seeks and leave an element out only on an edge establishing !entry.Contains(t) and that the block ends before (ascending) / starts after (descending) t. Read*Block decides overlap itself and can only merge or mark blocks that are in c.current.",
		nil, runC06x12)
}

type c06xSite struct {
	fn      string
	dir     int  // +1 ascending, -1 descending
	fromPos bool // next*: scan starts at c.pos; seek*: scans everything
}

func runC06x12(p *core.Prog, r *core.Report, tier string) {
	const rule = "candidates-complete"
	pk := p.Pkg(tsm1)
	if pk == nil {
		return
	}
	seeksF := core.LookupField(pk.Types, "KeyCursor", "seeks")
	currentF := core.LookupField(pk.Types, "KeyCursor", "current")
	posF := core.LookupField(pk.Types, "KeyCursor", "pos")
	entryF := core.LookupField(pk.Types, "location", "entry")
	minF := core.LookupField(pk.Types, "IndexEntry", "MinTime")
	maxF := core.LookupField(pk.Types, "IndexEntry", "MaxTime")
	if !r.Check(seeksF != nil && currentF != nil && posF != nil && entryF != nil && minF != nil && maxF != nil, "anchor", tsm1+".KeyCursor.seeks/current/pos,location.entry,IndexEntry.MinTime/MaxTime", "unresolved", "-", "fields resolved") {
		return
	}
	readM := call(tsm1 + ".location.read")
	containsM := call(tsm1 + ".IndexEntry.Contains")

	for _, s := range []c06xSite{
		{"KeyCursor.nextAscending", +1, true},
		{"KeyCursor.nextDescending", -1, true},
		{"KeyCursor.seekAscending", +1, false},
		{"KeyCursor.seekDescending", -1, false},
	} {
		f := r.Need(p, tsm1, s.fn)
		if f == nil {
			continue
		}
		info := f.Info()
		g := f.Graph()
		name := f.String()

		// appended operand of `c.current = append(c.current, x…)`
		appended := func(n *core.Node) []ast.Expr {
			as, ok := n.N.(*ast.AssignStmt)
			if !ok || len(as.Lhs) != 1 || len(as.Rhs) != 1 || core.FieldOf(info, as.Lhs[0]) != currentF {
				return nil
			}
			c, ok := ast.Unparen(as.Rhs[0]).(*ast.CallExpr)
			if !ok || !core.Builtin("append")(info, c) || len(c.Args) < 2 || core.FieldOf(info, c.Args[0]) != currentF || c.Ellipsis.IsValid() {
				return nil
			}
			return c.Args[1:]
		}
		// element of seeks visited by loop l
		elemOf := func(l ast.Stmt) func(ast.Expr) bool {
			var iv, vv types.Object
			unsliced := false
			switch x := l.(type) {
			case *ast.ForStmt:
				if as, ok := x.Init.(*ast.AssignStmt); ok && as.Tok == token.DEFINE && len(as.Lhs) == 1 {
					iv = core.ObjOf(info, as.Lhs[0])
				}
				unsliced = true
			case *ast.RangeStmt:
				rx := ast.Unparen(x.X)
				if se, ok := rx.(*ast.SliceExpr); ok {
					rx = ast.Unparen(se.X)
				} else {
					unsliced = true
				}
				if core.FieldOf(info, rx) != seeksF {
					return func(ast.Expr) bool { return false }
				}
				if x.Value != nil {
					vv = core.ObjOf(info, x.Value)
				}
				if x.Key != nil && unsliced {
					iv = core.ObjOf(info, x.Key)
				}
			}
			return func(e ast.Expr) bool {
				e = ast.Unparen(e)
				if vv != nil && core.ObjOf(info, e) == vv {
					return true
				}
				e = core.ResolveLocal(info, f.Decl.Body, e)
				ix, ok := ast.Unparen(e).(*ast.IndexExpr)
				return ok && iv != nil && unsliced && core.FieldOf(info, ix.X) == seeksF && core.ObjOf(info, ix.Index) == iv
			}
		}

		// ---- the collect loop
		var collectLoop ast.Stmt
		var collectors []*core.Node
		shape := true
		for _, n := range g.Nodes {
			if n.N == nil {
				continue
			}
			args := appended(n)
			if args == nil {
				continue
			}
			l := core.InnermostLoop12(f.Decl.Body, n)
			if l == nil {
				continue // slot-0 placeholder outside any loop
			}
			el := elemOf(l)
			isElem := false
			for _, a := range args {
				if el(a) {
					isElem = true
				}
			}
			if !isElem {
				continue
			}
			if collectLoop != nil && collectLoop != l {
				shape = false
			}
			collectLoop = l
			collectors = append(collectors, n)
		}
		if !r.Check(collectLoop != nil && shape, rule, name, "collect-loop:absent", f.Pos(), "one loop over c.seeks appends the visited element to c.current") {
			continue
		}
		el := elemOf(collectLoop)
		cset := map[*core.Node]bool{}
		for _, n := range collectors {
			cset[n] = true
		}
		acc := func(n *core.Node) bool { return cset[n] }

		// the facts that allow an element to be left out
		var exempt core.EdgePred
		var exemptText string
		if s.fromPos {
			exempt = core.EdgeEstablishing(core.CallFact(info, readM, true, func(c *ast.CallExpr) bool {
				rc := core.MethodCallOn12(info, c, readM)
				return rc != nil && el(rc)
			}))
			exemptText = "read() of that element is true"
		} else {
			var tParam types.Object
			if v := f.Param(0); v != nil {
				tParam = v
			}
			isT := func(e ast.Expr) bool { return tParam != nil && core.ObjOf(info, e) == tParam }
			entryOfElem := func(e ast.Expr) bool { // <elem>.entry
				se, ok := ast.Unparen(e).(*ast.SelectorExpr)
				return ok && core.FieldOf(info, se) == entryF && el(se.X)
			}
			boundOfElem := func(fld *types.Var) func(ast.Expr) bool { // <elem>.entry.MinTime
				return func(e ast.Expr) bool {
					se, ok := ast.Unparen(e).(*ast.SelectorExpr)
					return ok && core.FieldOf(info, se) == fld && entryOfElem(se.X)
				}
			}
			notContains := core.CallFact(info, containsM, false, func(c *ast.CallExpr) bool {
				rc := core.MethodCallOn12(info, c, containsM)
				return rc != nil && entryOfElem(rc) && len(c.Args) == 1 && isT(c.Args[0])
			})
			var before core.CondFact
			if s.dir > 0 {
				isMin := boundOfElem(minF)
				before = core.CmpFact12(func(l ast.Expr, op token.Token, rr ast.Expr) bool {
					return isT(l) && isMin(rr) && (op == token.GEQ || op == token.GTR)
				})
				exemptText = "!entry.Contains(t) and t >= entry.MinTime (the block ends before t)"
			} else {
				isMax := boundOfElem(maxF)
				before = core.CmpFact12(func(l ast.Expr, op token.Token, rr ast.Expr) bool {
					return isT(l) && isMax(rr) && (op == token.LEQ || op == token.LSS)
				})
				exemptText = "!entry.Contains(t) and t <= entry.MaxTime (the block starts after t)"
			}
			exempt = core.AllFacts12(notContains, before)
		}

		// (a) every element is appended unless the exempting fact holds
		esc, ok := g.IterEscapes12(collectLoop, acc, exempt)
		if !ok {
			r.Bad(rule, name, "collect-loop:not-in-cfg", p.Pos(collectLoop.Pos()), "loop not found in the CFG")
			continue
		}
		if len(esc) == 0 {
			r.Ok(rule, name+":every-candidate", p.Pos(collectLoop.Pos()), "an iteration ends without appending the visited element only where "+exemptText)
		} else {
			r.Bad(rule, name, "candidate-skipped", g.Line(esc[0].Via), fmt.Sprintf("an iteration of the scan over c.seeks can end (%s) without appending the visited element to c.current although it is not established that %s: Read*Block can neither merge nor mark a block that is not in c.current, so a block connected to the window only through a later block is returned again afterwards (%d such path ends)", esc[0].Kind, exemptText, len(esc)))
		}

		// (b) the scan is not cut short
		all, _ := g.IterEscapes12(collectLoop, nil, nil)
		cut := ""
		for _, e := range all {
			if e.Kind != "next" {
				cut = g.Line(e.Via)
				break
			}
		}
		r.Check(cut == "", rule, name, "scan-cut-short", firstNonEmpty12(cut, p.Pos(collectLoop.Pos())), "the scan over c.seeks is left only through its loop condition (no break/return inside the body)")

		// (c) bounds
		okB, why := c06xBounds(info, collectLoop, seeksF, posF, s)
		r.Check(okB, rule, name, "scan-bounds", p.Pos(collectLoop.Pos()), "the scan covers c.seeks "+map[bool]string{true: "from c.pos", false: "completely"}[s.fromPos]+" to the end in cursor direction"+why)

		// (d) next*: the position advance steps only over read elements
		if s.fromPos {
			atPos := func(e ast.Expr) bool {
				ix, ok := ast.Unparen(core.ResolveLocal(info, f.Decl.Body, e)).(*ast.IndexExpr)
				return ok && core.FieldOf(info, ix.X) == seeksF && core.FieldOf(info, ix.Index) == posF
			}
			readAtPos := core.EdgeEstablishing(core.CallFact(info, readM, true, func(c *ast.CallExpr) bool {
				rc := core.MethodCallOn12(info, c, readM)
				return rc != nil && atPos(rc)
			}))
			nAdv := 0
			seen := map[ast.Stmt]bool{}
			for _, n := range g.Select(g.Assigning(posF)) {
				l := core.InnermostLoop12(f.Decl.Body, n)
				if l == nil || l == collectLoop || seen[l] {
					continue
				}
				seen[l] = true
				nAdv++
				esc, ok := g.IterEscapes12(l, nil, readAtPos)
				bad := !ok
				at := p.Pos(l.Pos())
				for _, e := range esc {
					if e.Kind == "next" {
						bad = true
						at = g.Line(e.Via)
						break
					}
				}
				r.Check(!bad, rule, name, "advance-skips-unread", at, "the loop that advances c.pos goes on to the next element only when c.seeks[c.pos].read() is true")
			}
			r.Check(nAdv == 1, rule, name, "advance-loop:absent", f.Pos(), fmt.Sprintf("%d loop(s) advancing c.pos (1 confirmed by reading)", nAdv))
		}
	}
}

func firstNonEmpty12(a, b string) string {
	if a != "" {
		return a
	}
	return b
}

// c06xBounds: the scan loop reaches the end of c.seeks in the direction of the cursor.
func c06xBounds(info *types.Info, loop ast.Stmt, seeksF, posF *types.Var, s c06xSite) (bool, string) {
	isSeeks := func(e ast.Expr) bool { return core.FieldOf(info, e) == seeksF }
	isLenSeeks := func(e ast.Expr) bool {
		c, ok := ast.Unparen(e).(*ast.CallExpr)
		return ok && core.Builtin("len")(info, c) && len(c.Args) == 1 && isSeeks(c.Args[0])
	}
	isConst := func(e ast.Expr, v int64) bool {
		c, ok := core.ConstInt(info, e)
		return ok && c == v
	}
	// pos, pos+k
	posPlus := func(e ast.Expr, k int64) bool {
		e = ast.Unparen(e)
		if k == 0 {
			return core.FieldOf(info, e) == posF
		}
		be, ok := e.(*ast.BinaryExpr)
		if !ok {
			return false
		}
		switch {
		case be.Op == token.ADD && k > 0:
			return (core.FieldOf(info, be.X) == posF && isConst(be.Y, k)) || (core.FieldOf(info, be.Y) == posF && isConst(be.X, k))
		case be.Op == token.SUB && k < 0:
			return core.FieldOf(info, be.X) == posF && isConst(be.Y, -k)
		}
		return false
	}
	lenMinus1 := func(e ast.Expr) bool {
		be, ok := ast.Unparen(e).(*ast.BinaryExpr)
		return ok && be.Op == token.SUB && isLenSeeks(be.X) && isConst(be.Y, 1)
	}
	switch l := loop.(type) {
	case *ast.RangeStmt:
		rx := ast.Unparen(l.X)
		if isSeeks(rx) {
			return true, ""
		}
		if se, ok := rx.(*ast.SliceExpr); ok && isSeeks(se.X) && se.High == nil && !se.Slice3 {
			if se.Low == nil {
				return true, ""
			}
			if s.fromPos && s.dir > 0 && (posPlus(se.Low, 0) || posPlus(se.Low, 1)) {
				return true, ""
			}
		}
		return false, " — range expression is not c.seeks / c.seeks[c.pos(+1):]"
	case *ast.ForStmt:
		as, ok := l.Init.(*ast.AssignStmt)
		if !ok || as.Tok != token.DEFINE || len(as.Lhs) != 1 || len(as.Rhs) != 1 {
			return false, " — no loop variable"
		}
		iv := core.ObjOf(info, as.Lhs[0])
		isIV := func(e ast.Expr) bool { return iv != nil && core.ObjOf(info, e) == iv }
		post, ok := l.Post.(*ast.IncDecStmt)
		if !ok || !isIV(post.X) {
			return false, " — the post statement is not i++ / i--"
		}
		step := 1
		if post.Tok == token.DEC {
			step = -1
		}
		if n := len(core.DefsOf(info, l, iv)); n != 2 {
			return false, " — the loop variable is modified inside the body"
		}
		if l.Cond == nil {
			return false, " — no loop condition"
		}
		condOK := core.Establishes(l.Cond, true, core.CmpFact12(func(a ast.Expr, op token.Token, b ast.Expr) bool {
			if !isIV(a) {
				return false
			}
			if step > 0 {
				return op == token.LSS && isLenSeeks(b)
			}
			return (op == token.GEQ && isConst(b, 0)) || (op == token.GTR && isConst(b, -1))
		})) && isAtom12(l.Cond)
		if !condOK {
			return false, " — the loop condition is not `i < len(c.seeks)` / `i >= 0` alone"
		}
		init := as.Rhs[0]
		startOK := false
		switch {
		case step > 0:
			startOK = isConst(init, 0) || (s.fromPos && (posPlus(init, 0) || posPlus(init, 1)))
		default:
			startOK = lenMinus1(init) || (s.fromPos && (posPlus(init, 0) || posPlus(init, -1)))
		}
		if !startOK {
			return false, " — the scan does not start at c.pos / the first element"
		}
		if s.fromPos && step != s.dir {
			return false, " — the scan runs against the cursor direction"
		}
		return true, ""
	}
	return false, " — not a loop"
}

// isAtom12: the condition is a single comparison (no && / ||), so that its true
// branch is exactly that comparison.
func isAtom12(e ast.Expr) bool {
	be, ok := ast.Unparen(e).(*ast.BinaryExpr)
	return ok && be.Op != token.LAND && be.Op != token.LOR
}
