package rules

import (
	"go/ast"

	"verif/checker/core"
)

// scanKey sorts the tag start offsets with an in-place insertion sort and then
// finds duplicate tag keys by comparing NEIGHBOURS only. Both the canonical
// (sorted) series key and the rejection of duplicate tag keys therefore need the
// sort to cover every tag: an insertion sort never moves an element below its
// lower bound, so a bound other than the first tag leaves a late tag behind an
// ordered prefix (seed C12c: `insertionSort(sortFrom, …)` accepts
// `cpu,b=1,c=2,d=3,b=4`).
func init() {
	extend("C12", "sort-covers-all-tags: the tag sort of models.scanKey (insertionSort) starts at the constant index 0 and ends at the bound the sorted index slice was cut to (`indices[:n]` … `insertionSort(0, n, …, indices)`) — the neighbour-only duplicate test after it and the canonical key rely on the whole tag list being ordered.",
		nil, func(p *core.Prog, r *core.Report, tier string) {
			const rule = "sort-covers-all-tags"
			f := r.Need(p, "models", "scanKey")
			if f == nil {
				return
			}
			info := f.Info()
			calls := core.AllCalls(info, f.Decl.Body, call("models.insertionSort"))
			r.Check(len(calls) >= 1, rule, f.String(), "sort-call:count", f.Pos(), "scanKey sorts the tag indices")
			for _, c := range calls {
				if len(c.Args) != 4 {
					r.Bad(rule, f.String(), "sort-call:signature", p.Pos(c.Pos()), "insertionSort no longer takes (l, r, buf, indices)")
					continue
				}
				lowOK := core.X1IsConstInt(info, c.Args[0], 0)
				// upper bound: the variable the sorted slice was cut to, or len(slice)
				highOK := false
				hi := core.ObjOf(info, c.Args[1])
				if se, ok := core.ResolveLocal(info, f.Decl.Body, c.Args[3]).(*ast.SliceExpr); ok && se.Low == nil && se.High != nil {
					highOK = hi != nil && core.ObjOf(info, se.High) == hi
				}
				if lc, ok := ast.Unparen(c.Args[1]).(*ast.CallExpr); ok && core.Builtin("len")(info, lc) && len(lc.Args) == 1 {
					highOK = core.ObjOf(info, lc.Args[0]) != nil && core.ObjOf(info, lc.Args[0]) == core.ObjOf(info, c.Args[3])
				}
				r.Check(lowOK, rule, f.String(), "lower-bound", p.Pos(c.Pos()), "the sort starts at the first tag (constant 0), got `"+core.ExprStr(c.Args[0])+"`")
				r.Check(highOK, rule, f.String(), "upper-bound", p.Pos(c.Pos()), "the sort ends at the length of the index slice, got `"+core.ExprStr(c.Args[1])+"`")
			}
		})
}
