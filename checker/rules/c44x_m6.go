package rules

import (
	"go/ast"
	"go/types"

	"verif/checker/core"
)

// Strengthening of C44 (m6), driven by the survivors of the fault enumeration.
//
// (request-answered) the property is observed as the HTTP status that comes out
// of AuthenticationHandler: a request that is not handed to the wrapped handler
// must be answered with an error. Every exit of ServeHTTP is preceded by a call
// that is handed the ResponseWriter (the wrapped handler or an error
// responder), and the responders of package http reached that way hand their
// ResponseWriter on on every path. A rejected request that is silently dropped
// leaves the implicit "200 OK".
//
// (sign-out-removes) Storage.DeleteSession removes the session record and its
// key index on every success path; the only exemption is the branch on which
// the looked-up session is nil.
//
// (set-password-stores) UserSvc.SetPassword reports success only after
// Store.Update, and the transaction reports success only after
// Store.SetPassword: otherwise the previous password stays the current one
// although the change was acknowledged.
//
// (failure-propagates-x) see c30x_m6.go.

func init() {
	extend("C44", "(request-answered) every exit of AuthenticationHandler.ServeHTTP is preceded by a call that is handed the ResponseWriter (wrapped handler or error responder), and the module's responders reached from it hand the writer on on every path, so a rejected request never leaves with the implicit 200; (sign-out-removes) Storage.DeleteSession deletes the session record and the key index on every success path except when the looked-up session is nil; (set-password-stores) UserSvc.SetPassword succeeds only through Store.Update and its transaction only through Store.SetPassword; (failure-propagates-x) failure propagation decided path-sensitively in the error variable and inside transaction closures.",
		nil, func(p *core.Prog, r *core.Report, tier string) {
			c44xAnswered(p, r)
			c44xSignOut(p, r)
			c44xSetPassword(p, r)
			propagateXPass(p, r)
		})
}

// ---------------------------------------------------------------- (request-answered)

func isResponseWriter(t types.Type) bool {
	return namedIs(t, "net/http", "ResponseWriter")
}

// handsOn: node n contains a call with the object w among its arguments.
func handsOn(info *types.Info, w types.Object) (core.NodePred, func(n *core.Node) []*ast.CallExpr) {
	calls := func(n *core.Node) []*ast.CallExpr {
		if n.N == nil || w == nil {
			return nil
		}
		var out []*ast.CallExpr
		for _, cl := range core.CallsIn(info, n.N, func(*types.Info, *ast.CallExpr) bool { return true }, core.WalkOpts{}) {
			for _, a := range cl.Args {
				if core.ObjOf(info, a) == w {
					out = append(out, cl)
					break
				}
			}
		}
		return out
	}
	return func(n *core.Node) bool { return len(calls(n)) > 0 }, calls
}

func c44xAnswered(p *core.Prog, r *core.Report) {
	const rule = "request-answered"
	root := r.Need(p, httpPkg, "AuthenticationHandler.ServeHTTP")
	if root == nil {
		return
	}
	type item struct {
		f     *core.Func
		depth int
	}
	seen := map[*core.Func]bool{root: true}
	work := []item{{root, 0}}
	for len(work) > 0 {
		it := work[0]
		work = work[1:]
		f := it.f
		sig, _ := f.Obj.Type().(*types.Signature)
		var w types.Object
		for i := 0; sig != nil && i < sig.Params().Len(); i++ {
			if isResponseWriter(sig.Params().At(i).Type()) {
				w = sig.Params().At(i)
			}
		}
		if !r.Check(w != nil, rule, f.String(), "writer-param:absent", f.Pos(), "has a ResponseWriter parameter") {
			continue
		}
		g, info := f.Graph(), f.Info()
		pred, calls := handsOn(info, w)
		reach := g.ReachFromEntry(pred, nil)
		ok := true
		for _, x := range g.Exits {
			if x.Kind == core.KPanic || !reach[x] || pred(x) {
				continue
			}
			ok = false
			r.Bad(rule, f.String(), "silent-exit", g.Line(x), "the exit at "+g.Line(x)+" is reachable without any call that is handed the ResponseWriter: the request is neither passed to the wrapped handler nor answered with an error, the client sees the implicit 200")
			break
		}
		if ok {
			r.Ok(rule, f.String(), f.Pos(), "every exit is preceded by a call that is handed the ResponseWriter")
		}
		if it.depth >= 3 {
			continue
		}
		// follow the writer into the responders of the module
		for _, n := range g.Select(pred) {
			for _, cl := range calls(n) {
				callee := core.Callee(info, cl)
				cf := p.FuncOf(callee)
				if cf == nil || cf.Decl == nil || cf.Decl.Body == nil || seen[cf] {
					continue
				}
				seen[cf] = true
				r.Saw(cf)
				work = append(work, item{cf, it.depth + 1})
			}
		}
	}
	r.Check(len(seen) >= 3, rule, root.String(), "responders:count", root.Pos(), "the error responders reached from ServeHTTP were followed (unauthorized, UnauthorizedError, InactiveUserError: >= 2 besides ServeHTTP confirmed by reading)")
}

// ---------------------------------------------------------------- (sign-out-removes)

func c44xSignOut(p *core.Prog, r *core.Report) {
	const rule = "sign-out-removes"
	f := r.Need(p, sessionPkg, "Storage.DeleteSession")
	if f == nil {
		return
	}
	g, info := f.Graph(), f.Info()
	var sv types.Object
	for _, n := range g.Select(g.Calling(call("session.Storage.FindSessionByID"))) {
		if as, ok := n.N.(*ast.AssignStmt); ok && len(as.Lhs) == 2 {
			sv = core.ObjOf(info, as.Lhs[0])
		}
	}
	if !r.Check(sv != nil, rule, f.String(), "lookup:absent", f.Pos(), "the session to remove is looked up") {
		return
	}
	exempt := g.NilEdge(func(e ast.Expr) bool { return core.ObjOf(info, e) == sv }, true)
	del := call("session.Store.Delete")
	for _, k := range []struct{ keyFn, what string }{
		{"session.sessionID", "Store.Delete(sessionID(session.ID))"},
		{"session.sessionIndexKey", "Store.Delete(sessionIndexKey(session.Key))"},
	} {
		keyFn := call(k.keyFn)
		pred := func(n *core.Node) bool {
			if n.N == nil {
				return false
			}
			for _, cl := range core.CallsIn(info, n.N, del, core.WalkOpts{}) {
				if len(cl.Args) != 1 {
					continue
				}
				kc := core.AsCall(info, core.ResolveLocal(info, f.Decl.Body, cl.Args[0]), keyFn)
				if kc != nil && len(kc.Args) == 1 && core.BaseObj(info, kc.Args[0]) == sv {
					return true
				}
			}
			return false
		}
		if r.Check(len(g.Select(pred)) >= 1, rule, f.String(), k.what+":absent", f.Pos(), k.what+" is present") {
			core.RuleMustPassN(r, f, g, rule, k.what, pred, exempt)
		}
	}
}

// ---------------------------------------------------------------- (set-password-stores)

func c44xSetPassword(p *core.Prog, r *core.Report) {
	const rule = "set-password-stores"
	f := r.Need(p, tenantPkg, "UserSvc.SetPassword")
	if f == nil {
		return
	}
	core.RuleMustPass(r, f, rule, "Store.Update", call("tenant.Store.Update"), false)
	n := 0
	for _, lg := range f.Graphs()[1:] {
		sp := lg.Calling(call("tenant.Store.SetPassword"))
		if len(lg.Select(sp)) == 0 {
			continue
		}
		n++
		bad := lg.MustPassX(sp, nil)
		where := ""
		if len(bad) > 0 {
			where = lg.Line(bad[0])
		}
		r.Check(len(bad) == 0, rule, f.String(), "transaction-succeeds-without-SetPassword", f.Pos(), "inside the transaction every success exit passes Store.SetPassword "+where)
	}
	r.Check(n >= 1, rule, f.String(), "transaction:absent", f.Pos(), "the hash is written inside a transaction closure")
}
