package rules

import (
	"fmt"
	"go/ast"
	"go/types"
	"sort"

	"verif/checker/core"
)

// Shared rule bodies of the m7 extensions (C26, C38, C39).

// m7MutexFields: the struct fields of type sync.Mutex / sync.RWMutex declared in pkg.
func m7MutexFields(p *core.Prog, pkg string) []*types.Var {
	pk := p.Pkg(pkg)
	if pk == nil {
		return nil
	}
	var out []*types.Var
	sc := pk.Types.Scope()
	names := sc.Names()
	sort.Strings(names)
	for _, nm := range names {
		tn, ok := sc.Lookup(nm).(*types.TypeName)
		if !ok {
			continue
		}
		st, ok := tn.Type().Underlying().(*types.Struct)
		if !ok {
			continue
		}
		for i := 0; i < st.NumFields(); i++ {
			f := st.Field(i)
			if n, ok := f.Type().(*types.Named); ok && n.Obj().Pkg() != nil && n.Obj().Pkg().Path() == "sync" && (n.Obj().Name() == "Mutex" || n.Obj().Name() == "RWMutex") {
				out = append(out, f)
			}
		}
	}
	return out
}

// m7LockOpsOf: mutex fields on which body performs Lock-family operations directly.
func m7LockOpsOf(info *types.Info, body ast.Node) (fields map[*types.Var]bool, onlyLockStmts bool) {
	fields = map[*types.Var]bool{}
	ast.Inspect(body, func(n ast.Node) bool {
		if c, ok := n.(*ast.CallExpr); ok {
			if f, _, ok := core.LockOpOn(info, c); ok && f != nil {
				fields[f] = true
			}
		}
		return true
	})
	onlyLockStmts = false
	if b, ok := body.(*ast.BlockStmt); ok && len(b.List) > 0 {
		onlyLockStmts = true
		for _, s := range b.List {
			es, ok := s.(*ast.ExprStmt)
			if !ok {
				onlyLockStmts = false
				break
			}
			c, ok := ast.Unparen(es.X).(*ast.CallExpr)
			if !ok {
				onlyLockStmts = false
				break
			}
			if _, _, ok := core.LockOpOn(info, c); !ok {
				onlyLockStmts = false
				break
			}
		}
	}
	return
}

// m7LockBalance: for every function of pkgs and every mutex field it operates on
// (directly or through a same-package wrapper made of Lock-family calls only):
// every acquisition is released before the function returns / before it is taken
// again, and every release is preceded by its acquisition. except: function
// name -> reason (hand-over of a held lock that was confirmed by reading).
func m7LockBalance(p *core.Prog, r *core.Report, rule string, pkgs []string, only map[*core.Func]bool, except map[string]string, minSites int) {
	total := 0
	used := map[string]bool{}
	for _, pkg := range pkgs {
		fields := map[*types.Var]bool{}
		for _, f := range m7MutexFields(p, pkg) {
			fields[f] = true
		}
		// wrappers: functions whose body is made of Lock-family calls only
		wrapperOps := map[*types.Func]map[*types.Var]bool{}
		for _, f := range p.Funcs(pkg) {
			if f.Decl == nil || f.Decl.Body == nil || f.Obj == nil {
				continue
			}
			if fs, only := m7LockOpsOf(f.Info(), f.Decl.Body); only {
				wrapperOps[f.Obj.Origin()] = fs
			}
		}
		for _, f := range p.Funcs(pkg) {
			if f.Decl == nil || f.Decl.Body == nil || (only != nil && !only[f]) {
				continue
			}
			if f.Obj != nil && wrapperOps[f.Obj.Origin()] != nil {
				continue // lock / unlock wrapper: checked at its call sites
			}
			info := f.Info()
			ops, _ := m7LockOpsOf(info, f.Decl.Body)
			ast.Inspect(f.Decl.Body, func(n ast.Node) bool {
				if c, ok := n.(*ast.CallExpr); ok {
					if callee := core.Callee(info, c); callee != nil {
						for fv := range wrapperOps[callee.Origin()] {
							ops[fv] = true
						}
					}
				}
				return true
			})
			var mus []*types.Var
			for fv := range ops {
				if fields[fv] {
					mus = append(mus, fv)
				}
			}
			sort.Slice(mus, func(i, j int) bool { return mus[i].Pos() < mus[j].Pos() })
			for _, mu := range mus {
				muName := m7FieldName(mu)
				for gi, g := range f.Graphs() {
					n, bad := g.LockBalanceM7(mu)
					total += n
					key := f.Name + ":" + muName
					for _, b := range bad {
						if why, ok := except[key]; ok {
							used[key] = true
							r.Note("%s: %s %s at %s — exception: %s", rule, f.String(), b.Kind, g.Line(b.Lock), why)
							continue
						}
						if b.Kind == "re-acquired" {
							r.Bad(rule, f.String(), muName+"-re-acquired", g.Line(b.Lock), muName+" acquired here is taken again at "+g.Line(b.At)+" without a release in between: the goroutine deadlocks on itself")
						} else {
							r.Bad(rule, f.String(), muName+"-held-at-exit", g.Line(b.Lock), muName+" acquired here is still held when the function returns at "+g.Line(b.At)+": every later operation that needs the lock blocks for ever")
						}
					}
					// releases without acquisition: the function graph itself and literals invoked in place only
					if gi == 0 || m7InvokedInPlace(f, g) {
						m, un := g.UnpairedReleasesM7(mu)
						total += m
						for _, u := range un {
							if why, ok := except[key]; ok {
								used[key] = true
								r.Note("%s: %s unpaired release at %s — exception: %s", rule, f.String(), g.Line(u.At), why)
								continue
							}
							r.Bad(rule, f.String(), muName+"-released-without-acquire", g.Line(u.At), "this release of "+muName+" is reachable from the function entry without the matching Lock/RLock: unlocking an unlocked mutex is a fatal runtime error (and when another goroutine holds it, its critical section is broken)")
						}
					}
				}
			}
		}
	}
	for k, why := range except {
		if !used[k] {
			r.Bad(rule, k, "stale-exception", "-", "the exception no longer applies: "+why)
		}
	}
	r.Check(total >= minSites, rule, fmt.Sprint(pkgs), "sites:count", "-", fmt.Sprintf("%d acquisitions / releases examined (>= %d confirmed on the reference tree)", total, minSites))
}

func m7FieldName(fv *types.Var) string {
	owner := ""
	if fv.Pkg() != nil {
		sc := fv.Pkg().Scope()
		for _, nm := range sc.Names() {
			if tn, ok := sc.Lookup(nm).(*types.TypeName); ok {
				if st, ok := tn.Type().Underlying().(*types.Struct); ok {
					for i := 0; i < st.NumFields(); i++ {
						if st.Field(i) == fv {
							owner = nm + "."
						}
					}
				}
			}
		}
	}
	return owner + fv.Name()
}

// m7InvokedInPlace: g is the graph of a literal `func(){…}()` called where it is written.
func m7InvokedInPlace(f *core.Func, g *core.Graph) bool {
	found := false
	ast.Inspect(f.Decl.Body, func(n ast.Node) bool {
		switch s := n.(type) {
		case *ast.GoStmt, *ast.DeferStmt:
			return false
		case *ast.CallExpr:
			if fl, ok := ast.Unparen(s.Fun).(*ast.FuncLit); ok && fl.Body == g.Body {
				found = true
			}
		}
		return true
	})
	return found
}

// m7NilPolarity: no dereference of x on a path on which a branch established
// x == nil (a nil test whose polarity is wrong, or a missing early return).
func m7NilPolarity(p *core.Prog, r *core.Report, rule string, funcs []*core.Func, except map[string]string) {
	n := 0
	sort.Slice(funcs, func(i, j int) bool { return funcs[i].String() < funcs[j].String() })
	nf := core.NewNilFlowM7(p)
	for _, f := range funcs {
		ds := nf.Derefs(f)
		for _, d := range ds {
			key := f.Name + ":" + d.Expr
			if why, ok := except[key]; ok {
				r.Note("%s: %s %s after nil test at %s — exception: %s", rule, f.String(), d.How, d.G.Line(d.Test), why)
				continue
			}
			n++
			r.Bad(rule, f.String(), "deref-of-nil:"+d.Expr, d.G.Line(d.At), fmt.Sprintf("%s is reached from the branch of the test at %s on which %s is nil (no store to it in between): nil-pointer panic — the polarity of the test is wrong or the early return is missing", d.How, d.G.Line(d.Test), d.Expr))
		}
	}
	if n == 0 {
		r.Ok(rule, fmt.Sprintf("%d functions", len(funcs)), "-", "no dereference of an expression on a path on which a branch established that it is nil")
	}
}

// ---------------------------------------------------------------- C39 extension

func init() {
	extend("C39", "(5) lock-balance, for every function of tsdb, tsdb/engine/tsm1 and tsdb/index/tsi1 and every sync.Mutex/RWMutex struct field it operates on (directly or through a wrapper made of Lock-family calls only, e.g. FileStore.wlock/wunlock): every Lock/RLock is released — in place or by a defer registered after it — on every path before the function returns and before the same mutex is taken again, and every Unlock/RUnlock (also deferred) is preceded by its acquisition on every path (exceptions: wrappers; a temporary release that is re-acquired before every exit); "+
		"(7) stop-before-wait: Engine.disableLevelCompactions / disableSnapshotCompactions reach sync.WaitGroup.Wait only after close(Engine.done / snapDone) or a receive from a copy of that channel (somebody else closed it), and Shard.closeNoLock passes close(metricUpdater.closing) on every path on which the engine and the updater exist — closeWait then waits for the updater goroutine; without the stop signal the wait never returns; "+
		"(8) wg-pairing, for every `go` statement of the three packages whose goroutine (function literal, or same-package function started with go) calls sync.WaitGroup.Done: the Done is deferred or passed on every path of the goroutine, the go statement is reached only through a WaitGroup.Add, and from every WaitGroup.Add every path to an exit of the function passes such a go statement (an Add without its goroutine makes Wait block for ever; a Done without Add panics); "+
		"(9) index-loop-bound: no `for` loop of the three packages runs while i <= len(s) and indexes s[i] unconditionally (panic in the last iteration); "+
		"(6) nil-test-polarity, for every function of the three packages: no field access through, method call on a nil interface / through a receiver-using method of, or call of an expression x is reachable from a branch that established x == nil without a store to x (for a field path: without a call that may store to the field) — such a path panics with a nil dereference.",
		nil, func(p *core.Prog, r *core.Report, tier string) {
			m7LockBalance(p, r, "lock-balance", []string{tsdbP, tsm1, tsi1}, nil, m7C39LockExceptions, 300)
			var fs []*core.Func
			for _, pkg := range []string{tsdbP, tsm1, tsi1} {
				for _, f := range p.Funcs(pkg) {
					if f.Decl != nil && f.Decl.Body != nil {
						fs = append(fs, f)
					}
				}
			}
			m7NilPolarity(p, r, "nil-test-polarity", fs, m7C39NilExceptions)
			m7LoopBound(p, r, "index-loop-bound", fs)
			m7StopBeforeWait(p, r)
			m7WaitGroupPairing(p, r, []string{tsdbP, tsm1, tsi1})
		})
}

var m7C39LockExceptions = map[string]string{
	"TSMReader.BatchDelete:TSMReader.deleteMu": "hand-over by design: BatchDelete takes deleteMu and returns the batchDelete object whose Commit / Rollback release it (\"callers must either Commit or Rollback\")",
	"batchDelete.Commit:TSMReader.deleteMu":    "releases the deleteMu taken by TSMReader.BatchDelete, which created this object",
	"batchDelete.Rollback:TSMReader.deleteMu":  "releases the deleteMu taken by TSMReader.BatchDelete, which created this object",
}

var m7C39NilExceptions = map[string]string{}

// m7StopBeforeWait: a goroutine group is told to stop before it is waited for.
func m7StopBeforeWait(p *core.Prog, r *core.Report) {
	const rule = "stop-before-wait"
	wait := call("sync.WaitGroup.Wait")
	pk := p.Pkg(tsm1)
	for _, it := range []struct{ fn, ch string }{{"Engine.disableLevelCompactions", "done"}, {"Engine.disableSnapshotCompactions", "snapDone"}} {
		f := r.Need(p, tsm1, it.fn)
		if f == nil || pk == nil {
			continue
		}
		fCh := core.LookupField(pk.Types, "Engine", it.ch)
		if !r.Check(fCh != nil, "anchor", tsm1+".Engine."+it.ch, "unresolved", "-", "field resolved") {
			continue
		}
		info, g := f.Info(), f.Inline(wait).G // same-package helpers and local closures spliced in
		// the channel field or a local assigned only from it
		isCh := func(e ast.Expr) bool {
			e = ast.Unparen(e)
			if core.FieldOf(info, e) == fCh {
				return true
			}
			o, ok := core.ObjOf(info, e).(*types.Var)
			if !ok || o.IsField() {
				return false
			}
			as := core.X1AssignmentsTo(info, f.Decl.Body, o)
			if len(as) == 0 {
				return false
			}
			for _, a := range as {
				if a.Rhs == nil || core.FieldOf(info, a.Rhs) != fCh {
					return false
				}
			}
			return true
		}
		signal := func(n *core.Node) bool {
			if n.N == nil {
				return false
			}
			hit := false
			core.Walk(n.N, core.WalkOpts{}, func(x ast.Node) bool {
				switch t := x.(type) {
				case *ast.CallExpr:
					if core.Builtin("close")(info, t) && len(t.Args) == 1 && isCh(t.Args[0]) {
						hit = true
					}
				case *ast.UnaryExpr:
					if t.Op.String() == "<-" && isCh(t.X) {
						hit = true
					}
				}
				return true
			})
			return hit
		}
		// a receive inside a select with default does not block and proves nothing: only plain statements count
		plain := func(n *core.Node) bool {
			if !signal(n) {
				return false
			}
			if _, isComm := n.N.(*ast.CommClause); isComm {
				return false
			}
			inSelect := false
			ast.Inspect(f.Decl.Body, func(x ast.Node) bool {
				if cc, ok := x.(*ast.CommClause); ok && cc.Comm != nil && cc.Comm == n.N {
					inSelect = true
				}
				return true
			})
			return !inSelect
		}
		ws := g.Select(g.Calling(wait))
		if r.Check(len(ws) >= 1 && len(g.Select(plain)) >= 1, rule, f.String(), "wait/close:absent", f.Pos(), "WaitGroup.Wait and close(Engine."+it.ch+") found") {
			for _, w := range ws {
				r.Check(g.OnlyViaNodes(w, plain), rule, f.String(), "wait-without-stop", g.Line(w),
					"the compaction goroutines are waited for only after Engine."+it.ch+" was closed (here, or by the caller whose close is awaited by a receive from the channel): without the stop signal they never leave their loop and Wait blocks for ever")
			}
		}
	}
	if f := r.Need(p, tsdbP, "Shard.closeNoLock"); f != nil {
		tp := p.Pkg(tsdbP)
		fClosing := core.LookupField(tp.Types, "ticker", "closing")
		fEngine := core.LookupField(tp.Types, "Shard", "_engine")
		fUpd := core.LookupField(tp.Types, "Shard", "metricUpdater")
		if r.Check(fClosing != nil && fEngine != nil && fUpd != nil, "anchor", "tsdb.ticker.closing / Shard.{_engine,metricUpdater}", "unresolved", "-", "fields resolved") {
			info, g := f.Info(), f.Graph()
			closes := g.X1CallingWith(core.Builtin("close"), func(c *ast.CallExpr) bool { return len(c.Args) == 1 && core.FieldOf(info, c.Args[0]) == fClosing })
			_ = fEngine
			// the field itself or a single-definition temporary holding it
			through := func(fv *types.Var) func(ast.Expr) bool {
				return func(e ast.Expr) bool {
					e = ast.Unparen(e)
					return core.FieldOf(info, e) == fv || core.FieldOf(info, core.ResolveLocal(info, f.Decl.Body, e)) == fv
				}
			}
			absent := core.OrEdge(g.NilEdge(through(fEngine), true), g.NilEdge(through(fUpd), true))
			core.RuleMustPassN(r, f, g, rule, "close(metricUpdater.closing)", closes, absent)
			// and before the engine is closed (Engine.Close waits for compactions; the updater must not be left running against a closed engine)
		}
	}
	if f := r.Need(p, tsdbP, "Shard.closeWait"); f != nil {
		core.RuleHasCall(r, f, rule, "metricUpdater.wg.Wait", wait)
	}
}

// m7WaitGroupPairing: Add(1) ... go func(){ defer Done() }() stay paired.
func m7WaitGroupPairing(p *core.Prog, r *core.Report, pkgs []string) {
	const rule = "wg-pairing"
	add := call("sync.WaitGroup.Add")
	done := call("sync.WaitGroup.Done")
	spawns := 0
	for _, pkg := range pkgs {
		for _, f := range p.Funcs(pkg) {
			if f.Decl == nil || f.Decl.Body == nil {
				continue
			}
			info := f.Info()
			// the goroutine bodies that call Done
			type spawn struct {
				stmt *ast.GoStmt
				g    *core.Graph // graph of the goroutine body
			}
			var sps []spawn
			ast.Inspect(f.Decl.Body, func(n ast.Node) bool {
				gs, ok := n.(*ast.GoStmt)
				if !ok {
					return true
				}
				var bg *core.Graph
				if fl, ok := ast.Unparen(gs.Call.Fun).(*ast.FuncLit); ok {
					bg = f.LitGraph(fl)
				} else if callee := p.FuncOf(core.Callee(info, gs.Call)); callee != nil && callee.Pkg == f.Pkg && callee.Decl.Body != nil {
					bg = callee.Graph()
				} else if id, ok := ast.Unparen(gs.Call.Fun).(*ast.Ident); ok {
					if v, isVar := core.ObjOf(info, id).(*types.Var); isVar {
						if fl := core.LocalLit(info, f.Decl.Body, v); fl != nil {
							bg = f.LitGraph(fl)
						}
					}
				}
				if bg == nil || len(core.AllCalls(bg.Info, bg.Body, done)) == 0 {
					return true
				}
				sps = append(sps, spawn{gs, bg})
				return true
			})
			nGo := 0
			ast.Inspect(f.Decl.Body, func(n ast.Node) bool {
				if _, ok := n.(*ast.GoStmt); ok {
					nGo++
				}
				return true
			})
			if nGo == 0 {
				// an Add in a function that starts no goroutine itself is outside this rule (counter handed to another function, e.g. TSMReader.Ref / Unref)
				continue
			}
			isSpawn := func(n *core.Node) bool {
				for _, sp := range sps {
					if n.N == ast.Node(sp.stmt) {
						return true
					}
				}
				return false
			}
			for _, sp := range sps {
				spawns++
				bg := sp.g
				bad := bg.MustPass(core.AnyOf(bg.Deferring(done), bg.Calling(done)), nil)
				r.Check(len(bad) == 0, rule, f.String(), "goroutine-exit-without-Done", p.Pos(sp.stmt.Pos()),
					"every path of the goroutine passes (or has deferred) WaitGroup.Done: otherwise the Wait of whoever stops it never returns")
			}
			for _, g := range f.Graphs() {
				gos := g.Select(isSpawn)
				adds := g.CallingDirect(add)
				for _, gn := range gos {
					r.Check(g.OnlyViaNodes(gn, adds), rule, f.String(), "go-without-Add", g.Line(gn),
						"a goroutine that calls WaitGroup.Done is started only after WaitGroup.Add: otherwise Done drives the counter negative (panic) or Wait returns before the goroutine ended")
				}
				for _, an := range g.Select(adds) {
					bad := ""
					for x := range g.Reach(core.After(an, nil), isSpawn, nil) {
						if len(x.Succ) == 0 && x.Kind != core.KPanic {
							bad = g.Line(x)
						}
					}
					r.Check(bad == "", rule, f.String(), "Add-without-goroutine", g.Line(an),
						"from WaitGroup.Add every path to an exit of the function starts the goroutine that calls Done: a path that leaves the counter raised makes the following Wait block for ever "+bad)
				}
			}
		}
	}
	r.Check(spawns >= 10, rule, fmt.Sprint(pkgs), "spawns:count", "-", fmt.Sprintf("%d goroutines with WaitGroup.Done examined (>= 10 confirmed by reading)", spawns))
}

// m7LoopBound: `for i := …; i <= len(s); i++ { … s[i] … }` indexes one past the
// end in its last iteration (index-out-of-range panic). Reported when s[i]
// (same s, same i) is evaluated unconditionally in the loop body: in a top-level
// statement of the body, not behind a short-circuit operator.
func m7LoopBound(p *core.Prog, r *core.Report, rule string, funcs []*core.Func) {
	n, loops := 0, 0
	sort.Slice(funcs, func(i, j int) bool { return funcs[i].String() < funcs[j].String() })
	for _, f := range funcs {
		if f.Decl == nil || f.Decl.Body == nil {
			continue
		}
		info := f.Info()
		ast.Inspect(f.Decl.Body, func(x ast.Node) bool {
			fs, ok := x.(*ast.ForStmt)
			if !ok || fs.Cond == nil {
				return true
			}
			be, ok := ast.Unparen(fs.Cond).(*ast.BinaryExpr)
			if !ok {
				return true
			}
			var idx, bound ast.Expr
			switch be.Op.String() {
			case "<", "<=":
				idx, bound = be.X, be.Y
			case ">", ">=":
				idx, bound = be.Y, be.X
			default:
				return true
			}
			lc, ok := ast.Unparen(bound).(*ast.CallExpr)
			if !ok || !core.Builtin("len")(info, lc) || len(lc.Args) != 1 {
				return true
			}
			iv := core.ObjOf(info, idx)
			if iv == nil {
				return true
			}
			loops++
			if be.Op.String() == "<" || be.Op.String() == ">" {
				return true
			}
			seq := lc.Args[0]
			hit := ""
			var walk func(e ast.Node)
			walk = func(e ast.Node) {
				if e == nil || hit != "" {
					return
				}
				switch t := e.(type) {
				case *ast.FuncLit, *ast.BlockStmt:
					return
				case *ast.BinaryExpr:
					if t.Op.String() == "&&" || t.Op.String() == "||" {
						walk(t.X)
						return
					}
				case *ast.IndexExpr:
					if core.SameExpr(info, t.X, seq) && core.ObjOf(info, t.Index) == iv {
						hit = p.Pos(t.Pos())
						return
					}
				case *ast.IfStmt:
					walk(t.Init)
					walk(t.Cond)
					return
				case *ast.ForStmt, *ast.RangeStmt, *ast.SwitchStmt, *ast.TypeSwitchStmt, *ast.SelectStmt:
					return
				}
				ast.Inspect(e, func(c ast.Node) bool {
					if c == e {
						return true
					}
					if c != nil {
						walk(c)
					}
					return false
				})
			}
			for _, st := range fs.Body.List {
				walk(st)
			}
			if hit != "" {
				n++
				r.Bad(rule, f.String(), "index-past-end:"+core.ExprStr(seq), p.Pos(fs.Pos()), "the loop runs while "+core.ExprStr(idx)+" <= len("+core.ExprStr(seq)+") and evaluates "+core.ExprStr(seq)+"["+core.ExprStr(idx)+"] unconditionally at "+hit+": the last iteration indexes one past the end (panic)")
			}
			return true
		})
	}
	if n == 0 {
		r.Ok(rule, fmt.Sprintf("%d functions", len(funcs)), "-", fmt.Sprintf("%d index loops bounded by len(s): none runs to i == len(s) while indexing s[i]", loops))
	}
}
