package rules

import (
	"fmt"
	"go/ast"
	"go/token"
	"go/types"
	"sort"
	"strings"

	"verif/checker/core"
)

func init() {
	register(&Prop{
		ID:       "C18",
		Patterns: []string{"./v1/services/meta", "./v1/coordinator"},
		Level:    "other",
		Explanation: "Necessary-condition rules for shard-group routing and metadata reload, decided on resolved structure (fields, callees, CFG paths): " +
			"(marshal-field-coverage) for Data, DatabaseInfo, RetentionPolicyInfo, ShardGroupInfo, ShardInfo, ShardOwner every field is written by marshal into a protobuf field that unmarshal reads back into the same field; nested element codecs are invoked (marshal-chain); " +
			"(binary-codec) MarshalBinary/UnmarshalBinary wrap marshal/unmarshal, snapshot stores the marshalled bytes under the key that load reads, Client.commit persists before publishing cacheData and never publishes after a failed snapshot; " +
			"(time-codec) MarshalTime maps only the zero time to 0, UnmarshalTime maps only 0 to the zero time, and in ShardGroupInfo.unmarshal every field that Contains() reads (StartTime, EndTime) takes UnmarshalTime(x) only under x != 0 and the Unix epoch under x == 0, so a bound at the epoch survives a reload; " +
			"(interval-predicates) Contains is exactly Start <= t < End and Overlaps exactly Start <= max && min < End; " +
			"(create-shard-group) Data.CreateShardGroup appends only when no live group contains the timestamp, takes start from timestamp.Truncate(ShardGroupDuration) and end from start.Add(ShardGroupDuration), clamps end against MaxNanoTime before storing it, clips against live (non-deleted) groups only in the direction that keeps the timestamp inside, stores the final values, and sorts after the append; Client.CreateShardGroupWithShards commits the change; " +
			"(group-lookup) RetentionPolicyInfo.ShardGroupByTimestamp returns an element only if it Contains the timestamp and is not deleted; ShardGroupsByTimeRange (Data and Client) skips a group only if deleted or not overlapping [min,max] in that argument order; " +
			"(routing) sgList.ShardGroupAt searches on EndTime.After(t) over a list sorted when needsSort, returns an element only after StartTime <= t or Contains(t) was established; sgList.Add keeps items/needsSort/earliest/latest; MapShards maps a point to sg.ShardFor(p) of list.ShardGroupAt(p.Time()) and creates groups for p.Time().",
		NotCovered:  "the truncation arithmetic and the numeric values of clamped/clipped bounds, non-overlap of groups as a value property over histories, protobuf wire encoding, behaviour of sort.Search on an unsorted or overlapping list beyond the fallback structure.",
		Assumptions: []string{"proto getters GetX read field X", "conditions are decomposed through &&, || and ! only"},
		Run:         runC18,
	})
}

const metaInternal = "v1/services/meta/internal"

func runC18(p *core.Prog, r *core.Report, tier string) {
	c18Codec(p, r)
	c18BinaryCodec(p, r)
	c18TimeCodec(p, r)
	c18Intervals(p, r)
	c18Create(p, r)
	c18Lookup(p, r)
	c18Routing(p, r)
}

// ---------------------------------------------------------------- E4c marshal / unmarshal field coverage

type codecSpecRW5 struct {
	typ        string
	derived    map[string]string // Go field -> reason it is not serialised
	legacyRead map[string]string // pb field read by unmarshal without being written by marshal -> reason
	constWrite map[string]string // pb field written from a constant -> reason
}

var c18Codecs = []codecSpecRW5{
	{typ: "Data",
		derived:    map[string]string{"adminUserExists": "cache recomputed by hasAdminUser() in unmarshal"},
		constWrite: map[string]string{"MaxNodeID": "written as 0 for reverse compatibility"}},
	{typ: "DatabaseInfo"},
	{typ: "RetentionPolicyInfo"},
	{typ: "ShardGroupInfo"},
	{typ: "ShardInfo", legacyRead: map[string]string{"OwnerIDs": "deprecated wire field still converted to Owners"}},
	{typ: "ShardOwner"},
}

// viaLocalsRW5 collects what `collect` finds in e and in the defining expressions
// of the local variables e mentions (transitively, bounded).
func viaLocalsRW5(info *types.Info, root ast.Node, e ast.Node, depth int, seen map[types.Object]bool, collect func(ast.Node)) {
	if e == nil {
		return
	}
	collect(e)
	if depth == 0 {
		return
	}
	ast.Inspect(e, func(n ast.Node) bool {
		id, ok := n.(*ast.Ident)
		if !ok {
			return true
		}
		v, ok := info.Uses[id].(*types.Var)
		if !ok || v.IsField() || v.Pkg() == nil || v.Parent() == v.Pkg().Scope() || seen[v] {
			return true
		}
		seen[v] = true
		for _, d := range core.DefsOf(info, root, v) {
			if d.Rhs != nil {
				viaLocalsRW5(info, root, d.Rhs, depth-1, seen, collect)
			}
		}
		return true
	})
}

func ownFieldsRW5(st *types.Struct) map[*types.Var]bool {
	m := map[*types.Var]bool{}
	for i := 0; i < st.NumFields(); i++ {
		m[st.Field(i)] = true
	}
	return m
}

func keysRW5(m map[string]bool) string {
	var ks []string
	for k := range m {
		ks = append(ks, k)
	}
	sort.Strings(ks)
	return strings.Join(ks, ",")
}

func c18Codec(p *core.Prog, r *core.Report) {
	const rule = "marshal-field-coverage"
	pk := p.Pkg(metaP)
	if pk == nil {
		r.Bad("anchor", metaP, "unresolved", "-", "package not loaded")
		return
	}
	for _, spec := range c18Codecs {
		goSt := core.StructOf(pk.Types, spec.typ)
		m := r.Need(p, metaP, spec.typ+".marshal")
		u := r.Need(p, metaP, spec.typ+".unmarshal")
		if goSt == nil || m == nil || u == nil {
			r.Check(goSt != nil, "anchor", metaP+"."+spec.typ, "unresolved", "-", "struct resolved")
			continue
		}
		construct := metaP + "." + spec.typ
		// pb struct = element type of marshal's result
		var pbNamed *types.Named
		if sig, ok := m.Obj.Type().(*types.Signature); ok && sig.Results().Len() == 1 {
			if pt, ok := sig.Results().At(0).Type().(*types.Pointer); ok {
				pbNamed, _ = pt.Elem().(*types.Named)
			}
		}
		if !r.Check(pbNamed != nil, "anchor", construct+".marshal", "result-type", m.Pos(), "marshal returns a pointer to a protobuf struct") {
			continue
		}
		pbSt, _ := pbNamed.Underlying().(*types.Struct)
		if pbSt == nil {
			r.Bad("anchor", construct+".marshal", "result-type", m.Pos(), "protobuf type is not a struct")
			continue
		}
		goOwn, pbOwn := ownFieldsRW5(goSt), ownFieldsRW5(pbSt)
		pbByName := map[string]*types.Var{}
		for f := range pbOwn {
			pbByName[f.Name()] = f
		}

		// ---- marshal: pb field -> Go fields its value reads
		mi := m.Info()
		goFieldsOf := func(e ast.Node) map[string]bool {
			out := map[string]bool{}
			viaLocalsRW5(mi, m.Decl.Body, e, 3, map[types.Object]bool{}, func(n ast.Node) {
				for f := range core.FieldsRead(mi, n) {
					if goOwn[f] {
						out[f.Name()] = true
					}
				}
			})
			return out
		}
		written := map[string]map[string]bool{} // pb field -> Go fields
		addW := func(pbf string, e ast.Node) {
			if written[pbf] == nil {
				written[pbf] = map[string]bool{}
			}
			for k := range goFieldsOf(e) {
				written[pbf][k] = true
			}
		}
		ast.Inspect(m.Decl.Body, func(n ast.Node) bool {
			switch s := n.(type) {
			case *ast.CompositeLit:
				if nt, ok := mi.TypeOf(s).(*types.Named); ok && nt.Obj() == pbNamed.Obj() {
					for _, el := range s.Elts {
						if kv, ok := el.(*ast.KeyValueExpr); ok {
							if id, ok := kv.Key.(*ast.Ident); ok {
								if v, ok := mi.Uses[id].(*types.Var); ok && pbOwn[v] {
									addW(v.Name(), kv.Value)
								}
							}
						}
					}
				}
			case *ast.AssignStmt:
				for i, l := range s.Lhs {
					base := l
					for {
						switch t := base.(type) {
						case *ast.IndexExpr:
							base = t.X
							continue
						case *ast.ParenExpr:
							base = t.X
							continue
						case *ast.StarExpr:
							base = t.X
							continue
						}
						break
					}
					if v := core.FieldOf(mi, base); v != nil && pbOwn[v] {
						if len(s.Lhs) == len(s.Rhs) {
							addW(v.Name(), s.Rhs[i])
						} else if len(s.Rhs) == 1 {
							addW(v.Name(), s.Rhs[0])
						}
					}
				}
			}
			return true
		})

		// ---- unmarshal: Go field -> pb fields its value reads
		ui := u.Info()
		pbFieldsOf := func(e ast.Node) map[string]bool {
			out := map[string]bool{}
			viaLocalsRW5(ui, u.Decl.Body, e, 3, map[types.Object]bool{}, func(n ast.Node) {
				ast.Inspect(n, func(x ast.Node) bool {
					switch t := x.(type) {
					case *ast.SelectorExpr:
						if v := core.FieldOf(ui, t); v != nil && pbOwn[v] {
							out[v.Name()] = true
						}
					case *ast.CallExpr:
						if fn := core.Callee(ui, t); fn != nil && strings.HasPrefix(fn.Name(), "Get") {
							if sig, ok := fn.Type().(*types.Signature); ok && sig.Recv() != nil {
								rt := sig.Recv().Type()
								if pt, ok := rt.(*types.Pointer); ok {
									rt = pt.Elem()
								}
								if nt, ok := rt.(*types.Named); ok && nt.Obj() == pbNamed.Obj() {
									if f := pbByName[strings.TrimPrefix(fn.Name(), "Get")]; f != nil {
										out[f.Name()] = true
									}
								}
							}
						}
					}
					return true
				})
			})
			return out
		}
		readBack := map[string]map[string]bool{} // Go field -> pb fields
		ast.Inspect(u.Decl.Body, func(n ast.Node) bool {
			s, ok := n.(*ast.AssignStmt)
			if !ok {
				return true
			}
			for i, l := range s.Lhs {
				base := l
				for {
					switch t := base.(type) {
					case *ast.IndexExpr:
						base = t.X
						continue
					case *ast.ParenExpr:
						base = t.X
						continue
					case *ast.StarExpr:
						base = t.X
						continue
					}
					break
				}
				v := core.FieldOf(ui, base)
				if v == nil || !goOwn[v] {
					continue
				}
				if readBack[v.Name()] == nil {
					readBack[v.Name()] = map[string]bool{}
				}
				var rhs ast.Node
				if len(s.Lhs) == len(s.Rhs) {
					rhs = s.Rhs[i]
				} else if len(s.Rhs) == 1 {
					rhs = s.Rhs[0]
				}
				for k := range pbFieldsOf(rhs) {
					readBack[v.Name()][k] = true
				}
			}
			return true
		})

		// ---- obligations
		n := 0
		for i := 0; i < goSt.NumFields(); i++ {
			f := goSt.Field(i).Name()
			if why, ok := spec.derived[f]; ok {
				r.Ok(rule, construct+"."+f, m.Pos(), "exception: "+why)
				continue
			}
			n++
			w := map[string]bool{}
			for pbf, gs := range written {
				if gs[f] {
					w[pbf] = true
				}
			}
			rb := readBack[f]
			if !r.Check(len(w) > 0, rule, construct+"."+f, "not-marshalled", m.Pos(), "marshal writes the field into protobuf field(s) "+keysRW5(w)) {
				continue
			}
			if !r.Check(len(rb) > 0, rule, construct+"."+f, "not-unmarshalled", u.Pos(), "unmarshal assigns the field from protobuf field(s) "+keysRW5(rb)) {
				continue
			}
			okPair := true
			for pbf := range w {
				if !rb[pbf] {
					okPair = false
					r.Bad(rule, construct+"."+f, "written-to-"+pbf+"-not-read-back", u.Pos(), fmt.Sprintf("marshal stores %s in pb.%s but unmarshal fills %s from {%s}", f, pbf, f, keysRW5(rb)))
				}
			}
			for pbf := range rb {
				if !w[pbf] {
					if why, ok := spec.legacyRead[pbf]; ok {
						r.Ok(rule, construct+"."+f, u.Pos(), "exception: pb."+pbf+" "+why)
						continue
					}
					okPair = false
					r.Bad(rule, construct+"."+f, "read-from-"+pbf+"-never-written", u.Pos(), fmt.Sprintf("unmarshal fills %s from pb.%s which marshal does not write from %s (marshal writes {%s})", f, pbf, f, keysRW5(w)))
				}
			}
			if okPair {
				r.Ok(rule, construct+"."+f, m.Pos(), fmt.Sprintf("%s -> pb{%s} -> %s", f, keysRW5(w), f))
			}
		}
		for pbf, gs := range written {
			if len(gs) == 0 {
				why, ok := spec.constWrite[pbf]
				r.Check(ok, rule, construct+".marshal", "pb."+pbf+"-from-no-field", m.Pos(), "pb."+pbf+" is written without reading a field: "+why)
			}
		}
		r.Check(n >= 1, rule, construct, "fields:absent", m.Pos(), fmt.Sprintf("%d serialised field(s)", n))

		// ---- marshal-chain: element codecs are invoked
		for i := 0; i < goSt.NumFields(); i++ {
			ft := goSt.Field(i).Type()
			sl, ok := ft.(*types.Slice)
			if !ok {
				continue
			}
			nt, ok := sl.Elem().(*types.Named)
			if !ok || nt.Obj().Pkg() != pk.Types {
				continue
			}
			en := nt.Obj().Name()
			if p.Func(metaP, en+".marshal") == nil || p.Func(metaP, en+".unmarshal") == nil {
				continue
			}
			r.Check(core.HasCall(m, call(metaP+"."+en+".marshal")), "marshal-chain", construct+".marshal", en+".marshal:absent", m.Pos(), "elements of "+goSt.Field(i).Name()+" are marshalled by "+en+".marshal")
			r.Check(core.HasCall(u, call(metaP+"."+en+".unmarshal")), "marshal-chain", construct+".unmarshal", en+".unmarshal:absent", u.Pos(), "elements of "+goSt.Field(i).Name()+" are unmarshalled by "+en+".unmarshal")
		}
	}
}

// ---------------------------------------------------------------- persistence wrappers

func c18BinaryCodec(p *core.Prog, r *core.Report) {
	const rule = "binary-codec"
	if f := r.Need(p, metaP, "Data.MarshalBinary"); f != nil {
		info := f.Info()
		ok := false
		for _, c := range core.AllCalls(info, f.Decl.Body, call("*protobuf/proto.Marshal")) {
			if len(c.Args) == 1 && core.AsCall(info, core.ResolveLocal(info, f.Decl.Body, c.Args[0]), call(metaP+".Data.marshal")) != nil {
				ok = true
			}
		}
		r.Check(ok, rule, f.String(), "proto.Marshal(data.marshal())", f.Pos(), "MarshalBinary encodes data.marshal()")
		core.RuleMustPass(r, f, rule, "Data.marshal", call(metaP+".Data.marshal"), false)
	}
	if f := r.Need(p, metaP, "Data.UnmarshalBinary"); f != nil {
		um := call("*protobuf/proto.Unmarshal")
		core.RuleOrder(r, f, rule, []string{"proto.Unmarshal", "Data.unmarshal"}, []core.Matcher{um, call(metaP + ".Data.unmarshal")})
		core.RuleMustPass(r, f, rule, "Data.unmarshal", call(metaP+".Data.unmarshal"), false)
		core.RuleNotAfterFailure(r, f, rule, "proto.Unmarshal", um, "Data.unmarshal", call(metaP+".Data.unmarshal"))
		core.RuleErrorsUsed(r, f, rule, "proto.Unmarshal", um, false, 1)
	}
	pk := p.Pkg(metaP)
	var keyVar, bucketVar types.Object
	if pk != nil {
		keyVar = pk.Types.Scope().Lookup("metadataKey")
		bucketVar = pk.Types.Scope().Lookup("BucketName")
	}
	r.Check(keyVar != nil && bucketVar != nil, "anchor", metaP+".metadataKey/BucketName", "unresolved", "-", "storage key variables resolved")
	if f := r.Need(p, metaP, "snapshot"); f != nil && keyVar != nil {
		info := f.Info()
		// d is the MarshalBinary result; Put(metadataKey, d) inside the Update closure
		good, nput := false, 0
		for _, c := range core.AllCalls(info, f.Decl.Body, call("kv.Bucket.Put")) {
			nput++
			if len(c.Args) == 2 && core.ObjOf(info, c.Args[0]) == keyVar {
				v := core.ObjOf(info, c.Args[1])
				for _, d := range core.DefsOf(info, f.Decl.Body, v) {
					if d.Rhs != nil && core.AsCall(info, d.Rhs, call(metaP+".Data.MarshalBinary")) != nil && d.Index == 0 {
						good = len(core.DefsOf(info, f.Decl.Body, v)) == 1
					}
				}
			}
		}
		r.Check(good && nput == 1, rule, f.String(), "Put(metadataKey, MarshalBinary())", f.Pos(), "snapshot stores exactly the bytes of data.MarshalBinary() under metadataKey")
		for _, c := range core.AllCalls(info, f.Decl.Body, call("kv.Tx.Bucket")) {
			r.Check(len(c.Args) == 1 && core.ObjOf(info, c.Args[0]) == bucketVar, rule, f.String(), "bucket", p.Pos(c.Pos()), "snapshot writes into BucketName")
		}
		core.RulePrecede(r, f, rule, "Data.MarshalBinary", call(metaP+".Data.MarshalBinary"), "kv.Store.Update", call("kv.Store.Update"))
		core.RuleNotAfterFailure(r, f, rule, "Data.MarshalBinary", call(metaP+".Data.MarshalBinary"), "kv.Store.Update", call("kv.Store.Update"))
		core.RuleErrorsUsed(r, f, rule, "MarshalBinary/Update/Put/Bucket", call(metaP+".Data.MarshalBinary", "kv.Store.Update", "kv.Bucket.Put", "kv.Tx.Bucket"), false, 4)
	}
	if f := r.Need(p, metaP, "Client.load"); f != nil && keyVar != nil {
		info := f.Info()
		good := false
		for _, c := range core.AllCalls(info, f.Decl.Body, call(metaP+".Data.UnmarshalBinary")) {
			if len(c.Args) == 1 {
				v := core.ObjOf(info, c.Args[0])
				if d, ok := core.SingleDef(info, f.Decl.Body, v); ok && d.Rhs != nil && d.Index == 0 {
					if gc := core.AsCall(info, d.Rhs, call("kv.Bucket.Get")); gc != nil && len(gc.Args) == 1 && core.ObjOf(info, gc.Args[0]) == keyVar {
						good = true
					}
				}
			}
		}
		r.Check(good, rule, f.String(), "UnmarshalBinary(Get(metadataKey))", f.Pos(), "load decodes the bytes stored under metadataKey into cacheData")
		for _, c := range core.AllCalls(info, f.Decl.Body, call("kv.Tx.Bucket")) {
			r.Check(len(c.Args) == 1 && core.ObjOf(info, c.Args[0]) == bucketVar, rule, f.String(), "bucket", p.Pos(c.Pos()), "load reads from BucketName")
		}
		core.RuleErrorsUsed(r, f, rule, "UnmarshalBinary/View/Bucket", call(metaP+".Data.UnmarshalBinary", "kv.Store.View", "kv.Tx.Bucket"), false, 3)
	}
	if f := r.Need(p, metaP, "Client.commit"); f != nil {
		g := f.Graph()
		cache := core.LookupField(f.Pkg.Types, "Client", "cacheData")
		snap := call(metaP + ".snapshot")
		stores := g.Select(g.Assigning(cache))
		if r.Check(cache != nil && len(stores) >= 1, rule, f.String(), "cacheData-store:absent", f.Pos(), "commit publishes the new data") {
			bad := g.NotReachableUnless(g.Assigning(cache), g.Calling(snap), nil)
			r.Check(len(bad) == 0 && len(g.Select(g.Calling(snap))) >= 1, rule, f.String(), "snapshot<cacheData-store", g.Line(stores[0]), "the metadata is persisted before it becomes the in-memory state")
			okF := false
			for _, n := range g.Select(g.Calling(snap)) {
				if fail, _, has := g.ErrEdges(n); has {
					okF = true
					reach := g.Reach([]*core.Node{fail.To}, nil, nil)
					for _, s := range stores {
						if reach[s] {
							okF = false
						}
					}
				}
			}
			r.Check(okF, rule, f.String(), "cacheData-store-after-failed-snapshot", g.Line(stores[0]), "a failed snapshot never publishes the data")
		}
		core.RuleErrorsUsed(r, f, rule, "snapshot", snap, false, 1)
	}
	if f := r.Need(p, metaP, "Client.CreateShardGroupWithShards"); f != nil {
		info, g := f.Info(), f.Graph()
		create := call(metaP + ".createShardGroup")
		commit := call(metaP + ".Client.commit")
		// returning an already existing group needs no commit
		existing := core.EdgeEstablishing(func(a ast.Expr, v bool) bool {
			x, nonNilOnTrue, ok := core.NilTest(info, a)
			if !ok || v != nonNilOnTrue {
				return false
			}
			o := core.ObjOf(info, x)
			for _, d := range core.DefsOf(info, f.Decl.Body, o) {
				if d.Rhs != nil && core.AsCall(info, d.Rhs, call(metaP+".Data.ShardGroupByTimestamp")) != nil {
					return true
				}
			}
			return false
		})
		core.RuleMustPassN(r, f, g, rule, "createShardGroup", g.Calling(create), existing)
		core.RuleMustPassN(r, f, g, rule, "Client.commit", g.Calling(commit), existing)
		core.RulePrecede(r, f, rule, "createShardGroup", create, "Client.commit", commit)
		core.RuleNotAfterFailure(r, f, rule, "createShardGroup", create, "Client.commit", commit)
		core.RuleErrorsUsed(r, f, rule, "createShardGroup/commit", core.Or(create, commit), false, 2)
		// the group is created in a clone that is then committed
		okArg := false
		for _, c := range core.AllCalls(info, f.Decl.Body, create) {
			for _, c2 := range core.AllCalls(info, f.Decl.Body, commit) {
				if len(c.Args) >= 1 && len(c2.Args) == 1 && core.ObjOf(info, c.Args[0]) != nil && core.ObjOf(info, c.Args[0]) == core.ObjOf(info, c2.Args[0]) {
					okArg = true
				}
			}
		}
		r.Check(okArg, rule, f.String(), "commit-argument", f.Pos(), "the Data in which the group was created is the one committed")
	}
	if f := r.Need(p, metaP, "createShardGroup"); f != nil {
		info := f.Info()
		csg := call(metaP + ".Data.CreateShardGroup")
		core.RuleMustPass(r, f, rule, "Data.CreateShardGroup", csg, false)
		core.RuleErrorsUsed(r, f, rule, "Data.CreateShardGroup", csg, false, 1)
		// same (database, policy, timestamp) passed on
		for _, c := range core.AllCalls(info, f.Decl.Body, csg) {
			ok := len(c.Args) >= 3
			sig, _ := f.Obj.Type().(*types.Signature)
			for i := 0; ok && i < 3; i++ {
				if core.ParamIndex(sig, core.ObjOf(info, c.Args[i])) != i+1 {
					ok = false
				}
			}
			r.Check(ok, rule, f.String(), "CreateShardGroup-arguments", p.Pos(c.Pos()), "database, policy and timestamp are passed through unchanged")
		}
	}
}

// ---------------------------------------------------------------- MarshalTime / UnmarshalTime sentinel

// unixEpochRooted: e is time.Unix(0, 0) optionally followed by .UTC()/.In(...).
func unixRootedRW5(info *types.Info, e ast.Expr) (*ast.CallExpr, bool) {
	e = ast.Unparen(e)
	for i := 0; i < 3; i++ {
		c, ok := e.(*ast.CallExpr)
		if !ok {
			return nil, false
		}
		switch core.FName(core.Callee(info, c)) {
		case "time.Unix":
			return c, true
		case "time.Time.UTC", "time.Time.In", "time.Time.Local":
			e = core.Recv(c)
		default:
			return nil, false
		}
	}
	return nil, false
}

func c18TimeCodec(p *core.Prog, r *core.Report) {
	const rule = "time-codec"
	pk := p.Pkg(metaP)
	if pk == nil {
		return
	}
	// ---- MarshalTime: 0 only for the zero time, otherwise t.UnixNano()
	if f := r.Need(p, metaP, "MarshalTime"); f != nil {
		info, g := f.Info(), f.Graph()
		var tParam types.Object
		if g.Sig.Params().Len() == 1 {
			tParam = g.Sig.Params().At(0)
		}
		isZero := core.EdgeEstablishing(core.CallFact(info, call("time.Time.IsZero"), true, func(c *ast.CallExpr) bool { return core.ObjOf(info, core.Recv(c)) == tParam }))
		nZero, nNano, okAll := 0, 0, tParam != nil
		reachNoZero := g.ReachFromEntry(nil, isZero)
		for _, x := range g.Exits {
			rs, _ := x.N.(*ast.ReturnStmt)
			if rs == nil || len(rs.Results) != 1 {
				okAll = false
				continue
			}
			if v, ok := core.ConstInt(info, rs.Results[0]); ok && v == 0 {
				nZero++
				if reachNoZero[x] {
					okAll = false
				}
				continue
			}
			if c := core.AsCall(info, rs.Results[0], call("time.Time.UnixNano")); c != nil && core.ObjOf(info, core.Recv(c)) == tParam {
				nNano++
				continue
			}
			okAll = false
		}
		r.Check(okAll && nZero >= 1 && nNano >= 1, rule, f.String(), "shape", f.Pos(), "MarshalTime returns 0 only under t.IsZero() and t.UnixNano() otherwise")
	}
	if f := r.Need(p, metaP, "UnmarshalTime"); f != nil {
		info, g := f.Info(), f.Graph()
		var vParam types.Object
		if g.Sig.Params().Len() == 1 {
			vParam = g.Sig.Params().At(0)
		}
		isV := func(e ast.Expr) bool { return core.ObjOf(info, e) == vParam }
		vZero := core.EdgeEstablishing(core.NonZeroFact(info, isV, false, false))
		nZero, nUnix, okAll := 0, 0, vParam != nil
		reachNoZero := g.ReachFromEntry(nil, vZero)
		for _, x := range g.Exits {
			rs, _ := x.N.(*ast.ReturnStmt)
			if rs == nil || len(rs.Results) != 1 {
				okAll = false
				continue
			}
			if cl, ok := ast.Unparen(rs.Results[0]).(*ast.CompositeLit); ok && len(cl.Elts) == 0 {
				nZero++
				if reachNoZero[x] {
					okAll = false
				}
				continue
			}
			if c, ok := unixRootedRW5(info, rs.Results[0]); ok && len(c.Args) == 2 {
				if s, isC := core.ConstInt(info, c.Args[0]); isC && s == 0 && isV(ast.Unparen(c.Args[1])) {
					nUnix++
					continue
				}
			}
			okAll = false
		}
		r.Check(okAll && nZero >= 1 && nUnix >= 1, rule, f.String(), "shape", f.Pos(), "UnmarshalTime returns the zero time only under v == 0 and time.Unix(0, v) otherwise")
	}
	// ---- the fields that bound a group: what Contains reads
	sg := core.StructOf(pk.Types, "ShardGroupInfo")
	cf := r.Need(p, metaP, "ShardGroupInfo.Contains")
	uf := r.Need(p, metaP, "ShardGroupInfo.unmarshal")
	mf := r.Need(p, metaP, "ShardGroupInfo.marshal")
	if sg == nil || cf == nil || uf == nil || mf == nil {
		return
	}
	own := ownFieldsRW5(sg)
	var bounds []*types.Var
	for f := range core.FieldsRead(cf.Info(), cf.Decl.Body) {
		if own[f] {
			bounds = append(bounds, f)
		}
	}
	sort.Slice(bounds, func(i, j int) bool { return bounds[i].Name() < bounds[j].Name() })
	if !r.Check(len(bounds) >= 2, rule, cf.String(), "bound-fields", cf.Pos(), fmt.Sprintf("%d bound fields read by Contains (>= 2 confirmed by reading)", len(bounds))) {
		return
	}
	info, g := uf.Info(), uf.Graph()
	unm := call(metaP + ".UnmarshalTime")
	for _, bf := range bounds {
		construct := uf.String() + ":" + bf.Name()
		stores := g.Select(g.Assigning(bf))
		if !r.Check(len(stores) >= 1, rule, construct, "store:absent", uf.Pos(), "the bound is restored") {
			continue
		}
		nGuarded, nEpoch := 0, 0
		ok := true
		for _, s := range stores {
			as, _ := s.N.(*ast.AssignStmt)
			if as == nil || len(as.Lhs) != 1 || len(as.Rhs) != 1 {
				ok = false
				r.Bad(rule, construct, "store-shape", g.Line(s), "unrecognised store form")
				continue
			}
			rhs := core.ResolveLocal(info, uf.Decl.Body, as.Rhs[0])
			if uc := core.AsCall(info, rhs, unm); uc != nil && len(uc.Args) == 1 {
				// x: a local variable or a getter call; must be established non-zero
				arg := ast.Unparen(uc.Args[0])
				argObj := core.ObjOf(info, arg)
				if argObj != nil {
					if _, single := core.SingleDef(info, uf.Decl.Body, argObj); !single {
						ok = false
						r.Bad(rule, construct, "wire-value-reassigned", g.Line(s), "the wire value tested against 0 has more than one definition")
						continue
					}
				}
				isX := func(e ast.Expr) bool {
					if argObj != nil {
						return core.ObjOf(info, e) == argObj
					}
					return core.ExprStr(e) == core.ExprStr(arg) // same getter call spelled twice (no local)
				}
				nz := core.EdgeEstablishing(core.NonZeroFact(info, isX, true, false))
				bad := g.NotReachableUnless(func(n *core.Node) bool { return n == s }, nil, nz)
				if len(bad) > 0 {
					ok = false
					r.Bad(rule, construct, "UnmarshalTime-unguarded", g.Line(s), "the bound is restored with UnmarshalTime(x) on a path where x may be 0: MarshalTime encodes a bound at the Unix epoch as 0 and UnmarshalTime(0) is the zero time (year 1), so the group would reload with a different range")
				} else {
					nGuarded++
				}
				// the x == 0 branch restores the epoch
				z := core.EdgeEstablishing(core.NonZeroFact(info, isX, false, false))
				var from []*core.Node
				for _, n := range g.Nodes {
					for _, e := range n.Succ {
						if z(e) {
							from = append(from, e.To)
						}
					}
				}
				rr := g.Reach(from, nil, core.AnyEdge(nz))
				for _, s2 := range stores {
					as2, _ := s2.N.(*ast.AssignStmt)
					if as2 == nil || !rr[s2] || s2 == s {
						continue
					}
					if c, isU := unixRootedRW5(info, core.ResolveLocal(info, uf.Decl.Body, as2.Rhs[0])); isU && len(c.Args) == 2 {
						a0, ok0 := core.ConstInt(info, c.Args[0])
						a1, ok1 := core.ConstInt(info, c.Args[1])
						if ok0 && ok1 && a0 == 0 && a1 == 0 {
							nEpoch++
						}
					}
				}
				continue
			}
			if _, isU := unixRootedRW5(info, rhs); isU {
				continue // direct conversion, no sentinel involved
			}
			ok = false
			r.Bad(rule, construct, "store-value", g.Line(s), "the bound is restored from an unrecognised expression")
		}
		if ok && nGuarded > 0 {
			r.Check(nEpoch >= 1, rule, construct, "epoch-branch:absent", g.Line(stores[0]), "wire value 0 restores time.Unix(0,0), the bound MarshalTime encoded as 0")
		} else if ok {
			r.Ok(rule, construct, g.Line(stores[0]), "bound restored without the 0 sentinel")
		}
	}
	// marshal side: bounds are always written (not conditionally dropped)
	mg := mf.Graph()
	for _, bf := range bounds {
		found := false
		ast.Inspect(mf.Decl.Body, func(n ast.Node) bool {
			if cl, ok := n.(*ast.CompositeLit); ok {
				for _, el := range cl.Elts {
					if kv, ok := el.(*ast.KeyValueExpr); ok && core.FieldsRead(mf.Info(), kv.Value)[bf] {
						// literal in the entry block = unconditional
						if nd := mg.NodeOf(cl); nd != nil && nd.Block == mg.Entry.Block {
							found = true
						}
					}
				}
			}
			return true
		})
		r.Check(found, rule, mf.String()+":"+bf.Name(), "conditional-write", mf.Pos(), "the bound is written unconditionally by marshal")
	}
}

// ---------------------------------------------------------------- Contains / Overlaps

func c18Intervals(p *core.Prog, r *core.Report) {
	const rule = "interval-predicates"
	pk := p.Pkg(metaP)
	if pk == nil {
		return
	}
	fStart := core.LookupField(pk.Types, "ShardGroupInfo", "StartTime")
	fEnd := core.LookupField(pk.Types, "ShardGroupInfo", "EndTime")
	if !r.Check(fStart != nil && fEnd != nil, "anchor", metaP+".ShardGroupInfo.StartTime/EndTime", "unresolved", "-", "fields resolved") {
		return
	}
	single := func(f *core.Func) ast.Expr {
		g := f.Graph()
		if len(g.Exits) != 1 || len(g.Nodes) != 1 {
			return nil
		}
		rs, _ := g.Exits[0].N.(*ast.ReturnStmt)
		if rs == nil || len(rs.Results) != 1 {
			return nil
		}
		return rs.Results[0]
	}
	if f := r.Need(p, metaP, "ShardGroupInfo.Contains"); f != nil {
		info := f.Info()
		e := single(f)
		if r.Check(e != nil && f.Graph().Sig.Params().Len() == 1, rule, f.String(), "shape", f.Pos(), "single boolean return expression") {
			t := f.Graph().Sig.Params().At(0)
			isT := func(x ast.Expr) bool { return core.ObjOf(info, x) == t }
			isS := func(x ast.Expr) bool { return core.FieldOf(info, x) == fStart }
			isE := func(x ast.Expr) bool { return core.FieldOf(info, x) == fEnd }
			ge := func(a ast.Expr, v bool) bool { return core.TimeLess(info, a, v, false, isS, isT) } // Start <= t
			lt := func(a ast.Expr, v bool) bool { return core.TimeLess(info, a, v, true, isT, isE) }  // t < End
			before := func(a ast.Expr, v bool) bool { return core.TimeLess(info, a, v, true, isT, isS) }
			after := func(a ast.Expr, v bool) bool { return core.TimeLess(info, a, v, false, isE, isT) }
			r.Check(core.Establishes(e, true, ge), rule, f.String(), "true=>Start<=t", f.Pos(), "Contains(t) implies StartTime <= t")
			r.Check(core.Establishes(e, true, lt), rule, f.String(), "true=>t<End", f.Pos(), "Contains(t) implies t < EndTime")
			r.Check(core.Establishes(e, false, core.AnyFact(before, after)), rule, f.String(), "false=>outside", f.Pos(), "!Contains(t) implies t < StartTime or EndTime <= t")
		}
	}
	if f := r.Need(p, metaP, "ShardGroupInfo.Overlaps"); f != nil {
		info := f.Info()
		e := single(f)
		if r.Check(e != nil && f.Graph().Sig.Params().Len() == 2, rule, f.String(), "shape", f.Pos(), "single boolean return expression") {
			mn, mx := f.Graph().Sig.Params().At(0), f.Graph().Sig.Params().At(1)
			isMin := func(x ast.Expr) bool { return core.ObjOf(info, x) == mn }
			isMax := func(x ast.Expr) bool { return core.ObjOf(info, x) == mx }
			isS := func(x ast.Expr) bool { return core.FieldOf(info, x) == fStart }
			isE := func(x ast.Expr) bool { return core.FieldOf(info, x) == fEnd }
			sLeMax := func(a ast.Expr, v bool) bool { return core.TimeLess(info, a, v, false, isS, isMax) }
			minLtE := func(a ast.Expr, v bool) bool { return core.TimeLess(info, a, v, true, isMin, isE) }
			maxLtS := func(a ast.Expr, v bool) bool { return core.TimeLess(info, a, v, true, isMax, isS) }
			eLeMin := func(a ast.Expr, v bool) bool { return core.TimeLess(info, a, v, false, isE, isMin) }
			r.Check(core.Establishes(e, true, sLeMax), rule, f.String(), "true=>Start<=max", f.Pos(), "Overlaps(min,max) implies StartTime <= max")
			r.Check(core.Establishes(e, true, minLtE), rule, f.String(), "true=>min<End", f.Pos(), "Overlaps(min,max) implies min < EndTime")
			r.Check(core.Establishes(e, false, core.AnyFact(maxLtS, eLeMin)), rule, f.String(), "false=>disjoint", f.Pos(), "!Overlaps(min,max) implies max < StartTime or EndTime <= min")
		}
	}
}

// ---------------------------------------------------------------- Data.CreateShardGroup

func c18Create(p *core.Prog, r *core.Report) {
	const rule = "create-shard-group"
	f := r.Need(p, metaP, "Data.CreateShardGroup")
	if f == nil {
		return
	}
	info, g, body := f.Info(), f.Graph(), f.Decl.Body
	pk := f.Pkg.Types
	fGroups := core.LookupField(pk, "RetentionPolicyInfo", "ShardGroups")
	fSGD := core.LookupField(pk, "RetentionPolicyInfo", "ShardGroupDuration")
	fStart := core.LookupField(pk, "ShardGroupInfo", "StartTime")
	fEnd := core.LookupField(pk, "ShardGroupInfo", "EndTime")
	fTrunc := core.LookupField(pk, "ShardGroupInfo", "TruncatedAt")
	if !r.Check(fGroups != nil && fSGD != nil && fStart != nil && fEnd != nil && fTrunc != nil && g.Sig.Params().Len() >= 3, "anchor", metaP+" shard group fields", "unresolved", f.Pos(), "fields resolved") {
		return
	}
	ts := g.Sig.Params().At(2)
	isTS := func(e ast.Expr) bool { return core.ObjOf(info, e) == ts }

	// ---- the append and the sort
	var appendNode *core.Node
	var elemObj types.Object
	for _, s := range appendSitesRW5(g) {
		as := s.node.N.(*ast.AssignStmt)
		if core.FieldOf(info, as.Lhs[0]) == fGroups {
			if c := ast.Unparen(as.Rhs[0]).(*ast.CallExpr); core.FieldOf(info, c.Args[0]) == fGroups {
				appendNode, elemObj = s.node, core.ObjOf(info, s.elem)
			}
		}
	}
	if !r.Check(appendNode != nil && elemObj != nil, rule, f.String(), "append:absent", f.Pos(), "rpi.ShardGroups = append(rpi.ShardGroups, sgi) found") {
		return
	}
	sortNode := func(n *core.Node) bool {
		if n.N == nil {
			return false
		}
		for _, c := range core.CallsIn(info, n.N, call("sort.Sort", "sort.Stable"), core.WalkOpts{}) {
			if len(c.Args) == 1 {
				if tv, ok := info.Types[ast.Unparen(c.Args[0])]; ok {
					if nt, ok := tv.Type.(*types.Named); ok && nt.Obj().Name() == "ShardGroupInfos" && core.FieldsRead(info, c.Args[0])[fGroups] {
						return true
					}
				}
			}
		}
		return false
	}
	if r.Check(len(g.Select(sortNode)) >= 1, rule, f.String(), "sort:absent", f.Pos(), "sort.Sort(ShardGroupInfos(rpi.ShardGroups)) found") {
		rr := g.Reach(core.After(appendNode, nil), sortNode, nil)
		okSort := true
		for _, x := range g.Exits {
			if rr[x] {
				okSort = false
			}
		}
		r.Check(okSort, rule, f.String(), "append<sort<return", g.Line(appendNode), "after the append every path sorts the groups before returning")
	}
	// ---- only when no live group contains the timestamp
	noGroup := core.EdgeEstablishing(func(a ast.Expr, v bool) bool {
		x, nonNilOnTrue, ok := core.NilTest(info, a)
		if !ok || v == nonNilOnTrue {
			return false
		}
		c := core.AsCall(info, core.ResolveLocal(info, body, x), call(metaP+".RetentionPolicyInfo.ShardGroupByTimestamp"))
		return c != nil && len(c.Args) == 1 && isTS(ast.Unparen(c.Args[0]))
	})
	bad := g.NotReachableUnless(func(n *core.Node) bool { return n == appendNode }, nil, noGroup)
	r.Check(len(bad) == 0, rule, f.String(), "existing-group-check", g.Line(appendNode), "a group is appended only after rpi.ShardGroupByTimestamp(timestamp) returned nil")

	// ---- stores of the bounds of the new group
	boundVar := func(field *types.Var) (types.Object, *core.Node) {
		for _, n := range g.Select(g.Assigning(field)) {
			as, ok := n.N.(*ast.AssignStmt)
			if !ok || len(as.Lhs) != 1 || len(as.Rhs) != 1 {
				continue
			}
			se, ok := ast.Unparen(as.Lhs[0]).(*ast.SelectorExpr)
			if ok && core.ObjOf(info, se.X) == elemObj {
				return core.ObjOf(info, as.Rhs[0]), n
			}
		}
		return nil, nil
	}
	sObj, sStore := boundVar(fStart)
	eObj, eStore := boundVar(fEnd)
	if !r.Check(sObj != nil && eObj != nil && sObj != eObj, rule, f.String(), "bound-stores:absent", f.Pos(), "sgi.StartTime and sgi.EndTime are stored from two local variables") {
		return
	}
	// definitions
	sDefs, eDefs := core.DefsOf(info, body, sObj), core.DefsOf(info, body, eObj)
	okS0, okE0 := false, false
	for _, d := range sDefs {
		if d.Rhs == nil {
			continue
		}
		viaLocalsRW5(info, body, d.Rhs, 3, map[types.Object]bool{sObj: true}, func(e ast.Node) {
			ast.Inspect(e, func(n ast.Node) bool {
				if c, ok := n.(*ast.CallExpr); ok && call("time.Time.Truncate")(info, c) && isTS(core.Recv(c)) && len(c.Args) == 1 && core.FieldOf(info, c.Args[0]) == fSGD {
					okS0 = true
				}
				return true
			})
		})
	}
	for _, d := range eDefs {
		if d.Rhs == nil {
			continue
		}
		viaLocalsRW5(info, body, d.Rhs, 3, map[types.Object]bool{sObj: true, eObj: true}, func(e ast.Node) {
			ast.Inspect(e, func(n ast.Node) bool {
				if c, ok := n.(*ast.CallExpr); ok && call("time.Time.Add")(info, c) && core.ObjOf(info, core.Recv(c)) == sObj && len(c.Args) == 1 && core.FieldOf(info, c.Args[0]) == fSGD {
					okE0 = true
				}
				return true
			})
		})
	}
	r.Check(okS0, rule, f.String(), "start-definition", f.Pos(), "start is timestamp.Truncate(rpi.ShardGroupDuration)")
	r.Check(okE0, rule, f.String(), "end-definition", f.Pos(), "end is start.Add(rpi.ShardGroupDuration)")
	// the MaxNanoTime clamp on the end variable dominates the store and assigns it
	isMaxNano := func(e ast.Expr) bool {
		found := false
		ast.Inspect(e, func(n ast.Node) bool {
			if id, ok := n.(*ast.Ident); ok {
				if c, ok := info.Uses[id].(*types.Const); ok && c.Name() == "MaxNanoTime" {
					found = true
				}
			}
			return true
		})
		return found
	}
	clampFact := func(a ast.Expr, v bool) bool {
		// MaxNanoTime < end
		return core.TimeLess(info, a, v, true, isMaxNano, func(e ast.Expr) bool { return core.ObjOf(info, e) == eObj })
	}
	var clampNode *core.Node
	var clampTo *core.Node
	for _, n := range g.Nodes {
		for _, e := range n.Succ {
			if e.Cond != nil && core.Establishes(e.Cond, e.Branch, clampFact) {
				clampNode, clampTo = n, e.To
			}
		}
	}
	if r.Check(clampNode != nil, rule, f.String(), "MaxNanoTime-clamp:absent", f.Pos(), "end is compared with time.Unix(0, models.MaxNanoTime)") {
		pre := g.ReachFromEntry(func(n *core.Node) bool { return n == clampNode }, nil)
		r.Check(!pre[eStore], rule, f.String(), "clamp<EndTime-store", g.Line(eStore), "the clamp test precedes the store of sgi.EndTime")
		// on the clamped branch the end variable is reassigned before the store
		rr := g.Reach([]*core.Node{clampTo}, g.AssigningObj(eObj), nil)
		okClamp := !rr[eStore]
		// and the new value mentions MaxNanoTime
		okVal := false
		for _, d := range eDefs {
			if d.Rhs != nil && isMaxNano(d.Rhs) {
				if _, isU := unixRootedRW5(info, d.Rhs); isU {
					okVal = true
				}
			}
		}
		r.Check(okClamp && okVal, rule, f.String(), "clamp-assigns-end", g.Line(clampNode), "when end exceeds MaxNanoTime the end variable is replaced by a MaxNanoTime-based bound before it is stored")
	}
	// stores are final: no assignment of either variable after its store, and the appended value is the struct stored into
	for _, pr := range []struct {
		o  types.Object
		st *core.Node
		nm string
	}{{sObj, sStore, "StartTime"}, {eObj, eStore, "EndTime"}} {
		rr := g.Reach(core.After(pr.st, nil), nil, nil)
		late := false
		for _, n := range g.Select(g.AssigningObj(pr.o)) {
			if rr[n] {
				late = true
			}
		}
		r.Check(!late, rule, f.String(), pr.nm+"-store-final", g.Line(pr.st), "sgi."+pr.nm+" is stored after the last adjustment of its variable")
		pre := g.ReachFromEntry(func(n *core.Node) bool { return n == pr.st }, nil)
		r.Check(!pre[appendNode], rule, f.String(), pr.nm+"-store<append", g.Line(pr.st), "sgi."+pr.nm+" is stored before the group is appended")
	}

	// ---- overlap clipping
	loops := core.RangeOver(body, func(e ast.Expr) bool { return core.FieldOf(info, e) == fGroups })
	var clip *ast.RangeStmt
	for _, l := range loops {
		if len(g.Select(func(n *core.Node) bool {
			return n.N != nil && core.InRegion(n, l.Body) && (g.AssigningObj(sObj)(n) || g.AssigningObj(eObj)(n))
		})) > 0 {
			clip = l
		}
	}
	if !r.Check(clip != nil && clip.Key != nil, rule, f.String(), "clip-loop:absent", f.Pos(), "the loop that clips start/end against existing groups ranges over rpi.ShardGroups by index") {
		return
	}
	iObj := core.ObjOf(info, clip.Key)
	_, bodyN, _ := g.LoopNodes(clip)
	elem := func(e ast.Expr) bool {
		i, ok := elemOfFieldRW5(info, core.ResolveLocal(info, body, e), fGroups)
		return ok && i == iObj
	}
	live := core.EdgeEstablishing(core.CallFact(info, call(metaP+".ShardGroupInfo.Deleted"), false, func(c *ast.CallExpr) bool { return elem(core.Recv(c)) }))
	inLoop := func(o types.Object) []*core.Node {
		return g.Select(func(n *core.Node) bool { return n.N != nil && core.InRegion(n, clip.Body) && g.AssigningObj(o)(n) })
	}
	// which group fields feed a local (through its definitions inside the loop)
	feeds := func(e ast.Expr) map[*types.Var]bool {
		out := map[*types.Var]bool{}
		viaLocalsRW5(info, clip.Body, e, 3, map[types.Object]bool{}, func(n ast.Node) {
			ast.Inspect(n, func(x ast.Node) bool {
				if se, ok := x.(*ast.SelectorExpr); ok {
					if v := core.FieldOf(info, se); v != nil && (v == fStart || v == fEnd || v == fTrunc) && elem(se.X) {
						out[v] = true
					}
				}
				return true
			})
		})
		return out
	}
	nClip := 0
	for _, pr := range []struct {
		o     types.Object
		nm    string
		start bool
	}{{sObj, "start", true}, {eObj, "end", false}} {
		for _, n := range inLoop(pr.o) {
			nClip++
			as, _ := n.N.(*ast.AssignStmt)
			if as == nil || len(as.Lhs) != 1 || len(as.Rhs) != 1 {
				r.Bad(rule, f.String(), "clip-"+pr.nm+"-shape", g.Line(n), "unrecognised assignment form")
				continue
			}
			if bodyN != nil {
				rr := g.Reach([]*core.Node{bodyN}, nil, live)
				r.Check(!rr[n], rule, f.String(), "clip-"+pr.nm+"-live-only", g.Line(n), pr.nm+" is clipped only against groups that are not deleted")
			}
			x := core.ObjOf(info, as.Rhs[0])
			fs := feeds(as.Rhs[0])
			if pr.start {
				// start = endI, endI from EndTime/TruncatedAt, under endI <= timestamp
				r.Check(len(fs) > 0 && !fs[fStart] && fs[fEnd], rule, f.String(), "clip-start-source", g.Line(n), "start is moved to the end (or truncation point) of an existing group")
				fact := func(a ast.Expr, v bool) bool {
					return core.TimeLess(info, a, v, false, func(e ast.Expr) bool { return x != nil && core.ObjOf(info, e) == x }, isTS)
				}
				bad := g.NotReachableUnless(func(m *core.Node) bool { return m == n }, nil, core.EdgeEstablishing(fact))
				r.Check(len(bad) == 0, rule, f.String(), "clip-start-keeps-timestamp", g.Line(n), "start is moved forward only to a bound that is <= timestamp")
			} else {
				r.Check(len(fs) > 0 && fs[fStart] && !fs[fEnd] && !fs[fTrunc], rule, f.String(), "clip-end-source", g.Line(n), "end is moved to the start of an existing group")
				fact := func(a ast.Expr, v bool) bool {
					return core.TimeLess(info, a, v, true, isTS, func(e ast.Expr) bool { return x != nil && core.ObjOf(info, e) == x })
				}
				bad := g.NotReachableUnless(func(m *core.Node) bool { return m == n }, nil, core.EdgeEstablishing(fact))
				r.Check(len(bad) == 0, rule, f.String(), "clip-end-keeps-timestamp", g.Line(n), "end is moved backward only to a bound that is > timestamp")
			}
		}
	}
	r.Check(nClip >= 2, rule, f.String(), "clip-sites:count", posOfRW5(p, clip), fmt.Sprintf("%d clipping assignments (>= 2 confirmed by reading)", nClip))
	// the clip loop runs before the bounds are stored
	if h, _, _ := g.LoopNodes(clip); h != nil {
		pre := g.ReachFromEntry(func(n *core.Node) bool { return n == h }, nil)
		r.Check(!pre[sStore] && !pre[eStore], rule, f.String(), "clip<bound-stores", posOfRW5(p, clip), "the bounds are stored only after the clipping loop")
	}
}

// ---------------------------------------------------------------- lookups

func c18Lookup(p *core.Prog, r *core.Report) {
	const rule = "group-lookup"
	pk := p.Pkg(metaP)
	if pk == nil {
		return
	}
	fGroups := core.LookupField(pk.Types, "RetentionPolicyInfo", "ShardGroups")
	deleted := call(metaP + ".ShardGroupInfo.Deleted")
	if f := r.Need(p, metaP, "RetentionPolicyInfo.ShardGroupByTimestamp"); f != nil && fGroups != nil {
		info, g, body := f.Info(), f.Graph(), f.Decl.Body
		ts := g.Sig.Params().At(0)
		n := 0
		for _, x := range g.Exits {
			rs, _ := x.N.(*ast.ReturnStmt)
			if rs == nil || len(rs.Results) != 1 || core.IsNilIdent(info, rs.Results[0]) {
				continue
			}
			n++
			idx, ok := elemOfFieldRW5(info, core.ResolveLocal(info, body, rs.Results[0]), fGroups)
			if !r.Check(ok, rule, f.String(), "returned-element", g.Line(x), "the result is &rpi.ShardGroups[i]") {
				continue
			}
			same := func(e ast.Expr) bool {
				i, ok := elemOfFieldRW5(info, core.ResolveLocal(info, body, e), fGroups)
				return ok && i == idx
			}
			contains := core.EdgeEstablishing(core.CallFact(info, call(metaP+".ShardGroupInfo.Contains"), true, func(c *ast.CallExpr) bool {
				return same(core.Recv(c)) && len(c.Args) == 1 && core.ObjOf(info, c.Args[0]) == ts
			}))
			bad := g.NotReachableUnless(func(m *core.Node) bool { return m == x }, nil, contains)
			r.Check(len(bad) == 0, rule, f.String(), "Contains(timestamp)", g.Line(x), "a group is returned only if it Contains the timestamp")
			live := core.EdgeEstablishing(core.CallFact(info, deleted, false, func(c *ast.CallExpr) bool { return same(core.Recv(c)) }))
			bad = g.NotReachableUnless(func(m *core.Node) bool { return m == x }, nil, live)
			r.Check(len(bad) == 0, rule, f.String(), "not-Deleted", g.Line(x), "a group is returned only if it is not deleted")
		}
		r.Check(n >= 1, rule, f.String(), "non-nil-return:absent", f.Pos(), "a group can be returned")
	}
	for _, nm := range []string{"Data.ShardGroupsByTimeRange", "Client.ShardGroupsByTimeRange"} {
		f := r.Need(p, metaP, nm)
		if f == nil || fGroups == nil {
			continue
		}
		info, g, body := f.Info(), f.Graph(), f.Decl.Body
		np := g.Sig.Params().Len()
		if !r.Check(np == 4, rule, f.String(), "signature", f.Pos(), "(database, policy, min, max)") {
			continue
		}
		mn, mx := g.Sig.Params().At(2), g.Sig.Params().At(3)
		loops := core.RangeOver(body, func(e ast.Expr) bool { return core.FieldOf(info, e) == fGroups })
		if !r.Check(len(loops) == 1 && loops[0].Value != nil, rule, f.String(), "loop:absent", f.Pos(), "one loop over rpi.ShardGroups") {
			continue
		}
		gv := core.ObjOf(info, loops[0].Value)
		head, bodyN, _ := g.LoopNodes(loops[0])
		var sink []*core.Node
		var dst types.Object
		for _, s := range appendSitesRW5(g) {
			if core.ObjOf(info, s.elem) == gv && core.InRegion(s.node, loops[0].Body) {
				sink = append(sink, s.node)
				dst = s.dst
			}
		}
		if !r.Check(len(sink) >= 1 && head != nil && bodyN != nil, rule, f.String(), "append:absent", f.Pos(), "the ranged group is appended to the result") {
			continue
		}
		isSink := func(n *core.Node) bool {
			for _, s := range sink {
				if s == n {
					return true
				}
			}
			return false
		}
		skipOK := core.AnyFact(
			core.CallFact(info, deleted, true, func(c *ast.CallExpr) bool { return core.ObjOf(info, core.Recv(c)) == gv }),
			core.CallFact(info, call(metaP+".ShardGroupInfo.Overlaps"), false, func(c *ast.CallExpr) bool {
				return core.ObjOf(info, core.Recv(c)) == gv && len(c.Args) == 2 && core.ObjOf(info, c.Args[0]) == mn && core.ObjOf(info, c.Args[1]) == mx
			}))
		rr := g.Reach([]*core.Node{bodyN}, isSink, core.EdgeEstablishing(skipOK))
		r.Check(!rr[head], rule, f.String(), "skip-only-deleted-or-disjoint", posOfRW5(p, loops[0]), "a group is left out only if Deleted() or !Overlaps(min, max)")
		okExit := true
		for _, x := range g.RealSuccessExits() {
			if rr[x] {
				okExit = false
			}
			if rs, _ := x.N.(*ast.ReturnStmt); rs != nil && len(rs.Results) == 2 && !core.IsNilIdent(info, rs.Results[0]) {
				if core.ObjOf(info, rs.Results[0]) != dst {
					okExit = false
				}
			}
		}
		r.Check(okExit, rule, f.String(), "returns-collected", f.Pos(), "the collected groups are what is returned")
		r.Check(len(core.AllCalls(info, loops[0].Body, call(metaP+".ShardGroupInfo.Overlaps"))) >= 1, rule, f.String(), "Overlaps:absent", f.Pos(), "the time range is tested")
	}
}

// ---------------------------------------------------------------- coordinator: sgList and MapShards

func c18Routing(p *core.Prog, r *core.Report) {
	const rule = "routing"
	pk := p.Pkg(coordP)
	mpk := p.Pkg(metaP)
	if pk == nil || mpk == nil {
		r.Bad("anchor", coordP, "unresolved", "-", "package not loaded")
		return
	}
	fItems := core.LookupField(pk.Types, "sgList", "items")
	fNeeds := core.LookupField(pk.Types, "sgList", "needsSort")
	fEarliest := core.LookupField(pk.Types, "sgList", "earliest")
	fLatest := core.LookupField(pk.Types, "sgList", "latest")
	fStart := core.LookupField(mpk.Types, "ShardGroupInfo", "StartTime")
	fEnd := core.LookupField(mpk.Types, "ShardGroupInfo", "EndTime")
	if !r.Check(fItems != nil && fNeeds != nil && fEarliest != nil && fLatest != nil && fStart != nil && fEnd != nil, "anchor", coordP+".sgList fields", "unresolved", "-", "fields resolved") {
		return
	}
	if f := r.Need(p, coordP, "sgList.ShardGroupAt"); f != nil {
		info, g, body := f.Info(), f.Graph(), f.Decl.Body
		t := g.Sig.Params().At(0)
		isT := func(e ast.Expr) bool { return core.ObjOf(info, e) == t }
		// the binary search
		searches := core.AllCalls(info, body, call("sort.Search"))
		if r.Check(len(searches) == 1, rule, f.String(), "sort.Search:absent", f.Pos(), "one binary search") {
			c := searches[0]
			okPred := false
			if len(c.Args) == 2 {
				if fl, ok := ast.Unparen(c.Args[1]).(*ast.FuncLit); ok && len(fl.Body.List) == 1 && fl.Type.Params.NumFields() == 1 {
					if rs, ok := fl.Body.List[0].(*ast.ReturnStmt); ok && len(rs.Results) == 1 {
						iv := info.Defs[fl.Type.Params.List[0].Names[0]]
						isEndI := func(e ast.Expr) bool {
							se, ok := e.(*ast.SelectorExpr)
							if !ok || core.FieldOf(info, se) != fEnd {
								return false
							}
							i, ok := elemOfFieldRW5(info, se.X, fItems)
							return ok && i == iv
						}
						okPred = core.Establishes(rs.Results[0], true, func(a ast.Expr, v bool) bool { return core.TimeLess(info, a, v, true, isT, isEndI) }) &&
							core.Establishes(rs.Results[0], false, func(a ast.Expr, v bool) bool { return core.TimeLess(info, a, v, false, isEndI, isT) })
					}
				}
			}
			r.Check(okPred, rule, f.String(), "search-predicate", p.Pos(c.Pos()), "the search predicate is exactly t < l.items[i].EndTime (the key the list is sorted on)")
			// sorted before searching
			sortN := g.Calling(call("sort.Sort", "sort.Stable"))
			clean := core.EdgeEstablishing(func(a ast.Expr, v bool) bool { return !v && core.FieldOf(info, a) == fNeeds })
			bad := g.NotReachableUnless(g.Calling(call("sort.Search")), sortN, clean)
			r.Check(len(bad) == 0 && len(g.Select(sortN)) >= 1, rule, f.String(), "sorted-before-search", p.Pos(c.Pos()), "the search is reached only after sort.Sort or with needsSort == false")
		}
		// element returns
		var idxObj types.Object
		n := 0
		for _, x := range g.Exits {
			rs, _ := x.N.(*ast.ReturnStmt)
			if rs == nil || len(rs.Results) != 1 || core.IsNilIdent(info, rs.Results[0]) {
				continue
			}
			n++
			i, ok := elemOfFieldRW5(info, rs.Results[0], fItems)
			if !r.Check(ok, rule, f.String(), "returned-element", g.Line(x), "the result is &l.items[idx]") {
				continue
			}
			idxObj = i
			sameElem := func(e ast.Expr) bool {
				j, ok := elemOfFieldRW5(info, e, fItems)
				return ok && j == i
			}
			startOK := func(a ast.Expr, v bool) bool { // items[idx].StartTime <= t
				return core.TimeLess(info, a, v, false, func(e ast.Expr) bool {
					se, ok := e.(*ast.SelectorExpr)
					return ok && core.FieldOf(info, se) == fStart && sameElem(se.X)
				}, isT)
			}
			contains := core.CallFact(info, call(metaP+".ShardGroupInfo.Contains"), true, func(c *ast.CallExpr) bool {
				return sameElem(core.Recv(c)) && len(c.Args) == 1 && isT(ast.Unparen(c.Args[0]))
			})
			// exception: leaving the linear search by exhaustion (idx < Len() false) is followed by the
			// idx == Len() -> nil test; the CFG path (idx<Len false, idx==Len false) is infeasible because
			// idx only counts up from 0 (checked below).
			exhausted := func(a ast.Expr, v bool) bool {
				be, ok := ast.Unparen(a).(*ast.BinaryExpr)
				if !ok || be.Op != token.LSS || v {
					return false
				}
				lc := core.AsCall(info, be.Y, call(metaP+".ShardGroupInfos.Len"))
				return core.ObjOf(info, be.X) == i && lc != nil && core.FieldOf(info, core.Recv(lc)) == fItems
			}
			bad := g.NotReachableUnless(func(m *core.Node) bool { return m == x }, nil, core.EdgeEstablishing(core.AnyFact(startOK, contains, exhausted)))
			r.Check(len(bad) == 0, rule, f.String(), "element-contains-t", g.Line(x), "an element is returned only after StartTime <= t (binary search hit) or Contains(t) (linear search hit) was established for it")
		}
		r.Check(n >= 1, rule, f.String(), "non-nil-return:absent", f.Pos(), "an element can be returned")
		if idxObj != nil {
			// idx: search result, then only `idx = 0` and idx++
			okIdx, nSearch := true, 0
			for _, d := range core.DefsOf(info, body, idxObj) {
				switch {
				case d.Rhs != nil && core.AsCall(info, d.Rhs, call("sort.Search")) != nil:
					nSearch++
				case d.Rhs != nil:
					if v, ok := core.ConstInt(info, d.Rhs); !ok || v != 0 {
						okIdx = false
					}
				default:
					if s, ok := d.Stmt.(*ast.IncDecStmt); !ok || s.Tok != token.INC {
						okIdx = false
					}
				}
			}
			r.Check(okIdx && nSearch == 1, rule, f.String(), "idx-monotone", f.Pos(), "idx is the search result, or counts up from 0 in the linear search")
		}
	}
	if f := r.Need(p, coordP, "sgList.Add"); f != nil {
		info, g := f.Info(), f.Graph()
		sgi := g.Sig.Params().At(0)
		// items = append(items, sgi) and needsSort = true on every path
		app := func(n *core.Node) bool {
			as, ok := n.N.(*ast.AssignStmt)
			if !ok || len(as.Lhs) != 1 || len(as.Rhs) != 1 || core.FieldOf(info, as.Lhs[0]) != fItems {
				return false
			}
			c, ok := ast.Unparen(as.Rhs[0]).(*ast.CallExpr)
			return ok && core.Builtin("append")(info, c) && len(c.Args) == 2 && core.FieldOf(info, c.Args[0]) == fItems && core.ObjOf(info, c.Args[1]) == sgi
		}
		dirty := func(n *core.Node) bool {
			as, ok := n.N.(*ast.AssignStmt)
			if !ok || len(as.Lhs) != 1 || len(as.Rhs) != 1 || core.FieldOf(info, as.Lhs[0]) != fNeeds {
				return false
			}
			v, isC := core.ConstBool(info, as.Rhs[0])
			return isC && v
		}
		core.RuleMustPassN(r, f, g, rule, "items=append(items,sgi)", app, nil)
		core.RuleMustPassN(r, f, g, rule, "needsSort=true", dirty, nil)
		for _, pr := range []struct {
			dst, src *types.Var
			nm       string
		}{{fEarliest, fStart, "earliest<-StartTime"}, {fLatest, fEnd, "latest<-EndTime"}} {
			st := g.Select(g.Assigning(pr.dst))
			ok := len(st) >= 1
			for _, n := range st {
				as, _ := n.N.(*ast.AssignStmt)
				if as == nil || len(as.Rhs) != 1 {
					ok = false
					continue
				}
				se, isSel := ast.Unparen(as.Rhs[0]).(*ast.SelectorExpr)
				if !isSel || core.FieldOf(info, se) != pr.src || core.ObjOf(info, se.X) != sgi {
					ok = false
				}
			}
			r.Check(ok, rule, f.String(), pr.nm, f.Pos(), "the list's "+pr.dst.Name()+" bound is maintained from the added group's "+pr.src.Name())
		}
		// earliest only moves down, latest only moves up (or first element)
		for _, pr := range []struct {
			dst, src *types.Var
			up       bool
		}{{fEarliest, fStart, false}, {fLatest, fEnd, true}} {
			isDst := func(e ast.Expr) bool { return core.FieldOf(info, e) == pr.dst }
			isSrc := func(e ast.Expr) bool {
				se, ok := e.(*ast.SelectorExpr)
				return ok && core.FieldOf(info, se) == pr.src && core.ObjOf(info, se.X) == sgi
			}
			first := core.CallFact(info, call("time.Time.IsZero"), true, func(c *ast.CallExpr) bool { return isDst(core.Recv(c)) })
			var cmp core.CondFact
			if pr.up {
				cmp = func(a ast.Expr, v bool) bool { return core.TimeLess(info, a, v, true, isDst, isSrc) } // latest < End
			} else {
				cmp = func(a ast.Expr, v bool) bool { return core.TimeLess(info, a, v, true, isSrc, isDst) } // Start < earliest
			}
			// the store happens whenever first||cmp: the skipping edge must establish !first and !cmp
			for _, n := range g.Select(g.Assigning(pr.dst)) {
				// the store is entered on the true edge of exactly `unset || moves`
				skipped := false
				for _, pe := range n.Pred {
					if pe.Cond == nil {
						continue
					}
					atoms := core.Atoms(pe.Cond)
					nf, nc := 0, 0
					for _, a := range atoms {
						if first(a, true) {
							nf++
						}
						if cmp(a, true) {
							nc++
						}
					}
					if pe.Branch && nf == 1 && nc == 1 && len(atoms) == 2 {
						if be, ok := ast.Unparen(pe.Cond).(*ast.BinaryExpr); ok && be.Op == token.LOR {
							skipped = true
						}
					}
				}
				dir := "down"
				if pr.up {
					dir = "up"
				}
				r.Check(skipped, rule, f.String(), pr.dst.Name()+"-guard", g.Line(n), "l."+pr.dst.Name()+" is updated exactly when it is unset or the new group moves it "+dir)
			}
		}
	}
	if f := r.Need(p, coordP, "sgList.Covers"); f != nil {
		info := f.Info()
		ok := false
		for _, c := range core.AllCalls(info, f.Decl.Body, call(coordP+".sgList.ShardGroupAt")) {
			if len(c.Args) == 1 && core.ObjOf(info, c.Args[0]) == f.Graph().Sig.Params().At(0) {
				ok = true
			}
		}
		r.Check(ok, rule, f.String(), "ShardGroupAt(t)", f.Pos(), "Covers(t) is decided by ShardGroupAt(t)")
	}
	if f := r.Need(p, coordP, "PointsWriter.MapShards"); f != nil {
		info, body := f.Info(), f.Decl.Body
		fMeta := core.LookupField(pk.Types, "PointsWriter", "MetaClient")
		fPoints := core.LookupField(pk.Types, "WritePointsRequest", "Points")
		createSG := ifaceFieldMethodRW5(fMeta, "CreateShardGroup")
		mapPoint := call(coordP + ".ShardMapping.MapPoint")
		pointTime := call("models.Point.Time")
		timeOf := func(e ast.Expr) types.Object {
			c := core.AsCall(info, e, pointTime)
			if c == nil {
				return nil
			}
			return core.ObjOf(info, core.Recv(c))
		}
		rangedPoint := func(o types.Object) bool {
			rs := rangeVarOfRW5(info, body, o, 1)
			return rs != nil && core.FieldOf(info, rs.X) == fPoints
		}
		cs := core.AllCalls(info, body, createSG)
		r.Check(len(cs) >= 1, rule, f.String(), "CreateShardGroup:absent", f.Pos(), "missing groups are created")
		for _, c := range cs {
			r.Check(len(c.Args) == 3 && rangedPoint(timeOf(ast.Unparen(c.Args[2]))), rule, f.String(), "CreateShardGroup-timestamp", p.Pos(c.Pos()), "the group is created for the time of a point of the request")
		}
		ms := core.AllCalls(info, body, mapPoint)
		r.Check(len(ms) >= 1, rule, f.String(), "MapPoint:absent", f.Pos(), "points are mapped")
		for _, c := range ms {
			good, why := false, "unexpected shape"
			if len(c.Args) == 2 {
				mp := core.ObjOf(info, c.Args[1])
				sh := core.BaseObj(info, core.StripAddrDeref(c.Args[0]))
				if d, ok := core.SingleDef(info, body, sh); ok && d.Rhs != nil && rangedPoint(mp) {
					if sf := core.AsCall(info, d.Rhs, call(metaP+".ShardGroupInfo.ShardFor")); sf != nil && len(sf.Args) == 1 && core.ObjOf(info, sf.Args[0]) == mp {
						sg := core.ObjOf(info, core.Recv(sf))
						if d2, ok := core.SingleDef(info, body, sg); ok && d2.Rhs != nil {
							if at := core.AsCall(info, d2.Rhs, call(coordP+".sgList.ShardGroupAt")); at != nil && len(at.Args) == 1 && timeOf(ast.Unparen(at.Args[0])) == mp {
								good, why = true, "MapPoint(&sg.ShardFor(p), p) with sg = list.ShardGroupAt(p.Time())"
							} else {
								why = "the group is not list.ShardGroupAt(p.Time()) of the same point"
							}
						}
					} else {
						why = "the shard is not sg.ShardFor(p) of the same point"
					}
				}
			}
			r.Check(good, rule, f.String(), "MapPoint-arguments", p.Pos(c.Pos()), why)
		}
	}
}
