package rules

import (
	"go/ast"
	"go/token"
	"go/types"

	"verif/checker/core"
)

// "Every returned point has a representable timestamp": a timestamp given in a
// coarser precision is scaled by a multiplication. A wrapped product is only
// detected by the division round-trip (c/b == a); sign tests miss products that
// wrap past 2^64 back onto the same sign.
func init() {
	extend("C12", "checked-scale: models.safeSignedMult reports success for the product c = a*b only through the division round-trip c/b == a (or c/a == b); SafeCalcTime uses it and rejects when it fails.",
		nil, func(p *core.Prog, r *core.Report, tier string) {
			const rule = "checked-scale"
			f := r.Need(p, "models", "safeSignedMult")
			if f == nil {
				return
			}
			info := f.Info()
			// c := a * b with non-constant operands
			var prod types.Object
			var opA, opB types.Object
			ast.Inspect(f.Decl.Body, func(n ast.Node) bool {
				as, ok := n.(*ast.AssignStmt)
				if !ok || len(as.Lhs) != 1 || len(as.Rhs) != 1 {
					return true
				}
				be, ok := ast.Unparen(as.Rhs[0]).(*ast.BinaryExpr)
				if ok && be.Op == token.MUL && core.ConstVal(info, be) == nil {
					prod = core.ObjOf(info, as.Lhs[0])
					opA, opB = core.ObjOf(info, be.X), core.ObjOf(info, be.Y)
				}
				return true
			})
			if !r.Check(prod != nil && opA != nil && opB != nil, rule, f.String(), "product:absent", f.Pos(), "the scaled value is computed into a variable") {
				return
			}
			// every return that yields the product yields, as its verdict, the round-trip test
			found := false
			ast.Inspect(f.Decl.Body, func(n ast.Node) bool {
				rs, ok := n.(*ast.ReturnStmt)
				if !ok || len(rs.Results) != 2 || core.ObjOf(info, rs.Results[0]) != prod {
					return true
				}
				found = true
				okShape := false
				if be, ok := ast.Unparen(rs.Results[1]).(*ast.BinaryExpr); ok && be.Op == token.EQL {
					for _, sides := range [][2]ast.Expr{{be.X, be.Y}, {be.Y, be.X}} {
						q, ok := ast.Unparen(sides[0]).(*ast.BinaryExpr)
						if !ok || q.Op != token.QUO || core.ObjOf(info, q.X) != prod {
							continue
						}
						div, other := core.ObjOf(info, q.Y), core.ObjOf(info, sides[1])
						if (div == opA && other == opB) || (div == opB && other == opA) {
							okShape = true
						}
					}
				}
				r.Check(okShape, rule, f.String(), "verdict-not-division-roundtrip", p.Pos(rs.Pos()), "the overflow verdict of the product is the division round-trip (product/operand == other operand)")
				return true
			})
			r.Check(found, rule, f.String(), "product-return:absent", f.Pos(), "the product is returned together with its overflow verdict")
			if g := r.Need(p, "models", "SafeCalcTime"); g != nil {
				core.RuleHasCall(r, g, rule, "safeSignedMult", call("models.safeSignedMult"))
			}
		})
}
