package rules

import (
	"fmt"
	"go/ast"
	"go/types"

	"verif/checker/core"
)

const schedPkg = "task/backend/scheduler"

func init() {
	register(&Prop{
		ID:       "C24",
		Patterns: []string{"./task/backend/scheduler"},
		Level:    "other",
		Explanation: "Necessary-condition rules for the tree scheduler, decided on the CFGs of task/backend/scheduler with type-resolved callees and fields: " +
			"(1) guarded-by: every access to TreeScheduler.{priorityQueue,nextTime,when,items} happens with s.mu held (write for writes); process/release/resetTimer/iterator are checked at their call sites (caller holds s.mu); every Reset/Stop of the shared s.timer happens with s.mu held; " +
			"(2) index-paired: in release, process and Schedule every mutation of the uniqueness index nextTime is accompanied on the same path by the matching btree mutation (delete with BTree.Delete, store with BTree.ReplaceOrInsert) and vice versa; the key handed to BTree.Delete in release/Schedule is built from the time looked up in nextTime; in Schedule the insert is reached only after the old entry was deleted or the lookup reported none; no btree delete follows an insert in the same call; Release passes release; " +
			"(3) timer-sign: no duration passed to Timer.Reset (directly or through resetTimer) is u.Sub(v) on a path where a dominating test established v later than u (negative duration: the timer refires at once and the loop spins until the item is due); timer-rearm: on the 'head item not yet due' branch of the main loop the timer is re-armed before the lock is released; " +
			"(4) timer-when-paired: every direct s.timer.Reset is accompanied inside the same critical section by a store to s.when (the value When() and the scheduler pulse check report); " +
			"(5) dispatch-advance: in the dispatch iterator every path after handing an item to a worker records the old entry for deletion, and re-inserts it only after updateNext advanced it (all paths except the updateNext failure).",
		NotCovered:  "that each due time is executed exactly once and in order (worker hashing, Less ordering, cron arithmetic), non-concurrency of one task's runs, behaviour of the clock library, fairness when workers are busy.",
		Assumptions: []string{"sync.RWMutex gives mutual exclusion", "Timer.Reset with a non-positive duration fires immediately (time.Timer and clock.Timer semantics)"},
		Run:         runC24,
	})
}

var schedLocks = &core.LockRules{
	Pkg: schedPkg,
	Guards: []core.Guard{
		{Type: "TreeScheduler", Fields: []string{"priorityQueue", "nextTime", "when", "items"}, Locks: []string{"mu"}},
	},
	CallerHolds: map[string]map[string]byte{
		"TreeScheduler.process":    {"mu": 'W'},
		"TreeScheduler.release":    {"mu": 'W'},
		"TreeScheduler.resetTimer": {"mu": 'W'},
		"TreeScheduler.iterator":   {"mu": 'W'}, // its closure runs inside process (BTree.Ascend)
	},
	ExemptFunc:   map[string]string{},
	ExemptAccess: map[string]string{},
}

var (
	btDelete  = call("github.com/google/btree.BTree.Delete")
	btInsert  = call("github.com/google/btree.BTree.ReplaceOrInsert")
	timerArm  = call("github.com/benbjohnson/clock.Timer.Reset", "time.Timer.Reset")
	timerStop = call("github.com/benbjohnson/clock.Timer.Stop", "time.Timer.Stop")
	timeSub   = call("time.Time.Sub")
	itemWhen  = call("task/backend/scheduler.Item.When")
)

func runC24(p *core.Prog, r *core.Report, tier string) {
	pk := p.Pkg(schedPkg)
	if pk == nil {
		r.Bad("anchor", schedPkg, "unresolved", "-", "package not loaded")
		return
	}
	fld := func(typ, name string) *types.Var {
		v := core.LookupField(pk.Types, typ, name)
		r.Check(v != nil, "anchor", schedPkg+"."+typ+"."+name, "unresolved", "-", "field resolved")
		return v
	}
	fNext, fTimer, fWhen, fMu := fld("TreeScheduler", "nextTime"), fld("TreeScheduler", "timer"), fld("TreeScheduler", "when"), fld("TreeScheduler", "mu")
	fWork, fDel, fIns := fld("TreeScheduler", "workchans"), fld("itemList", "toDelete"), fld("itemList", "toInsert")
	if fNext == nil || fTimer == nil || fWhen == nil || fMu == nil || fWork == nil || fDel == nil || fIns == nil {
		return
	}
	for _, n := range []string{"NewScheduler", "TreeScheduler.Schedule", "TreeScheduler.Release", "TreeScheduler.release", "TreeScheduler.process",
		"TreeScheduler.resetTimer", "TreeScheduler.iterator", "TreeScheduler.When"} {
		r.Need(p, schedPkg, n)
	}

	// ---- (1) guarded-by
	core.RuleLocks(r, p, schedLocks, "guarded-by", 30)
	onTimer := func(info *types.Info, c *ast.CallExpr) bool {
		se, ok := ast.Unparen(c.Fun).(*ast.SelectorExpr)
		return ok && core.FieldOf(info, se.X) == fTimer
	}
	timerOps := func(info *types.Info, c *ast.CallExpr) bool {
		return (timerArm(info, c) || timerStop(info, c)) && onTimer(info, c)
	}
	nTimer := 0
	core.HeldAtCalls(p, schedLocks, timerOps, func(f *core.Func, g *core.Graph, c *ast.CallExpr, held map[string]int8, ctor func(ast.Expr) bool) {
		recv := ast.Unparen(c.Fun).(*ast.SelectorExpr).X.(*ast.SelectorExpr) // s.timer
		if ctor(recv.X) {
			return // scheduler under construction, not yet shared
		}
		nTimer++
		op := core.FName(core.Callee(g.Info, c))
		r.Check(held[core.ExprStr(recv.X)+".mu"] == 2, "timer-under-lock", f.String(), op, p.Pos(c.Pos()),
			"the shared timer is re-armed/stopped with "+core.ExprStr(recv.X)+".mu held")
	})
	r.Check(nTimer >= 5, "timer-under-lock", schedPkg, "sites:count", "-", fmt.Sprintf("%d Reset/Stop sites on TreeScheduler.timer examined (>= 5 confirmed by reading)", nTimer))

	// ---- (2) uniqueness index and btree move together
	idxDelete := func(g *core.Graph) core.NodePred {
		return g.Calling(func(info *types.Info, c *ast.CallExpr) bool {
			return core.Builtin("delete")(info, c) && len(c.Args) == 2 && core.FieldOf(info, c.Args[0]) == fNext
		})
	}
	if f := r.Need(p, schedPkg, "TreeScheduler.release"); f != nil {
		g := f.Graph()
		rulePaired(r, f, g, "index-paired", "delete(nextTime)", idxDelete(g), "BTree.Delete", g.Calling(btDelete), 1)
		ruleDeleteKey(r, f, fNext)
	}
	if f := r.Need(p, schedPkg, "TreeScheduler.process"); f != nil {
		g := f.Graph()
		rulePaired(r, f, g, "index-paired", "delete(nextTime)", idxDelete(g), "BTree.Delete", g.Calling(btDelete), 1)
		rulePaired(r, f, g, "index-paired", "nextTime-store", g.Assigning(fNext), "BTree.ReplaceOrInsert", g.Calling(btInsert), 1)
		ruleNoneAfter(r, f, g, "delete-before-insert", "BTree.ReplaceOrInsert", g.Calling(btInsert), "BTree.Delete", core.AnyOf(g.Calling(btDelete), idxDelete(g)))
		core.RulePrecede(r, f, "index-paired", "BTree.Ascend", call("github.com/google/btree.BTree.Ascend"), "BTree.Delete", btDelete)
		core.RuleHasCall(r, f, "index-paired", "TreeScheduler.iterator", call("task/backend/scheduler.TreeScheduler.iterator"))
	}
	if f := r.Need(p, schedPkg, "TreeScheduler.Schedule"); f != nil {
		g := f.Graph()
		rulePaired(r, f, g, "index-paired", "nextTime-store", g.Assigning(fNext), "BTree.ReplaceOrInsert", g.Calling(btInsert), 1)
		ruleNoneAfter(r, f, g, "delete-before-insert", "BTree.ReplaceOrInsert", g.Calling(btInsert), "BTree.Delete", g.Calling(btDelete))
		ruleDeleteKey(r, f, fNext)
		// the insert is reached only after the old entry was deleted or the lookup said there is none
		okVar, _ := lookupVars(f, fNext)
		if r.Check(okVar != nil, "schedule-replace", f.String(), "lookup:absent", f.Pos(), "`v, ok := s.nextTime[id]` lookup found") {
			notFound := func(e *core.Edge) bool {
				return e.Cond != nil && e.Tag == nil && !e.Branch && core.ObjOf(g.Info, e.Cond) == okVar
			}
			ins := g.Select(g.Calling(btInsert))
			r.Check(len(ins) >= 1, "schedule-replace", f.String(), "BTree.ReplaceOrInsert:absent", f.Pos(), "Schedule inserts the item")
			reach := g.ReachFromEntry(g.Calling(btDelete), notFound)
			for _, n := range ins {
				r.Check(!reach[n], "schedule-replace", f.String(), "insert-without-delete", g.Line(n),
					"the new entry is inserted only after the previous entry of the task was deleted (or none existed)")
			}
		}
		core.RuleMustPass(r, f, "schedule-replace", "BTree.ReplaceOrInsert", btInsert, false)
	}
	if f := r.Need(p, schedPkg, "TreeScheduler.Release"); f != nil {
		core.RuleMustPass(r, f, "index-paired", "TreeScheduler.release", call("task/backend/scheduler.TreeScheduler.release"), false)
	}

	// ---- (3) timer sign, re-arm; (4) timer/when pairing
	sinks := durationSinks(p, schedPkg)
	nSink, nArm, nDirect := 0, 0, 0
	for _, f := range p.Funcs(schedPkg) {
		if f.Decl.Body == nil {
			continue
		}
		for _, g := range f.Graphs() {
			nSink += ruleTimerSign(r, f, g, sinks)
			nArm += ruleRearm(r, f, g, sinks, fMu)
			nDirect += ruleWhenPaired(r, f, g, fTimer, fWhen, fMu)
		}
	}
	r.Check(nSink >= 4, "timer-sign", schedPkg, "sinks:count", "-", fmt.Sprintf("%d timer duration sinks examined (>= 4 confirmed by reading)", nSink))
	r.Check(nArm >= 1, "timer-rearm", schedPkg, "not-due-branch:absent", "-", fmt.Sprintf("%d 'head item not yet due' branch(es) examined", nArm))
	r.Check(nDirect >= 3, "timer-when-paired", schedPkg, "resets:count", "-", fmt.Sprintf("%d direct Reset sites on TreeScheduler.timer examined (>= 3 confirmed by reading)", nDirect))

	// ---- (5) dispatch iterator
	if f := r.Need(p, schedPkg, "TreeScheduler.iterator"); f != nil {
		found := 0
		for _, g := range f.Graphs() {
			// the select clause whose communication hands the item to a worker channel
			var bodies []*core.Node
			ast.Inspect(g.Body, func(x ast.Node) bool {
				if _, isLit := x.(*ast.FuncLit); isLit && x != ast.Node(g.Body) {
					return false // literals have their own graph
				}
				cc, ok := x.(*ast.CommClause)
				if !ok || len(cc.Body) == 0 {
					return true
				}
				s, ok := cc.Comm.(*ast.SendStmt)
				if !ok {
					return true
				}
				ch := ast.Unparen(s.Chan)
				if ix, ok := ch.(*ast.IndexExpr); ok {
					ch = ix.X
				}
				if core.FieldOf(g.Info, ch) == fWork {
					if n := firstNodeIn(g, cc.Body[0]); n != nil {
						bodies = append(bodies, n)
					}
				}
				return true
			})
			for _, sn := range bodies {
				found++
				start := []*core.Node{sn}
				esc := g.ExitsFrom(start, g.Assigning(fDel))
				r.Check(len(esc) == 0, "dispatch-advance", f.String(), "toDelete", g.Line(sn), "every path after handing the item to a worker records the dispatched entry for deletion")
				reach := g.Reach(start, g.Assigning(fIns), func(e *core.Edge) bool { return g.FailEdge(e) })
				bad := false
				for _, x := range g.Exits {
					if reach[x] {
						bad = true
					}
				}
				r.Check(!bad, "dispatch-advance", f.String(), "toInsert", g.Line(sn), "every path after the hand-off except the updateNext failure re-inserts the item")
				upd := g.Calling(call("task/backend/scheduler.Item.updateNext"))
				for _, in := range g.Select(g.Assigning(fIns)) {
					r.Check(!g.Reach(start, upd, nil)[in], "dispatch-advance", f.String(), "updateNext<toInsert", g.Line(in), "the item is re-inserted only after updateNext advanced it to the next due time")
				}
			}
		}
		r.Check(found >= 1, "dispatch-advance", f.String(), "worker-send:absent", f.Pos(), "the iterator hands due items to a worker channel")
		core.RuleErrorsUsed(r, f, "dispatch-advance", "Item.updateNext", call("task/backend/scheduler.Item.updateNext"), false, 1)
	}
}

// pathThroughAvoiding: is there an entry→exit path through node a that never
// passes a node selected by avoid?
func pathThroughAvoiding(g *core.Graph, a *core.Node, avoid core.NodePred) bool {
	if !g.ReachFromEntry(avoid, nil)[a] {
		return false
	}
	fwd := g.Reach(core.After(a, nil), avoid, nil)
	if len(a.Succ) == 0 {
		return true
	}
	for _, x := range g.Exits {
		if fwd[x] {
			return true
		}
	}
	return false
}

// rulePaired: every entry→exit path passes a node of class A iff it passes one of class B.
func rulePaired(r *core.Report, f *core.Func, g *core.Graph, rule, aName string, a core.NodePred, bName string, b core.NodePred, min int) {
	as, bs := g.Select(a), g.Select(b)
	if len(as) < min || len(bs) < min {
		r.Bad(rule, f.String(), aName+"+"+bName+":absent", f.Pos(), fmt.Sprintf("found %d %s and %d %s, expected >= %d of each", len(as), aName, len(bs), bName, min))
		return
	}
	ok := true
	for _, n := range as {
		if pathThroughAvoiding(g, n, b) {
			r.Bad(rule, f.String(), aName+"-without-"+bName, g.Line(n), "a path performs "+aName+" but not "+bName+": index and tree diverge")
			ok = false
		}
	}
	for _, n := range bs {
		if pathThroughAvoiding(g, n, a) {
			r.Bad(rule, f.String(), bName+"-without-"+aName, g.Line(n), "a path performs "+bName+" but not "+aName+": index and tree diverge")
			ok = false
		}
	}
	if ok {
		r.Ok(rule, f.String(), g.Line(as[0]), fmt.Sprintf("%s and %s occur together on every path (%d/%d sites)", aName, bName, len(as), len(bs)))
	}
}

// ruleNoneAfter: no node of class B is reachable from a node of class A.
func ruleNoneAfter(r *core.Report, f *core.Func, g *core.Graph, rule, aName string, a core.NodePred, bName string, b core.NodePred) {
	as := g.Select(a)
	if len(as) == 0 {
		r.Bad(rule, f.String(), aName+":absent", f.Pos(), "no "+aName)
		return
	}
	var starts []*core.Node
	for _, n := range as {
		starts = append(starts, core.After(n, nil)...)
	}
	reach := g.Reach(starts, nil, nil)
	ok := true
	for _, n := range g.Select(b) {
		if reach[n] {
			r.Bad(rule, f.String(), bName+"-after-"+aName, g.Line(n), bName+" is reachable after "+aName+" in the same call")
			ok = false
		}
	}
	if ok {
		r.Ok(rule, f.String(), g.Line(as[0]), "no "+bName+" after "+aName)
	}
}

// lookupVars finds `v, ok := x.nextTime[k]` in f and returns ok and v.
func lookupVars(f *core.Func, field *types.Var) (okVar, val types.Object) {
	info := f.Info()
	ast.Inspect(f.Decl.Body, func(n ast.Node) bool {
		as, ok := n.(*ast.AssignStmt)
		if !ok || len(as.Rhs) != 1 || len(as.Lhs) != 2 {
			return true
		}
		ix, ok := ast.Unparen(as.Rhs[0]).(*ast.IndexExpr)
		if !ok || core.FieldOf(info, ix.X) != field {
			return true
		}
		val, okVar = core.ObjOf(info, as.Lhs[0]), core.ObjOf(info, as.Lhs[1])
		return true
	})
	return
}

// ruleDeleteKey: the key given to BTree.Delete is an Item literal whose `when`
// is the time found in the uniqueness index.
func ruleDeleteKey(r *core.Report, f *core.Func, fNext *types.Var) {
	info := f.Info()
	_, val := lookupVars(f, fNext)
	dels := core.AllCalls(info, f.Decl.Body, btDelete)
	if !r.Check(val != nil && len(dels) >= 1, "delete-key", f.String(), "lookup-or-delete:absent", f.Pos(), "nextTime lookup and BTree.Delete found") {
		return
	}
	whenF := core.LookupField(f.Pkg.Types, "Item", "when")
	for _, c := range dels {
		good := false
		if len(c.Args) == 1 {
			if cl, ok := ast.Unparen(c.Args[0]).(*ast.CompositeLit); ok {
				for _, el := range cl.Elts {
					if kv, ok := el.(*ast.KeyValueExpr); ok {
						if k, ok := kv.Key.(*ast.Ident); ok && info.Uses[k] == types.Object(whenF) && core.ObjOf(info, kv.Value) == val {
							good = true
						}
					}
				}
			}
		}
		r.Check(good, "delete-key", f.String(), "BTree.Delete", f.Prog.Pos(c.Pos()), "the btree key of the old entry carries the time recorded in nextTime for the task")
	}
}

// durationSink: a callee and the index of its duration argument.
type durationSink struct {
	m   core.Matcher
	arg int
}

// durationSinks: Timer.Reset plus same-package wrappers handing a parameter straight to a sink.
func durationSinks(p *core.Prog, pkg string) []durationSink {
	sinks := []durationSink{{timerArm, 0}}
	for _, f := range p.Funcs(pkg) {
		if f.Decl.Body == nil || f.Obj == nil {
			continue
		}
		for _, c := range core.AllCalls(f.Info(), f.Decl.Body, timerArm) {
			if len(c.Args) != 1 {
				continue
			}
			for i := 0; ; i++ {
				pv := f.Param(i)
				if pv == nil {
					break
				}
				if core.ObjOf(f.Info(), c.Args[0]) == types.Object(pv) {
					obj, idx := f.Obj, i
					sinks = append(sinks, durationSink{func(info *types.Info, c *ast.CallExpr) bool { return core.Callee(info, c) == obj }, idx})
				}
			}
		}
	}
	return sinks
}

func sinkArg(info *types.Info, c *ast.CallExpr, sinks []durationSink) ast.Expr {
	for _, s := range sinks {
		if s.m(info, c) && s.arg < len(c.Args) {
			return c.Args[s.arg]
		}
	}
	return nil
}

func sinkNodes(g *core.Graph, sinks []durationSink) core.NodePred {
	return g.Calling(func(info *types.Info, c *ast.CallExpr) bool { return sinkArg(info, c, sinks) != nil })
}

// laterPair: a test established `later` strictly after `earlier`.
type laterPair struct{ later, earlier ast.Expr }

// laterFacts lists the strict time orderings established on edge e by
// Time.After / Time.Before tests.
func laterFacts(g *core.Graph, e *core.Edge) []laterPair {
	var out []laterPair
	for _, f := range core.EdgeFacts(e) {
		if !f.Truth {
			continue
		}
		c, isCall := f.Cond.(*ast.CallExpr)
		if !isCall || len(c.Args) != 1 {
			continue
		}
		se, isSel := ast.Unparen(c.Fun).(*ast.SelectorExpr)
		if !isSel {
			continue
		}
		switch core.FName(core.Callee(g.Info, c)) {
		case "time.Time.After":
			out = append(out, laterPair{se.X, c.Args[0]})
		case "time.Time.Before":
			out = append(out, laterPair{c.Args[0], se.X})
		}
	}
	return out
}

// localsWritten: does any node between from and n assign a local mentioned in exprs?
func localsStable(g *core.Graph, from, n *core.Node, exprs ...ast.Expr) bool {
	between := g.Reach([]*core.Node{from}, func(x *core.Node) bool { return x == n }, nil)
	stable := true
	for x := range between {
		as, ok := x.N.(*ast.AssignStmt)
		if !ok {
			continue
		}
		for _, l := range as.Lhs {
			if o := core.ObjOf(g.Info, l); o != nil {
				for _, e := range exprs {
					if core.MentionsObj(g.Info, e, o) {
						stable = false
					}
				}
			}
		}
	}
	return stable
}

// ruleTimerSign: time-sign rule for one graph; returns the number of sinks examined.
func ruleTimerSign(r *core.Report, f *core.Func, g *core.Graph, sinks []durationSink) int {
	info := g.Info
	n := 0
	for _, nd := range g.Select(sinkNodes(g, sinks)) {
		for _, c := range core.CallsIn(info, nd.N, func(info *types.Info, c *ast.CallExpr) bool { return sinkArg(info, c, sinks) != nil }, core.WalkOpts{}) {
			n++
			arg := ast.Unparen(sinkArg(info, c, sinks))
			// a local bound once to the duration expression
			if o, ok := core.ObjOf(info, arg).(*types.Var); ok && !o.IsField() {
				if e := singleDef(info, g.Body, o); e != nil {
					arg = ast.Unparen(e)
				}
			}
			sub, ok := arg.(*ast.CallExpr)
			name := calleeShort(info, c)
			if !ok || !timeSub(info, sub) || len(sub.Args) != 1 {
				r.Ok("timer-sign", f.String(), f.Prog.Pos(c.Pos()), "duration of "+name+" is not a Time.Sub under an ordering test")
				continue
			}
			u, v := ast.Unparen(sub.Fun).(*ast.SelectorExpr).X, sub.Args[0] // u - v
			negative := false
			for _, e := range g.Edges(func(e *core.Edge) bool { return len(laterFacts(g, e)) > 0 }) {
				for _, lp := range laterFacts(g, e) {
					if !core.SameExpr(info, lp.later, v) || !core.SameExpr(info, lp.earlier, u) {
						continue
					}
					if !g.OnlyVia(nd, func(x *core.Edge) bool { return x == e }) {
						continue
					}
					if !localsStable(g, e.To, nd, u, v) {
						continue
					}
					negative = true
				}
			}
			if negative {
				r.Bad("timer-sign", f.String(), "negative-duration:"+name, f.Prog.Pos(c.Pos()),
					"the duration "+core.ExprStr(arg)+" handed to "+name+" is negative: the dominating test established "+core.ExprStr(v)+" later than "+core.ExprStr(u)+" ⇒ the timer fires at once and the loop spins until the item is due")
			} else {
				r.Ok("timer-sign", f.String(), f.Prog.Pos(c.Pos()), "no dominating ordering test makes "+core.ExprStr(arg)+" (handed to "+name+") negative")
			}
		}
	}
	return n
}

// singleDef returns the defining expression of a local assigned exactly once (v := e).
func singleDef(info *types.Info, body ast.Node, o types.Object) ast.Expr {
	var def ast.Expr
	n := 0
	ast.Inspect(body, func(x ast.Node) bool {
		if as, ok := x.(*ast.AssignStmt); ok {
			for i, l := range as.Lhs {
				if core.ObjOf(info, l) == o {
					n++
					if len(as.Lhs) == len(as.Rhs) {
						def = as.Rhs[i]
					}
				}
			}
		}
		return true
	})
	if n != 1 {
		return nil
	}
	return def
}

func unlocking(g *core.Graph, fMu *types.Var) core.NodePred {
	return g.Calling(func(info *types.Info, c *ast.CallExpr) bool {
		if !call("sync.RWMutex.Unlock", "sync.Mutex.Unlock", "sync.RWMutex.RUnlock")(info, c) {
			return false
		}
		se, ok := ast.Unparen(c.Fun).(*ast.SelectorExpr)
		return ok && core.FieldOf(info, se.X) == fMu
	})
}

func locking(g *core.Graph, fMu *types.Var) core.NodePred {
	return g.Calling(func(info *types.Info, c *ast.CallExpr) bool {
		if !call("sync.RWMutex.Lock", "sync.Mutex.Lock")(info, c) {
			return false
		}
		se, ok := ast.Unparen(c.Fun).(*ast.SelectorExpr)
		return ok && core.FieldOf(info, se.X) == fMu
	})
}

// ruleRearm: on an edge that established "head item's When() is later than now",
// every path to the lock release (or exit) passes a timer re-arm.
func ruleRearm(r *core.Report, f *core.Func, g *core.Graph, sinks []durationSink, fMu *types.Var) int {
	n := 0
	for _, e := range g.Edges(func(e *core.Edge) bool {
		for _, lp := range laterFacts(g, e) {
			if c, isCall := ast.Unparen(lp.later).(*ast.CallExpr); isCall && itemWhen(g.Info, c) {
				return true
			}
		}
		return false
	}) {
		n++
		reach := g.Reach([]*core.Node{e.To}, sinkNodes(g, sinks), nil)
		bad := false
		for x := range reach {
			if unlocking(g, fMu)(x) || len(x.Succ) == 0 {
				bad = true
			}
		}
		r.Check(!bad, "timer-rearm", f.String(), "not-due-branch", g.Line(e.From), "when the earliest item is not yet due the timer is re-armed before the scheduler lock is released")
	}
	return n
}

// ruleWhenPaired: every direct Reset of s.timer shares its critical section with a store to s.when.
func ruleWhenPaired(r *core.Report, f *core.Func, g *core.Graph, fTimer, fWhen, fMu *types.Var) int {
	resets := g.Select(g.Calling(func(info *types.Info, c *ast.CallExpr) bool {
		if !timerArm(info, c) {
			return false
		}
		se, ok := ast.Unparen(c.Fun).(*ast.SelectorExpr)
		return ok && core.FieldOf(info, se.X) == fTimer
	}))
	if len(resets) == 0 {
		return 0
	}
	store := g.Assigning(fWhen)
	starts := []*core.Node{g.Entry}
	for _, l := range g.Select(locking(g, fMu)) {
		starts = append(starts, core.After(l, nil)...)
	}
	back := g.Reach(starts, store, nil)
	for _, n := range resets {
		paired := !back[n]
		if !paired {
			fwd := g.Reach(core.After(n, nil), store, nil)
			paired = true
			for x := range fwd {
				if unlocking(g, fMu)(x) || len(x.Succ) == 0 {
					paired = false
				}
			}
		}
		r.Check(paired, "timer-when-paired", f.String(), "Reset-without-when", g.Line(n),
			"s.timer.Reset is accompanied in the same critical section by a store to s.when (When() reports what the timer waits for)")
	}
	return len(resets)
}

// calleeShort is the bare name of the called function ("Reset", "resetTimer").
func calleeShort(info *types.Info, c *ast.CallExpr) string {
	if fn := core.Callee(info, c); fn != nil {
		return fn.Name()
	}
	return "?"
}

// firstNodeIn returns the graph node with the smallest position inside stmt
// (the first one evaluated for simple, if, switch and for statements).
func firstNodeIn(g *core.Graph, stmt ast.Node) *core.Node {
	var best *core.Node
	for _, n := range g.Nodes {
		if n.N == nil || n.N.Pos() < stmt.Pos() || n.N.End() > stmt.End() {
			continue
		}
		if best == nil || n.N.Pos() < best.N.Pos() {
			best = n
		}
	}
	return best
}
