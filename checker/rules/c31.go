package rules

import (
	"fmt"
	"go/ast"
	"go/constant"
	"go/token"
	"go/types"

	"verif/checker/core"
)

const (
	platPk8  = "kit/platform"
	snowPk8  = "pkg/snowflake"
	snowGen8 = "snowflake"
)

func init() {
	register(&Prop{
		ID:       "C31",
		Patterns: []string{"./kit/platform", "./pkg/snowflake", "./snowflake"},
		Level:    "other",
		Explanation: "Necessary-condition rules for ID round trip and generator uniqueness, decided on types and CFG paths: " +
			"(1) id-codec: ID.Encode succeeds only where Valid() is true and every success path passes BigEndian.PutUint64 then hex.Encode; ID.Decode succeeds only where len(b)==IDLength (constant 16), strconv.ParseUint(…,16,64) returned a nil error and Valid() is true, and the receiver is stored from the parsed value; DecodeFromString/UnmarshalText/IDFromString/MarshalText delegate to Decode/Encode with the error propagated, IDFromString yields a pointer only on a nil error; Valid() is `!= 0`; " +
			"(2) snowflake-atomic: every access to Generator.state is the address operand of sync/atomic Load/CompareAndSwap/Add (no plain read/write, no atomic Store/Swap that could publish a stale value); " +
			"(3) snowflake-next: in Generator.Next the CAS compares against the value obtained by atomic.LoadUint64(&g.state) and installs the local that is returned; a failed CAS resets that local to 0 before it can be returned; the fallback atomic.AddUint64 result is what is returned when the local is 0; the returned value is `state | g.machine`; " +
			"(4) generator-nonzero: snowflake.IDGenerator.ID returns only where id.Valid() is true and the id comes from Generator.Next.",
		NotCovered:  "that strconv.ParseUint accepts upper-case hex digits (so some non-canonical 16-character strings decode), the bit layout arithmetic that makes successive states distinct, clock behaviour, distinctness across generators with the same machine id.",
		Assumptions: []string{"sync/atomic operations are linearizable", "strconv.ParseUint(s,16,64) accepts exactly hex numerals without sign/prefix"},
		Run:         runC31,
	})
}

func runC31(p *core.Prog, r *core.Report, tier string) {
	c31Codec(p, r)
	c31Atomic(p, r)
	c31Next(p, r)
	c31Generator(p, r)
}

// validCall8 matches ID.Valid().
var validCall8 = call("kit/platform.ID.Valid")

func c31Codec(p *core.Prog, r *core.Report) {
	const rule = "id-codec"
	// Valid() is `i != 0`
	if f := r.Need(p, platPk8, "ID.Valid"); f != nil {
		ok := false
		info := f.Info()
		var recv types.Object
		if f.Decl.Recv != nil && len(f.Decl.Recv.List) == 1 && len(f.Decl.Recv.List[0].Names) == 1 {
			recv = info.Defs[f.Decl.Recv.List[0].Names[0]]
		}
		if len(f.Decl.Body.List) == 1 {
			if rs, isRet := f.Decl.Body.List[0].(*ast.ReturnStmt); isRet && len(rs.Results) == 1 {
				if be, isBin := ast.Unparen(rs.Results[0]).(*ast.BinaryExpr); isBin && be.Op == token.NEQ {
					x, y := be.X, be.Y
					if _, isC := core.IntConst8(info, x); isC {
						x, y = y, x
					}
					if v, isC := core.IntConst8(info, y); isC && constant.Sign(v) == 0 && recv != nil && core.ObjOf(info, x) == recv {
						ok = true
					}
				}
			}
		}
		r.Check(ok, rule, f.String(), "not-nonzero-test", f.Pos(), "Valid() is exactly `receiver != 0`")
	}
	if f := r.Need(p, platPk8, "ID.Encode"); f != nil {
		g := f.Graph()
		core.RuleOnlyVia8(r, f, g, rule, "success-exit", "Valid()==true", g.SuccessExitPred8(), g.CallFactEdge8(validCall8, true), 1)
		core.RuleMustPass(r, f, rule, "binary.BigEndian.PutUint64", call("encoding/binary.bigEndian.PutUint64"), false)
		core.RuleMustPass(r, f, rule, "hex.Encode", call("encoding/hex.Encode"), false)
		core.RulePrecede(r, f, rule, "PutUint64", call("encoding/binary.bigEndian.PutUint64"), "hex.Encode", call("encoding/hex.Encode"))
		// the value written is the receiver
		okArg := false
		info := f.Info()
		for _, c := range core.AllCalls(info, f.Decl.Body, call("encoding/binary.bigEndian.PutUint64")) {
			if len(c.Args) == 2 {
				if cv, isConv := ast.Unparen(c.Args[1]).(*ast.CallExpr); isConv && len(cv.Args) == 1 {
					if o := core.ObjOf(info, cv.Args[0]); o != nil && o == recvObj8(f) {
						okArg = true
					}
				}
			}
		}
		r.Check(okArg, rule, f.String(), "PutUint64-arg", f.Pos(), "the encoded integer is the receiver")
	}
	if f := r.Need(p, platPk8, "ID.Decode"); f != nil {
		g := f.Graph()
		info := f.Info()
		succ := g.SuccessExitPred8()
		// gate 1: len(param) == IDLength where IDLength == 16
		var param types.Object
		if ps := f.Decl.Type.Params; ps != nil && len(ps.List) == 1 && len(ps.List[0].Names) == 1 {
			param = info.Defs[ps.List[0].Names[0]]
		}
		lenGate := core.CmpFactEdge8(func(c core.Cmp8) bool {
			if c.Op != token.EQL {
				return false
			}
			lc, ok := c.L.(*ast.CallExpr)
			if !ok || !core.Builtin("len")(info, lc) || len(lc.Args) != 1 || core.ObjOf(info, lc.Args[0]) != param {
				return false
			}
			v, ok := core.IntConst8(info, c.R)
			return ok && constant.Compare(v, token.EQL, constant.MakeInt64(16))
		})
		core.RuleOnlyVia8(r, f, g, rule, "success-exit/len", "len(b)==16", succ, lenGate, 1)
		// gate 2: ParseUint error nil
		parse := call("strconv.ParseUint")
		pn := g.Select(g.Calling(parse))
		if r.Check(len(pn) == 1, rule, f.String(), "ParseUint:absent", f.Pos(), "exactly one strconv.ParseUint call") {
			fail, okE, has := g.ErrEdges(pn[0])
			if r.Check(has && okE != nil, rule, f.String(), "ParseUint:unchecked", g.Line(pn[0]), "ParseUint error is tested") {
				reach := g.ReachFromEntry(nil, func(e *core.Edge) bool { return e == okE })
				bad := false
				for _, x := range g.SuccessExits() {
					if reach[x] {
						bad = true
					}
				}
				r.Check(!bad, rule, f.String(), "success-exit/ParseUint", g.Line(pn[0]), "success only where ParseUint returned a nil error")
				_ = fail
			}
			// base 16, 64 bits
			for _, c := range core.CallsIn(info, pn[0].N, parse, core.WalkOpts{}) {
				okB := false
				if len(c.Args) == 3 {
					b, ok1 := core.IntConst8(info, c.Args[1])
					w, ok2 := core.IntConst8(info, c.Args[2])
					okB = ok1 && ok2 && constant.Compare(b, token.EQL, constant.MakeInt64(16)) && constant.Compare(w, token.EQL, constant.MakeInt64(64))
				}
				r.Check(okB, rule, f.String(), "ParseUint-base", p.Pos(c.Pos()), "ParseUint(…, 16, 64)")
			}
		}
		// gate 3: Valid() true
		core.RuleOnlyVia8(r, f, g, rule, "success-exit/Valid", "Valid()==true", succ, g.CallFactEdge8(validCall8, true), 1)
		// the receiver is stored from the ParseUint result
		stored := false
		recv := recvObj8(f)
		var resVar types.Object
		ast.Inspect(f.Decl.Body, func(n ast.Node) bool {
			if as, ok := n.(*ast.AssignStmt); ok && len(as.Rhs) == 1 {
				if c, ok := as.Rhs[0].(*ast.CallExpr); ok && parse(info, c) && len(as.Lhs) == 2 {
					resVar = core.ObjOf(info, as.Lhs[0])
				}
			}
			return true
		})
		ast.Inspect(f.Decl.Body, func(n ast.Node) bool {
			if as, ok := n.(*ast.AssignStmt); ok && len(as.Lhs) == 1 && len(as.Rhs) == 1 {
				if st, ok := ast.Unparen(as.Lhs[0]).(*ast.StarExpr); ok && core.ObjOf(info, st.X) == recv {
					if cv, ok := ast.Unparen(as.Rhs[0]).(*ast.CallExpr); ok && len(cv.Args) == 1 && resVar != nil && core.ObjOf(info, cv.Args[0]) == resVar {
						stored = true
					}
				}
			}
			return true
		})
		r.Check(stored, rule, f.String(), "store-parsed", f.Pos(), "*i is assigned from the ParseUint result")
	}
	// delegation
	for _, d := range []struct{ fn, callee string }{
		{"ID.DecodeFromString", "kit/platform.ID.Decode"},
		{"ID.UnmarshalText", "kit/platform.ID.Decode"},
		{"ID.MarshalText", "kit/platform.ID.Encode"},
		{"IDFromString", "kit/platform.ID.DecodeFromString"},
	} {
		if f := r.Need(p, platPk8, d.fn); f != nil {
			core.RuleMustPass(r, f, rule, d.callee, call(d.callee), false)
			core.RuleErrorsUsed(r, f, rule, d.callee, call(d.callee), false, 1)
		}
	}
	if f := r.Need(p, platPk8, "IDFromString"); f != nil {
		g := f.Graph()
		dn := g.Select(g.Calling(call("kit/platform.ID.DecodeFromString")))
		if len(dn) == 1 {
			_, okE, has := g.ErrEdges(dn[0])
			if r.Check(has && okE != nil, rule, f.String(), "Decode:unchecked", g.Line(dn[0]), "decode error is tested") {
				reach := g.ReachFromEntry(nil, func(e *core.Edge) bool { return e == okE })
				bad := false
				for _, x := range g.Exits {
					rs, _ := x.N.(*ast.ReturnStmt)
					if rs != nil && len(rs.Results) == 2 && !core.IsNilIdent(f.Info(), rs.Results[0]) && reach[x] {
						bad = true
					}
				}
				r.Check(!bad, rule, f.String(), "pointer-on-error", g.Line(dn[0]), "a non-nil *ID is returned only where decoding succeeded")
			}
		}
	}
}

func recvObj8(f *core.Func) types.Object {
	if f.Decl.Recv != nil && len(f.Decl.Recv.List) == 1 && len(f.Decl.Recv.List[0].Names) == 1 {
		return f.Info().Defs[f.Decl.Recv.List[0].Names[0]]
	}
	return nil
}

// atomicOps on Generator.state that keep "publish only via CAS/Add".
var stateAtomicOK = map[string]bool{
	"sync/atomic.LoadUint64":           true,
	"sync/atomic.CompareAndSwapUint64": true,
	"sync/atomic.AddUint64":            true,
}

func c31Atomic(p *core.Prog, r *core.Report) {
	const rule = "snowflake-atomic"
	pk := p.Pkg(snowPk8)
	if pk == nil {
		r.Bad("anchor", snowPk8, "unresolved", "-", "package not loaded")
		return
	}
	state := core.LookupField(pk.Types, "Generator", "state")
	if !r.Check(state != nil, "anchor", snowPk8+".Generator.state", "unresolved", "-", "field resolved") {
		return
	}
	atomicN := 0
	for _, f := range p.Funcs(snowPk8) {
		if f.Decl.Body == nil {
			continue
		}
		info := f.Info()
		// selector expressions denoting the field that are the `&x.state` first argument of an allowed atomic call
		okSel := map[*ast.SelectorExpr]string{}
		ast.Inspect(f.Decl.Body, func(n ast.Node) bool {
			c, ok := n.(*ast.CallExpr)
			if !ok || len(c.Args) == 0 {
				return true
			}
			name := core.FName(core.Callee(info, c))
			u, ok := ast.Unparen(c.Args[0]).(*ast.UnaryExpr)
			if !ok || u.Op != token.AND {
				return true
			}
			se, ok := ast.Unparen(u.X).(*ast.SelectorExpr)
			if !ok || core.FieldOf(info, se) != state {
				return true
			}
			if fn := core.Callee(info, c); fn != nil && fn.Pkg() != nil && fn.Pkg().Path() == "sync/atomic" {
				okSel[se] = name
			}
			return true
		})
		ast.Inspect(f.Decl.Body, func(n ast.Node) bool {
			switch x := n.(type) {
			case *ast.SelectorExpr:
				if core.FieldOf(info, x) != state {
					return true
				}
				r.Saw(f)
				name, isAtomic := okSel[x]
				switch {
				case !isAtomic:
					r.Bad(rule, f.String(), "plain-access", p.Pos(x.Pos()), "Generator.state is accessed without sync/atomic")
				case !stateAtomicOK[name]:
					r.Bad(rule, f.String(), name, p.Pos(x.Pos()), "Generator.state is modified by "+name+": a blind store can republish an older state (duplicate IDs)")
				default:
					atomicN++
				}
			case *ast.KeyValueExpr:
				// composite literal key `state: 0` in the constructor: must be the constant 0
				if id, ok := x.Key.(*ast.Ident); ok && info.Uses[id] == state {
					v, isC := core.IntConst8(info, x.Value)
					r.Check(isC && constant.Sign(v) == 0, rule, f.String(), "ctor-state", p.Pos(x.Pos()), "constructor initialises state with the constant 0 (object not yet shared)")
				}
			}
			return true
		})
	}
	r.Check(atomicN >= 3, rule, snowPk8+".Generator.state", "accesses:count", "-", fmt.Sprintf("%d atomic accesses of Generator.state (>= 3 confirmed by reading: Load, CAS, Add)", atomicN))
}

func c31Next(p *core.Prog, r *core.Report) {
	const rule = "snowflake-next"
	f := r.Need(p, snowPk8, "Generator.Next")
	if f == nil {
		return
	}
	info := f.Info()
	g := f.Graph()
	state := core.LookupField(f.Pkg.Types, "Generator", "state")
	machine := core.LookupField(f.Pkg.Types, "Generator", "machine")
	isStateAddr := func(e ast.Expr) bool {
		u, ok := ast.Unparen(e).(*ast.UnaryExpr)
		return ok && u.Op == token.AND && core.FieldOf(info, u.X) == state && state != nil
	}
	cas := call("sync/atomic.CompareAndSwapUint64")
	load := call("sync/atomic.LoadUint64")
	add := call("sync/atomic.AddUint64")
	casCalls := core.AllCalls(info, f.Decl.Body, cas)
	if !r.Check(len(casCalls) == 1, rule, f.String(), "CAS:absent", f.Pos(), "one CompareAndSwapUint64 call") {
		return
	}
	c := casCalls[0]
	if !r.Check(len(c.Args) == 3 && isStateAddr(c.Args[0]), rule, f.String(), "CAS-target", p.Pos(c.Pos()), "CAS operates on &g.state") {
		return
	}
	oldV, newV := core.ObjOf(info, c.Args[1]), core.ObjOf(info, c.Args[2])
	// old value: only ever assigned from atomic.LoadUint64(&g.state)
	okOld := oldV != nil
	if okOld {
		as := core.AssignsTo8(info, f.Decl.Body, oldV)
		okOld = len(as) >= 1
		for _, a := range as {
			lc, isCall := a.Rhs.(*ast.CallExpr)
			if a.Rhs == nil || !isCall || !load(info, lc) || len(lc.Args) != 1 || !isStateAddr(lc.Args[0]) {
				okOld = false
			}
		}
	}
	r.Check(okOld, rule, f.String(), "CAS-old", p.Pos(c.Pos()), "the CAS expected value is a local only assigned from atomic.LoadUint64(&g.state)")
	if !r.Check(newV != nil, rule, f.String(), "CAS-new", p.Pos(c.Pos()), "the CAS new value is a local variable") {
		return
	}
	// every return returns `newV | g.machine`
	rets := 0
	for _, x := range g.Exits {
		rs, ok := x.N.(*ast.ReturnStmt)
		if !ok {
			r.Bad(rule, f.String(), "fall-off", g.Line(x), "function exit without return")
			continue
		}
		rets++
		good := false
		if len(rs.Results) == 1 {
			if be, ok := ast.Unparen(rs.Results[0]).(*ast.BinaryExpr); ok && be.Op == token.OR {
				a, b := be.X, be.Y
				if core.ObjOf(info, a) != newV {
					a, b = b, a
				}
				good = core.ObjOf(info, a) == newV && core.FieldOf(info, b) == machine && machine != nil
			}
		}
		r.Check(good, rule, f.String(), "return-value", g.Line(x), "returns <published state> | g.machine")
	}
	r.Check(rets >= 1, rule, f.String(), "return:absent", f.Pos(), "has a return")
	// a failed CAS resets newV to 0 before any exit or loop exit can observe it
	casNode := g.NodeOf(c)
	zeroAssign := func(n *core.Node) bool {
		as, ok := n.N.(*ast.AssignStmt)
		if !ok || as.Tok != token.ASSIGN || len(as.Lhs) != 1 || len(as.Rhs) != 1 || core.ObjOf(info, as.Lhs[0]) != newV {
			return false
		}
		v, isC := core.IntConst8(info, as.Rhs[0])
		return isC && constant.Sign(v) == 0
	}
	if r.Check(casNode != nil, rule, f.String(), "CAS-node", p.Pos(c.Pos()), "CAS is a CFG condition") {
		var failTo []*core.Node
		for _, e := range casNode.Succ {
			for _, fc := range core.EdgeFacts8(e) {
				if fc.X == ast.Expr(c) && !fc.Val {
					failTo = append(failTo, e.To)
				}
			}
		}
		if r.Check(len(failTo) >= 1, rule, f.String(), "CAS-fail-edge", g.Line(casNode), "the CAS result is branched on") {
			// from the failure edge, no exit may be reached without first passing `newV = 0`
			// or a fresh CAS attempt (whose own outcome then decides)
			reach := g.Reach(failTo, func(n *core.Node) bool { return zeroAssign(n) || n == casNode }, nil)
			bad := false
			for _, x := range g.Exits {
				if reach[x] {
					bad = true
				}
			}
			r.Check(!bad, rule, f.String(), "failed-CAS-reset", g.Line(casNode), "after a failed CAS the candidate state is reset to 0 before an exit can be reached (an unpublished state is never returned)")
		}
	}
	// fallback: newV = atomic.AddUint64(&g.state, 1) guarded by newV == 0
	addNodes := g.Select(g.Calling(add))
	if r.Check(len(addNodes) == 1, rule, f.String(), "AddUint64:absent", f.Pos(), "one fallback atomic.AddUint64") {
		an := addNodes[0]
		as, ok := an.N.(*ast.AssignStmt)
		okAdd := ok && len(as.Lhs) == 1 && len(as.Rhs) == 1 && core.ObjOf(info, as.Lhs[0]) == newV
		if okAdd {
			ac, isCall := as.Rhs[0].(*ast.CallExpr)
			okAdd = isCall && add(info, ac) && len(ac.Args) == 2 && isStateAddr(ac.Args[0])
			if okAdd {
				d, isC := core.IntConst8(info, ac.Args[1])
				okAdd = isC && constant.Sign(d) > 0
			}
		}
		r.Check(okAdd, rule, f.String(), "AddUint64-form", g.Line(an), "fallback is `state = atomic.AddUint64(&g.state, <positive const>)`: the returned value is the one this call published")
		zeroTest := core.CmpFactEdge8(func(cm core.Cmp8) bool {
			if cm.Op != token.EQL || core.ObjOf(info, cm.L) != newV {
				return false
			}
			v, isC := core.IntConst8(info, cm.R)
			return isC && constant.Sign(v) == 0
		})
		core.RuleOnlyVia8(r, f, g, rule, "AddUint64", "state == 0", func(n *core.Node) bool { return n == an }, zeroTest, 1)
		// and conversely: a return is reachable from `state == 0` only through the Add
		nonZero := core.CmpFactEdge8(func(cm core.Cmp8) bool {
			if cm.Op != token.NEQ || core.ObjOf(info, cm.L) != newV {
				return false
			}
			v, isC := core.IntConst8(info, cm.R)
			return isC && constant.Sign(v) == 0
		})
		// every return passes either the Add node or the `state != 0` edge
		reach := g.ReachFromEntry(func(n *core.Node) bool { return n == an }, nonZero)
		bad := false
		for _, x := range g.Exits {
			if reach[x] {
				bad = true
			}
		}
		r.Check(!bad && g.HasEdge8(nonZero), rule, f.String(), "return-unpublished", g.Line(an), "every return passes the fallback Add or the `state != 0` branch (a zero/unpublished state is never returned)")
	}
}

func c31Generator(p *core.Prog, r *core.Report) {
	const rule = "generator-nonzero"
	f := r.Need(p, snowGen8, "IDGenerator.ID")
	if f == nil {
		return
	}
	g := f.Graph()
	info := f.Info()
	rets := func(n *core.Node) bool { _, ok := n.N.(*ast.ReturnStmt); return ok }
	core.RuleOnlyVia8(r, f, g, rule, "return", "id.Valid()==true", rets, g.CallFactEdge8(validCall8, true), 1)
	// the returned variable is the one tested and is assigned from Generator.Next
	var tested types.Object
	for _, n := range g.Nodes {
		for _, e := range n.Succ {
			for _, fc := range core.EdgeFacts8(e) {
				if c, ok := fc.X.(*ast.CallExpr); ok && validCall8(info, c) {
					if se, ok := ast.Unparen(c.Fun).(*ast.SelectorExpr); ok {
						tested = core.ObjOf(info, se.X)
					}
				}
			}
		}
	}
	okRet := tested != nil
	for _, x := range g.Exits {
		rs, ok := x.N.(*ast.ReturnStmt)
		if !ok || len(rs.Results) != 1 || core.ObjOf(info, rs.Results[0]) != tested {
			okRet = false
		}
	}
	r.Check(okRet, rule, f.String(), "returned-var", f.Pos(), "the value returned is the variable whose validity was tested")
	okSrc := false
	if tested != nil {
		for _, a := range core.AssignsTo8(info, f.Decl.Body, tested) {
			if a.Rhs == nil {
				continue // `var id ID` zero value: invalid, loop entered
			}
			okSrc = len(core.AllCalls(info, a.Rhs, call("pkg/snowflake.Generator.Next"))) == 1
			if !okSrc {
				break
			}
		}
	}
	r.Check(okSrc, rule, f.String(), "source", f.Pos(), "every assigned id comes from snowflake.Generator.Next")
}
