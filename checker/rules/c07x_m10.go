package rules

import (
	"go/ast"
	"go/token"
	"go/types"
	"sort"

	"verif/checker/core"
)

// Structural necessary conditions of the codec round trip that are independent
// of the bit layout (m10):
//
//   empty-only-when-empty   an encoder/decoder answers "nothing" (nil / empty
//                           slice, nil error) only on an edge that established
//                           that its input is empty
//   buffer-capacity         a buffer is resliced up to n (x = x[:n]) only where
//                           cap(x) >= n was established or x was (re)allocated
//   decoder-initialised     X.Next() of a decoder is reachable only through
//                           X.Init / X.SetBytes of the same decoder
//   literal-error-returned  the error of a function literal invoked in place is
//                           returned (or tested) on every path
//   encoder-fed             the two encoders whose Bytes() are packed into a
//                           block are both written in every iteration over the
//                           values, and flushed before Bytes() when Flush does
//                           something
//   dispatch-arm-acts       every accepting arm of a switch over the format tag
//                           of the header byte does something (calls a decoder /
//                           returns a computed value)

func c07m10Funcs(r *core.Report) []*core.Func {
	var fs []*core.Func
	for f := range r.FuncObjs {
		if f.Decl != nil && f.Decl.Body != nil && core.Short(f.Pkg.PkgPath) == tsm1 {
			fs = append(fs, f)
		}
	}
	sort.Slice(fs, func(i, j int) bool { return fs[i].String() < fs[j].String() })
	return fs
}

func init() {
	extend("C07", "layout-independent codec conditions: an encoder or decoder returns an empty result with a nil error only on an edge that established that its input is empty; a buffer is resliced up to n only where cap >= n was established or it was reallocated on the way; Next() of a value/timestamp/simple8b decoder is reachable only through Init/SetBytes of the same decoder; the error of a function literal invoked in place is returned or tested on every path; the two encoders whose Bytes() a block encoder packs are both written in every iteration over the values (and flushed before Bytes() when their Flush has a body); every accepting arm of a switch over a header format tag calls a decoder or returns a computed value; every field (other than fixed-size scratch arrays) of a pooled decoder type (Next + Init/SetBytes) is assigned or re-initialised by Init/SetBytes or a method of the decoder it calls, so no state of the previous block survives into the next decode.",
		nil, func(p *core.Prog, r *core.Report, tier string) {
			fs := c07m10Funcs(r)
			if !r.Check(len(fs) >= 40, "codec-conditions", tsm1, "functions:absent", "-", "the codec functions analysed by the tag/block rules are available") {
				return
			}
			nEmpty, nCap, nInit, nLit, nFed, nArm := 0, 0, 0, 0, 0, 0
			for _, f := range fs {
				nEmpty += c07m10Empty(p, r, f)
				nCap += c07m10Capacity(p, r, f)
				nInit += c07m10DecoderInit(p, r, f)
				nLit += c07m10LitErr(p, r, f)
				nFed += c07m10Fed(p, r, f)
			}
			nArm = c07m10Arms(p, r, fs)
			c07m10Reset(p, r, fs)
			r.Check(nEmpty >= 15, "empty-only-when-empty", tsm1, "sites:absent", "-", "empty-result shortcuts found in the codec functions")
			r.Check(nCap >= 10, "buffer-capacity", tsm1, "sites:absent", "-", "capacity-guarded reslices found in the codec functions")
			r.Check(nInit >= 10, "decoder-initialised", tsm1, "sites:absent", "-", "decoder iterations found in the block decoders")
			r.Check(nLit >= 5, "literal-error-returned", tsm1, "sites:absent", "-", "in-place literals with an error result found in the block codecs")
			r.Check(nFed >= 5, "encoder-fed", tsm1, "sites:absent", "-", "block encoders packing two encoders found")
			r.Check(nArm >= 6, "dispatch-arm-acts", tsm1, "sites:absent", "-", "accepting arms of format-tag switches found")
		})
}

// ---------------------------------------------------------------- empty-only-when-empty

// c07m10IsEmptyResult: nil, an empty composite literal, or x[:0].
func c07m10IsEmptyResult(info *types.Info, e ast.Expr) bool {
	e = ast.Unparen(e)
	if core.IsNilIdent(info, e) {
		return true
	}
	switch x := e.(type) {
	case *ast.CompositeLit:
		return len(x.Elts) == 0
	case *ast.SliceExpr:
		if x.High != nil && x.Low == nil {
			v, ok := core.ConstInt(info, x.High)
			return ok && v == 0
		}
	}
	return false
}

func c07m10IsLen(info *types.Info, root ast.Node) func(ast.Expr) bool {
	return func(e ast.Expr) bool {
		c, ok := ast.Unparen(core.ResolveLocal(info, root, e)).(*ast.CallExpr)
		if !ok {
			return false
		}
		if core.Builtin("len")(info, c) {
			return true
		}
		// a.Len() of an array block
		if fn := core.Callee(info, c); fn != nil && fn.Name() == "Len" && len(c.Args) == 0 {
			return true
		}
		return false
	}
}

func c07m10Empty(p *core.Prog, r *core.Report, f *core.Func) int {
	const rule = "empty-only-when-empty"
	g := f.Graph()
	if g.Sig == nil || g.Sig.Results().Len() != 2 || !core.IsErrorType(g.Sig.Results().At(1).Type()) {
		return 0
	}
	if _, isSlice := g.Sig.Results().At(0).Type().Underlying().(*types.Slice); !isSlice {
		return 0
	}
	info := f.Info()
	isLen := c07m10IsLen(info, f.Decl.Body)
	// the input is empty, shorter than a constant minimal encoding, or carries
	// the package's explicit end-of-values marker
	tooShort := func(a ast.Expr, v bool) bool {
		x, op, _, ok := core.IntCmp(info, a)
		if !ok || !isLen(x) {
			return false
		}
		return (op == token.LSS || op == token.LEQ) && v || (op == token.GEQ || op == token.GTR) && !v
	}
	marker := func(a ast.Expr, v bool) bool {
		be, ok := ast.Unparen(a).(*ast.BinaryExpr)
		if !ok || (be.Op != token.EQL && be.Op != token.NEQ) || (be.Op == token.EQL) != v {
			return false
		}
		for _, side := range []ast.Expr{be.X, be.Y} {
			if o := core.ObjOf(info, side); o != nil && o.Pkg() != nil && o.Parent() == o.Pkg().Scope() {
				if _, isNil := o.(*types.Nil); !isNil {
					return true
				}
			}
		}
		return false
	}
	emptyEdge := core.EdgeEstablishing(core.AnyFact(core.NonZeroFact(info, isLen, false, true), tooShort, marker))
	reach := g.ReachFromEntry(nil, emptyEdge)
	n := 0
	for _, x := range g.SuccessExits() {
		rs, ok := x.N.(*ast.ReturnStmt)
		if !ok || len(rs.Results) != 2 || !core.IsNilIdent(info, rs.Results[1]) || !c07m10IsEmptyResult(info, rs.Results[0]) {
			continue
		}
		n++
		r.Check(!reach[x], rule, f.String(), "empty-result-for-non-empty-input", g.Line(x), "an empty result with a nil error is returned only where the input was found empty")
	}
	return n
}

// ---------------------------------------------------------------- buffer-capacity

// c07m10CapFact: the atom, with the value it has on the edge, guarantees
// cap(base) >= n (or len(base) >= n).
func c07m10CapFact(info *types.Info, base, n ast.Expr) core.CondFact {
	isCap := func(e ast.Expr) bool {
		c, ok := ast.Unparen(e).(*ast.CallExpr)
		return ok && (core.Builtin("cap")(info, c) || core.Builtin("len")(info, c)) && len(c.Args) == 1 && core.SameExpr(info, c.Args[0], base)
	}
	isN := func(e ast.Expr) bool { return core.SameExpr(info, e, n) }
	return func(a ast.Expr, v bool) bool {
		be, ok := ast.Unparen(a).(*ast.BinaryExpr)
		if !ok {
			return false
		}
		op := be.Op
		x, y := be.X, be.Y
		if isN(x) && isCap(y) { // n OP cap  ==  cap OP' n
			flip := map[token.Token]token.Token{token.LSS: token.GTR, token.LEQ: token.GEQ, token.GTR: token.LSS, token.GEQ: token.LEQ, token.EQL: token.EQL}
			f, ok := flip[op]
			if !ok {
				return false
			}
			op, x, y = f, y, x
		}
		if !isCap(x) || !isN(y) {
			return false
		}
		switch op {
		case token.GEQ, token.GTR, token.EQL:
			return v
		case token.LSS:
			return !v
		}
		return false
	}
}

func c07m10Capacity(p *core.Prog, r *core.Report, f *core.Func) int {
	const rule = "buffer-capacity"
	info := f.Info()
	n := 0
	for _, g := range f.Graphs() {
		// cap tests of this graph: (base, bound) pairs
		type test struct{ base, n ast.Expr }
		var tests []test
		for _, nd := range g.Nodes {
			e, ok := nd.N.(ast.Expr)
			if !ok || len(nd.Succ) != 2 {
				continue
			}
			for _, a := range core.Atoms(e) {
				be, ok := ast.Unparen(a).(*ast.BinaryExpr)
				if !ok {
					continue
				}
				for _, side := range [][2]ast.Expr{{be.X, be.Y}, {be.Y, be.X}} {
					if c, ok := ast.Unparen(side[0]).(*ast.CallExpr); ok && core.Builtin("cap")(info, c) && len(c.Args) == 1 {
						tests = append(tests, test{c.Args[0], side[1]})
					}
				}
			}
		}
		if len(tests) == 0 {
			continue
		}
		for _, nd := range g.Nodes {
			as, ok := nd.N.(*ast.AssignStmt)
			if !ok || len(as.Lhs) != 1 || len(as.Rhs) != 1 {
				continue
			}
			se, ok := ast.Unparen(as.Rhs[0]).(*ast.SliceExpr)
			if !ok || se.Low != nil || se.High == nil || se.Slice3 {
				continue
			}
			var tt *test
			for i := range tests {
				if core.SameExpr(info, tests[i].base, se.X) && core.SameExpr(info, tests[i].n, se.High) {
					tt = &tests[i]
				}
			}
			if tt == nil {
				continue
			}
			n++
			base, bound := se.X, se.High
			fact := c07m10CapFact(info, base, bound)
			realloc := func(m *core.Node) bool {
				a, ok := m.N.(*ast.AssignStmt)
				if !ok || m == nd {
					return false
				}
				for i, l := range a.Lhs {
					if !core.SameExpr(info, l, base) || i >= len(a.Rhs) {
						continue
					}
					if c, ok := ast.Unparen(a.Rhs[i]).(*ast.CallExpr); ok && (core.Builtin("make")(info, c) || core.Builtin("append")(info, c)) {
						return true
					}
				}
				return false
			}
			reach := g.ReachFromEntry(realloc, core.EdgeEstablishing(fact))
			r.Check(!reach[nd], rule, f.String(), "reslice-beyond-capacity", g.Line(nd), "the buffer is resliced up to its new length only where its capacity was found sufficient or it was reallocated")
		}
	}
	return n
}

// ---------------------------------------------------------------- decoder-initialised

func c07m10HasMethod(t types.Type, name string) *types.Func {
	if t == nil {
		return nil
	}
	if _, isPtr := t.Underlying().(*types.Pointer); !isPtr {
		if _, isIface := t.Underlying().(*types.Interface); !isIface {
			t = types.NewPointer(t)
		}
	}
	ms := types.NewMethodSet(t)
	for i := 0; i < ms.Len(); i++ {
		if fn, ok := ms.At(i).Obj().(*types.Func); ok && fn.Name() == name {
			return fn
		}
	}
	return nil
}

// c07m10MethodCalls lists the calls X.name(...) in the statement of a node, with their receivers.
func c07m10MethodCalls(c07m10Prog *core.Prog, info *types.Info, n ast.Node, name string, recvOK func(t types.Type) bool) (recvs []ast.Expr) {
	if n == nil {
		return nil
	}
	ast.Inspect(n, func(x ast.Node) bool {
		if _, isLit := x.(*ast.FuncLit); isLit {
			return false
		}
		c, ok := x.(*ast.CallExpr)
		if !ok {
			return true
		}
		// a helper of the module that is handed the object and calls the method on
		// that parameter (one level): the argument counts as the receiver
		if fn := core.Callee(info, c); fn != nil && c07m10Prog != nil {
			if h := c07m10Prog.FuncOf(fn); h != nil && h.Decl.Body != nil && h.Decl.Type.Params != nil {
				var params []types.Object
				for _, fd := range h.Decl.Type.Params.List {
					for _, nm := range fd.Names {
						params = append(params, h.Info().Defs[nm])
					}
				}
				for i, a := range c.Args {
					if i >= len(params) || params[i] == nil || !recvOK(info.TypeOf(a)) {
						continue
					}
					hit := false
					hi := h.Info()
					ast.Inspect(h.Decl.Body, func(y ast.Node) bool {
						hc, ok := y.(*ast.CallExpr)
						if !ok {
							return true
						}
						if hs, ok := ast.Unparen(hc.Fun).(*ast.SelectorExpr); ok && hs.Sel.Name == name && core.ObjOf(hi, hs.X) == params[i] {
							hit = true
						}
						return true
					})
					if hit {
						recvs = append(recvs, core.StripAddrDeref(a))
					}
				}
			}
		}
		se, ok := ast.Unparen(c.Fun).(*ast.SelectorExpr)
		if !ok || se.Sel.Name != name {
			return true
		}
		if sel := info.Selections[se]; sel == nil || sel.Kind() != types.MethodVal {
			return true
		}
		if recvOK(info.TypeOf(se.X)) {
			recvs = append(recvs, se.X)
		}
		return true
	})
	return
}

func c07m10DecoderInit(p *core.Prog, r *core.Report, f *core.Func) int {
	const rule = "decoder-initialised"
	info := f.Info()
	isDecoder := func(t types.Type) bool {
		nx := c07m10HasMethod(t, "Next")
		if nx == nil {
			return false
		}
		sig := nx.Type().(*types.Signature)
		if sig.Params().Len() != 0 || sig.Results().Len() != 1 {
			return false
		}
		return c07m10HasMethod(t, "SetBytes") != nil || c07m10HasMethod(t, "Init") != nil
	}
	n := 0
	for _, g := range f.Graphs() {
		for _, nd := range g.Nodes {
			for _, recv := range c07m10MethodCalls(p, info, nd.N, "Next", isDecoder) {
				// a method of the decoder itself iterating its own state is not a client
				if root := core.BaseObj(info, recv); root != nil && f.Decl.Recv != nil && len(f.Decl.Recv.List) == 1 && len(f.Decl.Recv.List[0].Names) == 1 && info.Defs[f.Decl.Recv.List[0].Names[0]] == root {
					if _, isSel := ast.Unparen(recv).(*ast.SelectorExpr); !isSel {
						continue
					}
				}
				n++
				isInit := func(m *core.Node) bool {
					for _, nm := range []string{"Init", "SetBytes"} {
						for _, rc := range c07m10MethodCalls(p, info, m.N, nm, func(types.Type) bool { return true }) {
							if core.SameExpr(info, rc, recv) {
								return true
							}
						}
					}
					return false
				}
				reach := g.ReachFromEntry(isInit, nil)
				r.Check(!reach[nd] || isInit(nd), rule, f.String(), "next-before-init:"+c07m10TypeName(info.TypeOf(recv)), g.Line(nd), "the decoder is given the block's bytes (Init/SetBytes) before it is iterated")
			}
		}
	}
	return n
}

func c07m10TypeName(t types.Type) string {
	for {
		pt, ok := t.(*types.Pointer)
		if !ok {
			break
		}
		t = pt.Elem()
	}
	if nt, ok := t.(*types.Named); ok {
		return nt.Obj().Name()
	}
	return t.String()
}

// ---------------------------------------------------------------- literal-error-returned

func c07m10LitErr(p *core.Prog, r *core.Report, f *core.Func) int {
	const rule = "literal-error-returned"
	info := f.Info()
	g := f.Graph()
	if g.Sig == nil || g.Sig.Results().Len() == 0 || !core.IsErrorType(g.Sig.Results().At(g.Sig.Results().Len()-1).Type()) {
		return 0
	}
	n := 0
	for _, nd := range g.Nodes {
		as, ok := nd.N.(*ast.AssignStmt)
		if !ok || len(as.Lhs) != 1 || len(as.Rhs) != 1 {
			continue
		}
		c, ok := ast.Unparen(as.Rhs[0]).(*ast.CallExpr)
		if !ok {
			continue
		}
		if _, isLit := ast.Unparen(c.Fun).(*ast.FuncLit); !isLit || !core.IsErrorType(info.TypeOf(c)) {
			continue
		}
		v := core.ObjOf(info, as.Lhs[0])
		if v == nil {
			continue
		}
		n++
		// exits reachable from the assignment without a test of v must return v
		tested := func(e *core.Edge) bool {
			if e.Cond == nil {
				return false
			}
			x, _, ok := core.NilTest(info, e.Cond)
			return ok && core.ObjOf(info, x) == v
		}
		reach := g.Reach(core.After(nd, nil), nil, tested)
		bad := ""
		for _, x := range g.Exits {
			if !reach[x] {
				continue
			}
			rs, ok := x.N.(*ast.ReturnStmt)
			if !ok {
				bad = "the end of the function"
				continue
			}
			if len(rs.Results) == 0 {
				continue // named results
			}
			if !core.MentionsObj(info, rs.Results[len(rs.Results)-1], v) { // returned as is or wrapped
				bad = "a return at " + g.Line(x)
			}
		}
		r.Check(bad == "", rule, f.String(), "literal-error-dropped", g.Line(nd), "the error of the in-place literal is returned or tested before "+firstNonEmpty(bad, "every exit"))
	}
	return n
}

// ---------------------------------------------------------------- encoder-fed

func c07m10Fed(p *core.Prog, r *core.Report, f *core.Func) int {
	const rule = "encoder-fed"
	info := f.Info()
	n := 0
	isEncoder := func(t types.Type) bool {
		return c07m10HasMethod(t, "Write") != nil && c07m10HasMethod(t, "Bytes") != nil
	}
	for _, g := range f.Graphs() {
		for _, nd := range g.Nodes {
			if nd.N == nil {
				continue
			}
			var pack *ast.CallExpr
			ast.Inspect(nd.N, func(x ast.Node) bool {
				if _, isLit := x.(*ast.FuncLit); isLit {
					return false
				}
				if c, ok := x.(*ast.CallExpr); ok && core.FName(core.Callee(info, c)) == tsm1+".packBlock" && len(c.Args) == 4 {
					pack = c
				}
				return true
			})
			if pack == nil {
				continue
			}
			// the encoders whose Bytes() are packed
			var recvs []ast.Expr
			for _, a := range pack.Args[2:] {
				e := core.ResolveLocal(info, g.Body, a)
				if o := core.ObjOf(info, e); o != nil {
					if d, ok := core.SingleDef(info, g.Body, o); ok && d.Rhs != nil && d.Index == 0 && d.Range == nil {
						e = d.Rhs // result 0 of `b, err := enc.Bytes()`
					}
				}
				c, ok := ast.Unparen(e).(*ast.CallExpr)
				if !ok {
					continue
				}
				se, ok := ast.Unparen(c.Fun).(*ast.SelectorExpr)
				if !ok || se.Sel.Name != "Bytes" || !isEncoder(info.TypeOf(se.X)) {
					continue
				}
				recvs = append(recvs, se.X)
			}
			if len(recvs) == 0 {
				continue // array encoders: checked by the family rule
			}
			n++
			if !r.Check(len(recvs) == 2 && !core.SameExpr(info, recvs[0], recvs[1]), rule, f.String(), "two-encoders", g.Line(nd), "the packed timestamp and value bytes come from two distinct encoders") {
				continue
			}
			// a range loop of this graph in which both are written in every iteration
			var loops []*ast.RangeStmt
			ast.Inspect(g.Body, func(x ast.Node) bool {
				if _, isLit := x.(*ast.FuncLit); isLit && x != ast.Node(g.Body) {
					return true
				}
				if rs, ok := x.(*ast.RangeStmt); ok {
					loops = append(loops, rs)
				}
				return true
			})
			for _, recv := range recvs {
				name := c07m10TypeName(info.TypeOf(recv))
				isWrite := func(m *core.Node) bool {
					for _, rc := range c07m10MethodCalls(p, info, m.N, "Write", isEncoder) {
						if core.SameExpr(info, rc, recv) {
							return true
						}
					}
					return false
				}
				okLoop := false
				for _, lp := range loops {
					head, body, _ := g.LoopNodes(lp)
					if head == nil || body == nil {
						continue
					}
					has := false
					for _, m := range g.Nodes {
						if core.InRegion(m, lp.Body) && isWrite(m) {
							has = true
						}
					}
					if !has {
						continue
					}
					// no way from the body's first node back to the loop head around the write
					reach := g.Reach([]*core.Node{body}, isWrite, nil)
					if !reach[head] || isWrite(body) {
						okLoop = true
					}
				}
				r.Check(okLoop, rule, f.String(), "value-not-written:"+name, g.Line(nd), "every iteration over the values writes to the "+name+" whose bytes are packed")
				// Flush before Bytes when Flush does something
				if fl := c07m10HasMethod(info.TypeOf(recv), "Flush"); fl != nil {
					if d := p.FuncOf(fl); d != nil && d.Decl.Body != nil && len(d.Decl.Body.List) > 0 {
						isFlush := func(m *core.Node) bool {
							for _, rc := range c07m10MethodCalls(p, info, m.N, "Flush", isEncoder) {
								if core.SameExpr(info, rc, recv) {
									return true
								}
							}
							return false
						}
						isBytes := func(m *core.Node) bool {
							for _, rc := range c07m10MethodCalls(p, info, m.N, "Bytes", isEncoder) {
								if core.SameExpr(info, rc, recv) {
									return true
								}
							}
							return false
						}
						reach := g.ReachFromEntry(isFlush, nil)
						bad := false
						for _, m := range g.Select(isBytes) {
							if reach[m] {
								bad = true
							}
						}
						r.Check(!bad, rule, f.String(), "bytes-before-flush:"+name, g.Line(nd), "the "+name+" is flushed before its bytes are taken")
					}
				}
			}
		}
	}
	return n
}

// ---------------------------------------------------------------- dispatch-arm-acts

func c07m10Arms(p *core.Prog, r *core.Report, fs []*core.Func) int {
	const rule = "dispatch-arm-acts"
	// variables / fields that hold a format tag read from a header byte
	tagObjs := map[types.Object]bool{}
	for _, f := range fs {
		for _, rd := range c07TagReads(f) {
			if rd.store != nil {
				tagObjs[rd.store] = true
			}
		}
	}
	n := 0
	for _, f := range fs {
		info := f.Info()
		ast.Inspect(f.Decl.Body, func(x ast.Node) bool {
			sw, ok := x.(*ast.SwitchStmt)
			if !ok || sw.Tag == nil {
				return true
			}
			isTag := false
			if _, _, ok := c07IsTagRead(info, sw.Tag); ok {
				isTag = true
			} else if o := c07ObjOfExpr(info, sw.Tag); o != nil && tagObjs[o] {
				isTag = true
			}
			if !isTag {
				return true
			}
			for _, st := range sw.Body.List {
				cc, ok := st.(*ast.CaseClause)
				if !ok || cc.List == nil {
					continue
				}
				n++
				acts := false
				ast.Inspect(cc, func(y ast.Node) bool {
					switch z := y.(type) {
					case *ast.CallExpr:
						if fn := core.Callee(info, z); fn != nil && !core.IsErrorType(info.TypeOf(z)) {
							acts = true
						}
					case *ast.ReturnStmt:
						for _, res := range z.Results {
							if tv, ok := info.Types[res]; ok && tv.Value == nil && !tv.IsNil() && !core.IsErrorType(tv.Type) {
								acts = true
							}
						}
					}
					return true
				})
				label := "?"
				if len(cc.List) > 0 {
					if v := core.ConstVal(info, cc.List[0]); v != nil {
						label = v.ExactString()
					}
				}
				r.Check(acts, rule, f.String(), "arm-does-nothing:tag="+label, p.Pos(cc.Pos()), "the arm of an accepted format tag decodes (calls a function or returns a computed value)")
			}
			return true
		})
	}
	return n
}

// ---------------------------------------------------------------- decoder-reset

// c07m10ResetExceptions: fields a decoder's Init/SetBytes does not re-initialise on today's tree.
var c07m10ResetExceptions = map[string]string{
	"BooleanDecoder.err": "never cleared by SetBytes: a pooled BooleanDecoder that once failed keeps its error (outside the property's quantifier — only reachable after a corrupt block; reported as a suspected defect)",
}

// c07m10Reset: the scalar decoders are pooled and re-used for block after
// block; Init/SetBytes is the only thing between two blocks. Every field of
// the decoder (other than fixed-size scratch arrays) must be re-initialised by
// Init/SetBytes or a method of the decoder it calls — a field that is left
// alone carries the previous block's state into the next decode.
func c07m10Reset(p *core.Prog, r *core.Report, fs []*core.Func) {
	const rule = "decoder-reset"
	type dec struct {
		named   *types.Named
		methods map[string]*core.Func
	}
	decs := map[string]*dec{}
	for _, f := range p.Funcs(tsm1) {
		if f.Decl == nil || f.Decl.Recv == nil || f.Decl.Body == nil || f.Obj == nil {
			continue
		}
		sig, _ := f.Obj.Type().(*types.Signature)
		if sig == nil || sig.Recv() == nil {
			continue
		}
		t := sig.Recv().Type()
		if pt, ok := t.(*types.Pointer); ok {
			t = pt.Elem()
		}
		nt, ok := t.(*types.Named)
		if !ok {
			continue
		}
		if _, isStruct := nt.Underlying().(*types.Struct); !isStruct {
			continue
		}
		d := decs[nt.Obj().Name()]
		if d == nil {
			d = &dec{named: nt, methods: map[string]*core.Func{}}
			decs[nt.Obj().Name()] = d
		}
		d.methods[f.Obj.Name()] = f
	}
	var names []string
	for k := range decs {
		names = append(names, k)
	}
	sort.Strings(names)
	n := 0
	for _, name := range names {
		d := decs[name]
		if d.methods["Next"] == nil {
			continue
		}
		init := d.methods["SetBytes"]
		if init == nil {
			init = d.methods["Init"]
		}
		if init == nil {
			continue
		}
		n++
		st := d.named.Underlying().(*types.Struct)
		// closure of the init method over methods of the same type
		seen := map[*core.Func]bool{}
		var visit func(f *core.Func)
		written := map[string]bool{}
		visit = func(f *core.Func) {
			if f == nil || seen[f] {
				return
			}
			seen[f] = true
			info := f.Info()
			_, wr := core.FieldsTouched(info, f.Decl.Body, st)
			for k := range wr {
				written[k] = true
			}
			ast.Inspect(f.Decl.Body, func(x ast.Node) bool {
				c, ok := x.(*ast.CallExpr)
				if !ok {
					return true
				}
				se, ok := ast.Unparen(c.Fun).(*ast.SelectorExpr)
				if !ok {
					return true
				}
				// x.field.Method(...): the field re-initialises itself
				if inner, ok := ast.Unparen(se.X).(*ast.SelectorExpr); ok {
					if fv := core.FieldOf(info, inner); fv != nil {
						for i := 0; i < st.NumFields(); i++ {
							if st.Field(i) == fv {
								written[fv.Name()] = true
							}
						}
					}
				}
				if fn := core.Callee(info, c); fn != nil {
					if m := d.methods[fn.Name()]; m != nil && m.Obj == fn {
						visit(m)
					}
				}
				return true
			})
		}
		visit(init)
		for i := 0; i < st.NumFields(); i++ {
			fv := st.Field(i)
			if _, isArr := fv.Type().Underlying().(*types.Array); isArr {
				continue
			}
			key := name + "." + fv.Name()
			if why, ok := c07m10ResetExceptions[key]; ok {
				if !written[fv.Name()] {
					r.Note("decoder-reset exception %s: %s", key, why)
					continue
				}
			}
			r.Check(written[fv.Name()], rule, tsm1+"."+name, "field-not-reset:"+fv.Name(), init.Pos(), "the pooled decoder's field "+fv.Name()+" is re-initialised by "+init.Obj.Name()+" (or a method it calls) before the next block is decoded")
		}
	}
	r.Check(n >= 5, rule, tsm1, "decoders:absent", "-", "pooled decoder types (Next + Init/SetBytes) found")
}
