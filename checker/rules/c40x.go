package rules

import (
	"go/ast"

	"verif/checker/core"
)

// Each point is validated against the field schema of ITS measurement. Carrying
// the looked-up field set over from an earlier iteration is only correct if the
// measurement is provably the same; points that were skipped in between (dropped
// for having no valid field, dropped keys) make "same as the previous element"
// the wrong test. Structurally: in every iteration that reaches the validator,
// the field set handed to it was looked up in that same iteration.
func init() {
	extend("C40", "schema-of-this-point: in Shard.validateSeriesAndFields every path from the head of the per-point loop to ValidateAndCreateFields passes the lookup Engine.MeasurementFields in the same iteration, and the lookup's result is the validator's first argument (a point is never validated against the field set of another measurement).",
		nil, func(p *core.Prog, r *core.Report, tier string) {
			const rule = "schema-of-this-point"
			f := r.Need(p, tsdbP, "Shard.validateSeriesAndFields")
			if f == nil {
				return
			}
			g := f.Graph()
			info := f.Info()
			lookup := g.Calling(call("tsdb.Engine.MeasurementFields"))
			vals := g.Select(g.Calling(call("tsdb.ValidateAndCreateFields")))
			if !r.Check(len(vals) == 1 && len(g.Select(lookup)) >= 1, rule, f.String(), "shape", f.Pos(), "validator call and schema lookup found") {
				return
			}
			v := vals[0]
			// loop heads: synthetic nodes on a cycle through the validator call
			var heads []*core.Node
			for _, n := range g.Nodes {
				if n.N == nil && g.Reach(core.After(n, nil), nil, nil)[n] && g.Reach([]*core.Node{n}, nil, nil)[v] && g.Reach(core.After(v, nil), nil, nil)[n] {
					heads = append(heads, n)
				}
			}
			if !r.Check(len(heads) >= 1, rule, f.String(), "loop:absent", g.Line(v), "the validator runs inside the per-point loop") {
				return
			}
			stale := false
			for _, h := range heads {
				if g.Reach(core.After(h, nil), lookup, nil)[v] {
					stale = true
				}
			}
			r.Check(!stale, rule, f.String(), "stale-schema", g.Line(v), "the field set is looked up in the same iteration on every path to the validator")
			// the lookup's result is what the validator receives
			okArg := false
			for _, c := range core.CallsIn(info, v.N, call("tsdb.ValidateAndCreateFields"), core.WalkOpts{}) {
				if len(c.Args) >= 1 {
					if o := core.ObjOf(info, c.Args[0]); o != nil {
						ast.Inspect(f.Decl.Body, func(n ast.Node) bool {
							if as, ok := n.(*ast.AssignStmt); ok && len(as.Lhs) == 1 && len(as.Rhs) == 1 && core.ObjOf(info, as.Lhs[0]) == o {
								if cc, ok := as.Rhs[0].(*ast.CallExpr); ok && call("tsdb.Engine.MeasurementFields")(info, cc) {
									okArg = true
								}
							}
							return true
						})
					}
				}
			}
			r.Check(okArg, rule, f.String(), "validator-schema-argument", g.Line(v), "the validator's field set is the result of Engine.MeasurementFields")
		})
}
