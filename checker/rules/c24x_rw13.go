package rules

import (
	"fmt"
	"go/ast"
	"go/token"
	"go/types"

	"golang.org/x/tools/go/cfg"

	"verif/checker/core"
)

// C24 extension (rw13): the pairing invariant between TreeScheduler.when and the
// one-shot timer, seen from the side of the timer being DISARMED.
//
// Schedule() arms the timer only when `s.when.IsZero() || s.when.After(nt)`, and
// Release() touches neither. So whenever the scheduler goes back to waiting,
//
//	s.when != zero  ⇒  the timer is armed
//
// must hold, otherwise a later Schedule of any future time inserts its item but
// never arms the timer and When() keeps reporting a stale instant. The timer is
// disarmed (a) by firing - the receive from s.timer.C - and (b) by Timer.Stop.
// After either, the code has to re-arm the timer (Reset / a wrapper) or store the
// zero time into s.when before the next wait / before the lock is released.

func init() {
	extend("C24", "(6) when-disarmed-settled: after the one-shot timer fired (receive from s.timer.C) every path back to a wait on s.timer.C either re-arms the timer (Timer.Reset / resetTimer) or stores the zero time into s.when, "+
		"and after a Stop of the shared timer every path to the lock release / function exit does (named exception: the shutdown clause receiving from s.done, after which the loop goroutine returns); "+
		"Schedule arms the timer only behind `when.IsZero() || when.After(..)`, so a non-zero when with a disarmed timer wedges the scheduler.",
		nil, func(p *core.Prog, r *core.Report, tier string) { rw13WhenSettled(p, r) })
}

// rw13RecvFrom: expression e is `<-X.C` with X the field fv; returns true.
func rw13RecvFrom(info *types.Info, e ast.Expr, isChan func(ast.Expr) bool) bool {
	u, ok := ast.Unparen(e).(*ast.UnaryExpr)
	return ok && u.Op == token.ARROW && isChan(u.X)
}

// rw13StmtRecv: does statement s (a select communication or a plain statement)
// receive from a channel accepted by isChan?
func rw13StmtRecv(info *types.Info, s ast.Node, isChan func(ast.Expr) bool) bool {
	found := false
	core.Walk(s, core.WalkOpts{}, func(n ast.Node) bool {
		if e, ok := n.(ast.Expr); ok && rw13RecvFrom(info, e, isChan) {
			found = true
		}
		return true
	})
	return found
}

// rw13ZeroTime: e denotes the zero time.Time: `time.Time{}` or a local declared
// without a value and never assigned.
func rw13ZeroTime(info *types.Info, body ast.Node, e ast.Expr) bool {
	e = ast.Unparen(e)
	if cl, ok := e.(*ast.CompositeLit); ok {
		return len(cl.Elts) == 0 && rw3IsNamed(info.TypeOf(cl), "time", "Time")
	}
	if o, ok := core.ObjOf(info, e).(*types.Var); ok && !o.IsField() && o.Parent() != nil && o.Pkg() != nil && o.Parent() != o.Pkg().Scope() &&
		rw3IsNamed(o.Type(), "time", "Time") {
		ds := rw3Defs(info, body, o)
		if len(ds) == 0 {
			// must not be a parameter
			declared := false
			ast.Inspect(body, func(n ast.Node) bool {
				if vs, ok := n.(*ast.ValueSpec); ok {
					for _, id := range vs.Names {
						if info.Defs[id] == types.Object(o) {
							declared = true
						}
					}
				}
				return true
			})
			return declared
		}
		if len(ds) == 1 && ds[0].Rhs != nil && !ds[0].Range && ds[0].Idx == -1 {
			if cl, ok := ast.Unparen(ds[0].Rhs).(*ast.CompositeLit); ok {
				return len(cl.Elts) == 0 && rw3IsNamed(info.TypeOf(cl), "time", "Time")
			}
		}
	}
	return false
}

func rw13WhenSettled(p *core.Prog, r *core.Report) {
	const rule = "when-disarmed-settled"
	pk := p.Pkg(schedPkg)
	if pk == nil {
		return
	}
	fTimer := core.LookupField(pk.Types, "TreeScheduler", "timer")
	fWhen := core.LookupField(pk.Types, "TreeScheduler", "when")
	fMu := core.LookupField(pk.Types, "TreeScheduler", "mu")
	fDone := core.LookupField(pk.Types, "TreeScheduler", "done")
	if !r.Check(fTimer != nil && fWhen != nil && fMu != nil && fDone != nil, "anchor", schedPkg+".TreeScheduler.{timer,when,mu,done}", "unresolved", "-", "fields resolved") {
		return
	}
	sinks := durationSinks(p, schedPkg)
	nFired, nStop := 0, 0
	for _, f := range p.Funcs(schedPkg) {
		if f.Decl.Body == nil {
			continue
		}
		info := f.Info()
		isTimerC := func(e ast.Expr) bool { // X.timer.C
			se, ok := ast.Unparen(e).(*ast.SelectorExpr)
			return ok && se.Sel.Name == "C" && core.FieldOf(info, se.X) == fTimer
		}
		isDoneCh := func(e ast.Expr) bool { return core.FieldOf(info, e) == fDone }
		for _, g := range f.Graphs() {
			zeroStore := func(n *core.Node) bool {
				as, ok := n.N.(*ast.AssignStmt)
				if !ok || len(as.Lhs) != len(as.Rhs) {
					return false
				}
				for i, l := range as.Lhs {
					if core.FieldOf(info, l) == fWhen && rw13ZeroTime(info, f.Decl.Body, as.Rhs[i]) {
						return true
					}
				}
				return false
			}
			settle := core.AnyOf(sinkNodes(g, sinks), zeroStore)
			// wait points: nodes that receive from the timer channel
			isWait := func(n *core.Node) bool { return n.N != nil && rw13StmtRecv(info, n.N, isTimerC) }
			waits := g.Select(isWait)
			// comm clauses of this graph (not of nested literals)
			type clause struct {
				cc    *ast.CommClause
				timer bool
				done  bool
			}
			var clauses []clause
			ast.Inspect(g.Body, func(x ast.Node) bool {
				if fl, ok := x.(*ast.FuncLit); ok && fl.Body != g.Body {
					return false
				}
				if cc, ok := x.(*ast.CommClause); ok && cc.Comm != nil {
					clauses = append(clauses, clause{cc, rw13StmtRecv(info, cc.Comm, isTimerC), rw13StmtRecv(info, cc.Comm, isDoneCh)})
				}
				return true
			})
			commOf := map[ast.Node]bool{}
			for _, c := range clauses {
				commOf[c.cc.Comm] = true
			}
			// ---- (a) the timer fired
			var starts []*core.Node
			var where []string
			for _, c := range clauses {
				if !c.timer {
					continue
				}
				cc := c.cc
				if n := rw3FirstOfBlock(g, func(b *cfg.Block) bool { return b.Kind == cfg.KindSelectCaseBody && b.Stmt == ast.Stmt(cc) }); n != nil {
					starts = append(starts, n)
					where = append(where, p.Pos(cc.Pos()))
				}
			}
			for _, w := range waits {
				if !commOf[w.N] { // plain `<-s.timer.C` statement
					for _, s := range core.After(w, nil) {
						starts = append(starts, s)
						where = append(where, g.Line(w))
					}
				}
			}
			for i, s := range starts {
				nFired++
				reach := g.Reach([]*core.Node{s}, settle, nil)
				bad := ""
				for _, w := range waits {
					if reach[w] {
						// locate the last lock release on the way for the message
						bad = g.Line(w)
					}
				}
				if bad == "" {
					r.Ok(rule, f.String()+":timer-fired", where[i], "after the timer fired every path back to the wait on the timer channel re-arms the timer or stores the zero time into s.when")
				} else {
					r.Bad(rule, f.String(), "fired-timer-not-settled", where[i],
						"after the one-shot timer fired, the wait at "+bad+" can be reached again with the timer neither re-armed nor s.when zeroed: s.when keeps a stale non-zero instant while the timer is disarmed, "+
							"so a later Schedule (which arms only if when.IsZero() || when.After(next)) never arms the timer and the new task never runs")
				}
			}
			// ---- (b) the timer is stopped
			stops := g.Select(g.Calling(func(info *types.Info, c *ast.CallExpr) bool {
				if !timerStop(info, c) {
					return false
				}
				se, ok := ast.Unparen(c.Fun).(*ast.SelectorExpr)
				return ok && core.FieldOf(info, se.X) == fTimer
			}))
			if len(stops) == 0 {
				continue
			}
			lockStarts := []*core.Node{g.Entry}
			for _, l := range g.Select(locking(g, fMu)) {
				lockStarts = append(lockStarts, core.After(l, nil)...)
			}
			back := g.Reach(lockStarts, zeroStore, nil)
			for _, sn := range stops {
				// receiver under construction?
				ctor := false
				for _, c := range core.CallsIn(info, sn.N, timerStop, core.WalkOpts{}) {
					if se, ok := ast.Unparen(c.Fun).(*ast.SelectorExpr); ok {
						if in, ok := ast.Unparen(se.X).(*ast.SelectorExpr); ok {
							if o, ok := core.ObjOf(info, in.X).(*types.Var); ok && g.Body == f.Decl.Body {
								for _, d := range rw3Defs(info, f.Decl.Body, o) {
									if rw3Lit(d.Rhs) != nil {
										ctor = true
									}
								}
							}
						}
					}
				}
				if ctor {
					r.Ok(rule, f.String()+":timer-stop:constructor", g.Line(sn), "exception: the scheduler is under construction (not shared yet)")
					continue
				}
				shutdown := false
				for _, c := range clauses {
					if c.done && c.cc.Pos() <= sn.N.Pos() && sn.N.End() <= c.cc.End() {
						shutdown = true
					}
				}
				if shutdown {
					r.Ok(rule, f.String()+":timer-stop:shutdown", g.Line(sn), "exception: Stop in the clause receiving from s.done; the loop goroutine ends, nothing is dispatched afterwards")
					continue
				}
				nStop++
				okStop := !back[sn] // a zero store precedes the Stop in the same critical section
				if !okStop {
					okStop = true
					for x := range g.Reach(core.After(sn, nil), settle, nil) {
						if unlocking(g, fMu)(x) || (len(x.Succ) == 0 && x.Kind != core.KPanic) {
							okStop = false
						}
					}
				}
				r.Check(okStop, rule, f.String(), "stopped-timer-not-settled", g.Line(sn),
					"after Timer.Stop every path to the lock release / exit re-arms the timer or zeroes s.when (a stopped timer with a non-zero when is never re-armed by Schedule)")
			}
		}
	}
	r.Check(nFired >= 1, rule, schedPkg, "timer-receive:absent", "-", fmt.Sprintf("%d receive(s) from TreeScheduler.timer.C examined (the main loop's select clause)", nFired))
	r.Check(nStop >= 1, rule, schedPkg, "timer-stop:absent", "-", fmt.Sprintf("%d Stop site(s) of the shared timer examined (Schedule)", nStop))
}
