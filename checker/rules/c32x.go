package rules

import (
	"go/ast"
	"go/types"

	"verif/checker/core"
)

// io.Reader contract inside the limit accounting: a Read may return n > 0
// together with a non-nil error (typically the last byte with io.EOF: gzip
// readers and HTTP bodies with Content-Length do). The limiter therefore has to
// look at the byte count of each underlying Read before it acts on the error;
// otherwise the byte that proves "over the limit" is dropped together with the
// EOF and an over-limit body is accepted.
func init() {
	extend("C32", "reader-contract: in LimitedReadCloser.Read every result of the underlying R.Read is consumed count-first — no exit is reachable from the call without a statement or test that reads the returned byte count (a final byte delivered together with io.EOF must still count against the limit).",
		nil, func(p *core.Prog, r *core.Report, tier string) {
			const rule = "reader-contract"
			f := r.Need(p, "kit/io", "LimitedReadCloser.Read")
			if f == nil {
				return
			}
			info := f.Info()
			g := f.Graph()
			readM := call("io.Reader.Read", "io.ReadCloser.Read")
			sites := 0
			for _, n := range g.Select(g.Calling(readM)) {
				// the variable receiving the count
				var cnt types.Object
				switch s := n.N.(type) {
				case *ast.AssignStmt:
					if len(s.Lhs) == 2 && len(s.Rhs) == 1 {
						cnt = core.ObjOf(info, s.Lhs[0])
					}
				}
				if cnt == nil {
					r.Bad(rule, f.String(), "count-discarded", g.Line(n), "the byte count of the underlying Read is not kept")
					continue
				}
				sites++
				uses := func(x *core.Node) bool {
					if x.N == nil || x == n {
						return false
					}
					found := false
					ast.Inspect(x.N, func(y ast.Node) bool {
						if id, ok := y.(*ast.Ident); ok && info.Uses[id] == cnt {
							found = true
						}
						return true
					})
					// a bare `return` with a named count result reads it too
					if rs, ok := x.N.(*ast.ReturnStmt); ok && len(rs.Results) == 0 && g.Sig != nil {
						for i := 0; i < g.Sig.Results().Len(); i++ {
							if g.Sig.Results().At(i) == cnt {
								found = true
							}
						}
					}
					return found
				}
				reach := g.Reach(core.After(n, nil), uses, nil)
				bad := ""
				for _, x := range g.Exits {
					if reach[x] {
						bad = g.Line(x)
					}
				}
				r.Check(bad == "", rule, f.String(), "error-before-count", g.Line(n), "every path from the underlying Read to an exit first looks at the returned byte count (exit reached without it: "+bad+")")
			}
			r.Check(sites >= 2, rule, f.String(), "reads:count", f.Pos(), "both underlying reads (data and over-limit probe) found")
		})
}
