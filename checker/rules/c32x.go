package rules

import (
	"go/ast"
	"go/constant"
	"go/types"

	"verif/checker/core"
)

// io.Reader contract inside the limit accounting: a Read may return n > 0
// together with a non-nil error (typically the last byte with io.EOF: gzip
// readers and HTTP bodies with Content-Length do). The limiter therefore has to
// look at the byte count of each underlying Read before it acts on the error;
// otherwise the byte that proves "over the limit" is dropped together with the
// EOF and an over-limit body is accepted.
func init() {
	extend("C32", "reader-contract: in LimitedReadCloser.Read every result of the underlying R.Read is consumed count-first — no exit is reachable from the call without a statement or test that reads the returned byte count (a final byte delivered together with io.EOF must still count against the limit).",
		nil, func(p *core.Prog, r *core.Report, tier string) {
			const rule = "reader-contract"
			f := r.Need(p, "kit/io", "LimitedReadCloser.Read")
			if f == nil {
				return
			}
			info := f.Info()
			g := f.Graph()
			readM := call("io.Reader.Read", "io.ReadCloser.Read")
			sites := 0
			for _, n := range g.Select(g.Calling(readM)) {
				// the variable receiving the count
				var cnt types.Object
				switch s := n.N.(type) {
				case *ast.AssignStmt:
					if len(s.Lhs) == 2 && len(s.Rhs) == 1 {
						cnt = core.ObjOf(info, s.Lhs[0])
					}
				}
				if cnt == nil {
					r.Bad(rule, f.String(), "count-discarded", g.Line(n), "the byte count of the underlying Read is not kept")
					continue
				}
				sites++
				uses := func(x *core.Node) bool {
					if x.N == nil || x == n {
						return false
					}
					found := false
					ast.Inspect(x.N, func(y ast.Node) bool {
						if id, ok := y.(*ast.Ident); ok && info.Uses[id] == cnt {
							found = true
						}
						return true
					})
					// a bare `return` with a named count result reads it too
					if rs, ok := x.N.(*ast.ReturnStmt); ok && len(rs.Results) == 0 && g.Sig != nil {
						for i := 0; i < g.Sig.Results().Len(); i++ {
							if g.Sig.Results().At(i) == cnt {
								found = true
							}
						}
					}
					return found
				}
				reach := g.Reach(core.After(n, nil), uses, nil)
				bad := ""
				for _, x := range g.Exits {
					if reach[x] {
						bad = g.Line(x)
					}
				}
				r.Check(bad == "", rule, f.String(), "error-before-count", g.Line(n), "every path from the underlying Read to an exit first looks at the returned byte count (exit reached without it: "+bad+")")
			}
			r.Check(sites >= 2, rule, f.String(), "reads:count", f.Pos(), "both underlying reads (data and over-limit probe) found")
		})
}

// c32GzipCases decides the Content-Encoding dispatch of BatchReadCloser under a
// valuation of its encoding parameter instead of looking for case edges:
//   - with encoding = "gzip" / "x-gzip" gzip.NewReader is reached and no
//     successful return is reachable without it;
//   - with any other encoding ("" / "identity" / a value the function does not
//     mention) gzip.NewReader is not reachable.
//
// Conditions are evaluated with && || ! interpreted, tag-switch cases as
// `tag == case`, temporaries `e := encoding` resolved, and pure single-return
// predicates (`isGzip(encoding)`, local closures) seen through. A condition
// the valuation does not decide is followed on both branches (fail-closed).
func c32GzipCases(p *core.Prog, r *core.Report, f *core.Func, g *core.Graph, enc types.Object, gzN *core.Node, rule string) {
	info := f.Info()
	if !r.Check(len(core.AssignsTo8(info, f.Decl.Body, enc)) == 0, rule, f.String(), "encoding-reassigned", f.Pos(), "the encoding parameter is not reassigned before the dispatch") {
		return
	}
	leafFor := func(val string) core.Leaf10 {
		mk := func(env core.EnvHD2) core.LeafEval {
			isEnc := func(e ast.Expr) bool {
				o := env.Obj(e)
				if o == enc {
					return true
				}
				if env.Info == info && o != nil {
					if rhs, _, ok := core.SoleDefHD2(info, f.Decl.Body, o); ok {
						return core.ObjOf(info, rhs) == enc
					}
				}
				return false
			}
			return core.LeafEval(core.ConstEqLeaf10(env.Info, isEnc, constant.MakeString(val)))
		}
		return core.Leaf10(p.LeafThroughPredicatesHD2(core.BaseEnvHD2(info, f.Decl.Body), mk))
	}
	stopGz := func(x *core.Node) bool { return x == gzN }
	decoded := true
	for _, s := range []string{"gzip", "x-gzip"} {
		reach := g.ReachUnder10([]*core.Node{g.Entry}, stopGz, leafFor(s))
		if !reach[gzN] {
			decoded = false
		}
		bad := false
		for _, x := range g.SuccessExits() {
			if reach[x] {
				bad = true
			}
		}
		r.Check(!bad, rule, f.String(), "case-skips-gzip:"+s, g.Line(gzN), "Content-Encoding "+s+" always passes gzip.NewReader before a successful return")
	}
	r.Check(decoded, rule, f.String(), "encodings", f.Pos(), "both gzip and x-gzip are decoded")
	only := true
	for _, s := range []string{"", "identity", "deflate", "\x00verif-other"} {
		if g.ReachUnder10([]*core.Node{g.Entry}, nil, leafFor(s))[gzN] {
			only = false
		}
	}
	r.Check(only, rule, f.String(), "gzip.NewReader", g.Line(gzN), "gzip.NewReader is only reachable where encoding is gzip/x-gzip")
}

// c32WriteErrorForwarded looks at the *errors.Error handed to HandleHTTPError
// in f, wherever it is built: in place, in a single-definition temporary, or by
// a helper of the module (every return operand of the helper is a candidate,
// with the helper's parameters bound to the call's arguments).
//
//	partial: some response has Code EUnprocessableEntity, carries the asserted
//	         tsdb.PartialWriteError (or the write error itself) as Err, and is
//	         built only where the type assertion / type-switch arm to
//	         tsdb.PartialWriteError holds (in f or in the helper);
//	generic: some response carries the WritePoints error as Err.
func c32WriteErrorForwarded(p *core.Prog, f *core.Func, g *core.Graph, handle core.Matcher, pwe types.Type, werr types.Object) (partial, generic bool) {
	unproc, _ := errCodeConst8(p, "EUnprocessableEntity")
	// per function: the variables holding the asserted PartialWriteError, the
	// `ok` edges of the assertions and the type-switch arms for that type
	type pweFacts struct {
		vars map[types.Object]bool
		edge core.EdgePred
		arms []ast.Node
	}
	memo := map[*core.Func]*pweFacts{}
	facts := func(fn *core.Func) *pweFacts {
		if v, ok := memo[fn]; ok {
			return v
		}
		fi := fn.Info()
		pf := &pweFacts{vars: map[types.Object]bool{}}
		oks := map[types.Object]bool{}
		ast.Inspect(fn.Decl.Body, func(n ast.Node) bool {
			switch s := n.(type) {
			case *ast.AssignStmt:
				if len(s.Lhs) == 2 && len(s.Rhs) == 1 {
					if ta, ok := ast.Unparen(s.Rhs[0]).(*ast.TypeAssertExpr); ok && ta.Type != nil && types.Identical(fi.TypeOf(ta.Type), pwe) {
						if o := core.ObjOf(fi, s.Lhs[0]); o != nil {
							pf.vars[o] = true
						}
						if o := core.ObjOf(fi, s.Lhs[1]); o != nil {
							oks[o] = true
						}
					}
				}
			case *ast.TypeSwitchStmt:
				for _, st := range s.Body.List {
					cc, ok := st.(*ast.CaseClause)
					if !ok || len(cc.List) != 1 || !types.Identical(fi.TypeOf(cc.List[0]), pwe) {
						continue
					}
					pf.arms = append(pf.arms, cc)
					if o := fi.Implicits[cc]; o != nil {
						pf.vars[o] = true
					}
				}
			}
			return true
		})
		pf.edge = core.FactEdge8(func(x ast.Expr, v bool) bool {
			o := core.ObjOf(fi, x)
			if o == nil || !v || !oks[o] {
				return false
			}
			// ok is written only by that assertion
			for _, a := range core.AssignsTo8(fi, fn.Decl.Body, o) {
				ta, isTA := a.Rhs.(*ast.TypeAssertExpr)
				if !isTA || a.Index != 1 || ta.Type == nil || !types.Identical(fi.TypeOf(ta.Type), pwe) {
					return false
				}
			}
			return true
		})
		memo[fn] = pf
		return pf
	}
	gated := func(fn *core.Func, fg *core.Graph, n *core.Node) bool {
		pf := facts(fn)
		for _, arm := range pf.arms {
			if core.InRegion(n, arm) {
				return true
			}
		}
		return fg.HasEdge8(pf.edge) && len(fg.Bypassing8([]*core.Node{n}, pf.edge)) == 0
	}
	for _, n := range g.Select(g.Calling(handle)) {
		for _, c := range core.CallsIn(g.Info, n.N, handle, core.WalkOpts{}) {
			if len(c.Args) != 3 {
				continue
			}
			for _, s := range p.ValueSitesHD2(f, g, n, c.Args[1]) {
				code, inner, ok := errorLitFields8(p, s.Env.Info, s.Expr)
				if !ok || inner == nil {
					continue
				}
				local := core.ObjOf(s.Env.Info, inner) // object in the function holding the literal
				carried := s.Env.Obj(inner)            // seen from handleWrite
				if werr != nil && carried == werr {
					generic = true
				}
				if unproc == nil || code == nil || selObj8(s.Env.Info, code) != unproc {
					continue
				}
				if !((local != nil && facts(s.Fn).vars[local]) || (werr != nil && carried == werr)) {
					continue
				}
				if gated(s.Fn, s.G, s.Node) || (s.Fn != f && gated(f, g, s.Outer)) {
					partial = true
				}
			}
		}
	}
	return partial, generic
}
