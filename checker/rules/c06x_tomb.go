package rules

import (
	"fmt"
	"go/ast"
	"go/types"

	"verif/checker/core"
)

// tombstones-of-the-same-file. Tombstones are per TSM file. When KeyCursor.Read*
// merges the overlapping blocks of several files, the values decoded from a
// block must be filtered with the tombstones of THAT block's file: filtering
// them with another file's tombstones drops live points rewritten after a
// delete (older file's tombstone applied to the newer file) or resurrects
// deleted ones. Structural necessary condition, for every call of
// excludeTombstones<T>(ts, v) in the ten Read*Block methods: ts is defined by
// `L.r.TombstoneRange(…)` and v was last decoded by `L'.r.Read<T>BlockAt(&L'.entry, …)`
// with L and L' the same location variable.
func init() {
	extend("C06", "tombstones-of-the-same-file: in the ten KeyCursor.Read<T>Block / Read<T>ArrayBlock methods every excludeTombstones<T>(ts, v) filters v with the tombstone ranges of the same location (file) whose block was decoded into v — ts comes from L.r.TombstoneRange and v from L.r.Read<T>BlockAt for one and the same L.",
		nil, func(p *core.Prog, r *core.Report, tier string) {
			const rule = "tombstones-of-the-same-file"
			excl := call("tsdb/engine/tsm1.excludeTombstones*")
			trange := call("tsdb/engine/tsm1.TSMFile.TombstoneRange", "tsdb/engine/tsm1.*.TombstoneRange")
			readAt := call("tsdb/engine/tsm1.TSMFile.Read*BlockAt", "tsdb/engine/tsm1.*.Read*BlockAt")
			nSites, nFuncs := 0, 0
			for _, f := range p.Funcs(tsm1) {
				if f.Decl == nil || f.Decl.Body == nil || f.Decl.Recv == nil {
					continue
				}
				info := f.Info()
				calls := core.AllCalls(info, f.Decl.Body, excl)
				if len(calls) == 0 || len(core.AllCalls(info, f.Decl.Body, readAt)) == 0 {
					continue
				}
				nFuncs++
				r.Saw(f)
				// root location variable of `L.r.M(…)`
				locOf := func(c *ast.CallExpr) types.Object {
					sel, ok := ast.Unparen(c.Fun).(*ast.SelectorExpr)
					if !ok {
						return nil
					}
					inner, ok := ast.Unparen(sel.X).(*ast.SelectorExpr) // L.r
					if !ok {
						return nil
					}
					return core.ObjOf(info, ast.Unparen(inner.X))
				}
				// assignments in source order: object -> list of (pos, rhs call)
				type def struct {
					pos ast.Node
					c   *ast.CallExpr
				}
				defs := map[types.Object][]def{}
				ast.Inspect(f.Decl.Body, func(n ast.Node) bool {
					as, ok := n.(*ast.AssignStmt)
					if !ok || len(as.Rhs) != 1 {
						return true
					}
					c, _ := ast.Unparen(as.Rhs[0]).(*ast.CallExpr)
					if o := core.ObjOf(info, as.Lhs[0]); o != nil {
						defs[o] = append(defs[o], def{as, c})
					}
					return true
				})
				lastBefore := func(o types.Object, at ast.Node, want core.Matcher) *ast.CallExpr {
					var best *ast.CallExpr
					for _, d := range defs[o] {
						if d.pos.End() <= at.Pos() && d.c != nil && want(info, d.c) {
							best = d.c
						}
					}
					return best
				}
				for _, c := range calls {
					if len(c.Args) != 2 {
						continue
					}
					nSites++
					ts := core.ObjOf(info, ast.Unparen(c.Args[0]))
					v := core.ObjOf(info, ast.Unparen(c.Args[1]))
					var tl, vl types.Object
					if ts != nil {
						if tc := lastBefore(ts, c, trange); tc != nil {
							tl = locOf(tc)
						}
					}
					if v != nil {
						if vc := lastBefore(v, c, readAt); vc != nil {
							vl = locOf(vc)
						}
						// array form: the destination is handed to the decoder as an argument
						for _, rc := range core.AllCalls(info, f.Decl.Body, readAt) {
							if rc.End() > c.Pos() {
								continue
							}
							for _, a := range rc.Args {
								if core.ObjOf(info, ast.Unparen(a)) == v {
									vl = locOf(rc) // AllCalls is in source order: the last one before c wins
								}
							}
						}
					}
					if !r.Check(tl != nil && vl != nil, rule, f.String(), "provenance-unresolved", p.Pos(c.Pos()), "the tombstone ranges come from L.r.TombstoneRange and the values from L.r.Read<T>BlockAt") {
						continue
					}
					r.Check(tl == vl, rule, f.String(), "other-files-tombstones", p.Pos(c.Pos()),
						fmt.Sprintf("values decoded from %s are filtered with the tombstones of %s", vl.Name(), tl.Name()))
				}
			}
			r.Check(nFuncs >= 10 && nSites >= 30, rule, tsm1, "sites:count", "-", fmt.Sprintf("%d excludeTombstones sites in %d Read*Block methods (>= 30 in >= 10 confirmed by reading)", nSites, nFuncs))
		})
}
